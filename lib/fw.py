"""fw.py — the check framework: builds the implementation drivers from /repo's working
tree, re-checks the Coq property file, runs model and implementation on one script,
diffs them, applies the property's direct oracle, classifies against known_findings.json,
writes evidence/<id>.json, prints VIOLATION / KNOWN-FINDING lines."""
import concurrent.futures, glob, hashlib, json, os, random, re, shutil, subprocess, sys, time

VERIF = os.path.dirname(os.path.dirname(os.path.abspath(__file__)))
REPO = os.environ.get("VERIF_REPO", "/repo")
BUILD = os.path.join(VERIF, "build")
COQ = os.path.join(VERIF, "coq")
LIB_SOURCES = ["arraylist", "debug", "json_c_version", "json_object", "json_object_iterator",
               "json_patch", "json_pointer", "json_tokener", "json_util", "json_visit",
               "linkhash", "printbuf", "random_seed", "strerror_override"]
GUARD = "JSON_C_VERIF"
ALLOC_RENAMES = ["-Dmalloc=xmalloc", "-Dcalloc=xcalloc", "-Drealloc=xrealloc",
                 "-Dstrdup=xstrdup", "-Dfree=xfree"]
VARIANTS = {
    # default: ASan+UBSan, allocator renamed to the controllable one
    "asan": dict(cc="gcc", flags=["-O1", "-g", "-fsanitize=address,undefined", "-fsanitize=float-cast-overflow",
                                  "-fno-sanitize-recover=all", "-fno-omit-frame-pointer"], lib_defs=ALLOC_RENAMES, xalloc=True),
    "tsan": dict(cc="gcc", flags=["-O1", "-g", "-fsanitize=thread", "-DENABLE_THREADING", "-DNDEBUG",
                                  "-pthread"], lib_defs=[], xalloc=False),
    "plain": dict(cc="gcc", flags=["-O1", "-g"], lib_defs=ALLOC_RENAMES, xalloc=True),
    # line-coverage build (tools/coverage.py): how much of the anchor files the generated inputs reach
    "cov": dict(cc="gcc", flags=["-O0", "-g", "--coverage"], lib_defs=ALLOC_RENAMES, xalloc=True),
}


def sh(cmd, **kw):
    return subprocess.run(cmd, stdout=subprocess.PIPE, stderr=subprocess.STDOUT, text=True, **kw)


def sha(paths, extra=""):
    h = hashlib.sha256(extra.encode())
    for p in sorted(paths):
        h.update(p.encode())
        try:
            with open(p, "rb") as f:
                h.update(f.read())
        except OSError:
            h.update(b"<missing>")
    return h.hexdigest()[:16]


class Infra(Exception):
    pass


# ------------------------------------------------------------------ config headers
def ensure_cfg():
    ins = glob.glob(REPO + "/CMakeLists.txt") + glob.glob(REPO + "/cmake/*") + glob.glob(REPO + "/*.in") \
        + glob.glob(REPO + "/*.cmakein") + glob.glob(REPO + "/apps/CMakeLists.txt") + glob.glob(REPO + "/tests/CMakeLists.txt")
    key = sha(ins)
    d = os.path.join(BUILD, "cfg-" + key)
    if os.path.exists(os.path.join(d, "config.h")) and os.path.exists(os.path.join(d, "json_config.h")) \
            and os.path.exists(os.path.join(d, "json.h")):
        return d
    os.makedirs(BUILD, exist_ok=True)
    tmp = d + ".tmp"
    shutil.rmtree(tmp, ignore_errors=True)
    r = sh(["cmake", "-S", REPO, "-B", tmp, "-DCMAKE_BUILD_TYPE=Debug", "-DBUILD_TESTING=OFF"])
    if r.returncode != 0 or not os.path.exists(os.path.join(tmp, "config.h")):
        raise Infra("cmake configure failed:\n" + r.stdout[-2000:])
    os.makedirs(d, exist_ok=True)
    for f in ("config.h", "json_config.h", "json.h", "apps_config.h"):
        if os.path.exists(os.path.join(tmp, f)):
            shutil.copy(os.path.join(tmp, f), d)
    shutil.rmtree(tmp, ignore_errors=True)
    for old in sorted(glob.glob(os.path.join(BUILD, "cfg-*")), key=os.path.getmtime)[:-6]:
        shutil.rmtree(old, ignore_errors=True)
    return d


# ------------------------------------------------------------------ implementation build
def repo_sources():
    return glob.glob(REPO + "/*.c") + glob.glob(REPO + "/*.h")


class _Lock:
    def __init__(self, name):
        os.makedirs(BUILD, exist_ok=True)
        self.path = os.path.join(BUILD, name + ".lock")

    def __enter__(self):
        import fcntl
        self.f = open(self.path, "w")
        fcntl.flock(self.f, fcntl.LOCK_EX)

    def __exit__(self, *a):
        self.f.close()


def build_lib(variant, extra_defs=()):
    with _Lock("lib"):
        return _build_lib(variant, extra_defs)


def build_driver(dom, variant="asan", extra_defs=()):
    libd, cfg = build_lib(variant, extra_defs)
    with _Lock("drv-" + dom):
        return _build_driver(libd, cfg, dom, variant, extra_defs)


def _build_lib(variant, extra_defs=()):
    """compile the library objects of /repo's working tree; returns (dir, cfgdir)"""
    with _Lock("cfg"):
        cfg = ensure_cfg()
    v = VARIANTS[variant]
    key = sha(repo_sources() + [os.path.join(VERIF, "harness/xalloc.c")], extra=variant + cfg + " ".join(v["flags"]) + " ".join(extra_defs))
    d = os.path.join(BUILD, "lib-%s-%s" % (variant, key))
    stamp = os.path.join(d, "ok")
    if os.path.exists(stamp):
        os.utime(d)
        return d, cfg
    shutil.rmtree(d, ignore_errors=True)
    os.makedirs(d)
    base = [v["cc"]] + v["flags"] + ["-D_GNU_SOURCE", "-D" + GUARD, "-w", "-I", cfg, "-I", REPO] + list(extra_defs)

    def one(name):
        src = os.path.join(REPO, name + ".c")
        return name, sh(base + v["lib_defs"] + ["-c", src, "-o", os.path.join(d, name + ".o")])
    with concurrent.futures.ThreadPoolExecutor(16) as ex:
        res = list(ex.map(one, LIB_SOURCES))
    bad = [(n, r.stdout) for n, r in res if r.returncode != 0]
    if bad:
        raise Infra("library does not compile: %s\n%s" % (bad[0][0], bad[0][1][-3000:]))
    if v["xalloc"]:
        r = sh([v["cc"]] + v["flags"] + ["-w", "-c", os.path.join(VERIF, "harness/xalloc.c"), "-o", os.path.join(d, "xalloc.o")])
        if r.returncode != 0:
            raise Infra("xalloc: " + r.stdout)
    open(stamp, "w").close()
    # keep the newest library builds; never delete one touched in the last hour (another
    # check may be running from it)
    now = time.time()
    for old in sorted(glob.glob(os.path.join(BUILD, "lib-*")), key=os.path.getmtime)[:-6]:
        if now - os.path.getmtime(old) > 3600:
            shutil.rmtree(old, ignore_errors=True)
    return d, cfg


def _build_driver(libd, cfg, dom, variant="asan", extra_defs=()):
    """compile harness/drv_<dom>.c against the library objects; returns the executable"""
    v = VARIANTS[variant]
    src = os.path.join(VERIF, "harness", "drv_%s.c" % dom)
    text = open(src).read()
    excl = re.findall(r"^// EXCLUDE: (\S+)", text, re.M)
    extra_src = [os.path.join(VERIF, "harness", x) for x in re.findall(r"^// WITH: (\S+)", text, re.M)]
    hs = glob.glob(os.path.join(VERIF, "harness", "*.h")) + [src, os.path.join(VERIF, "harness/common_main.c")] + extra_src
    key = sha(hs, extra=libd)
    exe = os.path.join(libd, "jc_%s_%s" % (dom, key))
    if os.path.exists(exe):
        return exe
    objs = [os.path.join(libd, n + ".o") for n in LIB_SOURCES if n + ".c" not in excl]
    if v["xalloc"]:
        objs.append(os.path.join(libd, "xalloc.o"))
    drvdefs = v["lib_defs"] if "// RENAME-ALLOC" in text else []
    cmd = [v["cc"]] + v["flags"] + ["-D_GNU_SOURCE", "-D" + GUARD, "-w", "-I", cfg, "-I", REPO, "-I",
                                    os.path.join(VERIF, "harness")] + list(extra_defs) + drvdefs + \
        [src] + extra_src + [os.path.join(VERIF, "harness/common_main.c")] + objs + ["-lm", "-o", exe + ".tmp"]
    r = sh(cmd)
    if r.returncode != 0:
        raise Infra("driver %s does not build against the working tree:\n%s" % (dom, r.stdout[-3000:]))
    os.replace(exe + ".tmp", exe)
    return exe


# ------------------------------------------------------------------ model side
def ensure_models(dom):
    return _ensure_models(dom)


def _ensure_models(dom):
    """make the extracted model driver of one domain (no-op when up to date); serialised per
    domain: several checks of one domain may run at the same time"""
    with _Lock("mdrv-" + dom):
        r = sh(["make", "-s", "-C", VERIF, "ocaml/mdrv_" + dom], timeout=7200)
    if r.returncode != 0:
        raise Infra("model build failed:\n" + r.stdout[-3000:])
    return os.path.join(VERIF, "ocaml", "mdrv_" + dom)


def coq_check(prop, extra_files=()):
    """re-check Properties_<prop>.v (and regenerated files); returns dict with theorem
    names, assumptions text, ok flag, log"""
    files = list(extra_files) + ["theories/Properties_%s.v" % prop]
    out = []
    ok = True
    t0 = time.time()
    # dependencies (.vo of the model and proof files) through the generated Makefile
    r = sh(["make", "-s", "-C", VERIF, "coq/theories/Properties_%s.vo" % prop], timeout=7200)
    if r.returncode != 0:
        out.append(r.stdout)
    for f in files:
        r = sh(["timeout", "1200", "coqc", "-Q", "theories", "JC", "-w",
                "-notation-overridden,-deprecated-hint-without-locality", f], cwd=COQ)
        out.append(r.stdout)
        if r.returncode != 0:
            ok = False
            break
    text = "\n".join(out)
    src = open(os.path.join(COQ, "theories/Properties_%s.v" % prop)).read()
    thms = re.findall(r"^(?:Theorem|Corollary)\s+(\w+)", src, re.M)
    bad = re.findall(r"\b(Admitted|admit|Axiom|Parameter|Conjecture)\b", re.sub(r"\(\*.*?\*\)", "", src, flags=re.S))
    if bad:
        ok = False
        text += "\nforbidden keyword in property file: %s" % bad
    closed = text.count("Closed under the global context")
    axioms = sorted(set(re.findall(r"^([A-Za-z_][\w.]*)\s*:", text, re.M))) if "Axioms:" in text else []
    return dict(ok=ok, theorems=thms, n=len(thms), closed=closed, axioms=axioms, log=text, wall=time.time() - t0)


# ------------------------------------------------------------------ running scripts
def run_script(exe, script, timeout=3600, env=None):
    """run a driver on a script; returns ({lineno: obs}, stderr_tail, returncode)"""
    e = dict(os.environ)
    e.setdefault("ASAN_OPTIONS", "detect_leaks=0:abort_on_error=0:allocator_may_return_null=1:max_allocation_size_mb=3000")
    e.setdefault("UBSAN_OPTIONS", "print_stacktrace=1:halt_on_error=1")
    if env:
        e.update(env)
    p = subprocess.run([exe, script], stdout=subprocess.PIPE, stderr=subprocess.PIPE, timeout=timeout, env=e)
    res = {}
    for line in p.stdout.decode("latin-1").split("\n"):
        if not line:
            continue
        i = line.find(" ")
        if i < 0:
            k, v = line, ""
        else:
            k, v = line[:i], line[i + 1:]
        try:
            res[int(k)] = v
        except ValueError:
            pass
    return res, p.stderr.decode("latin-1")[-4000:], p.returncode


def run_impl_resilient(exe, lines, workdir, tag, env=None, chunk=None):
    """run the implementation driver over all lines; a crash (sanitizer abort) on one line
    is recorded as CRASH for that line and the run continues after it."""
    obs = {}
    crashes = {}
    start = 0
    n = len(lines)
    attempt = 0
    while start < n:
        path = os.path.join(workdir, "%s.%d.script" % (tag, attempt))
        with open(path, "w") as f:
            f.write("\n".join(lines[start:]) + "\n")
        res, err, rc = run_script(exe, path, env=env)
        for k, v in res.items():
            obs[start + k] = v
        attempt += 1
        if rc == 0:
            break
        # the last line with (possibly partial) output is the crashing one
        last = max(res.keys()) if res else 1
        idx = start + last
        # if the last printed line is complete and rc != 0 the crash happened at exit; blame it anyway
        obs[idx] = "CRASH " + classify_crash(err)
        crashes[idx] = err
        start = idx  # lines are 1-based: next slice starts after idx
        if attempt > 30:
            break
    return obs, crashes


def classify_crash(err):
    m = re.search(r"ERROR: AddressSanitizer: ([\w-]+)", err)
    if m:
        return "asan:" + m.group(1)
    m = re.search(r"runtime error: ([^\n]*)", err)
    if m:
        return "ubsan:" + re.sub(r"[^a-zA-Z ]", "", m.group(1))[:40].strip().replace(" ", "_")
    if "LeakSanitizer" in err:
        return "lsan:leak"
    if "ThreadSanitizer" in err:
        return "tsan:race"
    return "signal"


def obs_match(model, impl):
    """token-wise comparison; '?' in the model is a wildcard; '??' inside a hex token
    matches any byte"""
    if model == impl:
        return True
    a, b = model.split(" "), impl.split(" ")
    if len(a) != len(b):
        return False
    for x, y in zip(a, b):
        if x == y or x == "?":
            continue
        if "??" in x and len(x) == len(y):
            if all(x[i:i + 2] == "??" or x[i:i + 2] == y[i:i + 2] for i in range(0, len(x), 2)):
                continue
        return False
    return True


# ------------------------------------------------------------------ findings
def load_known():
    p = os.path.join(VERIF, "known_findings.json")
    if not os.path.exists(p):
        return []
    return json.load(open(p))["findings"]


def known_ids(prop):
    return {f["id"]: f for f in load_known() if f["property"] == prop and f["status"] == "known"}


# ------------------------------------------------------------------ shrinking
def ddmin(items, fails, budget=200):
    """classic delta debugging on a list; `fails(list)` -> bool"""
    n = 2
    calls = 0
    while len(items) >= 2 and calls < budget:
        chunk = max(1, len(items) // n)
        subsets = [items[i:i + chunk] for i in range(0, len(items), chunk)]
        reduced = False
        for i in range(len(subsets)):
            comp = [x for j, s in enumerate(subsets) if j != i for x in s]
            calls += 1
            if comp and fails(comp):
                items = comp
                n = max(n - 1, 2)
                reduced = True
                break
        if not reduced:
            if n >= len(items):
                break
            n = min(len(items), n * 2)
    return items


# ------------------------------------------------------------------ the check driver
class Check:
    """One property check.  A plugin module provides:
        PROP, DOMAIN (driver name), VARIANT (optional), LEVEL, TECHNIQUE
        gen(rng, tier) -> list of (script_line, meta)            generated cases
        oracle(line, meta, impl_obs) -> None | (class_id, message)  direct property oracle on
                                                                    the implementation alone
        classify(line, meta, model_obs, impl_obs) -> class_id | None  (for disagreements)
        nontrivial(line, meta, impl_obs) -> hashable | None
        shrink(line, still_fails) -> smaller line               (optional)
        search(ctx) -> list of (line, meta)                     (optional, thorough search when
                                                                 only proof/correspondence broke)
        RULE, TRUSTED, ASSUMPTIONS
    """

    def __init__(self, plugin, tier, seed):
        self.pl = plugin
        self.tier = tier
        self.seed = seed
        self.prop = plugin.PROP
        self.t0 = time.time()
        self.work = os.path.join(BUILD, "work-%s-%d" % (self.prop, os.getpid()))
        os.makedirs(self.work, exist_ok=True)
        self.violations = []   # (class_id, message, replay_path)
        self.known_hits = {}
        self.notes = []

    def finish(self, coverage, exit_code):
        ev = dict(property_id=self.prop, tier=self.tier, seed=self.seed, level=getattr(self.pl, "LEVEL", "proof"),
                  coverage=coverage, assumptions=getattr(self.pl, "ASSUMPTIONS", []),
                  wall_s=round(time.time() - self.t0, 2), violations=len(self.violations))
        # evidence/<id>.json always describes a run against /repo itself; a run pointed at another copy
        # of json-c (VERIF_REPO: seeded-change experiments) writes beside it, into build/evidence-alt
        edir = os.path.join(VERIF, "evidence") if os.path.realpath(REPO) == "/repo" else os.path.join(VERIF, "build", "evidence-alt")
        os.makedirs(edir, exist_ok=True)
        with open(os.path.join(edir, self.prop + ".json"), "w") as f:
            json.dump(ev, f, indent=1, sort_keys=True)
        shutil.rmtree(self.work, ignore_errors=True)
        return exit_code

    def write_replay(self, name, text):
        d = os.path.join(VERIF, "findings", "new")
        os.makedirs(d, exist_ok=True)
        p = os.path.join(d, "%s-%s.replay" % (self.prop, name))
        with open(p, "w") as f:
            f.write(text if text.endswith("\n") else text + "\n")
        return p

    def run_pair(self, lines, tag, env=None):
        """run model and implementation on the lines; returns (model_obs, impl_obs, crashes)"""
        if not hasattr(self, "_exes"):
            self._exes = (ensure_models(getattr(self.pl, "MODEL_DOMAIN", self.pl.DOMAIN)), build_driver(self.pl.DOMAIN, getattr(self.pl, "VARIANT", "asan")))
        mdrv, exe = self._exes
        path = os.path.join(self.work, tag + ".script")
        with open(path, "w") as f:
            f.write("\n".join(lines) + "\n")
        m, merr, mrc = run_script(mdrv, path, env={"OCAMLRUNPARAM": "l=1G"})
        if mrc != 0:
            raise Infra("model driver failed: " + merr)
        c, crashes = run_impl_resilient(exe, lines, self.work, tag, env=env)
        return m, c, crashes

    def main(self):
        pl = self.pl
        prop = self.prop
        known = known_ids(prop)
        rng = random.Random(self.seed)
        # 1. proofs
        coq = coq_check(prop, getattr(pl, "coq_extra", lambda: [])())
        proof_broken = not coq["ok"]
        # 2. cases: corpus first, then generated
        cases = []
        cdir = os.path.join(VERIF, "corpus", prop)
        for fpath in sorted(glob.glob(os.path.join(cdir, "*.script"))):
            for l in open(fpath).read().split("\n"):
                if l and not l.startswith("#"):
                    cases.append((l, {"src": "corpus:" + os.path.basename(fpath)}))
        ncorpus = len(cases)
        cases += pl.gen(rng, self.tier)
        lines = [c[0] for c in cases]
        m, c, crashes = self.run_pair(lines, "main")
        # 3. compare + oracle
        disagreements = []
        self.oracle_lines = set()
        nontriv = set()
        dist = {}
        for i, (line, meta) in enumerate(cases, start=1):
            mo, co = m.get(i, "MISSING"), c.get(i, "MISSING")
            k = meta.get("kind", "?")
            dist[k] = dist.get(k, 0) + 1
            nt = pl.nontrivial(line, meta, co)
            if nt is not None:
                nontriv.add(nt)
            v = pl.oracle(line, meta, co)
            if v is not None:
                self.oracle_lines.add(line)
                self.report(v[0], v[1], line, known, model=mo, impl=co, direct=True)
            if not obs_match(mo, co):
                tol = getattr(pl, "tolerate", None)
                if tol is not None and tol(line, meta, mo, co):
                    # the plugin declares this observation unusable (e.g. the case ran out of its time budget on a
                    # loaded machine): neither an agreement nor a disagreement; counted in the evidence notes
                    self.notes.append("not judged: %s -> %s" % (line[:80], co[:60]))
                    continue
                cls = pl.classify(line, meta, mo, co)
                disagreements.append((i, line, mo, co, cls))
        # 4. disagreements: a disagreement alone is a broken correspondence
        unexplained = []
        for (i, line, mo, co, cls) in disagreements:
            if cls is not None and cls in known:
                self.known_hits.setdefault(cls, line)
                continue
            if any(v[3] == line for v in self.violations) or line in self.oracle_lines:
                continue   # already reported through the direct oracle
            unexplained.append((i, line, mo, co, cls))
        if unexplained or proof_broken:
            self.resolve_broken(unexplained, proof_broken, coq, known)
        # 5. output
        for cls, line in sorted(self.known_hits.items()):
            print("KNOWN-FINDING: property=%s %s (%s) e.g. %s" % (prop, cls, known[cls]["what"], line[:120]))
        # known findings listed must be announced even when this run's sample did not hit them
        for cls, f in sorted(known.items()):
            if cls not in self.known_hits:
                hit = self.replay_known(f)
                if hit:
                    print("KNOWN-FINDING: property=%s %s (%s)" % (prop, cls, f["what"]))
        seen = set()
        for (cls, msg, path, line) in self.violations:
            if path in seen:
                continue
            seen.add(path)
            print("VIOLATION property=%s replay=%s%s" % (prop, path, " no-failing-input-found" if cls == "NOINPUT" else ""))
            print("  " + msg[:300])
        samples = [dict(script=l, impl=c.get(i + 1, "")[:200]) for i, (l, _) in list(enumerate(cases))[ncorpus:ncorpus + 3]]
        cov = dict(obligations=coq["n"], discharged=coq["n"] if coq["ok"] else 0,
                   checker_cmd="cd coq && coqc -Q theories JC theories/Properties_%s.v (after make; Print Assumptions under every theorem)" % prop,
                   trusted_base=getattr(pl, "TRUSTED", []),
                   theorems=coq["theorems"], print_assumptions="all closed under the global context" if coq["closed"] >= 1 and not coq["axioms"] else "axioms: %s" % coq["axioms"],
                   closed_count=coq["closed"],
                   evaluations=len(cases), distinct_nontrivial=len(nontriv), rule=getattr(pl, "RULE", ""),
                   samples=samples, input_distribution=dist, corpus_cases=ncorpus,
                   disagreements_checked=len(disagreements),
                   known_findings_hit=sorted(self.known_hits.keys()),
                   crashes=len(crashes), notes=self.notes, coq_wall_s=round(coq["wall"], 1))
        extra = getattr(pl, "extra_coverage", None)
        if extra:
            cov.update(extra())
        return self.finish(cov, 1 if self.violations else 0)

    def replay_known(self, f):
        """re-run the recorded witness of a known finding; True when it still fails"""
        line = f.get("witness_script")
        if not line:
            return True
        try:
            m, c, _ = self.run_pair([line], "known-" + f["id"])
        except Infra:
            return True
        v = self.pl.oracle(line, {"src": "known"}, c.get(1, "MISSING"))
        if v is not None:
            return True
        return not obs_match(m.get(1, "MISSING"), c.get(1, "MISSING"))

    def report(self, cls, msg, line, known, model="", impl="", direct=False):
        if cls in known:
            self.known_hits.setdefault(cls, line)
            return
        if any(v[0] == cls for v in self.violations):
            self.more = getattr(self, "more", 0) + 1      # one replay per failure class
            return
        # shrink
        shr = getattr(self.pl, "shrink", None)
        small = line
        if shr:
            try:
                small = shr(self, line, cls)
            except Exception as e:  # shrinking is best effort
                self.notes.append("shrink failed: %r" % e)
        name = hashlib.sha1(small.encode()).hexdigest()[:10]
        text = "# property %s violated (%s)\n# %s\n# model: %s\n# impl:  %s\n%s\n" % (self.prop, cls, msg, model[:400], impl[:400], small)
        path = self.write_replay(name, text)
        self.violations.append((cls, msg, path, line))

    def resolve_broken(self, unexplained, proof_broken, coq, known):
        """proof or correspondence broke: search for a concrete property failure"""
        pl = self.pl
        found = False
        search = getattr(pl, "search", None)
        if search:
            rng = random.Random(self.seed + 1)
            extra = search(rng, [u[1] for u in unexplained])
            if extra:
                lines = [e[0] for e in extra]
                m, c, _ = self.run_pair(lines, "search")
                for i, (line, meta) in enumerate(extra, start=1):
                    v = pl.oracle(line, meta, c.get(i, "MISSING"))
                    if v is not None and v[0] not in known:
                        self.report(v[0], v[1], line, known, model=m.get(i, ""), impl=c.get(i, ""), direct=True)
                        found = True
                        break
        if any(True for v in self.violations):
            found = True
        if not found:
            what = []
            if proof_broken:
                what.append("theorem file Properties_%s.v no longer checks:\n%s" % (self.prop, coq["log"][-1500:]))
            for (i, line, mo, co, cls) in unexplained[:5]:
                what.append("correspondence %s broken on script line:\n%s\n# model: %s\n# impl:  %s" % (pl.DOMAIN, line, mo[:600], co[:600]))
            text = "# property %s: no failing input found; what no longer checks:\n# %s\n" % (
                self.prop, "\n# ".join("\n".join(what).split("\n")))
            # keep the scripts replayable: put the raw lines last
            text += "\n".join(u[1] for u in unexplained[:5]) + "\n"
            path = self.write_replay("broken", text)
            self.violations.append(("NOINPUT", "proof or correspondence broken: " + (what[0][:200] if what else ""), path, ""))


def main_for(plugin, argv):
    import argparse
    ap = argparse.ArgumentParser()
    ap.add_argument("--tier", default=os.environ.get("VERIF_TIER", "quick"))
    ap.add_argument("--replay")
    a = ap.parse_args(argv)
    seed = int(os.environ.get("VERIF_SEED", "1"))
    ck = Check(plugin, a.tier, seed)
    try:
        if a.replay:
            return replay(ck, a.replay)
        return ck.main()
    except Infra as e:
        print("INFRASTRUCTURE: " + str(e))
        # a tree that no longer builds with the harness is a broken correspondence
        path = ck.write_replay("infra", "# harness could not be built/run against the working tree\n# " + str(e).replace("\n", "\n# "))
        print("VIOLATION property=%s replay=%s no-failing-input-found" % (ck.prop, path))
        ck.violations.append(("NOINPUT", str(e), path, ""))
        cov = dict(obligations=1, discharged=0, checker_cmd="n/a", trusted_base=[], evaluations=1, distinct_nontrivial=0,
                   samples=[str(e)[:200]], explanation="infrastructure failure")
        return ck.finish(cov, 1)


def replay(ck, path):
    lines = [l for l in open(path).read().split("\n") if l and not l.startswith("#")]
    m, c, crashes = ck.run_pair(lines, "replay")
    rc = 0
    for i, l in enumerate(lines, start=1):
        mo, co = m.get(i, "MISSING"), c.get(i, "MISSING")
        v = ck.pl.oracle(l, {"src": "replay"}, co)
        print("case %d: %s" % (i, l[:200]))
        print("  model: %s\n  impl:  %s" % (mo[:400], co[:400]))
        if v is not None:
            print("  ORACLE: %s %s" % v)
            rc = 1
        if not obs_match(mo, co):
            print("  DISAGREE")
            rc = 1
    shutil.rmtree(ck.work, ignore_errors=True)
    return rc
