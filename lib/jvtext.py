"""jvtext.py — the textual tree format shared by the drivers, and a seeded tree generator.
Python trees: None | bool | ('i', int) | ('u', int) | ('d', bits:int, text:bytes|None) |
bytes (string) | list | ('o', [(key:bytes, value), ...])."""
import struct

INT64_MIN, INT64_MAX, UINT64_MAX = -(1 << 63), (1 << 63) - 1, (1 << 64) - 1


def hx(b):
    return b.hex() if b else "-"


def dump(v):
    if v is None:
        return "n"
    if v is True:
        return "t"
    if v is False:
        return "f"
    if isinstance(v, bytes):
        return "s" + hx(v)
    if isinstance(v, list):
        return "[" + ",".join(dump(x) for x in v) + "]"
    if v[0] == "i":
        return "i%d" % v[1]
    if v[0] == "u":
        return "u%d" % v[1]
    if v[0] == "d":
        return "d%016x" % v[1] + ((":" + hx(v[2])) if v[2] is not None else "")
    if v[0] == "o":
        return "{" + ",".join(hx(k) + "=" + dump(x) for k, x in v[1]) + "}"
    raise ValueError(v)


def parse(s, pos=0):
    """returns (tree, newpos)"""
    c = s[pos]
    pos += 1

    def hexordash(pos):
        if s[pos] == "-":
            return b"", pos + 1
        j = pos
        while j < len(s) and s[j] in "0123456789abcdef":
            j += 1
        return bytes.fromhex(s[pos:j]), j
    if c == "n":
        return None, pos
    if c == "t":
        return True, pos
    if c == "f":
        return False, pos
    if c in "iu":
        j = pos
        while j < len(s) and (s[j] == "-" or s[j].isdigit()):
            j += 1
        return (c, int(s[pos:j])), j
    if c == "d":
        bits = int(s[pos:pos + 16], 16)
        pos += 16
        if pos < len(s) and s[pos] == ":":
            t, pos = hexordash(pos + 1)
            return ("d", bits, t), pos
        return ("d", bits, None), pos
    if c == "s":
        return hexordash(pos)
    if c == "[":
        out = []
        if s[pos] == "]":
            return out, pos + 1
        while True:
            v, pos = parse(s, pos)
            out.append(v)
            if s[pos] == ",":
                pos += 1
                continue
            assert s[pos] == "]"
            return out, pos + 1
    if c == "{":
        out = []
        if s[pos] == "}":
            return ("o", out), pos + 1
        while True:
            k, pos = hexordash(pos)
            assert s[pos] == "="
            v, pos = parse(s, pos + 1)
            out.append((k, v))
            if s[pos] == ",":
                pos += 1
                continue
            assert s[pos] == "}"
            return ("o", out), pos + 1
    raise ValueError("jv text: %r at %d" % (c, pos - 1))


def dbits(x):
    return struct.unpack(">Q", struct.pack(">d", x))[0]


def bits2d(b):
    return struct.unpack(">d", struct.pack(">Q", b))[0]


INT_EDGES = [0, 1, -1, 2**31 - 1, 2**31, -2**31, -2**31 - 1, 2**32, 2**53, 2**53 + 1, INT64_MAX, INT64_MAX - 1, INT64_MIN, INT64_MIN + 1]
UINT_EDGES = [0, 1, INT64_MAX, INT64_MAX + 1, UINT64_MAX, UINT64_MAX - 1, 2**63 + 12345]
DBL_EDGES = [0.0, -0.0, 1.0, -1.0, 0.5, 1.5, 0.1, 1e-5, 1e5, 1e15, 1e16, 1e17, 1.5e20, 2.5e-10, 2.0**31, -2.0**31, 2.0**63, -2.0**63, 2.0**64,
             5e-324, 2.2250738585072014e-308, 1.7976931348623157e308, 123456789.125, 3.141592653589793, 1e21, 1e22, 1e100, 1e-100]
KEY_EDGES = [b"", b"a", b"b", b"ab", b"/", b"~", b"~0", b"~1", b"a/b", b"m~n", b"0", b"1", b"01", b"-", b"10", b"\xc3\xa9", b"k" * 40]


def gen_tree(rng, depth=3, size=12, strings=None, keys=None, nan=False, doubles=True, nuls=True, uniq_keys=True):
    """seeded tree; `size` bounds the number of children per container roughly"""
    def string():
        r = rng.random()
        if strings is not None:
            return rng.choice(strings)
        if r < 0.15:
            return b""
        n = rng.choice([1, 2, 3, 5, 8, 20, 31, 32, 33, 64])
        if r < 0.6:
            return bytes(rng.choice(b"abcXYZ 019_-/~") for _ in range(n))
        alphabet = list(range(1 if not nuls else 0, 256))
        return bytes(rng.choice(alphabet) for _ in range(n))

    def key():
        if keys is not None:
            return rng.choice(keys)
        if rng.random() < 0.5:
            return rng.choice(KEY_EDGES)
        return bytes(rng.choice(b"abcdefgh/~01-") for _ in range(rng.randint(0, 6)))

    def val(d):
        r = rng.random()
        if d > 0 and r < 0.18:
            return [val(d - 1) for _ in range(rng.randint(0, size))]
        if d > 0 and r < 0.36:
            ms, seen = [], set()
            for _ in range(rng.randint(0, size)):
                k = key()
                if uniq_keys and k in seen:
                    continue
                seen.add(k)
                ms.append((k, val(d - 1)))
            return ("o", ms)
        if r < 0.42:
            return None
        if r < 0.50:
            return rng.random() < 0.5
        if r < 0.66:
            return ("i", rng.choice(INT_EDGES) if rng.random() < 0.5 else rng.randint(INT64_MIN, INT64_MAX) >> rng.choice([0, 8, 32, 50]))
        if r < 0.72:
            return ("u", rng.choice(UINT_EDGES) if rng.random() < 0.5 else rng.randint(0, UINT64_MAX) >> rng.choice([0, 1, 32]))
        if r < 0.84 and doubles:
            if nan and rng.random() < 0.1:
                return ("d", 0x7ff8000000000000, None)
            if rng.random() < 0.1:
                return ("d", rng.choice([0x7ff0000000000000, 0xfff0000000000000]), None)
            if rng.random() < 0.6:
                x = rng.choice(DBL_EDGES) * rng.choice([1, -1])
                return ("d", dbits(x), None)
            b = rng.getrandbits(64)
            if (b >> 52) & 0x7ff == 0x7ff:
                b &= ~(1 << 62)
            return ("d", b, None)
        return string()
    return val(depth)
