"""jsongen.py — seeded generator of JSON *syntax trees* that record every spelling choice
(whitespace at each grammar position, escape forms, number tokens), their rendering, and
the value the text denotes per RFC 8259 + the property C01 statement (computed here,
independently of the Coq model and of json-c).

A syntax node is a dict:
  {'k':'lit','text':b'null'|b'true'|b'false'}
  {'k':'num','text':b'-12.5e3'}
  {'k':'str','parts':[('raw',bytes)|('esc',b'n')|('u',[units]) ...], 'q': b'"'}
  {'k':'arr','items':[(ws_before, node, ws_after)...], 'ws_empty': bytes}
  {'k':'obj','members':[(ws0, strnode, ws1, ws2, node, ws3)...], 'ws_empty': bytes}
Extensions (C16) are introduced by separate mutators on the rendered text with position bookkeeping.
"""
import struct

INT64_MIN, INT64_MAX, UINT64_MAX = -(1 << 63), (1 << 63) - 1, (1 << 64) - 1
WS = [b"", b"", b"", b" ", b"\n", b"\t", b"\r\n", b"  ", b" \t\n"]


def ws(rng):
    return rng.choice(WS)


def dbits(x):
    return struct.unpack(">Q", struct.pack(">d", x))[0]


# ---------------------------------------------------------------- numbers
def gen_int_token(rng, big=False):
    r = rng.random()
    if big:
        v = rng.choice([UINT64_MAX + 1, UINT64_MAX + rng.randint(1, 10**6), 10**rng.randint(20, 40) + rng.randint(0, 99),
                        INT64_MIN - 1, INT64_MIN - rng.randint(1, 10**6), -(10**rng.randint(20, 40))])
    elif r < 0.25:
        v = rng.choice([0, 1, -1, 9, 10, -10, 2**31 - 1, 2**31, -2**31, -2**31 - 1, 2**32, 2**53, 2**53 + 1])
    elif r < 0.55:
        v = rng.choice([INT64_MAX, INT64_MAX - 1, INT64_MAX + 1, UINT64_MAX, UINT64_MAX - 1, INT64_MIN, INT64_MIN + 1,
                        INT64_MAX + rng.randint(2, 1000), 2**63 + 2**62])
    elif r < 0.85:
        v = rng.randint(-10**rng.randint(1, 19), 10**rng.randint(1, 19))
    else:
        v = rng.randint(INT64_MIN, UINT64_MAX)
    if v == 0 and rng.random() < 0.3:
        return b"-0"
    return str(v).encode()


def hard_decimal(rng):
    """a long plain decimal on or right next to the midpoint of two adjacent doubles (exact expansion of the
    midpoint, then digits that push it just above / just below / leave it a tie), optionally cut to a length at
    which a converter that looks at a prefix only would decide wrongly"""
    import struct
    from fractions import Fraction
    e = rng.choice([0, 0, 1, -1, 3, -4, 10, -10, 30, -30, 51, 52, -60])      # spacing <= 1: the midpoint has a fraction ending in 5
    bits = ((1023 + e) << 52) | rng.getrandbits(52)
    if rng.random() < 0.3:
        bits = ((1023 + e) << 52) | rng.choice([0, 1, (1 << 52) - 1, 1 << 51])
    x = struct.unpack(">d", struct.pack(">Q", bits))[0]
    y = struct.unpack(">d", struct.pack(">Q", bits + 1))[0]
    m = (Fraction(x) + Fraction(y)) / 2
    ip = m.numerator // m.denominator
    fr = m - ip
    digs = []
    while fr != 0 and len(digs) < 1200:
        fr *= 10
        d = fr.numerator // fr.denominator
        digs.append(str(d))
        fr -= d
    frac = "".join(digs) or "0"
    k = rng.random()
    if frac[-1] != "5":
        k = 0.0
    if k < 0.3:
        pass                                    # the tie itself: round half to even
    elif k < 0.6:
        frac = frac + "0" * rng.choice([0, 3, 20]) + rng.choice(["1", "0000001", "5"])       # just above
    elif k < 0.9:
        frac = frac[:-1] + str(int(frac[-1]) - 1) + "9" * rng.choice([1, 7, 30])              # just below (last digit is 5)
    else:
        frac = frac[:rng.choice([17, 40, 47, 48, 60])]                                        # a prefix
    return (str(ip) + "." + frac).encode()


def gen_frac_token(rng):
    """RFC 8259 number with a fraction and/or exponent"""
    sign = rng.choice([b"", b"", b"-"])
    if rng.random() < 0.08:
        return sign + hard_decimal(rng)
    r = rng.random()
    if r < 0.3:
        ip = b"0"
    elif r < 0.4:
        ip = str(rng.choice([1, 9, 10, 17, 123456789, 2**53, 2**63, 2**64, 10**22, 10**23])).encode()
    else:
        ip = str(rng.randint(1, 10**rng.randint(1, 22))).encode()
    form = rng.random()
    frac = b""
    exp = b""
    if form < 0.45 or form >= 0.75:
        nd = rng.choice([1, 1, 2, 3, 5, 15, 16, 17, 18, 25, 40])
        frac = b"." + "".join(rng.choice("0123456789") for _ in range(nd)).encode()
        if rng.random() < 0.15:
            frac = b"." + b"0" * rng.randint(1, 4)
    if form >= 0.45:
        e = rng.choice([0, 1, 2, 5, 10, 15, 20, 22, 23, 100, 300, 307, 308, 309, 310, 323, 324, 325, 400, 999, 5000])
        esign = rng.choice([b"", b"+", b"-"])
        ez = b"0" * rng.choice([0, 0, 0, 1, 3])
        exp = rng.choice([b"e", b"E"]) + esign + ez + str(e).encode()
    return sign + ip + frac + exp


def num_value(text):
    """value of an RFC 8259 number token per the property: integers exact (int64/uint64 node),
    non-integers the correctly rounded double with the token retained.  Returns
    ('i',v) | ('u',v) | ('big',v) | ('d',bits,text)"""
    t = text.decode()
    if all(c in "-0123456789" for c in t):
        v = int(t)
        if INT64_MIN <= v <= INT64_MAX:
            return ("i", v)
        if INT64_MAX < v <= UINT64_MAX:
            return ("u", v)
        return ("big", v)
    try:
        x = float(t)
    except OverflowError:
        x = float("inf")
    return ("d", dbits(x), text)


# ---------------------------------------------------------------- strings
ESC_SIMPLE = {b'"': b'"', b"\\": b"\\", b"/": b"/", b"b": b"\b", b"f": b"\f", b"n": b"\n", b"r": b"\r", b"t": b"\t"}


def hex4(rng, u):
    s = "%04x" % u
    return "".join(c.upper() if rng.random() < 0.5 else c for c in s).encode()


def gen_string(rng, maxparts=8, allow_nul_escape=True, key=False):
    parts = []
    n = rng.choice([0, 1, 1, 2, 3, maxparts])
    for _ in range(n):
        r = rng.random()
        if r < 0.35:
            m = rng.randint(1, 6)
            parts.append(("raw", bytes(rng.choice(b"abcxyzABC 0123456789-_.,:;[]{}!#$%&()*+<=>?@^`|~") for _ in range(m))))
        elif r < 0.45:   # raw UTF-8 of a scalar value
            cp = rng.choice([0x7f, 0x80, 0xe9, 0x7ff, 0x800, 0xffff, 0x10000, 0x1f600, 0x10ffff, rng.randint(0x80, 0xd7ff), rng.randint(0xe000, 0x10ffff)])
            parts.append(("raw", chr(cp).encode("utf-8")))
        elif r < 0.60:
            parts.append(("esc", rng.choice(list(ESC_SIMPLE.keys()))))
        elif r < 0.80:   # \uXXXX of a BMP non-surrogate
            cp = rng.choice([0x41, 0x7f, 0x80, 0x7ff, 0x800, 0xd7ff, 0xe000, 0xfffd, 0xffff, 0x1f, 0x22, 0x5c, rng.randint(1, 0xd7ff), rng.randint(0xe000, 0xffff)])
            if allow_nul_escape and rng.random() < 0.06:
                cp = 0
            parts.append(("u", [cp]))
        elif r < 0.90:   # surrogate pair
            hi = rng.choice([0xd800, 0xdbff, rng.randint(0xd800, 0xdbff)])
            lo = rng.choice([0xdc00, 0xdfff, rng.randint(0xdc00, 0xdfff)])
            parts.append(("u", [hi, lo]))
        else:            # unpaired surrogates, in every context
            kind = rng.random()
            if kind < 0.35:
                parts.append(("u", [rng.randint(0xd800, 0xdbff)]))           # lone high
            elif kind < 0.6:
                parts.append(("u", [rng.randint(0xdc00, 0xdfff)]))           # lone low
            elif kind < 0.8:
                parts.append(("u", [rng.randint(0xd800, 0xdbff), rng.randint(0xd800, 0xdbff)]))  # high high
            else:
                parts.append(("u", [rng.randint(0xd800, 0xdbff), rng.choice([0x41, 0xe9, 0xffff])]))  # high + BMP
    node = {"k": "str", "parts": parts, "q": b'"'}
    node["hexcase"] = rng.random()
    return node


def render_string(rng, node):
    out = [node["q"]]
    for p in node["parts"]:
        if p[0] == "raw":
            out.append(p[1])
        elif p[0] == "esc":
            out.append(b"\\" + p[1])
        else:
            for u in p[1]:
                out.append(b"\\u" + hex4(rng, u))
    out.append(node["q"])
    return b"".join(out)


def string_value(node):
    """bytes denoted: escapes decoded, surrogate pairs combined, unpaired surrogates -> U+FFFD"""
    units = []   # list of ('b', bytes) | ('u', codeunit)
    for p in node["parts"]:
        if p[0] == "raw":
            units.append(("b", p[1]))
        elif p[0] == "esc":
            units.append(("b", ESC_SIMPLE[p[1]]))
        else:
            for u in p[1]:
                units.append(("u", u))
    out = b""
    i = 0
    while i < len(units):
        k, v = units[i]
        if k == "b":
            out += v
            i += 1
            continue
        if 0xd800 <= v <= 0xdbff:
            if i + 1 < len(units) and units[i + 1][0] == "u" and 0xdc00 <= units[i + 1][1] <= 0xdfff:
                cp = 0x10000 + ((v - 0xd800) << 10) + (units[i + 1][1] - 0xdc00)
                out += chr(cp).encode("utf-8")
                i += 2
                continue
            out += b"\xef\xbf\xbd"
            i += 1
            continue
        if 0xdc00 <= v <= 0xdfff:
            out += b"\xef\xbf\xbd"
            i += 1
            continue
        out += chr(v).encode("utf-8")
        i += 1
    return out


# ---------------------------------------------------------------- trees
def gen_stx(rng, depth=4, width=5, big=False, dup=True, nul_names=False):
    r = rng.random()
    if depth > 0 and r < 0.22:
        n = rng.choice([0, 1, 1, 2, 3, width])
        items = [(ws(rng), gen_stx(rng, depth - 1, width, big, dup, nul_names), ws(rng)) for _ in range(n)]
        return {"k": "arr", "items": items, "ws_empty": ws(rng)}
    if depth > 0 and r < 0.44:
        n = rng.choice([0, 1, 1, 2, 3, width])
        ms = []
        for _ in range(n):
            key = gen_string(rng, maxparts=3, allow_nul_escape=nul_names, key=True)
            if dup and ms and rng.random() < 0.15:
                key = rng.choice(ms)[1]
            ms.append((ws(rng), key, ws(rng), ws(rng), gen_stx(rng, depth - 1, width, big, dup, nul_names), ws(rng)))
        return {"k": "obj", "members": ms, "ws_empty": ws(rng)}
    if r < 0.52:
        return {"k": "lit", "text": rng.choice([b"null", b"true", b"false"])}
    if r < 0.70:
        return {"k": "num", "text": gen_int_token(rng, big=big and rng.random() < 0.3)}
    if r < 0.82:
        return {"k": "num", "text": gen_frac_token(rng)}
    return gen_string(rng)


def render(rng, s):
    k = s["k"]
    if k == "lit" or k == "num":
        return s["text"]
    if k == "str":
        return render_string(rng, s)
    if k == "arr":
        if not s["items"]:
            return b"[" + s["ws_empty"] + b"]"
        return b"[" + b",".join(a + render(rng, v) + b for a, v, b in s["items"]) + b"]"
    if k == "obj":
        if not s["members"]:
            return b"{" + s["ws_empty"] + b"}"
        return b"{" + b",".join(a + render_string(rng, key) + b + b":" + c + render(rng, v) + d for a, key, b, c, v, d in s["members"]) + b"}"
    raise ValueError(k)


class Unsupported(Exception):
    pass


def value(s, mode="default"):
    """jvtext-style python tree (see lib/jvtext.py) of the value the text denotes.
    Raises Unsupported('big') for integers beyond 64 bits in strict mode (rejected) and
    returns the saturated value in default mode."""
    k = s["k"]
    if k == "lit":
        return {b"null": None, b"true": True, b"false": False}[s["text"]]
    if k == "num":
        v = num_value(s["text"])
        if v[0] == "big":
            if mode == "strict":
                raise Unsupported("big")
            return ("i", INT64_MIN) if v[1] < 0 else ("u", UINT64_MAX)
        return v
    if k == "str":
        return string_value(s)
    if k == "arr":
        return [value(v, mode) for _, v, _ in s["items"]]
    if k == "obj":
        ms = []
        for _, key, _, _, v, _ in s["members"]:
            kb = string_value(key)
            val = value(v, mode)
            for i, (k2, _) in enumerate(ms):
                if k2 == kb:
                    ms[i] = (kb, val)
                    break
            else:
                ms.append((kb, val))
        return ("o", ms)
    raise ValueError(k)


def nest(s):
    """maximum number of containers enclosing a value"""
    k = s["k"]
    if k == "arr":
        return 1 + max([nest(v) for _, v, _ in s["items"]], default=-1) if s["items"] else 0
    if k == "obj":
        return 1 + max([nest(v) for _, _, _, _, v, _ in s["members"]], default=-1) if s["members"] else 0
    return 0


def names_have_nul(s):
    k = s["k"]
    if k == "arr":
        return any(names_have_nul(v) for _, v, _ in s["items"])
    if k == "obj":
        return any(b"\x00" in string_value(key) or names_have_nul(v) for _, key, _, _, v, _ in s["members"])
    return False


def has_big(s):
    k = s["k"]
    if k == "num":
        return num_value(s["text"])[0] == "big"
    if k == "arr":
        return any(has_big(v) for _, v, _ in s["items"])
    if k == "obj":
        return any(has_big(v) for _, _, _, _, v, _ in s["members"])
    return False


def gen_doc(rng, **kw):
    """(syntax tree, rendered text with leading/trailing whitespace)"""
    s = gen_stx(rng, **kw)
    return s, ws(rng) + render(rng, s) + ws(rng)


# ---------------------------------------------------------------- malformed stream
def mutate_bytes(rng, t):
    """structure-aware-ish mutations of a valid text: the malformed stream for C03/C04"""
    t = bytearray(t)
    for _ in range(rng.choice([1, 1, 2, 3])):
        r = rng.random()
        if not t:
            t += bytes([rng.randrange(256)])
            continue
        i = rng.randrange(len(t))
        if r < 0.2:
            del t[i]
        elif r < 0.4:
            t[i] = rng.randrange(256)
        elif r < 0.7:
            t[i:i] = rng.choice([b"-", b"+", b"e", b"E", b".", b"/*", b"*/", b"//", b"\\", b"\\u", b"\\ud800", b"'", b'"', b",", b"]", b"}", b"[", b"{",
                                 b":", b"\x00", b"\xc3", b"\xa9", b"\xe2\x82", b"\xf0\x9f", b"\xff", b"I", b"nan", b"Infinity", b"N", b"tru", b"1", b"0", b"00", b" "])
        elif r < 0.85:
            j = rng.randrange(len(t))
            a, b = min(i, j), max(i, j)
            t[a:a] = t[a:b][:20]
        else:
            del t[i:]
    return bytes(t)


def partitions(rng, n, k):
    """k-1 distinct cut points in 1..n-1 (sorted)"""
    if n <= 1:
        return []
    k = min(k, n)
    return sorted(rng.sample(range(1, n), k - 1))
