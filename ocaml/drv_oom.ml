(* drv_oom.ml — allocation-fault domain (C08).  Line: "<ks> <setup|-> <test>" (see
   harness/drv_oom.c).  Observation: "n=<N> <base> ks=<tok>,<tok>,…".

   The model predicts only what the allocation-aware models decide: for a workload whose
   test part is ONE operation of a modelled kind (object add, array add/put/insert, string
   set, new_string, new_double_s, serialization of a tree) and whose fault list is '*', the
   number N of allocation requests and, per fault index k, the whole token
   <k>:<class>:<owned><leak>; the fault-free results (second token) are never predicted.
   Everything else is printed as "? ? ?" (wildcards). *)
open Model
open Util
open Jvtext

let wild = "? ? ?"
exception Unmodelled

let fmt17 (bits : z) : z list =
  let b = Int64.of_string ("0u" ^ string_of_z bits) in
  bytes_of_string (Printf.sprintf "%.17g" (Int64.float_of_bits b))

let split_ops s = if s = "-" then [] else split_on ';' s
let kind op = if String.length op >= 2 then String.sub op 0 2 else ""
let args op = String.split_on_char ',' (String.sub op 2 (String.length op - 2))
let reg s = if String.length s = 1 && s.[0] >= '0' && s.[0] <= '9' then Char.code s.[0] - 48 else raise Unmodelled

(* "b<d>=<jv>" *)
let build_of op =
  if String.length op >= 3 && op.[0] = 'b' && op.[2] = '=' then
    Some (Char.code op.[1] - 48, jv_of_string (String.sub op 3 (String.length op - 3)))
  else None

(* the tree the public constructors build from the jv text: a repeated member name replaces
   the value of the first occurrence (json_object_object_add) *)
let rec norm (v : jv) : jv =
  match v with
  | JArr l -> JArr (List.map norm l)
  | JObj l ->
    let rec add acc (k, x) =
      match acc with
      | [] -> [(k, x)]
      | (k', x') :: r -> if k' = k then (k', x) :: r else (k', x') :: add r (k, x) in
    JObj (List.fold_left add [] (List.map (fun (k, x) -> (k, norm x)) l))
  | _ -> v

let tokens_of n f = if n = 0 then "-" else String.concat "," (List.init n f)
let len l = List.length l

(* ------------------------------------------------------------------ object add *)
let predict_oa setup op =
  let a = args op in
  let r = reg (List.nth a 0) and c = reg (List.nth a 1) in
  let key = bytes_of_hex (List.nth a 2) in
  let opts = if List.length a >= 4 then int_of_string (List.nth a 3) else 0 in
  let builds = List.map (fun o -> match build_of o with Some x -> x | None -> raise Unmodelled) setup in
  if not (List.mem_assoc c builds) then raise Unmodelled;
  let members = match List.assoc r builds with JObj l -> l | _ -> raise Unmodelled in
  (* json_object_new_object, then one add per member, all fault-free *)
  let s0 = { nreq = O; live = [] } in
  let (t, s) =
    match new_object no_fault s0 with
    | Ok (((_, ts), ta), s1) ->
      List.fold_left (fun (t, s) (k, _) ->
          match object_add no_fault t k [] false false s with
          | Ok (t', s') -> (t', s')
          | _ -> raise Unmodelled)
        ({ t_struct = ts; t_array = ta; t_size = z_of_int 16; t_ents = [] }, s1) members
    | _ -> raise Unmodelled in
  let is_new = opts land 2 <> 0 and cst = opts land 4 <> 0 in
  let base = int_of_nat s.nreq in
  let n = match object_add no_fault t key [] is_new cst s with
    | Ok (_, s') -> int_of_nat s'.nreq - base
    | _ -> raise Unmodelled in
  let tok k =
    match object_add (single_fault (nat_of_int (base + k))) t key [] is_new cst s with
    | Ok (_, _) -> Printf.sprintf "%d:N:-0" k
    | Fail s' -> Printf.sprintf "%d:F0:u%d" k (len s'.live - len s.live)
    | UB -> Printf.sprintf "%d:UB" k in
  Printf.sprintf "n=%d ? ks=%s" n (tokens_of n tok)

(* ------------------------------------------------------------------ array add / put / insert *)
(* The setup may be any fault-free history of builds and array operations on the subject
   (json_object_array_shrink, add, put_idx, insert_idx): the capacity the test operation meets
   is whatever that history left (exactly the length after shrink(a, 0), doubled after a
   growth, ...).  Arrays that come out of the parser or of a deep copy are not modelled here. *)
let predict_arr all_too setup op =
  let yes _ = true and no _ = false in
  let arrays : (int * alist) list ref = ref [] and others : (int * elt) list ref = ref [] in
  let fresh = ref 1000 in
  let arr_of r = try List.assoc r !arrays with Not_found -> raise Unmodelled in
  let set_arr r a = arrays := (r, a) :: List.remove_assoc r !arrays in
  (* the element a child register stands for; the register is consumed by a successful add *)
  let child_of c = try List.assoc c !others with Not_found -> raise Unmodelled in
  let array_op o =
    let a = args o in
    let r = reg (List.nth a 0) in
    match kind o with
    | "as" -> (r, None, OShrink (z_of_string (List.nth a 1)))
    | "ad" -> (r, None, ODel (z_of_string (List.nth a 1), z_of_string (List.nth a 2)))
    | "aa" -> let c = reg (List.nth a 1) in (r, Some c, OAdd (child_of c))
    | "ap" -> let c = reg (List.nth a 1) in (r, Some c, OPut (z_of_string (List.nth a 2), child_of c))
    | "ai" -> let c = reg (List.nth a 1) in (r, Some c, OInsert (z_of_string (List.nth a 2), child_of c))
    | _ -> raise Unmodelled in
  List.iter (fun o ->
      match build_of o with
      | Some (d, JArr elems) ->
        let a0 = match al_new2 yes (z_of_int 32) with NOk a -> a | _ -> raise Unmodelled in
        let a = List.fold_left (fun a x ->
            let e = match x with JNull -> None | _ -> (incr fresh; Some (z_of_int !fresh)) in
            match al_add yes a e with AOk (a', _, _, _) -> a' | _ -> raise Unmodelled) a0 elems in
        set_arr d a
      | Some (d, JNull) -> others := (d, None) :: !others
      | Some (d, _) -> incr fresh; others := (d, Some (z_of_int !fresh)) :: !others
      | None ->
        let (r, c, aop) = array_op o in
        (match al_step yes (arr_of r) aop with
         | AOk (a', _, _, _) ->
           set_arr r a';
           (match c with Some c -> others := List.remove_assoc c !others | None -> ())
         | AFail _ -> ()           (* refused for its arguments (e.g. shrink below the length): as in C, nothing changes *)
         | AUB -> raise Unmodelled)) setup;
  let (r, _, o) = array_op op in
  let arr = arr_of r in
  let ok r = match r with AOk _ -> true | _ -> false in
  let r1 = al_step yes arr o and r0 = al_step no arr o in
  (* 'A': every request refused — the same as the single request refused; without a request the
     operation does what it does fault-free (in particular del_idx: it never asks) *)
  if ok r1 && not (ok r0) then
    (match r0 with
     | AFail a' ->
       let u = if a' = arr then "u" else "c" in
       Printf.sprintf "n=1 ? ks=0:F0:%s0%s" u (if all_too then Printf.sprintf ",A:F0:%s0" u else "")
     | _ -> "n=1 ? ks=0:UB")
  else if r0 = AUB then "n=0 ? ks=UB"
  else if all_too then "n=0 ? ks=A:N:-0" else "n=0 ? ks=-"

(* ------------------------------------------------------------------ string set / new *)
let str_op o =
  let a = args o in
  match kind o with
  | "ss" -> OpSet (bytes_of_hex (List.nth a 1) @ [Z0])
  | "sl" -> OpSetLen (bytes_of_hex (List.nth a 1), z_of_string (List.nth a 2))
  | _ -> raise Unmodelled

let predict_str setup op =
  let r = reg (List.hd (args op)) in
  let yes _ _ = true and no _ _ = false in
  let (first, rest) = match setup with x :: y -> (x, y) | [] -> raise Unmodelled in
  let bytes = match build_of first with Some (d, JStr b) when d = r -> b | _ -> raise Unmodelled in
  let s0 = match new_string_len yes bytes (z_of_int (len bytes)) with NOk0 s -> s | _ -> raise Unmodelled in
  let s = List.fold_left (fun s o ->
      if reg (List.hd (args o)) <> r then raise Unmodelled;
      match str_step yes s (str_op o) with SOk (s', _, _) -> s' | SUB0 -> raise Unmodelled) s0 rest in
  let o = str_op op in
  let n = match str_step yes s o with
    | SOk (s', _, _) -> int_of_z (Z.sub s'.reqs s.reqs)
    | SUB0 -> raise Unmodelled in
  let tok k =
    match str_step no s o with
    | SOk (s', ret, _) when ret = Z0 ->
      Printf.sprintf "%d:F0:%s%d" k (if get_string s' = get_string s then "u" else "c")
        (int_of_z (Z.sub (live_count s') (live_count s)))
    | SOk _ -> Printf.sprintf "%d:N:-0" k
    | SUB0 -> Printf.sprintf "%d:UB" k in
  Printf.sprintf "n=%d ? ks=%s" n (tokens_of n tok)

let predict_ns op =
  let a = args op in
  let b = bytes_of_hex (List.nth a 1) in
  match new_string_len (fun _ _ -> false) b (z_of_int (len b)) with
  | NNull _ -> "n=1 ? ks=0:F0:u0"
  | _ -> "n=1 ? ks=0:UB"

let predict_ds () =
  let s0 = { nreq = O; live = [] } in
  let tok k = match new_double_s (single_fault (nat_of_int k)) s0 with
    | Fail s' -> Printf.sprintf "%d:F0:u%d" k (len s'.live)
    | Ok _ -> Printf.sprintf "%d:N:-0" k
    | UB -> Printf.sprintf "%d:UB" k in
  let n = match new_double_s no_fault s0 with Ok (_, s') -> int_of_nat s'.nreq | _ -> raise Unmodelled in
  Printf.sprintf "n=%d ? ks=%s" n (tokens_of n tok)

(* ------------------------------------------------------------------ serialization *)
let rec has_plain_double (v : jv) =
  match v with
  | JDouble (_, None) -> true
  | JArr l -> List.exists has_plain_double l
  | JObj l -> List.exists (fun (_, x) -> has_plain_double x) l
  | _ -> false

(* run the print-buffer calls fault-free; returns the buffer and the indices of the calls
   that made it grow (each growth is one realloc request) *)
let run_free (p : pbuf) (ops : tagged list) : pbuf * int list =
  let p = ref p and grow = ref [] in
  List.iteri (fun i (_, o) ->
      match pb_step (fun _ -> true) !p o with
      | POk (p', _, _) -> if p'.size0 <> !p.size0 then grow := i :: !grow; p := p'
      | _ -> raise Unmodelled) ops;
  (!p, List.rev !grow)

let predict_js setup op =
  let a = args op in
  let r = reg (List.nth a 0) in
  let flags = int_of_string (List.nth a 1) in
  let (first, rest) = match setup with x :: y -> (x, y) | [] -> raise Unmodelled in
  let v = match build_of first with Some (d, v) when d = r -> norm v | _ -> raise Unmodelled in
  let guard fl = if fl land 4 <> 0 && has_plain_double v then raise Unmodelled in
  guard flags;
  if v = JNull then "n=0 ? ks=-" else begin
    (* earlier serializations of the same object leave their (grown) buffer behind *)
    let pb = List.fold_left (fun pb o ->
        if kind o <> "js" then raise Unmodelled;
        let a = args o in
        if reg (List.nth a 0) <> r then raise Unmodelled;
        let fl = int_of_string (List.nth a 1) in
        guard fl;
        let p0 = match pb with Some p -> p | None -> pb_new in
        let p0 = match pb_reset p0 with POk (p, _, _) -> p | _ -> raise Unmodelled in
        Some (fst (run_free p0 (ser_ops fmt17 (flags_of (z_of_int fl)) O v)))) None rest in
    let fl = flags_of (z_of_int flags) in
    let fresh = (pb = None) in
    let p = match pb with Some p -> p | None -> pb_new in
    let p0 = match pb_reset p with POk (q, _, _) -> q | _ -> raise Unmodelled in
    let (_, grow) = run_free p0 (ser_ops fmt17 fl O v) in
    let base = ser_text fmt17 fl v in
    let nnew = if fresh then 2 else 0 in
    let n = nnew + List.length grow in
    let tok k =
      let res =
        if k < nnew then serialize_fallible fmt17 None (fun _ _ -> true) fl v   (* printbuf_new failed *)
        else begin
          let idx = List.nth grow (k - nnew) in
          serialize_fallible fmt17 (Some p) (fun i _ -> int_of_nat i <> idx) fl v
        end in
      match res with
      | SNull -> Printf.sprintf "%d:F0:u0" k
      | STxt t -> if t = base then Printf.sprintf "%d:N:-0" k else Printf.sprintf "%d:D0:-0" k
      | SUB -> Printf.sprintf "%d:UB" k in
    Printf.sprintf "n=%d ? ks=%s" n (tokens_of n tok)
  end

(* ------------------------------------------------------------------ the print-buffer API, sprintbuf *)
(* the bytes sprintbuf's format produces (same table as harness/drv_oom.c) *)
let format_out f (str : string) (d : int) : string =
  match f with
  | 0 -> str
  | 1 -> Printf.sprintf "%d" d
  | 2 -> Printf.sprintf "head:<%s>" str
  | 3 -> Printf.sprintf "%s=%d;" str d
  | 4 -> Printf.sprintf "%0*d" d 7
  | 5 -> Printf.sprintf "%s|%d|%s" str d str
  | 6 -> Printf.sprintf "%-*s|" d str
  | 7 -> if d < 0 then raise Unmodelled else Printf.sprintf "%.3f/%x/%c%s" (float_of_int d /. 7.0) d 'q' str
  | _ -> raise Unmodelled

type pcall = PSprintf of z list | PStep of pbop | PReset

let pcall_of o =
  let body = String.sub o 2 (String.length o - 2) in
  match kind o with
  | "Ps" -> (match String.split_on_char ',' body with
      | [f; h; d] -> PSprintf (bytes_of_string (format_out (int_of_string f) (string_of_bytes (bytes_of_hex h)) (int_of_string d)))
      | _ -> raise Unmodelled)
  | "Pa" -> PStep (OpAppend (bytes_of_hex body))
  | "Pm" -> (match String.split_on_char ',' body with
      | [o'; c; l] -> PStep (OpMemset (z_of_string o', z_of_string c, z_of_string l))
      | _ -> raise Unmodelled)
  | "Pr" -> PReset
  | _ -> raise Unmodelled

(* the temporary of the long branch comes from vasprintf, which the controlled allocator of
   the harness does not serve: it is never the failed request.  [fail] = fail the realloc. *)
let pcall_run (fail : bool) (q : lpb) (s : ast) (c : pcall) =
  match c with
  | PSprintf out ->
    let long = List.length out > 127 in
    let base = int_of_nat s.nreq in
    let o = if fail then single_fault (nat_of_int (if long then base + 1 else base)) else no_fault in
    (sprintbuf o q out s, if long then 1 else 0)
  | PStep op -> (lpb_step (if fail then single_fault s.nreq else no_fault) q op s, 0)
  | PReset -> (lpb_step no_fault q OpReset s, 0)

let predict_pb setup op =
  (match setup with "Pn" :: _ -> () | _ -> raise Unmodelled);
  let q0 = { lp_buf = pb_new; lp_blk = O } and s0 = { nreq = S O; live = [O] } in
  let (q, s) = List.fold_left (fun (q, s) o ->
      match fst (pcall_run false q s (pcall_of o)) with
      | Ok ((q', _), s') -> (q', s')
      | Fail _ -> (q, s)
      | UB -> raise Unmodelled) (q0, s0) (List.tl setup) in
  let c = pcall_of op in
  let n = match pcall_run false q s c with
    | (Ok (_, s'), hidden) -> int_of_nat s'.nreq - int_of_nat s.nreq - hidden
    | (Fail s', _) -> int_of_nat s'.nreq - int_of_nat s.nreq          (* refused for its arguments *)
    | (UB, _) -> raise Unmodelled in
  let tok k =
    match fst (pcall_run true q s c) with
    | Fail s' -> Printf.sprintf "%d:F0:u%d" k (len s'.live - len s.live)
    | Ok _ -> Printf.sprintf "%d:N:-0" k
    | UB -> Printf.sprintf "%d:UB" k in
  Printf.sprintf "n=%d ? ks=%s" n (tokens_of n tok)

(* ------------------------------------------------------------------ configuration: the double format *)
(* "df<g|t|x>,<hexfmt|->": scope and format *)
let df_of o =
  if String.length o < 5 || o.[3] <> ',' then raise Unmodelled;
  let scope = match o.[2] with 'g' -> z_of_int 0 | 't' -> z_of_int 1 | 'x' -> z_of_int 7 | _ -> raise Unmodelled in
  let body = String.sub o 4 (String.length o - 4) in
  (scope, if body = "-" then None else Some (bytes_of_hex body))

(* the setup is any fault-free history of such calls (other setup operations do not touch the
   configuration); the test is one call; thread id 1 is the driver's only thread *)
let predict_df setup op =
  let tid = z_of_int 1 in
  let c0 = { fc_st = fmt_init; fc_gblk = None; fc_tblk = None } and s0 = { nreq = O; live = [] } in
  let (c, s) = List.fold_left (fun (c, s) o ->
      if kind o <> "df" then (c, s) else
      let (scope, fmt) = df_of o in
      match set_format_cfg no_fault c tid fmt scope s with
      | Ok ((c', _), s') -> (c', s')
      | _ -> raise Unmodelled) (c0, s0) setup in
  let (scope, fmt) = df_of op in
  let n = match set_format_cfg no_fault c tid fmt scope s with
    | Ok (_, s') -> int_of_nat s'.nreq - int_of_nat s.nreq
    | _ -> raise Unmodelled in
  let tok k =
    match set_format_cfg (single_fault (nat_of_int (int_of_nat s.nreq + k))) c tid fmt scope s with
    | Ok ((c', rc), s') ->
      if rc = Z0 then Printf.sprintf "%d:N:-0" k
      else Printf.sprintf "%d:F0:%s%d" k
          (if effective c'.fc_st tid = effective c.fc_st tid && c' = c then "u" else "c") (len s'.live - len s.live)
    | _ -> Printf.sprintf "%d:UB" k in
  Printf.sprintf "n=%d ? ks=%s" n (tokens_of n tok)

let run line =
  match String.split_on_char ' ' line with
  | [ks; setup; test] ->
    (try
       let all_too = (ks = "*,A") in
       if ks <> "*" && not all_too then raise Unmodelled;
       let setup = split_ops setup in
       (match split_ops test with
        | [op] ->
          (match kind op with
           | k when all_too && not (List.mem k ["aa"; "ap"; "ai"; "as"; "ad"]) -> raise Unmodelled
           | "oa" -> predict_oa setup op
           | "aa" | "ap" | "ai" | "as" | "ad" -> predict_arr all_too setup op
           | "ss" | "sl" -> predict_str setup op
           | "ns" -> if setup = [] then predict_ns op else raise Unmodelled
           | "ds" -> if setup = [] then predict_ds () else raise Unmodelled
           | "js" -> predict_js setup op
           | "Ps" | "Pa" | "Pm" -> predict_pb setup op
           | "df" -> predict_df setup op
           | _ -> raise Unmodelled)
        | _ -> raise Unmodelled)
     with Unmodelled | Not_found | Failure _ | Invalid_argument _ -> wild)
  | _ -> failwith "oom line"

let () = register "oom" run
