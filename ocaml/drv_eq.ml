(* drv_eq.ml — equality / deep-copy domain (C09).  Trees are in the jvtext format.
     E <a> <b>        equal(a,b) equal(b,a) equal(a,a) equal(b,b)
     T <a> <b> <c>    equal over the six ordered pairs ab bc ac ba cb ca
     X <a>            two arrays / two objects holding the SAME node a
     C <a> <mut>      deep copy, comparisons, dumps, address sets, serializations
                      (text not modelled: '?', identity '='), mutation probes, destruction
     H <a> <ha> <b> <hb>   both trees get a history (mutations joined by ';', '-' = none),
                      then: equal both ways and on themselves, deep copy of a' compared
                      with a' and with b'
     Y <a> <rules> <tags>  deep copy through a scripted json_c_shallow_copy_fn (see
                      harness/drv_eq.c for the rule language); the script is turned into the
                      two oracles of [deep_copy_cb] (answers, nodes carrying userdata)
     B <a> <conds> <mut>   the source borrows the names of the members selected by conds from
                      caller buffers (JSON_C_OBJECT_ADD_CONSTANT_KEY); deep copy; storage of
                      the copy's names against the source's and the caller's; the caller
                      overwrites, then frees its buffers; the copy observed after each step
   mut = <path>:<op>, path = (/i<idx> | /k<hexkey|->)*,
   op = A<jv> | P<hexkey|->=<jv> | K<hexkey|-> | I<dec> | U<dec> | B<0|1> | S<hex|-> | D<16hex>
      | Z<idx>=<jv> (array_put_idx) | X<idx>,<count> (array_del_idx).
   The trees are laid out in memory by [build] (one address per node, allocation order);
   equality is [nt_equal], the comparison with the pointer shortcut. *)
open Model
open Util

let b01 b = if b then "1" else "0"

(* NaN payloads are collapsed in dumps *)
let rec canon (v : jv) : jv =
  match v with
  | JDouble (bits, t) -> (match d_decode bits with DNaN -> JDouble (z_of_string "9221120237041090560", t) | _ -> v)
  | JArr l -> JArr (List.map canon l)
  | JObj l -> JObj (List.map (fun (k, x) -> (k, canon x)) l)
  | _ -> v
let dump v = Jvtext.string_of_jv (canon v)

let parse_mut (s : string) : step list * mutop =
  let n = String.length s in
  if n >= 2 && s.[0] = '@' then begin
    (* a process-wide setting: addresses no node *)
    let arg = String.sub s 2 (n - 2) in
    match s.[1] with
    | 'H' -> ([], MGlobalHash (z_of_string arg))
    | 'F' -> ([], MGlobalFormat (if arg = "-" then None else Some (bytes_of_hex arg)))
    | _ -> failwith "mut @"
  end else
  let pos = ref 0 in
  let steps = ref [] in
  let ishex c = (c >= '0' && c <= '9') || (c >= 'a' && c <= 'f') in
  let take f = let st = !pos in while !pos < n && f s.[!pos] do incr pos done; String.sub s st (!pos - st) in
  let hexordash () = if !pos < n && s.[!pos] = '-' then (incr pos; []) else bytes_of_hex (take ishex) in
  while !pos < n && s.[!pos] = '/' do
    incr pos;
    (match s.[!pos] with
     | 'i' -> incr pos; steps := SIdx (z_of_string (take (fun c -> c >= '0' && c <= '9'))) :: !steps
     | 'k' -> incr pos; steps := SKey (hexordash ()) :: !steps
     | _ -> failwith "mut step")
  done;
  if !pos >= n || s.[!pos] <> ':' then failwith "mut :";
  incr pos;
  let c = s.[!pos] in
  incr pos;
  let op =
    match c with
    | 'A' -> MAppend (Jvtext.parse_jv s pos)
    | 'P' -> let k = hexordash () in
             if s.[!pos] <> '=' then failwith "mut P"; incr pos; MPut (k, Jvtext.parse_jv s pos)
    | 'K' -> MDel (hexordash ())
    | 'I' -> MSetInt (z_of_string (take (fun c -> c = '-' || (c >= '0' && c <= '9'))))
    | 'U' -> MSetUint (z_of_string (take (fun c -> c >= '0' && c <= '9')))
    | 'B' -> MSetBool (take (fun c -> c = '0' || c = '1') = "1")
    | 'Z' -> let i = z_of_string (take (fun c -> c >= '0' && c <= '9')) in
             if s.[!pos] <> '=' then failwith "mut Z"; incr pos; MArrPut (i, Jvtext.parse_jv s pos)
    | 'X' -> let i = z_of_string (take (fun c -> c >= '0' && c <= '9')) in
             if s.[!pos] <> ',' then failwith "mut X"; incr pos;
             MArrDel (i, z_of_string (take (fun c -> c >= '0' && c <= '9')))
    | 'S' -> MSetStr (hexordash ())
    | 'D' -> let h = take ishex in
             MSetDouble (List.fold_left (fun acc b -> Z.add (Z.mul acc (z_of_int 256)) b) Z0 (bytes_of_hex h))
    | _ -> failwith "mut op" in
  (List.rev !steps, op)

let parse_hist (s : string) = if s = "-" then [] else List.map parse_mut (String.split_on_char ';' s)
let oks_text l = if l = [] then "-" else String.concat "" (List.map b01 l)

(* ---- scripted callback: the rule language of the C driver as oracles ---- *)
let type_char (v : jv) = match v with
  | JObj _ -> 'o' | JArr _ -> 'a' | JStr _ -> 's' | JInt _ | JUint _ -> 'i' | JDouble _ -> 'd' | JBool _ -> 'b' | JNull -> 'n'

let atom_match (a : string) (n : int) (c : cb_call) : bool =
  let arg = String.sub a 1 (String.length a - 1) in
  match a.[0] with
  | '*' -> true
  | 't' -> arg.[0] = type_char c.c_src
  | 'p' -> arg.[0] = (match c.c_parent with None -> 'r' | Some p -> type_char p)
  | 'd' -> int_of_z c.c_depth = int_of_string arg
  | 'D' -> int_of_z c.c_depth >= int_of_string arg
  | 'i' -> (match c.c_idx with Some i -> int_of_z i = int_of_string arg | None -> false)
  | 'k' -> (match c.c_key with Some k -> k = (if arg = "-" then [] else bytes_of_hex arg) | None -> false)
  | 'm' -> (match String.split_on_char ',' arg with
            | [k; r] -> let k = int_of_string k in k > 0 && n mod k = int_of_string r
            | _ -> false)
  | 'c' -> n = int_of_string arg
  | _ -> false
let cond_match (cond : string) n c = List.for_all (fun a -> a <> "" && atom_match a n c) (String.split_on_char '&' cond)
let eval_answer (rules : string) n c : char =
  if rules = "-" then '1' else
  let rec go = function
    | [] -> '1'
    | r :: t -> let l = String.length r in
      if l >= 2 && r.[l - 2] = '=' && cond_match (String.sub r 0 (l - 2)) n c then r.[l - 1] else go t in
  go (String.split_on_char ';' rules)
let eval_tagged (tags : string) n c : bool =
  tags <> "-" && type_char c.c_src <> 'd' && List.exists (fun cond -> cond_match cond n c) (String.split_on_char ';' tags)
let env_of rules tags : cb_env =
  { cb_answer = (fun h c -> match eval_answer rules (List.length h) c with
        | 'F' | 'G' -> CbError | '2' | 'T' -> CbComplete | _ -> CbCreated);
    cb_tagged = (fun h c -> eval_tagged tags (List.length h) c) }

let eval_conds (conds : string) n c : bool =
  conds <> "-" && List.exists (fun cond -> cond_match cond n c) (String.split_on_char ';' conds)

(* the source of a B case in memory: nodes numbered as the C builder numbers them, the
   selected member names in caller buffers 0, 1, ...; returns the buffers with their contents *)
let msource (conds : string) (a : jv) : mt * (int * z list) list * int =
  let counter = ref 0 and addr = ref 0 and bufs = ref [] in
  let fresh () = let x = !addr in incr addr; z_of_int x in
  let rec go (v : jv) (depth : int) : mt =
    match v with
    | JNull -> MNull
    | JArr l -> incr counter; let me = fresh () in
      let kids = List.fold_left (fun acc x -> go x (depth + 1) :: acc) [] l in MArr (me, List.rev kids)
    | JObj l -> incr counter; let me = fresh () in
      let kids = List.fold_left (fun acc (k, x) ->
          let no = (match x with JNull -> -1 | _ -> !counter) in
          let x' = go x (depth + 1) in
          let call = { c_src = x; c_parent = Some v; c_key = Some k; c_idx = None; c_depth = z_of_int (depth + 1) } in
          let st = if eval_conds conds no call
            then (let b = List.length !bufs in bufs := (b, k) :: !bufs; KBorrowed (z_of_int b))
            else KOwn (fresh ()) in
          ((k, st), x') :: acc) [] l in
      MObj (me, List.rev kids)
    | JBool b -> incr counter; MLeaf (fresh (), LBool b)
    | JInt x -> incr counter; MLeaf (fresh (), LInt x)
    | JUint x -> incr counter; MLeaf (fresh (), LUint x)
    | JDouble (b, t) -> incr counter; MLeaf (fresh (), LDouble (b, t))
    | JStr x -> incr counter; MLeaf (fresh (), LStr x) in
  let t = go a 0 in
  (t, List.rev !bufs, !addr)

(* userdata rules (<cond>=<D|N>;...) applied in pre-order: the text of node number n is "<u n>";
   an annotated double carries the text as its retained text *)
let apply_ud (rules : string) (a : jv) : jv * (int * z list * char) option list =
  let counter = ref 0 and anns = ref [] in
  let rec go (v : jv) parent key idx depth : jv =
    match v with
    | JNull -> JNull
    | _ ->
      let n = !counter in
      incr counter;
      let call = { c_src = v; c_parent = parent; c_key = key; c_idx = idx; c_depth = z_of_int depth } in
      let ans = eval_answer rules n call in
      let text = bytes_of_string (Printf.sprintf "<u%d>" n) in
      let ann = if ans = 'D' || ans = 'N' then Some (n, text, ans) else None in
      anns := ann :: !anns;
      (match v with
       | JDouble (b, t) -> JDouble (b, (match ann with Some _ -> Some text | None -> t))
       | JArr l -> let (_, kids) = List.fold_left (fun (i, acc) x -> (i + 1, go x (Some v) None (Some (z_of_int i)) (depth + 1) :: acc)) (0, []) l in
         JArr (List.rev kids)
       | JObj l -> let kids = List.fold_left (fun acc (k, x) -> (k, go x (Some v) (Some k) None (depth + 1)) :: acc) [] l in
         JObj (List.rev kids)
       | _ -> v) in
  let a' = go a None None None 0 in
  (a', List.rev !anns)

(* the retained text of a double IS its userdata: after the caller rewrote its buffers the dump
   of the source shows the new text *)
let retext (v : jv) (anns : uanns) : jv =
  let rest = ref anns in
  let rec go (v : jv) : jv =
    match v with
    | JNull -> JNull
    | _ ->
      let me = (match !rest with x :: t -> rest := t; x | [] -> None) in
      (match v with
       | JDouble (b, t) -> JDouble (b, (match me with Some u -> Some u.ud_text | None -> t))
       | JArr l -> JArr (List.rev (List.fold_left (fun acc x -> go x :: acc) [] l))
       | JObj l -> JObj (List.rev (List.fold_left (fun acc (k, x) -> (k, go x) :: acc) [] l))
       | _ -> v) in
  go v

let rec count_members (v : jv) : int =
  match v with
  | JArr l -> List.fold_left (fun n x -> n + count_members x) 0 l
  | JObj l -> List.fold_left (fun n (_, x) -> n + 1 + count_members x) 0 l
  | _ -> 0

let inter a b = List.length (List.filter (fun x -> List.mem x b) a)

let run line =
  match split_on ' ' line with
  | ["E"; sa; sb] ->
    let a = Jvtext.jv_of_string sa and b = Jvtext.jv_of_string sb in
    let (ta, n1) = build a Z0 in
    let (tb, _) = build b n1 in
    Printf.sprintf "E %s %s %s %s live=0" (b01 (nt_equal ta tb)) (b01 (nt_equal tb ta)) (b01 (nt_equal ta ta)) (b01 (nt_equal tb tb))
  | ["T"; sa; sb; sc] ->
    let a = Jvtext.jv_of_string sa and b = Jvtext.jv_of_string sb and c = Jvtext.jv_of_string sc in
    let (ta, n1) = build a Z0 in
    let (tb, n2) = build b n1 in
    let (tc, _) = build c n2 in
    let e x y = b01 (nt_equal x y) in
    Printf.sprintf "T %s %s %s %s %s %s live=0" (e ta tb) (e tb tc) (e ta tc) (e tb ta) (e tc tb) (e tc ta)
  | ["X"; sa] ->
    let a = Jvtext.jv_of_string sa in
    let (ta, _) = build a (z_of_int 2) in
    let k = bytes_of_string "k" in
    Printf.sprintf "X %s %s live=0"
      (b01 (nt_equal (NArr (z_of_int 0, [ta])) (NArr (z_of_int 1, [ta]))))
      (b01 (nt_equal (NObj (z_of_int 0, [(k, ta)])) (NObj (z_of_int 1, [(k, ta)]))))
  | ["C"; sa; smut] ->
    let a = Jvtext.jv_of_string sa in
    (match deep_copy_root a with
     | None -> "C -1 EINVAL | live=0"
     | Some _ ->
       let (ta, n1) = build a Z0 in
       let (tc, n2) = nt_copy ta n1 in
       let c1 = erase tc in
       let (path, op) = parse_mut smut in
       let head = Printf.sprintf "C 0 %s %s %s %s %d %d %d S ? = ? = ? = ? = ? = ? ="
           (b01 (nt_equal ta tc)) (b01 (nt_equal tc ta)) (dump a) (dump c1)
           (List.length (addrs ta)) (List.length (addrs tc)) (inter (addrs ta) (addrs tc)) in
       let mut v = match mutate_at path op v with Some v' -> ("ok", v') | None -> ("bad", v) in
       let e x y = b01 (nt_equal x y) in
       let (r1, c1') = mut c1 in
       (* the mutated trees are laid out afresh: what matters to nt_equal is that the three
          trees share no node *)
       let (tc1', n3) = build c1' n2 in
       let m1 = Printf.sprintf "M1 %s %s %s %s %s" r1 (dump a) (dump c1') (e ta tc1') (e tc1' ta) in
       let (tc2, n4) = nt_copy ta n3 in
       let c2 = erase tc2 in
       let (r2, a') = mut a in
       let (ta', n5) = build a' n4 in
       let m2 = Printf.sprintf "M2 %s %s %s %s %s %s" r2 (dump a') (dump c2) (e ta' tc1') (e tc1' ta') (e ta' tc2) in
       let (tc3, _) = nt_copy ta' n5 in
       let k = Printf.sprintf "K 0 %s %s %s" (e ta' tc3) (e tc3 ta') (dump (erase tc3)) in
       String.concat " | " [head; m1; m2; k; "D1 1 " ^ dump a'; "D2 1 " ^ dump c2; "live=0"])
  | "H" :: sa :: sha :: sb :: shb :: rest when List.length rest <= 1 ->
    let shg = (match rest with [x] -> x | _ -> "-") in
    let a = Jvtext.jv_of_string sa and b = Jvtext.jv_of_string sb in
    (* the steps after the copy address no tree: only settings can succeed *)
    let (_, og) = run_history (parse_hist shg) JNull in
    let (a', oa) = run_history (parse_hist sha) a in
    let (b', ob) = run_history (parse_hist shb) b in
    let (ta, n1) = build a' Z0 in
    let (tb, n2) = build b' n1 in
    let e x y = b01 (nt_equal x y) in
    let head = Printf.sprintf "H %s %s %s %s %s %s %s %s" (oks_text oa) (oks_text ob) (dump a') (dump b')
        (e ta tb) (e tb ta) (e ta ta) (e tb tb) in
    let k = match deep_copy_root a' with
      | None -> Printf.sprintf "K -1 EINVAL %s %s" (oks_text og) (e ta tb)
      | Some _ ->
        let (tc, _) = nt_copy ta n2 in
        Printf.sprintf "K 0 %s %s %s %d %s %s %s %s 6 %s %s" (e ta tc) (e tc ta) (dump (erase tc)) (inter (addrs ta) (addrs tc))
          (oks_text og) (e ta tc) (e tc ta) (e ta tb) (e tc tb) (e tb tc) in
    String.concat " | " [head; k; "live=0"]
  | "B" :: sa :: conds :: rest when List.length rest = 1 || List.length rest = 2 ->
    let (udrules, smut) = (match rest with [m] -> ("-", m) | [u; m] -> (u, m) | _ -> assert false) in
    let a0 = Jvtext.jv_of_string sa in
    let (a, marks) = apply_ud udrules a0 in
    let (src, bufs, n0) = msource conds a in
    (match deep_copy_root a with
     | None -> "B -1 EINVAL | live=0"
     | Some _ ->
       (* the source's userdata: D texts in blocks of their own, N texts in caller buffers 0, 1, ... *)
       let next = ref n0 and nbuf = ref 0 in
       let sanns = List.map (function
           | None -> None
           | Some (_, text, 'D') -> let x = !next in incr next; Some { ud_text = text; ud_store = KOwn (z_of_int x); ud_delete = true }
           | Some (_, text, _) -> let b = !nbuf in incr nbuf; Some { ud_text = text; ud_store = KBorrowed (z_of_int b); ud_delete = false }) marks in
       let (cpy, n1) = mt_copy src (z_of_int !next) in
       let (canns, n2) = copy_uanns sanns n1 in
       let (tref, _) = build a0 n2 in
       let e x y = b01 (nt_equal x y) in
       let c = mt_erase cpy in
       let ks = key_stores src and kc = key_stores cpy in
       let nb l = List.length (List.filter (function KBorrowed _ -> true | KOwn _ -> false) l) in
       let ud_text anns = (let l = List.concat (List.mapi (fun i o -> match o with
           | Some u -> [Printf.sprintf "%d:%s:%s" i (hex_of_bytes u.ud_text) (if u.ud_delete then "D" else "N")]
           | None -> []) anns) in if l = [] then "-" else String.concat "," l) in
       let head = Printf.sprintf "B 0 %s %s %s %s %d %d %d %d %d %s %s %d %d %d" (e (mt_nodes src) (mt_nodes cpy)) (e (mt_nodes cpy) (mt_nodes src))
           (dump (mt_erase src)) (dump c) (List.length bufs) (nb ks) (inter kc ks) (nb kc) (nb kc)
           (ud_text sanns) (ud_text canns) !nbuf (inter (ud_stores canns) (ud_stores sanns)) (nb (ud_stores canns)) in
       (* the caller overwrites its buffers in place *)
       let flip k = match k with [] -> [] | x :: t -> (if int_of_z x = 90 then z_of_int 89 else z_of_int 90) :: t in
       let src' = List.fold_left (fun t (b, k) -> kbuf_write (z_of_int b) (flip k) t) src bufs in
       let cpy' = List.fold_left (fun t (b, k) -> kbuf_write (z_of_int b) (flip k) t) cpy bufs in
       let ubufs = List.concat (List.map (function Some { ud_text = t; ud_store = KBorrowed b; _ } -> [(b, t)] | _ -> []) sanns) in
       let sanns' = List.fold_left (fun an (b, t) -> ubuf_write b (flip t) an) sanns ubufs in
       let canns' = List.fold_left (fun an (b, t) -> ubuf_write b (flip t) an) canns ubufs in
       let nm = count_members a in
       let obs t an = Printf.sprintf "%s %d/%d %s %s 2 %s" (dump (mt_erase t)) nm nm (e (mt_nodes t) tref) (e tref (mt_nodes t)) (ud_text an) in
       let (r, c') = (match mutate_at (fst (parse_mut smut)) (snd (parse_mut smut)) (mt_erase cpy') with
           | Some v -> ("ok", v) | None -> ("bad", mt_erase cpy')) in
       String.concat " | " [head; "I " ^ dump (retext (mt_erase src') sanns') ^ " " ^ ud_text sanns' ^ " " ^ obs cpy' canns';
                            "F 1 " ^ obs cpy' canns'; "P " ^ r ^ " " ^ dump c';
                            Printf.sprintf "live=%d" (List.length (unreleased canns))])
  | ["Y"; sa; rules; tags] ->
    let a = Jvtext.jv_of_string sa in
    let (r, h) = deep_copy_cb_root (env_of rules tags) a in
    let calls = List.length h in
    (match r with
     | None -> Printf.sprintf "Y -1 %d 1 %s | live=0" calls (dump a)
     | Some c ->
       let (ta, n1) = build a Z0 in
       let (tc, _) = build c n1 in
       let ntags = List.length (List.filter (fun x -> x)
           (List.mapi (fun n call -> eval_answer rules n call = 'T' && type_char call.c_src <> 'd') (List.rev h))) in
       Printf.sprintf "Y 0 %d 0 %s %s %s %s %d %d %d 6 %d | live=0" calls (b01 (nt_equal ta tc)) (b01 (nt_equal tc ta))
         (dump a) (dump c) (List.length (addrs ta)) (List.length (addrs tc)) (inter (addrs ta) (addrs tc)) ntags)
  | _ -> failwith "eq line"

let () = register "eq" run
