(* drv_visit.ml — visitor domain (C17).  Line: "<tree in jvtext> <schedule>" where the
   schedule is "-" or a comma-separated list of ints: the value the callback returns for
   the 1st, 2nd, … call (0 = CONTINUE once it is exhausted).
   Observation: one step per call, "<path> <flags> <parent> <key|index> <depth>", then
   "ret <r>".  path = "/" for the root, "/i/j" = j-th child of the i-th child of the root;
   parent = "-" | "a@<path>" | "o@<path>"; key/index = "-" | "k<hex>" | "i<dec>". *)
open Model
open Util

let path_str p = if p = [] then "/" else String.concat "" (List.map (fun i -> "/" ^ string_of_z i) p)
let rec drop_last = function [] -> [] | [_] -> [] | x :: t -> x :: drop_last t

let ev_str e =
  let parent = match e.ev_parent with
    | PNone -> "-"
    | PArr -> "a@" ^ path_str (drop_last e.ev_path)
    | PObj -> "o@" ^ path_str (drop_last e.ev_path) in
  let ki = match e.ev_key with
    | KNone -> "-" | KKey k -> "k" ^ hex_of_bytes k | KIdx i -> "i" ^ string_of_z i in
  Printf.sprintf "%s %s %s %s %s" (path_str e.ev_path) (string_of_z e.ev_flags) parent ki (string_of_z e.ev_depth)

let show (calls, ret) = String.concat " | " (List.map ev_str calls @ ["ret " ^ string_of_z ret])

let run line =
  match split_on ' ' line with
  | [tree; sched] ->
    let v = Jvtext.jv_of_string tree in
    let codes = if sched = "-" then [||] else Array.of_list (List.map z_of_string (split_on ',' sched)) in
    (* the callback as a function of the history (newest first): the n-th call gets codes.(n-1) *)
    let userfunc hist = let n = List.length hist in if n - 1 < Array.length codes then codes.(n - 1) else Z0 in
    let model = show (json_c_visit userfunc v) in
    let spec = show (spec_visit userfunc v) in
    if model <> spec then "SPEC-MISMATCH " ^ model ^ " <> " ^ spec else model
  | _ -> failwith "visit line"

let () = register "visit" run
