(* drv_visit.ml — visitor domain (C17).  Line: "<tree in jvtext> <schedule>" where the
   schedule is "-" or a comma-separated list of ints: the value the callback returns for
   the 1st, 2nd, … call (0 = CONTINUE once it is exhausted); or a program of several
   traversals, see harness/drv_visit.c (then "T<i> …" segments joined by " || ", each step
   with a sixth token "own": the model has no way to hand a callback a foreign argument).
   Observation: one step per call, "<path> <flags> <parent> <key|index> <depth>", then
   "ret <r>".  path = "/" for the root, "/i/j" = j-th child of the i-th child of the root;
   runs of equal components are written once, "/0^1000/1";
   parent = "-" | "a@<path>" | "o@<path>"; key/index = "-" | "k<hex>" | "i<dec>". *)
open Model
open Util

(* paths are run-length encoded so that deep trees stay printable: "/0^1000/1" = 1000 times
   component 0, then 1 *)
let path_str p =
  if p = [] then "/" else begin
    let b = Buffer.create 64 in
    let flush v n = if n > 0 then begin
        Buffer.add_char b '/'; Buffer.add_string b (string_of_z v);
        if n > 1 then (Buffer.add_char b '^'; Buffer.add_string b (string_of_int n)) end in
    let rec go cur n = function
      | [] -> flush cur n
      | x :: t -> if n > 0 && x = cur then go cur (n + 1) t else (flush cur n; go x 1 t) in
    go Z0 0 p; Buffer.contents b
  end
let drop_last l = match List.rev l with [] -> [] | _ :: t -> List.rev t

(* a member name: "k<hex>" up to 32 bytes, else "K<length>.<FNV-1a 64>.<first 8 bytes>.<last 8 bytes>" *)
let key_str (k : z list) =
  let n = List.length k in
  if n <= 32 then "k" ^ hex_of_bytes k else begin
    let a = Array.of_list (List.map int_of_z k) in
    let h = ref 0xcbf29ce484222325L in
    Array.iter (fun b -> h := Int64.mul (Int64.logxor !h (Int64.of_int b)) 0x100000001b3L) a;
    let hex lo hi = String.concat "" (List.init (hi - lo) (fun i -> Printf.sprintf "%02x" a.(lo + i))) in
    Printf.sprintf "K%d.%016Lx.%s.%s" n !h (hex 0 8) (hex (n - 8) n)
  end

let ev_str e =
  let parent = match e.ev_parent with
    | PNone -> "-"
    | PArr -> "a@" ^ path_str (drop_last e.ev_path)
    | PObj -> "o@" ^ path_str (drop_last e.ev_path) in
  let ki = match e.ev_key with
    | KNone -> "-" | KKey k -> key_str k | KIdx i -> "i" ^ string_of_z i in
  Printf.sprintf "%s %s %s %s %s" (path_str e.ev_path) (string_of_z e.ev_flags) parent ki (string_of_z e.ev_depth)

let show (calls, ret) = String.concat " | " (List.rev (("ret " ^ string_of_z ret) :: List.rev_map ev_str calls))

(* the callback as a function of the history (newest first): the n-th call gets codes.(n-1).
   n = List.length hist; the length of the previous history is remembered so that the usual
   case (the history grew by one call) costs O(1) on large trees *)
let sched_callback codes =
  let last = ref ([], 0) in
  fun hist ->
    let n = match hist with
      | _ :: t when t == fst !last -> snd !last + 1
      | _ -> List.length hist in
    last := (hist, n);
    if n - 1 < Array.length codes then codes.(n - 1) else Z0

(* SCHED := CODES { "@f" INT | "@a" N }: the codes, the future_flags argument (default 0), the
   kind of user argument the C driver passes (no meaning for the model) *)
let sched_parts sched =
  match String.split_on_char '@' sched with
  | codes :: opts ->
    let ff = List.fold_left (fun acc o ->
        if String.length o > 1 && o.[0] = 'f' then z_of_string (String.sub o 1 (String.length o - 1)) else acc) Z0 opts in
    (codes, ff)
  | [] -> ("-", Z0)
let codes_of sched = let (c, _) = sched_parts sched in if c = "-" then [] else List.map z_of_string (split_on ',' c)
let ff_of sched = snd (sched_parts sched)

(* line := PROG { ";" PROG };  PROG := TREE SCHED { "(" K PROG ")" };  TREE "=" = the tree of the
   enclosing traversal *)
let rec parse_prog parent toks =
  match toks with
  | tree :: sched :: rest ->
    let v = if tree = "=" then (match parent with Some v -> v | None -> failwith "= at top level")
            else Jvtext.jv_of_string tree in
    let rec nested acc = function
      | "(" :: k :: rest ->
        let (q, rest) = parse_prog (Some v) rest in
        (match rest with ")" :: rest -> nested ((z_of_string k, q) :: acc) rest | _ -> failwith "visit: )")
      | rest -> (List.rev acc, rest) in
    let (ns, rest) = nested [] rest in
    (Prog (v, ff_of sched, codes_of sched, ns), rest)
  | _ -> failwith "visit line"

(* "@e PATH:OP & …": what the callback does, during the first call on the container at PATH, to that
   container (see harness/drv_visit.c).  json_visit.c looks at a container only after the first call
   on it, so the traversal is the traversal of the tree with the edits carried out: [settle]. *)
let edits_of sched =
  match List.filter (fun o -> String.length o > 0 && o.[0] = 'e') (List.tl (String.split_on_char '@' sched)) with
  | [] -> []
  | o :: _ ->
    List.filter_map (fun item ->
        match String.index_opt item ':' with
        | None -> None
        | Some i ->
          let path = String.sub item 0 i and op = String.sub item (i + 1) (String.length item - i - 1) in
          let comps = List.map int_of_string (List.filter (fun x -> x <> "") (String.split_on_char '/' path)) in
          Some (comps, op))
      (String.split_on_char '&' (String.sub o 1 (String.length o - 1)))

let key_and_value body =
  (* "<hexkey|->[=<jv>]" *)
  let i = try String.index body '=' with Not_found -> String.length body in
  let k = bytes_of_hex (String.sub body 0 i) in
  let v = if i < String.length body then Some (Jvtext.jv_of_string (String.sub body (i + 1) (String.length body - i - 1))) else None in
  (k, v)

let apply_op (v : jv) (op : string) : jv =
  let body = String.sub op 1 (String.length op - 1) in
  match v, op.[0] with
  | JArr l, 'd' -> let n = List.length l in let k = min (int_of_string body) n in JArr (List.filteri (fun i _ -> i < n - k) l)
  | JArr _, 'D' -> JArr []
  | JArr l, 'a' -> JArr (l @ [Jvtext.jv_of_string body])
  | JArr l, 'r' ->
    let i = String.index body '=' in
    let idx = int_of_string (String.sub body 0 i) in
    let nv = Jvtext.jv_of_string (String.sub body (i + 1) (String.length body - i - 1)) in
    if idx < List.length l then JArr (List.mapi (fun j x -> if j = idx then nv else x) l) else v
  | JObj l, 'A' ->
    (match key_and_value body with
     | (k, Some nv) ->
       if List.exists (fun (k', _) -> k' = k) l then JObj (List.map (fun (k', x) -> if k' = k then (k', nv) else (k', x)) l)
       else JObj (l @ [(k, nv)])
     | _ -> v)
  | JObj l, 'X' -> let (k, _) = key_and_value body in JObj (List.filter (fun (k', _) -> k' <> k) l)
  | _ -> v

let rec settle edits path (v : jv) : jv =
  let v = List.fold_left (fun v (p, op) -> if p = path then apply_op v op else v) v edits in
  match v with
  | JArr l -> JArr (List.mapi (fun i c -> settle edits (path @ [i]) c) l)
  | JObj l -> JObj (List.mapi (fun i (k, c) -> (k, settle edits (path @ [i]) c)) l)
  | _ -> v

module Str_find = struct
  let find (s : string) (sub : string) : int =
    let n = String.length s and m = String.length sub in
    let rec go i = if i + m > n then raise Not_found else if String.sub s i m = sub then i else go (i + 1) in
    go 0
end

let run line =
  match split_on ' ' line with
  | [tree; sched] ->
    let v = Jvtext.jv_of_string tree in
    let v = match edits_of sched with [] -> v | es -> settle es [] v in
    let userfunc = sched_callback (Array.of_list (codes_of sched)) in
    let model = show (json_c_visit_ff userfunc v (ff_of sched)) in
    (* the extracted reference traversal is run alongside as a cross-check of the glue (the
       theorem says they agree); skipped on the large size-family inputs to halve their cost *)
    let checked =
      if String.length tree > 1500 then model else
      let spec = show (spec_visit userfunc v) in
      if model <> spec then "SPEC-MISMATCH " ^ model ^ " <> " ^ spec else model in
    (* "PATH:S" edits (a container removes itself from its parent object during its second call) do not
       change which nodes are visited, only how later siblings are numbered: the model has no notion of
       positions changing under way, so the path and parent tokens are left open ("?") on such lines and
       judged by the plugin's reference alone *)
    if not (List.exists (fun (_, op) -> op = "S") (edits_of sched)) then checked else
    let rec split_steps str acc =
      match (try Some (Str_find.find str " | ") with Not_found -> None) with
      | None -> List.rev (str :: acc)
      | Some i -> split_steps (String.sub str (i + 3) (String.length str - i - 3)) (String.sub str 0 i :: acc) in
    String.concat " | " (List.map (fun step ->
        match String.split_on_char ' ' step with
        | [_; fl; _; ki; d] -> String.concat " " ["?"; fl; "?"; ki; d]
        | _ -> step) (split_steps checked []))
  | toks ->
    (* several traversals: the extracted [run_progs] *)
    let rec progs toks =
      let (p, rest) = parse_prog None toks in
      match rest with [] -> [p] | ";" :: rest -> p :: progs rest | _ -> failwith "visit: ;" in
    let ps = progs toks in
    let showp outs = String.concat " || " (List.mapi (fun i o ->
        Printf.sprintf "T%d %s" i (match o with
          | None -> "notrun"
          | Some (calls, ret) ->
            String.concat " | " (List.map (fun e -> ev_str e ^ " own") calls @ ["ret " ^ string_of_z ret]))) outs) in
    let model = showp (run_progs ps) in
    let spec = showp (List.concat_map spec_prog ps) in
    if model <> spec then "SPEC-MISMATCH " ^ model ^ " <> " ^ spec else model

let () = register "visit" run
