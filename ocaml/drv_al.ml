(* drv_al.ml — array-list domain (C07).  Line: "<mode> <alloc_limit> <initial_size> op;op;..."
   (mode d = array_list_* API, j = json_object_array_* API; the model is the same) with
   A<e> add, P<i>,<e> put_idx, I<i>,<e> insert_idx, D<i>,<c> del_idx, H<n> shrink, S sort,
   G<i> get_idx, B<e> bsearch, M<k>,<id0> k appends of id0, id0+1, ... (stops at the first
   refusal); S / R sort by the ascending / descending comparator, B<e> / C<e> bsearch by the
   ascending / descending comparator (key of member shape), K<k> / Q<k> bsearch with a bare-int
   key and the two-sorted key-vs-member comparator (prints f<value of the member found> or nf),
   V<i>,<v> in-place change of the value of element i (the
   array is not called).  A lower-case op letter is the same operation (in the implementation:
   through array_list_* on json_object_get_array(arr)).  <e> is a decimal id or n (NULL).
   Sequences (contents, released ids) are run-length encoded: "e", "e*k" (k copies, k >= 3),
   "e+k" (the k consecutive ids from e, k >= 3), "-" empty.
   Observation per step: "<ret> <length> <size> <released> <contents> <past-end-null>",
   after the last step "F <released by array_list_free>". *)
open Model
open Util

let parse_elt s = if s = "n" then None else Some (z_of_string s)
let elt_str = function None -> "n" | Some x -> string_of_z x
let one = z_of_int 1
let seq_str (l : z option list) =
  let a = Array.of_list l in
  let n = Array.length a in
  if n = 0 then "-" else begin
    let b = Buffer.create 256 in
    let i = ref 0 in
    while !i < n do
      let e = a.(!i) in
      let r = ref 1 in
      while !i + !r < n && a.(!i + !r) = e do incr r done;
      let s = ref 1 in
      (match e with
       | Some v0 ->
         let expect = ref (Z.add v0 one) in
         while !i + !s < n && a.(!i + !s) = Some !expect do incr s; expect := Z.add !expect one done
       | None -> ());
      if !i > 0 then Buffer.add_char b ',';
      Buffer.add_string b (elt_str e);
      if !r >= 3 then (Buffer.add_string b (Printf.sprintf "*%d" !r); i := !i + !r)
      else if !s >= 3 then (Buffer.add_string b (Printf.sprintf "+%d" !s); i := !i + !s)
      else incr i
    done;
    Buffer.contents b
  end
let ids_str l = seq_str (List.rev (List.rev_map (fun x -> Some x) l))

type op = Step of alop | Get of z | Bs of cmpsel * elt | Ks of cmpsel * z | Many of int * z

let parse_op s =
  let body = String.sub s 1 (String.length s - 1) in
  let two () = match String.split_on_char ',' body with [a; b] -> (a, b) | _ -> failwith "al args" in
  match Char.uppercase_ascii s.[0] with
  | 'A' -> Step (OAdd (parse_elt body))
  | 'P' -> let (i, e) = two () in Step (OPut (z_of_string i, parse_elt e))
  | 'I' -> let (i, e) = two () in Step (OInsert (z_of_string i, parse_elt e))
  | 'D' -> let (i, c) = two () in Step (ODel (z_of_string i, z_of_string c))
  | 'H' -> Step (OShrink (z_of_string body))
  | 'S' -> Step (OSort Asc)
  | 'R' -> Step (OSort Desc)
  | 'V' -> let (i, v) = two () in Step (OSetVal (z_of_string i, z_of_string v))
  | 'G' -> Get (z_of_string body)
  | 'B' -> Bs (Asc, parse_elt body)
  | 'C' -> Bs (Desc, parse_elt body)
  | 'K' -> Ks (Asc, z_of_string body)
  | 'Q' -> Ks (Desc, z_of_string body)
  | 'M' -> let (k, i) = two () in Many (int_of_string k, z_of_string i)
  | _ -> failwith "al op"

let size_max = z_of_string "18446744073709551615"

let obs a ret rel =
  let cells = al_cells a in
  let cs = seq_str (List.rev (List.rev_map (function Val e -> e | Undef -> Some (z_of_int (-1))) cells)) in
  let len = al_length a in
  let past = List.for_all (fun i -> al_get a i = GOk None) [len; Z.add len (z_of_int 1); size_max] in
  Printf.sprintf "%s %s %s %s %s %s" ret (string_of_z len) (string_of_z a.asize) (ids_str rel) cs
    (if past then "1" else "0")

let run line =
  match split_on ' ' line with
  | [_mode; limit; init; ops] ->
    let lim = z_of_string limit in
    let al n = Z.leb n lim in
    (match al_new2 al (z_of_string init) with
     | NFail -> "NEWFAIL"
     | NUB -> "UB"
     | NOk a0 ->
       let a = ref a0 in
       let out = ref [] in
       let ub = ref false in
       (try
         List.iter (fun s ->
           match parse_op s with
           | Step o ->
             (match al_step al !a o with
              | AOk (a', r, rel, _) -> a := a'; out := obs a' (string_of_z r) rel :: !out
              | AFail a' -> a := a'; out := obs a' "-1" [] :: !out
              | AUB -> out := "UB" :: !out; ub := true; raise Exit)
           | Many (k, id0) ->
             let r = ref "0" and id = ref id0 and j = ref 0 in
             while !j < k && !r = "0" do
               (match al_step al !a (OAdd (Some !id)) with
                | AOk (a', _, _, _) -> a := a'
                | AFail a' -> a := a'; r := "-1"
                | AUB -> out := "UB" :: !out; ub := true; raise Exit);
               id := Z.add !id one; incr j
             done;
             out := obs !a !r [] :: !out
           | Get i ->
             (match al_get !a i with
              | GOk e -> out := obs !a (elt_str e) [] :: !out
              | GUB -> out := "UB" :: !out; ub := true; raise Exit)
           | Ks (c, k) ->
             (match al_bsearch_km (cmp_km c) !a k with
              | Some (Some x) -> out := obs !a ("f" ^ elt_str x) [] :: !out
              | Some None -> out := obs !a "nf" [] :: !out
              | None -> out := "UB" :: !out; ub := true; raise Exit)
           | Bs (c, k) ->
             (match al_bsearch c !a k with
              | Some b -> out := obs !a (if b then "f" else "nf") [] :: !out
              | None -> out := "UB" :: !out; ub := true; raise Exit)) (split_on ';' ops)
       with Exit -> ());
       if not !ub then
         out := (match al_free !a with Some rel -> "F " ^ ids_str rel | None -> "UB") :: !out;
       String.concat " | " (List.rev !out))
  | _ -> failwith "al line"

let () = register "al" run
