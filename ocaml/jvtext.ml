(* jvtext.ml — the textual tree format shared by all drivers:
   n | t | f | i<dec> | u<dec> | d<16hex>[:<hextext>] | s<hex|-> | [v,v,…] | {<hexkey|->=v,…} *)
open Model
open Util

let parse_jv (s : string) (pos : int ref) : jv =
  let n = String.length s in
  let peek () = if !pos < n then s.[!pos] else '\000' in
  let take_while f = let st = !pos in while !pos < n && f s.[!pos] do incr pos done; String.sub s st (!pos - st) in
  let ishex c = (c >= '0' && c <= '9') || (c >= 'a' && c <= 'f') in
  let hexordash () = if peek () = '-' then (incr pos; []) else bytes_of_hex (take_while ishex) in
  let rec value () =
    let c = peek () in incr pos;
    match c with
    | 'n' -> JNull | 't' -> JBool true | 'f' -> JBool false
    | 'i' -> JInt (z_of_string (take_while (fun c -> c = '-' || (c >= '0' && c <= '9'))))
    | 'u' -> JUint (z_of_string (take_while (fun c -> c >= '0' && c <= '9')))
    | 'd' -> let h = take_while ishex in
             let bits = List.fold_left (fun acc b -> Z.add (Z.mul acc (z_of_int 256)) b) Z0 (bytes_of_hex h) in
             if peek () = ':' then (incr pos; JDouble (bits, Some (hexordash ()))) else JDouble (bits, None)
    | 's' -> JStr (hexordash ())
    | '[' -> if peek () = ']' then (incr pos; JArr []) else begin
               let items = ref [value ()] in
               while peek () = ',' do incr pos; items := value () :: !items done;
               if peek () <> ']' then failwith "jv: ]"; incr pos; JArr (List.rev !items) end
    | '{' -> if peek () = '}' then (incr pos; JObj []) else begin
               let member () = let k = hexordash () in if peek () <> '=' then failwith "jv: ="; incr pos; (k, value ()) in
               let items = ref [member ()] in
               while peek () = ',' do incr pos; items := member () :: !items done;
               if peek () <> '}' then failwith "jv: }"; incr pos; JObj (List.rev !items) end
    | _ -> failwith ("jv: bad char at " ^ string_of_int !pos)
  in value ()

let jv_of_string s = let p = ref 0 in parse_jv s p

let hex16 (z : z) =
  let b = Buffer.create 16 in
  let digs = "0123456789abcdef" in
  let a = ref z in
  let ds = Array.make 16 '0' in
  for i = 15 downto 0 do
    ds.(i) <- digs.[int_of_z (Z.modulo !a (z_of_int 16))]; a := Z.div !a (z_of_int 16)
  done;
  Array.iter (Buffer.add_char b) ds; Buffer.contents b

let rec string_of_jv (v : jv) : string =
  match v with
  | JNull -> "n" | JBool true -> "t" | JBool false -> "f"
  | JInt z -> "i" ^ string_of_z z | JUint z -> "u" ^ string_of_z z
  | JDouble (bits, None) -> "d" ^ hex16 bits
  | JDouble (bits, Some t) -> "d" ^ hex16 bits ^ ":" ^ hex_of_bytes t
  | JStr s -> "s" ^ hex_of_bytes s
  | JArr l -> "[" ^ String.concat "," (List.map string_of_jv l) ^ "]"
  | JObj l -> "{" ^ String.concat "," (List.map (fun (k, v) -> hex_of_bytes k ^ "=" ^ string_of_jv v) l) ^ "}"
