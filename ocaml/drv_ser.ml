(* drv_ser.ml — serializer domain (C02).  Line: "<tree in jvtext> <flags>,<flags>,... [<op>;<op>;...]"
   (the history operations and their steps are described in harness/drv_ser.c)
   Observation per flag value (steps separated by " | "):
     <text hex> <reported length> <equal(orig,reparsed) 0|1> <typed dump of the reparsed tree> <re-serialization hex>
   or  <text hex> <reported length> PARSEFAIL <err>   when the re-parse does not succeed.
   The %.17g oracle is OCaml's Printf on Int64.float_of_bits (the C library's printf);
   the strtod oracle of the re-parse is float_of_string. *)
open Model
open Util
open Jvtext

let z_of_int64_unsigned (x : int64) : z =
  let lo = Int64.to_int (Int64.logand x 0xFFFFFFFFL) and hi = Int64.to_int (Int64.shift_right_logical x 32) in
  Z.add (Z.mul (z_of_int hi) (z_of_string "4294967296")) (z_of_int lo)

let fmt17 (bits : z) : z list =
  let b = Int64.of_string ("0u" ^ string_of_z bits) in
  bytes_of_string (Printf.sprintf "%.17g" (Int64.float_of_bits b))

(* the libc oracle for any option format with one floating conversion: snprintf(buf, 128, f, d) in full *)
let fmtd (f : z list) (bits : z) : z list =
  let b = Int64.of_string ("0u" ^ string_of_z bits) in
  let fs = string_of_bytes f in
  bytes_of_string (Printf.sprintf (Scanf.format_from_string fs "%f") (Int64.float_of_bits b))

(* the option-format state: thread 0 is the serializing thread, 1 the helper that stays alive, 2.. the
   helpers that make one call and exit; thread-local storage is compiled into the harness build *)
let fstate = ref fmt_init
let next_tid = ref 2

(* custom serializers installed by P operations: (path, piece); cleared when a re-parse makes a fresh tree *)
let pieces : (nat list * z list) list ref = ref []

(* the piece a P operation's serializer prints (what the printf-family calls of harness/drv_ser.c produce) *)
let piece_of (mode : char) (n : int) (tag : string) : string =
  match mode with
  | 'q' | 'm' | 'c' -> "\"" ^ tag ^ "\""
  | 'd' -> "1" ^ Printf.sprintf "%0*d" n 7
  | 's' -> String.make (max n 0) ' ' ^ "true"
  | _ -> failwith "piece mode"

(* json_object_to_json_string_length in the serializing thread *)
let ser_len ?(fresh = false) (fz : z) (v : jv) : z list * z =
  (* fresh: a tree that just came out of the parser carries no custom serializer *)
  let v = if fresh || !pieces = [] then v else with_pieces (List.rev !pieces) v in
  match effective !fstate Z0 with
  | None -> to_json_string_length fmt17 fz v
  | Some f -> let t = serialize_in fmt17 fmtd (Some f) (flags_of fz) O v in (t, z_of_int (List.length t))

let strtod_bits (bs : z list) : z =
  let s = string_of_bytes bs in
  let f = try float_of_string s with _ -> nan in
  let bits = Int64.bits_of_float f in
  if f <> f then z_of_string "9221120237041090560" else z_of_int64_unsigned bits

let err_name = function
  | TE_success -> "success" | TE_continue -> "continue" | TE_depth -> "depth" | TE_eof -> "eof"
  | TE_unexpected -> "unexpected" | TE_null -> "null" | TE_boolean -> "boolean" | TE_number -> "number"
  | TE_array -> "array" | TE_object_key_name -> "object_key_name" | TE_object_key_sep -> "object_key_sep"
  | TE_object_value_sep -> "object_value_sep" | TE_string -> "string" | TE_comment -> "comment"
  | TE_utf8 -> "utf8" | TE_size -> "size" | TE_memory -> "memory"

(* glue, not model: remove the colour sequences ESC [ ... m (same loop as harness/drv_ser.c) *)
let strip_color (l : z list) : z list =
  let a = Array.of_list (List.map int_of_z l) in
  let n = Array.length a in
  let get i = if i < n then a.(i) else 0 in
  let out = ref [] in
  let i = ref 0 in
  while !i < n do
    let skipped =
      if get !i = 27 && get (!i + 1) = 91 then begin
        let k = ref (!i + 2) in
        while get !k = 59 || (get !k >= 48 && get !k <= 57) do incr k done;
        if get !k = 109 then (i := !k + 1; true) else false
      end else false in
    if not skipped then (out := z_of_int a.(!i) :: !out; incr i)
  done;
  List.rev !out

let one (v : jv) (flags : string) : string =
  let fz = z_of_string flags in
  let (text, len) = ser_len fz v in
  let head = Printf.sprintf "%s %s" (hex_of_bytes text) (string_of_z len) in
  match tok_new (z_of_int 32) false false false with
  | None -> head ^ " NEWFAIL"
  | Some t ->
    let body = if (int_of_string flags) land 32 <> 0 then strip_color text else text in
    (match parse_ex_cstr strtod_bits t body with
     | PRFuel -> head ^ " FUEL"
     | PR (t', None) -> Printf.sprintf "%s PARSEFAIL %s" head (err_name t'.err)
     | PR (_, Some v') ->
       let (text', _) = ser_len ~fresh:true fz v' in
       Printf.sprintf "%s %s %s %s" head (if jv_equal v v' then "1" else "0") (string_of_jv v') (hex_of_bytes text'))

(* "@" or "i.j.k" at the start of s; returns (path, rest of s) *)
let parse_path (s : string) : int list * string =
  if String.length s > 0 && s.[0] = '@' then ([], String.sub s 1 (String.length s - 1))
  else begin
    let n = String.length s in
    let i = ref 0 in
    while !i < n && (s.[!i] = '.' || (s.[!i] >= '0' && s.[!i] <= '9')) do incr i done;
    let comps = String.split_on_char '.' (String.sub s 0 !i) in
    (List.map int_of_string comps, String.sub s !i (n - !i))
  end

let nat_path p = List.map nat_of_int p
let rec split_last = function
  | [] -> failwith "path" | [x] -> ([], x) | x :: r -> let (a, l) = split_last r in (x :: a, l)

exception Stop of string

(* one history operation on (tree, aside); R steps are appended to out *)
let apply_op (op : string) (t : jv) (aside : jv option) (out : string list ref) : jv * jv option =
  let body = String.sub op 1 (String.length op - 1) in
  let after_eq rest = if String.length rest > 0 && rest.[0] = '=' then String.sub rest 1 (String.length rest - 1) else raise (Stop "BADOP") in
  match op.[0] with
  | 'C' -> (hop_apply HCopy t, aside)
  | 'K' -> (hop_apply HCopy t, Some t)
  | 'R' ->
    let (text, _) = ser_len (z_of_string body) t in
    let body_txt = if (int_of_string body) land 32 <> 0 then strip_color text else text in
    (match tok_new (z_of_int 32) false false false with
     | None -> raise (Stop "R NEWFAIL")
     | Some tk ->
       (match parse_ex_cstr strtod_bits tk body_txt with
        | PR (_, Some v') -> out := ("R " ^ hex_of_bytes text) :: !out; pieces := []; (v', aside)
        | PR (t', None) -> raise (Stop (Printf.sprintf "R %s PARSEFAIL %s" (hex_of_bytes text) (err_name t'.err)))
        | PRFuel -> raise (Stop "R FUEL")))
  | 'D' -> let (p, rest) = parse_path body in
    let h = after_eq rest in
    let bits = List.fold_left (fun acc b -> Z.add (Z.mul acc (z_of_int 256)) b) Z0 (bytes_of_hex h) in
    (hop_apply (HSetDouble (nat_path p, bits)) t, aside)
  | 'I' -> let (p, rest) = parse_path body in (hop_apply (HSetInt64 (nat_path p, z_of_string (after_eq rest))) t, aside)
  | 'U' -> let (p, rest) = parse_path body in (hop_apply (HSetUint64 (nat_path p, z_of_string (after_eq rest))) t, aside)
  | 'B' -> let (p, rest) = parse_path body in (hop_apply (HSetBoolean (nat_path p, after_eq rest = "1")) t, aside)
  | 'T' -> let (p, rest) = parse_path body in (hop_apply (HSetString (nat_path p, bytes_of_hex (after_eq rest))) t, aside)
  | 'P' -> let (p, rest) = parse_path body in
    let a = after_eq rest in
    (match String.split_on_char ',' a with
     | [m; n; h] when String.length m = 1 ->
       let tag = string_of_bytes (bytes_of_hex h) in
       pieces := (nat_path p, bytes_of_string (piece_of m.[0] (int_of_string n) tag)) :: !pieces;
       (* set_serializer replaces the userdata: a double's retained text is gone *)
       (hop_apply (HResetSerializer (nat_path p)) t, aside)
     | _ -> raise (Stop "BADOP"))
  | 'F' ->
    if String.length op < 5 || op.[3] <> '=' then raise (Stop "BADOP");
    let tid = (match op.[1] with 'm' -> Z0 | 'p' -> z_of_int 1 | 'h' -> let n = !next_tid in incr next_tid; z_of_int n | _ -> raise (Stop "BADOP")) in
    let scope = (match op.[2] with 'g' -> Z0 | 't' -> z_of_int 1 | _ -> z_of_int 7) in
    let arg = String.sub op 4 (String.length op - 4) in
    let fmt = if arg = "~" then None else Some (bytes_of_hex arg) in
    let (st', rc) = set_format true !fstate tid fmt scope in
    fstate := st';
    out := ("F " ^ string_of_z rc) :: !out;
    (t, aside)
  | 'Z' | 'Y' -> let (p, rest) = parse_path body in ignore (after_eq rest); (hop_apply (HResetSerializer (nat_path p)) t, aside)
  | 'G' -> let (p, rest) = parse_path body in ignore (after_eq rest);
    (* only a double takes the format serializer; on a double the net effect is the reset *)
    (hop_apply (HResetSerializer (nat_path p)) t, aside)
  | 'W' -> let (p, rest) = parse_path body in ignore (after_eq rest); (hop_apply (HSetUserdata (nat_path p)) t, aside)
  | 'A' -> let (p, rest) = parse_path body in
    if String.length rest = 0 || rest.[0] <> ':' then raise (Stop "BADOP");
    if p = [] then (t, aside) else
    let c = jv_of_string (String.sub rest 1 (String.length rest - 1)) in
    let (parent, i) = split_last p in
    (hop_apply (HReplace (nat_path parent, nat_of_int i, c)) t, aside)
  | 'X' -> let (p, _) = parse_path body in
    if p = [] then (t, aside) else
    let (parent, i) = split_last p in
    (hop_apply (HDelete (nat_path parent, nat_of_int i)) t, aside)
  | _ -> raise (Stop "BADOP")

let run line =
  match split_on ' ' line with
  | tree :: flags :: rest ->
    fstate := fmt_init; next_tid := 2; pieces := [];
    let v0 = jv_of_string tree in
    let steps = ref [] in
    let v =
      match rest with
      | [] -> v0
      | ops :: _ ->
        let t = ref v0 and aside = ref None in
        (try List.iter (fun op -> let (t', a') = apply_op op !t !aside steps in t := t'; aside := a') (split_on ';' ops)
         with Stop msg -> steps := msg :: !steps);
        steps := ("tree " ^ string_of_jv !t) :: !steps;
        (match !aside with Some a -> steps := ("aside " ^ string_of_jv a) :: !steps | None -> ());
        !t in
    String.concat " | " (List.rev !steps @ List.map (one v) (split_on ',' flags))
  | _ -> failwith "ser line"

let () = register "ser" run
