(* util.ml — hand-written glue shared by the model drivers: conversions between OCaml
   ints/strings and the extracted Z/list types, script tokenising, registry. *)
open Model

let rec pos_of_int n = if n = 1 then XH else if n land 1 = 0 then XO (pos_of_int (n lsr 1)) else XI (pos_of_int (n lsr 1))
let z_of_int n = if n = 0 then Z0 else if n > 0 then Zpos (pos_of_int n) else Zneg (pos_of_int (-n))
let rec int_of_pos = function XH -> 1 | XO p -> 2 * int_of_pos p | XI p -> 2 * int_of_pos p + 1
let int_of_z = function Z0 -> 0 | Zpos p -> int_of_pos p | Zneg p -> - (int_of_pos p)

(* decimal strings of arbitrary size <-> Z, through the extracted arithmetic *)
let z10 = z_of_int 10
let z_of_string s =
  let neg = String.length s > 0 && s.[0] = '-' in
  let start = if neg || (String.length s > 0 && s.[0] = '+') then 1 else 0 in
  let acc = ref Z0 in
  for i = start to String.length s - 1 do
    acc := Z.add (Z.mul !acc z10) (z_of_int (Char.code s.[i] - 48))
  done;
  if neg then Z.opp !acc else !acc
let string_of_z z =
  match z with
  | Z0 -> "0"
  | _ ->
    let neg = (match z with Zneg _ -> true | _ -> false) in
    let a = ref (Z.abs z) in
    let b = Buffer.create 24 in
    while !a <> Z0 do
      let q = Z.div !a z10 and r = Z.modulo !a z10 in
      Buffer.add_char b (Char.chr (48 + int_of_z r)); a := q
    done;
    let s = Buffer.contents b in
    let n = String.length s in
    (if neg then "-" else "") ^ String.init n (fun i -> s.[n - 1 - i])

let rec nat_of_int n = if n <= 0 then O else S (nat_of_int (n - 1))
let rec int_of_nat = function O -> 0 | S n -> 1 + int_of_nat n

let hexval c = match c with
  | '0'..'9' -> Char.code c - 48 | 'a'..'f' -> Char.code c - 87 | 'A'..'F' -> Char.code c - 55
  | _ -> failwith "bad hex"
(* "-" denotes the empty byte string *)
let bytes_of_hex s : z list =
  if s = "-" then [] else
  let n = String.length s / 2 in
  List.init n (fun i -> z_of_int (hexval s.[2*i] * 16 + hexval s.[2*i+1]))
let hex_of_bytes (l : z list) =
  if l = [] then "-" else
  String.concat "" (List.map (fun b -> Printf.sprintf "%02x" (int_of_z b)) l)
let string_of_bytes (l : z list) = String.init (List.length l) (fun i -> Char.chr (int_of_z (List.nth l i)))
let bytes_of_string s : z list = List.init (String.length s) (fun i -> z_of_int (Char.code s.[i]))

let split_on c s = String.split_on_char c s |> List.filter (fun x -> x <> "")

let errno_name = function
  | E_NONE -> "0" | EFBIG -> "EFBIG" | ENOMEM -> "ENOMEM" | EINVAL -> "EINVAL" | ENOENT -> "ENOENT"
  | ERANGE -> "ERANGE" | ENOSPC -> "ENOSPC" | EOTHER -> "EOTHER"

(* domain registry: domain name -> (rest-of-line -> observation string) *)
let registry : (string, string -> string) Hashtbl.t = Hashtbl.create 16
let register name f = Hashtbl.replace registry name f
