(* drv_num.ml — numeric accessors and mutators (C10).
   Line: "<node> <strtod> <op>;<op>;…"
     node    a tree in the jvtext format (n t f i<dec> u<dec> d<16hex>[:<hex>] s<hex|-> […] {…})
     strtod  "-" or "<16hex>,<consumed>,<0|1>": what libc strtod answers on the string node's bytes
             (bits of the result, end - start, ERANGE set) — the oracle argument of get_double
     op      gb gi gl gu gd                 get_boolean / get_int / get_int64 / get_uint64 / get_double
             si<dec> sl<dec> su<dec>        set_int / set_int64 / set_uint64
             sd<16hex> sb<0|1>              set_double (bits) / set_boolean
             in<dec>                        json_object_int_inc
             an op may be prefixed with "@<c>": errno is preset to c = 0 | R (ERANGE) | I (EINVAL) | M (ENOMEM) |
             X (a large value, printed EOTHER) immediately before the call instead of being cleared
   Observation per op (errno cleared, or preset by "@<c>", before each call):
     accessor: "<value> <errno>"   (gd: 16 hex digits of the bits, every NaN as 7ff8000000000000)
     mutator:  "<ret> <errno> <node>"  with the node in the jvtext format (containers as A<n> / O<n>)
   "UB" ends the line at the op where the model reaches undefined behaviour. *)
open Model
open Util

let bits_of_hex h = List.fold_left (fun acc b -> Z.add (Z.mul acc (z_of_int 256)) b) Z0 (bytes_of_hex h)
let dbl_hex bits = match decode bits with DNaN -> "7ff8000000000000" | _ -> Jvtext.hex16 bits

let body s = String.sub s 2 (String.length s - 2)
let parse_op s =
  match String.sub s 0 2 with
  | "gb" -> GBool | "gi" -> GInt | "gl" -> GInt64 | "gu" -> GUint64 | "gd" -> GDouble
  | "si" -> SInt (z_of_string (body s))
  | "sl" -> SInt64 (z_of_string (body s))
  | "su" -> SUint64 (z_of_string (body s))
  | "sd" -> SDouble (bits_of_hex (body s))
  | "sb" -> SBool (body s <> "0")
  | "in" -> Inc (z_of_string (body s))
  | _ -> failwith "num op"

let ndump (v : jv) =
  match v with
  | JDouble (bits, None) -> "d" ^ dbl_hex bits
  | JDouble (bits, Some t) -> "d" ^ dbl_hex bits ^ ":" ^ hex_of_bytes t
  | JArr l -> "A" ^ string_of_int (List.length l)
  | JObj l -> "O" ^ string_of_int (List.length l)
  | _ -> Jvtext.string_of_jv v

let run line =
  match split_on ' ' line with
  | [node; orc; ops] ->
    let o = ref (Jvtext.jv_of_string node) in
    let strtod =
      if orc = "-" then (fun _ -> ((Z0, Z0), false))
      else match String.split_on_char ',' orc with
        | [h; n; e] -> let r = ((bits_of_hex h, z_of_string n), e <> "0") in (fun _ -> r)
        | _ -> failwith "num strtod" in
    let out = ref [] in
    (try
      List.iter (fun s ->
        let (e0, s) =
          if String.length s > 2 && s.[0] = '@' then
            ((match s.[1] with '0' -> E_NONE | 'R' -> ERANGE | 'I' -> EINVAL | 'M' -> ENOMEM | 'X' -> EOTHER | _ -> failwith "num preset"),
             String.sub s 2 (String.length s - 2))
          else (E_NONE, s) in
        let op = parse_op s in
        let (ob, o') = num_step strtod e0 !o op in
        o := o';
        match ob with
        | OGet (v, e) ->
          let vs = (match op with GDouble -> dbl_hex v | _ -> string_of_z v) in
          out := (vs ^ " " ^ errno_name e) :: !out
        | OSet (r, e) -> out := (string_of_z r ^ " " ^ errno_name e ^ " " ^ ndump o') :: !out
        | OUB -> out := "UB" :: !out; raise Exit) (split_on ';' ops)
    with Exit -> ());
    String.concat " | " (List.rev !out)
  | _ -> failwith "num line"

let () = register "num" run
