(* drv_thr.ml — C18 model driver.  The model observation of a runtime case is what the
   theorems predict for EVERY schedule; here it is computed by actually running the extracted
   interleaving model (with the regenerated ThreadImpl.impl) on the same per-thread programs
   under one fine-grained round-robin schedule.

   Lines (see harness/drv_thr.c for the implementation side):
     rc <N> <K> <M> <mode> <L> <seed>    N workers x K get/put on M shared nodes;
                                          mode = join | race | hand ; L extra references kept by main
     cont <N> <K> <op> <C> <seed>        a node's count changed by container paths in one thread (C times)
                                          while N workers get/put it directly
     last <N> <R> <seed>                 R rounds: N threads release the N (= all) references of a node together
     iso <N> <iters> <size> <seed>       N threads on disjoint objects exercising library-internal state
     sched all                           exhaustive schedules of small configurations (model side only)
     seed <N> <R> <keyhex>               N threads race on the first use of the key hash, R later uses each
     seedx <N> <R> <keyhex> <draws>      the same with the first results of the random source scripted
     trees <N> <size> <seed>             N threads on disjoint trees
   Observation: "<kind> k=v ... volrd ?"  (volrd = a tolerated TSan report class was seen;
   the model has no opinion: wildcard). *)
open Model
open Util

let lcg x = (x * 1103515245 + 12345) land 0x7fffffff

(* the program of worker i as a generator (identical arithmetic in harness/drv_thr.c); the
   glue feeds it to the model thread in pieces so that long programs never sit in memory *)
let worker_gen ~n_nodes ~k ~seed ~hand i : unit -> call option =
  let x = ref ((seed * 1000003 + i * 7919 + 1) land 0x7fffffff) in
  let held = Array.make n_nodes (if hand && i = 0 then 2 else 1) in
  let done_k = ref 0 and fin = ref 0 in
  fun () ->
    if !done_k < k then begin
      incr done_k;
      x := lcg !x;
      let m = (!x lsr 8) mod n_nodes in
      x := lcg !x;
      let r = (!x lsr 16) land 3 in
      let get = if held.(m) <= 1 then true else if held.(m) >= 6 then false else r < 2 in
      if get then (held.(m) <- held.(m) + 1; Some (Get (nat_of_int m)))
      else (held.(m) <- held.(m) - 1; Some (Put (nat_of_int m)))
    end else begin
      while !fin < n_nodes && held.(!fin) = 0 do incr fin done;
      if !fin >= n_nodes then None
      else (held.(!fin) <- held.(!fin) - 1; Some (Put (nat_of_int !fin)))
    end

let list_gen (l : call list) : unit -> call option =
  let r = ref l in
  fun () -> match !r with [] -> None | c :: t -> r := t; Some c

let table n f = let a = Array.init n f in fun (k : nat) -> let i = int_of_nat k in if i < n then a.(i) else Z0

(* run with compaction: the glue folds the trace into counters and re-tabulates the
   function-valued fields now and then, so that long runs stay small *)
type acc = { mutable destroyed : int array; mutable hashes_rev : (int * z) list; mutable installs : int;
             base : cell -> z   (* the initial memory: value of the cells the run never writes *) }

let fold_trace acc st =
  List.iter (function
      | EvDestroy (_, n) -> let i = int_of_nat n in acc.destroyed.(i) <- acc.destroyed.(i) + 1
      | EvHash (t, v) -> acc.hashes_rev <- (int_of_nat t, v) :: acc.hashes_rev
      | EvInstall (_, Seed, _, _) -> acc.installs <- acc.installs + 1
      | _ -> ()) (List.rev st.trace)

let refill gens st =
  { st with thr = List.mapi (fun i th ->
      if i < Array.length gens && th.prog = [] then begin
        let rec take n = if n = 0 then [] else match gens.(i) () with None -> [] | Some c -> c :: take (n - 1) in
        { th with prog = take 256 }
      end else th) st.thr }

let compact acc n_nodes st =
  fold_trace acc st;
  let vals = Array.init n_nodes (fun i -> st.mem (RC (nat_of_int i))) in
  let sd = st.mem Seed in
  let base = acc.base in      (* (do not capture [st]: that would keep every old state alive) *)
  let mem = function RC k -> let i = int_of_nat k in if i < n_nodes then vals.(i) else base (RC k) | Seed -> sd in
  let thr = List.map (fun th -> { th with held = table n_nodes (fun i -> th.held (nat_of_int i)) }) st.thr in
  { st with mem = mem; thr = thr; trace = [] }

let default_rnd (i : nat) = z_of_int (int_of_nat i + 12345)

(* scripted draws "v,v,xK,...": then the default source *)
let rnd_of_script (s : string) : nat -> z =
  let l = ref [] in
  List.iter (fun tok ->
      if String.length tok > 0 && tok.[0] = 'x' then begin
        match !l with
        | last :: _ -> for _ = 1 to int_of_string (String.sub tok 1 (String.length tok - 1)) do l := last :: !l done
        | [] -> ()
      end else l := int_of_string tok :: !l) (String.split_on_char ',' s);
  let a = Array.of_list (List.rev !l) in
  fun i -> let k = int_of_nat i in if k < Array.length a then z_of_int a.(k) else default_rnd i

let all_done st ids = List.for_all (fun i -> thread_done (List.nth st.thr i)) ids

(* round-robin over the given thread ids, one micro-step each, until all of them are done *)
let run_rr ?(gens = [||]) ?(rnd = default_rnd) acc n_nodes st ids =
  let st = ref (refill gens st) in
  let steps = ref 0 and last = ref 0 in
  let sched = List.map nat_of_int ids in
  while (if all_done !st ids then (st := refill gens !st; not (all_done !st ids)) else true) do
    st := run impl rnd !st sched;
    steps := !steps + List.length ids;
    (* compact often: everything allocated since the last compaction then dies in the minor heap *)
    if !steps - !last >= 256 then (last := !steps; st := refill gens (compact acc n_nodes !st))
  done;
  compact acc n_nodes !st

let run_rc n k m mode l seed =
  let hand = (mode = "hand") in
  let gens = Array.init n (fun i -> worker_gen ~n_nodes:m ~k ~seed ~hand i) in
  let workers = List.init n (fun i -> ([], table m (fun _ -> z_of_int (if hand && i = 0 then 2 else 1)))) in
  let all_nodes f = List.concat (List.init m f) in
  let main_conc = ((if mode = "race" then all_nodes (fun j -> [Put (nat_of_int j)]) else []),
                   table m (fun _ -> z_of_int (if mode = "race" then 1 else 0))) in
  let exp = l + (if mode = "join" then 1 else 0) in
  let main_post = (all_nodes (fun j -> List.init exp (fun _ -> Put (nat_of_int j))), table m (fun _ -> z_of_int exp)) in
  let rc0 = table m (fun _ -> z_of_int (n + 1 + l)) in
  let st = init_state rc0 (workers @ [main_conc; main_post]) in
  let acc = { destroyed = Array.make m 0; hashes_rev = []; installs = 0; base = st.mem } in
  let st = run_rr ~gens acc m st (List.init (n + 1) (fun i -> i)) in
  (* after the join *)
  let lost = ref 0 and early = ref 0 in
  for j = 0 to m - 1 do
    if exp > 0 then begin
      if acc.destroyed.(j) > 0 then incr early;
      lost := !lost + abs (int_of_z (st.mem (RC (nat_of_int j))) - exp)
    end else if acc.destroyed.(j) <> 1 then incr early
  done;
  let _ = run_rr acc m st [n + 1] in
  let d = Array.fold_left (+) 0 acc.destroyed in
  Printf.sprintf "rc nodes=%d destroyed=%d early=%d lost=%d put1=%d volrd ?" m d !early !lost d

(* cont: for the count of the member node the container paths are a get (the reference handed
   to the container) and a put (the container releasing it) by the container's owner *)
let run_cont n k c seed =
  let joined = ref false and left = ref c and phase = ref 0 and fin = ref false in
  let zero = nat_of_int 0 in
  let main_gen () =
    if !left > 0 then begin
      if !phase = 0 then (phase := 1; Some (Get zero)) else (phase := 0; decr left; Some (Put zero))
    end else if !joined && not !fin then (fin := true; Some (Put zero))
    else None in
  let gens = Array.init (n + 1) (fun i -> if i < n then worker_gen ~n_nodes:1 ~k ~seed ~hand:false i else main_gen) in
  let ths = List.init (n + 1) (fun _ -> ([], table 1 (fun _ -> z_of_int 1))) in
  let st = init_state (table 1 (fun _ -> z_of_int (n + 1))) ths in
  let acc = { destroyed = Array.make 1 0; hashes_rev = []; installs = 0; base = st.mem } in
  let st = run_rr ~gens acc 1 st (List.init (n + 1) (fun i -> i)) in
  let early = if acc.destroyed.(0) > 0 then 1 else 0 in
  let lost = abs (int_of_z (st.mem (RC zero)) - 1) in
  joined := true;
  let _ = run_rr ~gens acc 1 st [n] in
  Printf.sprintf "cont destroyed=%d early=%d lost=%d put1=%d volrd ?" acc.destroyed.(0) early lost acc.destroyed.(0)

(* last: R rounds, every round N threads own the N references of a fresh node and release them *)
let run_last n r =
  let zero = nat_of_int 0 in
  let d = ref 0 and bad = ref 0 in
  for _ = 1 to r do
    let ths = List.init n (fun _ -> ([Put zero], table 1 (fun _ -> z_of_int 1))) in
    let st = init_state (table 1 (fun _ -> z_of_int n)) ths in
    let acc = { destroyed = Array.make 1 0; hashes_rev = []; installs = 0; base = st.mem } in
    let _ = run_rr acc 1 st (List.init n (fun i -> i)) in
    d := !d + acc.destroyed.(0);
    if acc.destroyed.(0) <> 1 then incr bad
  done;
  Printf.sprintf "last rounds=%d destroyed=%d put1=%d bad=%d volrd ?" r !d !d !bad

(* sched: exhaustive exploration of ALL schedules of small configurations with the regenerated
   programs; the clauses of C18_refcount_all_schedules / C18_seed_once are evaluated in every
   reachable state.  A counterexample is printed with its schedule. *)
exception Found of string

let explore name rc0 (ths : (call list * int) list) (rnd : nat -> z) (check : state -> bool -> string option) =
  let n = List.length ths in
  let st0 = init_state (fun _ -> z_of_int rc0) (List.map (fun (p, h) -> (p, table 1 (fun _ -> z_of_int h))) ths) in
  let rec go st sched =
    let live = List.filter (fun i -> not (thread_done (List.nth st.thr i))) (List.init n (fun i -> i)) in
    (match check st (live = []) with
     | Some what ->
       raise (Found (Printf.sprintf "%s schedule=%s %s" name (String.concat "," (List.rev_map string_of_int sched)) what))
     | None -> ());
    List.iter (fun i -> go (step impl rnd st (nat_of_int i)) (i :: sched)) live in
  go st0 []

let count_calls f ths = List.fold_left (fun a (p, _) -> a + List.length (List.filter f p)) 0 ths

let check_rc rc0 ths st fin =
  let zero = nat_of_int 0 in
  let rc = int_of_z (st.mem (RC zero)) and d = int_of_z (destroy_count zero st.trace) in
  let g = count_calls (function Get _ -> true | _ -> false) ths and p = count_calls (function Put _ -> true | _ -> false) ths in
  if d > 1 then Some (Printf.sprintf "destroyed=%d" d)
  else if d = 1 && rc <> 0 then Some (Printf.sprintf "destroyed-while-count=%d" rc)
  else if fin && rc <> rc0 + g - p then Some (Printf.sprintf "final-count=%d expected=%d" rc (rc0 + g - p))
  else if fin && d <> (if rc = 0 then 1 else 0) then Some (Printf.sprintf "final-count=%d destroyed=%d" rc d)
  else None

let check_seed st _fin =
  let hs = hashes st.trace and ins = installs st.trace in
  if List.length ins > 1 then Some (Printf.sprintf "installs=%d" (List.length ins))
  else match hs with
    | [] -> None
    | h :: _ -> if List.for_all (fun v -> v = h) hs then None
      else Some ("hashes=" ^ String.concat "/" (List.map string_of_z hs))

let run_sched () =
  let z = nat_of_int 0 in
  let rc_cfgs = [
    ("put2", 2, [([Put z], 1); ([Put z], 1)]);
    ("put3", 3, [([Put z], 1); ([Put z], 1); ([Put z], 1)]);
    ("get2", 2, [([Get z], 1); ([Get z], 1)]);
    ("getput", 2, [([Get z; Put z; Put z], 1); ([Put z], 1)]);
    ("getput2", 2, [([Get z; Put z], 1); ([Get z; Put z], 1)]) ] in
  let sentinel_first = rnd_of_script "-1,5,6,7" in
  try
    List.iter (fun (name, rc0, ths) -> explore name rc0 ths default_rnd (check_rc rc0 ths)) rc_cfgs;
    explore "seed2" 1 [([Hash], 0); ([Hash; Hash], 0)] sentinel_first check_seed;
    explore "seed2b" 1 [([Hash], 0); ([Hash], 0)] default_rnd check_seed;
    "sched ok volrd ?"
  with Found w -> "sched VIOLATED " ^ w ^ " volrd ?"

let run_seed ?(rnd = default_rnd) n r =
  let hs k = List.init k (fun _ -> Hash) in
  let ths = List.init n (fun _ -> (hs (1 + r), (fun _ -> Z0))) @ [(hs 1, (fun _ -> Z0))] in
  let st = init_state (fun _ -> Z0) ths in
  let acc = { destroyed = [||]; hashes_rev = []; installs = 0; base = st.mem } in
  let st = run_rr ~rnd acc 0 st (List.init n (fun i -> i)) in
  let _ = run_rr ~rnd acc 0 st [n] in
  let hashes = List.rev acc.hashes_rev in            (* chronological (thread, value) *)
  let first t = List.assoc t hashes in
  let distinct = List.length (List.sort_uniq compare (List.map snd hashes)) in
  let hmain = first n in
  let found = List.length (List.filter (fun t -> first t = hmain) (List.init n (fun i -> i))) in
  let late = List.length (List.filter (fun (t, v) -> v <> first t) hashes) in
  ignore acc.installs;
  Printf.sprintf "seed distinct=%d found=%d late=%d volrd ?" distinct found late

let run_trees n =
  let own i = fun (k : nat) -> if int_of_nat k = i then z_of_int 1 else Z0 in
  let ths = List.init n (fun i -> let x = nat_of_int i in ([Hash; Get x; Put x; Put x], own i)) in
  let st = init_state (fun _ -> z_of_int 1) ths in
  let acc = { destroyed = Array.make n 0; hashes_rev = []; installs = 0; base = st.mem } in
  let st = run_rr acc n st (List.init n (fun i -> i)) in
  let same = ref 0 in
  for i = 0 to n - 1 do
    if acc.destroyed.(i) = 1 && st.mem (RC (nat_of_int i)) = Z0 then incr same
  done;
  Printf.sprintf "trees same=%d destroyed=%d volrd ?" !same (Array.fold_left (+) 0 acc.destroyed)

(* iso: no object is shared; in the model every thread works on its own node (and hashes) *)
let run_iso n =
  let own i = fun (k : nat) -> if int_of_nat k = i then z_of_int 1 else Z0 in
  let ths = List.init n (fun i -> let x = nat_of_int i in ([Hash; Get x; Get x; Put x; Hash; Put x; Put x], own i)) in
  let st = init_state (fun _ -> z_of_int 1) ths in
  let acc = { destroyed = Array.make n 0; hashes_rev = []; installs = 0; base = st.mem } in
  let st = run_rr acc n st (List.init n (fun i -> i)) in
  let diff = ref 0 in
  for i = 0 to n - 1 do
    if not (acc.destroyed.(i) = 1 && st.mem (RC (nat_of_int i)) = Z0) then incr diff
  done;
  if List.length (List.sort_uniq compare (List.map snd acc.hashes_rev)) > 1 then incr diff;
  Printf.sprintf "iso threads=%d diff=%d volrd ?" n !diff

let run line =
  match split_on ' ' line with
  | ["rc"; n; k; m; mode; l; seed] ->
    run_rc (int_of_string n) (int_of_string k) (int_of_string m) mode (int_of_string l) (int_of_string seed)
  | ["cont"; n; k; _op; c; seed] -> run_cont (int_of_string n) (int_of_string k) (int_of_string c) (int_of_string seed)
  | ["last"; n; r; _seed] -> run_last (int_of_string n) (int_of_string r)
  | "sched" :: _ -> run_sched ()
  | ["iso"; n; _iters; _size; _seed] -> run_iso (int_of_string n)
  | ["seed"; n; r; _key] -> run_seed (int_of_string n) (int_of_string r)
  | ["seedx"; n; r; _key; dr] -> run_seed ~rnd:(rnd_of_script dr) (int_of_string n) (int_of_string r)
  | ["trees"; n; _size; _seed] -> run_trees (int_of_string n)
  | _ -> failwith "thr line"

let () = register "thr" run
