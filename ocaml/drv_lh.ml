(* drv_lh.ml — linkhash / object domain (C06).  Two line formats:
     A <size> <limit> <h0,h1,..> <op;op;..>       lh_table_* with scripted hash values, keys 0..n-1
        a<k>,<v>      lookup, then set value or lh_table_insert
        i<k>,<v>,<c>  lh_table_insert_w_hash (c = constant-key flag), key absent
        d<k>          lh_table_delete
        x<k,k,..|->   lh_foreach_safe, deleting the current entry when its key is listed
        z<n>          lh_table_resize
        b<n>          add keys 0..n-1, report as ret the key counts at which the table grew
     S <draws> <hsel> <size> <limit> <keys> <ops>   a B history in a fresh process whose json_c_get_random_seed()
                          answers the scripted draws first (lh_char_hash latches its seed once per process)
     H <hsel> <key,key,..>   the table's string hash on the same bytes at 8 offsets and in a duplicate: "ok" per key
     L <lo> <hi> <step>   least count with count >= size * LH_LOAD_FACTOR for size = lo, lo+step, .. <= hi
     B <hsel> <size> <limit> <key,key,..> <op;op;..>   json_object_object_* ; keys hex[@hash]
        a<ki>,<v|n>,<flags>[!]   add / add_ex (1 = KEY_IS_NEW, 2 = CONSTANT_KEY); ! = first allocation refused
        d<ki>                     json_object_object_del
        x<ki,ki,..|->             json_object_object_foreach deleting the current key when listed
        y<ki,ki,..|->             the same in a translation unit compiled as strict ISO C (the portable
                                  definition of the macro in json_object.h)
        s<ki>,<flags>             self-insertion json_object_object_add / _add_ex (obj, key, obj): must be refused
                                  (-1) whatever the key's presence, flags and fill level, touching nothing;
                                  ret = rc:delta refcount(obj):delta refcount(old value)
        q<ki>                     get_ex / get on NULL and on non-objects (0 / NULL), get_ex with a NULL result pointer
        g<ki>                     every lookup entry point (get_ex, get, lh_table_lookup_ex/_entry/_entry_w_hash)
        any of a/d/g may end in @<off>: the C driver passes a copy of the key text placed <off> bytes
        (0..7) after an 8-aligned base; lookups after each step rotate through all offsets
        h<sel>                    json_global_set_string_hash(sel) while the objects are alive (ret = its result)
        o                         switch to the other of two objects; it is created (json_object_new_object,
                                  same initial size) at the first switch, under the selection current THEN
   Observation per step (first the fresh table): ret count size lookups iteration [backward]. *)
open Model
open Util

let keq (a : int) (b : int) = a = b
let reason = function RAssert -> "assert" | RNested -> "nested" | RStuck -> "stuck" | RBroken -> "broken"
let join l = if l = [] then "-" else String.concat "," l
let ints s = if s = "-" then [] else List.map int_of_string (String.split_on_char ',' s)
let vnull = min_int                      (* mode B: the NULL value *)
let vstr modeb v = if modeb && v = vnull then "n" else string_of_int v

let obs modeb hash nkeys t ret =
  let g = List.init nkeys (fun k -> match obj_get_ex keq hash t k with Some v -> vstr modeb v | None -> "-") in
  let fwd = List.map (fun n -> match (sget t.slots n).st with
      | Live (k, v, c) -> if modeb then Printf.sprintf "%d:%s" k (vstr modeb v)
                          else Printf.sprintf "%d:%d:%d" k v (if c then 1 else 0)
      | _ -> "dead") (lh_walk t) in
  let base = Printf.sprintf "%s %s %s %s %s" ret (string_of_z (obj_length t)) (string_of_z t.tsize) (join g) (join fwd) in
  if modeb then base else
    let bwd = List.map (fun n -> match (sget t.slots n).st with Live (k, _, _) -> string_of_int k | _ -> "dead") (lh_walk_back t) in
    base ^ " " ^ join bwd

let visited modeb vis = join (List.map (fun (k, v) -> Printf.sprintf "%d:%s" k (vstr modeb v)) vis)

exception Out of string

(* [hash_of sel]: the hash function a table created under selection [sel] uses for its whole
   life; [mk ()] creates a fresh object table; [gsel0] the selection when the case starts *)
let run_ops modeb hash_of gsel0 mk nkeys al t0 ops =
  let gsel = ref gsel0 in
  let objs = [| Some (gsel0, t0); None |] in
  let cur = ref 0 in
  let get () = match objs.(!cur) with Some x -> x | None -> failwith "no object" in
  let t () = snd (get ()) in
  let hash k = hash_of (fst (get ())) k in
  let set t' = objs.(!cur) <- Some (fst (get ()), t') in
  let out = ref [obs modeb hash nkeys t0 "new"] in
  let emit ret = out := obs modeb hash nkeys (t ()) ret :: !out in
  let ires r = match r with
    | IOk t' -> set t'; emit "0"
    | IFail -> emit "-1"
    | IOut why -> raise (Out (reason why)) in
  (try
    List.iter (fun s ->
      (* "@off": where the caller's copy of the key text lies (mode B); a key is its bytes, the
         model has no addresses *)
      let s = match String.index_opt s '@' with Some i -> String.sub s 0 i | None -> s in
      let body = String.sub s 1 (String.length s - 1) in
      match s.[0] with
      | 'g' ->
          (match obj_get_ex keq hash (t ()) (int_of_string body) with
           | Some v -> emit (vstr modeb v)
           | None -> emit "-")
      | 's' ->
          (* add / add_ex (obj, key, obj): ret = return value : change of obj's refcount : change of
             the old value's refcount *)
          (match String.split_on_char ',' body with
           | [k; f] ->
               let f = int_of_string f in
               (match obj_add_self keq hash (t ()) (int_of_string k) (f land 1 <> 0) (f land 2 <> 0) with
                | IOk t' -> set t'; emit "0:0:0"
                | IFail -> emit "-1:0:0"
                | IOut why -> raise (Out (reason why)))
           | _ -> failwith "s")
      | 'q' ->
          (* the documented answers for a NULL object / non-objects, and get_ex with a NULL result pointer *)
          let f = match obj_get_ex keq hash (t ()) (int_of_string body) with Some _ -> 1 | None -> 0 in
          emit (Printf.sprintf "0:0:0:%d:-:-:-" f)
      | 'a' when not modeb ->
          (match ints body with
           | [k; v] -> ires (obj_add_ex keq hash al false (t ()) k v false false)
           | _ -> failwith "a")
      | 'a' ->
          let fail1 = body.[String.length body - 1] = '!' in
          let body = if fail1 then String.sub body 0 (String.length body - 1) else body in
          (match String.split_on_char ',' body with
           | [k; v; f] ->
               let f = int_of_string f in
               let v = if v = "n" then vnull else int_of_string v in
               ires (obj_add_ex keq hash al fail1 (t ()) (int_of_string k) v (f land 1 <> 0) (f land 2 <> 0))
           | _ -> failwith "a")
      | 'i' ->
          (match ints body with
           | [k; v; c] -> ires (lh_table_insert_w_hash hash al (t ()) k v (c <> 0))
           | _ -> failwith "i")
      | 'd' when not modeb ->
          (match lh_table_delete keq hash (t ()) (int_of_string body) with
           | DOk t' -> set t'; emit "0"
           | DNone -> emit "-1"
           | DUB -> raise (Out "nullderef"))
      | 'd' ->
          (match obj_del keq hash (t ()) (int_of_string body) with
           | Some t' -> set t'; emit "0"
           | None -> raise (Out "nullderef"))
      | 'x' | 'y' ->
          (* y: the same loop compiled from the portable definition of the macro; both definitions
             are the walk "fetch next, run body" of the model *)
          let set_ = ints body in
          (match obj_foreach_del keq hash modeb (fun k -> List.mem k set_) (t ()) with
           | Some (vis, t') -> set t'; emit (visited modeb vis)
           | None -> raise (Out "foreach"))
      | 'z' -> ires (lh_table_resize hash al (t ()) (z_of_string body))
      | 'h' ->
          let (g', r) = set_string_hash !gsel (z_of_string body) in
          gsel := g'; emit (string_of_z r)
      | 'o' ->
          cur := 1 - !cur;
          (match objs.(!cur) with
           | Some _ -> ()
           | None -> (match mk (hash_of !gsel) with
                      | IOk t' -> objs.(!cur) <- Some (!gsel, t')
                      | IFail -> raise (Out "nomem")
                      | IOut why -> raise (Out (reason why))));
          emit "0"
      | 'b' ->
          (* bulk: add keys 0..n-1 (value = key), report the counts at which the size changed *)
          let n = int_of_string body in
          let ch = ref [] in
          for k = 0 to n - 1 do
            let before = (t ()).tsize in
            (match obj_add_ex keq hash al false (t ()) k k false false with
             | IOk t' -> set t'
             | IFail -> ()
             | IOut why -> raise (Out (reason why)));
            if (t ()).tsize <> before then
              ch := Printf.sprintf "%d>%s" k (string_of_z (t ()).tsize) :: !ch
          done;
          emit (join (List.rev !ch))
      | _ -> failwith "lh op") ops
  with Out why -> out := ("OUT-" ^ why) :: !out);
  String.concat " | " (List.rev !out)

let perllike s =
  let h = ref 1 in
  String.iter (fun c -> let b = Char.code c in
                 h := (!h * 33 + (if b >= 128 then b - 256 else b)) land 0xFFFFFFFF) s;
  !h
let fnv s =
  let h = ref 0x811c9dc5 in
  String.iter (fun c -> h := ((!h lxor Char.code c) * 0x01000193) land 0xFFFFFFFF) s;
  !h

let mk_alloc limit = let lim = z_of_string limit in fun n -> lim = Z0 || Z.leb n lim

let rec run line =
  match split_on ' ' line with
  | "S" :: _draws :: rest ->
      (* the first answers of the seed source: the seed is one more parameter of the hash function,
         and the model's hash is arbitrary *)
      run (String.concat " " ("B" :: rest))
  | ["A"; size; limit; hashes; ops] ->
      let hs = Array.of_list (List.map z_of_string (String.split_on_char ',' hashes)) in
      let hash k = hs.(k) in
      (match lh_table_new (fun _ -> true) (z_of_string size) with
       | IOk t -> run_ops false (fun _ -> hash) Z0 (fun _ -> IFail) (Array.length hs) (mk_alloc limit) t (split_on ';' ops)
       | IFail -> "NOMEM"
       | IOut why -> "OUT-" ^ reason why)
  | ["B"; hsel; size; limit; keys; ops] ->
      let ks = Array.of_list (String.split_on_char ',' keys) in
      let strs = Array.map (fun k -> match String.split_on_char '@' k with
          | hex :: _ -> string_of_bytes (bytes_of_hex hex) | [] -> "") ks in
      let scripted = Array.map (fun k -> match String.split_on_char '@' k with
          | [_; h] -> Some (z_of_string h) | _ -> None) ks in
      (* the hash function selected by [sel]: 1 = perl-like, 0 = lh_char_hash (seed unknown: any
         function will do, the theorems hold for all); scripted hashes override both *)
      let tab1 = Array.map (fun s -> z_of_int (perllike s)) strs
      and tab0 = Array.map (fun s -> z_of_int (fnv s)) strs in
      let hash_of sel k = match scripted.(k) with
        | Some h -> h
        | None -> if sel = z_of_int 1 then tab1.(k) else tab0.(k) in
      let gsel0 = if hsel = "1" then z_of_int 1 else Z0 in
      let sz = z_of_string size in
      (* json_object_new_object: 16 slots; another size through lh_table_resize of the empty table *)
      let mk hash = match lh_table_new (fun _ -> true) (z_of_int 16) with
        | IOk t0 -> if size = "16" then IOk t0 else lh_table_resize hash (fun _ -> true) t0 sz
        | r -> r in
      (match mk (hash_of gsel0) with
       | IOk t -> run_ops true hash_of gsel0 mk (Array.length ks) (mk_alloc limit) t (split_on ';' ops)
       | IFail -> "NOMEM"
       | IOut why -> "OUT-" ^ reason why)
  | ["H"; _; keys] ->
      (* the string hash is a function of the key bytes: nothing depends on where they lie *)
      String.concat "," (List.map (fun _ -> "ok") (String.split_on_char ',' keys))
  | ["L"; lo; hi; step] ->
      let lo = z_of_string lo and hi = z_of_string hi and step = z_of_string step in
      let b = Buffer.create 4096 in
      let sz = ref lo in
      let z1 = z_of_int 1 in
      while Z.leb !sz hi do
        (* start two below 66*size/100 and walk up *)
        let c = ref (Z.sub (Z.div (Z.mul (z_of_int 66) !sz) (z_of_int 100)) (z_of_int 2)) in
        if Z.ltb !c Z0 then c := Z0;
        while not (load_test !c !sz) do c := Z.add !c z1 done;
        if Buffer.length b > 0 then Buffer.add_char b ',';
        Buffer.add_string b (string_of_z !c);
        sz := Z.add !sz step
      done;
      Buffer.contents b
  | _ -> failwith "lh line"

let () = register "lh" run
