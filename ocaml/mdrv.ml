(* mdrv.ml — model driver: reads a script (one case per line: "<domain> <rest>"),
   prints "<lineno> <observation>" per case. *)
let () =
  let ic = if Array.length Sys.argv > 1 then open_in Sys.argv.(1) else stdin in
  let n = ref 0 in
  (try
    while true do
      let line = input_line ic in
      incr n;
      if String.length line > 0 && line.[0] <> '#' then begin
        let i = try String.index line ' ' with Not_found -> String.length line in
        let dom = String.sub line 0 i in
        let rest = if i < String.length line then String.sub line (i+1) (String.length line - i - 1) else "" in
        let o =
          match Hashtbl.find_opt Util.registry dom with
          | None -> "NODOMAIN"
          | Some f -> (try f rest with
                       | Stack_overflow -> "MODEL-EXN stack_overflow"
                       | e -> "MODEL-EXN " ^ Printexc.to_string e) in
        Printf.printf "%d %s\n" !n o
      end
    done
  with End_of_file -> ());
  flush stdout
