(* drv_fd.ml — descriptor I/O domain (C20).  Script lines and observations: see
   harness/drv_fd.c.  The model decides: return code / NULL on the paths that do not go
   through the parser, whether a message was set, the number of read()/write()/open()/
   close() calls, what the descriptor received, which bytes and which depth the ONE parser
   call gets, and that nothing stays allocated.  The tokener and the serializer are not
   part of this model: the parser argument is a stand-in (its result is printed as '?'),
   the serialization is the last field of the W lines.
   After the listed schedule entries every further call transfers all that was requested:
   the schedule is padded with enough whole-request entries. *)
open Model
open Util

(* errno values (Linux) carried by a failing call; the model does not look at them *)
let errno_code = function
  | "EIO" -> 5 | "EINTR" -> 4 | "EAGAIN" -> 11 | "EBADF" -> 9 | "ENOSPC" -> 28 | "EPIPE" -> 32
  | "EACCES" -> 13 | "EMFILE" -> 24 | "ENOENT" -> 2 | "EISDIR" -> 21 | "EFBIG" -> 27 | "EDQUOT" -> 122
  | "EINVAL" -> 22 | "ENOMEM" -> 12 | "EWOULDBLOCK" -> 11 | "ENOTDIR" -> 20 | "ENAMETOOLONG" -> 36 | "EROFS" -> 30 | "ELOOP" -> 40
  | "0" -> 0 | _ -> 5

let parse_sched (s : string) : xfer list =
  if s = "-" then [] else
  List.concat_map (fun it ->
      if it = "E" then [Err (z_of_int 5)]
      else if it.[0] = 'E' then [Err (z_of_int (errno_code (String.sub it 2 (String.length it - 2))))] else
      match String.index_opt it '*' with
      | Some i ->
        let n = z_of_string (String.sub it 0 i)
        and k = int_of_string (String.sub it (i + 1) (String.length it - i - 1)) in
        List.init k (fun _ -> Short n)
      | None -> [Short (z_of_string it)])
    (String.split_on_char ',' s)

let b01 b = if b then "1" else "0"

(* same output as Util.hex_of_bytes, linear in a Buffer (documents here reach 12 KB) *)
let hex_of_bytes (l : z list) =
  if l = [] then "-" else begin
    let digs = "0123456789abcdef" in
    let b = Buffer.create 256 in
    List.iter (fun x -> let v = int_of_z x in
                Buffer.add_char b digs.[v lsr 4]; Buffer.add_char b digs.[v land 15]) l;
    Buffer.contents b
  end

let wfields (r : wout) (ser : z list) =
  match r with
  | WRet (rc, msg, dev, calls) ->
    Printf.sprintf "%s %s %s %s %s" (string_of_z rc) (b01 msg) (string_of_z calls) (hex_of_bytes dev) (hex_of_bytes ser)
  | WSpin (dev, calls) -> Printf.sprintf "SPIN - %s %s %s" (string_of_z calls) (hex_of_bytes dev) (hex_of_bytes ser)
  | WOutOfSchedule (dev, calls) -> Printf.sprintf "OUTOFSCHEDULE - %s %s %s" (string_of_z calls) (hex_of_bytes dev) (hex_of_bytes ser)

let rfields (r : rres) =
  match r with
  | ROutOfSchedule (_, calls) -> Printf.sprintf "OUTOFSCHEDULE - %s - - - ? ?" (string_of_z calls), "?"
  | RRet o ->
    let live = string_of_z o.r_live in
    (match o.r_parsed with
     | Some ((d, pb), _) ->
       (* result, message and whether the NUL is handed over in a second call are the
          tokener's: not decided here *)
       Printf.sprintf "? ? %s ? %s %s ? ?" (string_of_z o.r_reads) (string_of_z d) (hex_of_bytes pb), live
     | None ->
       Printf.sprintf "%s %s %s 0 - - ? ?" (match o.r_obj with JNull -> "NULL" | _ -> "TREE")
         (b01 (o.r_msg <> MNone)) (string_of_z o.r_reads), live)

let oflags_str (fl : oflags) =
  (match fl.o_acc with O_RDONLY -> "R" | O_WRONLY -> "W" | O_RDWR -> "B")
  ^ (if fl.o_creat then "C" else "") ^ (if fl.o_trunc then "T" else "")
  ^ (if fl.o_append then "A" else "") ^ (if fl.o_excl then "X" else "")

let stand_in : tokener = { tk_first = (fun _ _ -> PError); tk_nul = (fun _ _ -> None) }
let app_ok _ _ = true

let wpad sched ser = sched @ [Short (z_of_int (List.length ser + 1))]
let rpad sched data = sched @ List.init (List.length data / 4096 + 2) (fun _ -> Short (z_of_int 4096))

(* the descriptor number of the line ("@<n>" prefix, default 77): what open() returns when it
   succeeds; the caller-provided descriptors take it too, where nothing depends on it *)
let fdnum = ref (z_of_int 77)

let rec run line =
  match split_on ' ' line with
  | at :: rest when String.length at > 1 && at.[0] = '@' ->
    fdnum := z_of_string (String.sub at 1 (String.length at - 1));
    let r = run_op rest in
    fdnum := z_of_int 77; r
  | toks -> run_op toks

and run_op toks =
  match toks with
  | ["W"; tree; _flags; sc; serhex] ->
    let ser = bytes_of_hex serhex in
    let r = object_to_fd (wpad (parse_sched sc) ser) (tree = "n") (Some ser) in
    Printf.sprintf "W %s 0" (wfields r ser)
  | ["R"; hex; d; sc] ->
    let data = bytes_of_hex hex in
    let sched = rpad (parse_sched sc) data in
    let r = if d = "fd" then object_from_fd stand_in app_ok sched data
      else object_from_fd_ex stand_in app_ok sched data (z_of_string d) in
    let (f, live) = rfields r in
    Printf.sprintf "R %s %s" f live
  | ["F"; "R"; op; hex; sc] ->
    let data = bytes_of_hex hex in
    let ret = if op = "1" then !fdnum else z_of_int (-1) in
    let ((r, opens), closed) = object_from_file_ret ret stand_in app_ok (rpad (parse_sched sc) data) data in
    let (f, live) = rfields r in
    Printf.sprintf "FR %s %s %d %s" f (string_of_z opens) (List.length closed) live
  | ["F"; ("W" | "w"); op; tree; _flags; sc; serhex] ->
    let ser = bytes_of_hex serhex in
    let ret = if op = "1" then !fdnum else z_of_int (-1) in
    let ((r, opens), closed) = object_to_file_ext_ret ret (wpad (parse_sched sc) ser) (tree = "n") (Some ser) in
    Printf.sprintf "FW %s %s %d 0" (wfields r ser) (string_of_z opens) (List.length closed)
  | ["P"; init; steps] ->
    let name c = [z_of_int (Char.code c)] in
    let fs0 : fsys =
      if init = "-" then [] else
      List.map (fun it -> (name it.[0], bytes_of_hex (String.sub it 2 (String.length it - 2))))
        (String.split_on_char ',' init) in
    let file fs p = match fs_get fs p with Some c -> hex_of_bytes c | None -> "ABSENT" in
    let fs = ref fs0 in
    let outs = List.map (fun st ->
        match String.split_on_char '/' st with
        | [("w" | "v"); pc; tree; _fl; sc; serhex] ->
          let p = name pc.[0] and ser = bytes_of_hex serhex in
          let (((r, fs'), opens), closes) =
            object_to_file_fs None !fs p (wpad (parse_sched sc) ser) (tree = "n") (Some ser) in
          fs := fs';
          (match r with
           | WRet (rc, msg, _, calls) ->
             Printf.sprintf "w %s %s %s %s %s %s %s" (string_of_z rc) (b01 msg) (string_of_z calls)
               (string_of_z opens) (string_of_z closes)
               (if opens = Z0 then "-" else oflags_str tO_FILE_FLAGS) (file fs' p)
           | _ -> "w NORETURN")
        | ["r"; pc; sc] ->
          let p = name pc.[0] in
          let data = match fs_get !fs p with Some c -> c | None -> [] in
          let (((r, fs'), opens), closes) =
            object_from_file_fs None !fs p stand_in app_ok (rpad (parse_sched sc) data) in
          fs := fs';
          let (f, _) = rfields r in
          Printf.sprintf "r %s %s %s %s %s" f (string_of_z opens) (string_of_z closes)
            (oflags_str fROM_FILE_FLAGS) (file fs' p)
        | _ -> failwith "fd step") (String.split_on_char ';' steps) in
    let dump = if !fs = [] then "-" else
        String.concat "," (List.map (fun (k, c) ->
            Printf.sprintf "%c=%s" (Char.chr (int_of_z (List.hd k))) (hex_of_bytes c)) !fs) in
    String.concat " | " (outs @ [Printf.sprintf "end 0 %s" dump])
  | ["DR"; mode; hex; off; d; sc] ->
    (* a descriptor the caller opened and left at [off]; write-only: the first read() fails (EBADF) *)
    let file = bytes_of_hex hex and pos = z_of_string off in
    let sched = rpad (parse_sched sc) file in
    let sched = if mode = "w" then Err (z_of_int 9) :: sched else sched in
    let (r, endpos) = object_from_fd_at stand_in app_ok sched file pos (if d = "fd" then z_of_int (-1) else z_of_string d) in
    let (f, live) = rfields r in
    Printf.sprintf "DR %s %s = %s" f (string_of_z endpos) live
  | ["DW"; mode; hexold; off; tree; _fl; sc; serhex] ->
    let old = bytes_of_hex hexold and pos = z_of_string off and ser = bytes_of_hex serhex in
    let sched = wpad (parse_sched sc) ser in
    let sched = if mode = "r" then Err (z_of_int 9) :: sched else sched in
    let ((r, file), endpos) = object_to_fd_at sched old pos (mode = "a") (tree = "n") (Some ser) in
    Printf.sprintf "DW %s %s %s 0" (wfields r ser) (string_of_z endpos) (hex_of_bytes file)
  | ["N"; kind; what; en; _name] ->
    (* the model decides result, that a message is set, the calls; what the message SAYS
       (terminated, names the file, carries the errno text) is observed on the C side only *)
    let sched = [Err (z_of_int (errno_code en))] in
    if kind = "r" then begin
      let ((r, opens), closes) = object_from_file (what = "x") stand_in app_ok (rpad sched []) [] in
      match r with
      | RRet o -> Printf.sprintf "N %s %s ? ? ? %s %s %s %s" (match o.r_obj with JNull -> "NULL" | _ -> "TREE")
                    (b01 (o.r_msg <> MNone)) (string_of_z o.r_reads) (string_of_z opens) (string_of_z closes) (string_of_z o.r_live)
      | _ -> "N NORETURN"
    end else begin
      let ser = bytes_of_hex "74727565" in
      let ((r, opens), closes) = object_to_file_ext (what = "x") (wpad sched ser) false (Some ser) in
      match r with
      | WRet (rc, msg, _, calls) -> Printf.sprintf "N %s %s ? ? ? %s %s %s 0" (string_of_z rc) (b01 msg)
                                      (string_of_z calls) (string_of_z opens) (string_of_z closes)
      | _ -> "N NORETURN"
    end
  | ["S"; _; _] -> "S ?"
  | _ -> failwith "fd line"

let () = register "fd" run
