(* drv_patch.ml — JSON Patch domain (C13).  Line: "<mode i|c> <target jvtext> <patch jvtext>".
   Observation (see harness/drv_patch.c):
     <rc> <errno_code> <idx> <dump of *base> P= C<=|-> S0:0:0 R= END 0
   The pure model has copy semantics: the patch document and the copy source are never
   written, nothing is shared, the document stays the caller's (R=), nothing leaks — those tokens are constants here and are what
   the implementation is held to. *)
open Model
open Util

let al _ = true

let run line =
  match split_on ' ' line with
  | [mode; tree; patch] ->
    let target = Jvtext.jv_of_string tree in
    let pdoc = Jvtext.jv_of_string patch in
    let (res, pdoc') = patch_apply_full al target pdoc in
    let head = match res with
      | PDone d -> "0 0 - " ^ Jvtext.string_of_jv d
      | PFail (i, e, d) -> "-1 " ^ errno_name e ^ " " ^ string_of_z i ^ " " ^ Jvtext.string_of_jv d
      | PArgs -> "-1 EFAULT MAX " ^ (if mode = "i" then Jvtext.string_of_jv target else "n")
      | PUB -> "UB ? ? ?" in
    let p = if pdoc' = pdoc then "P=" else "P!" ^ Jvtext.string_of_jv pdoc' in
    head ^ " " ^ p ^ (if mode = "i" then " C-" else " C=") ^ " S0:0:0 R= END 0"
  | _ -> failwith "patch line"

let () = register "patch" run
