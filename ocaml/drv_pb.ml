(* drv_pb.ml — print-buffer domain.  Line: "<alloc_limit> op;op;..." with
   A<hex> memappend, N<hex>,<n> memappend with explicit size, S<off>,<c>,<len> memset,
   F<hex> sprintbuf("%s"), G<hex> sprintbuf("%s%c%s…") (at most three NUL bytes inside), X<k> sprintbuf("<%s|%d|%s>", buf, k, buf), T<n> two threads x n prints into their own buffers (independent: 0 mismatches), R reset. *)
open Model
open Util

let parse_op s =
  let body = String.sub s 1 (String.length s - 1) in
  match s.[0] with
  | 'A' -> OpAppend (bytes_of_hex body)
  | 'N' -> (match String.split_on_char ',' body with
            | [h; n] -> OpAppendN (bytes_of_hex h, z_of_string n) | _ -> failwith "N")
  | 'S' -> (match String.split_on_char ',' body with
            | [o; c; l] -> OpMemset (z_of_string o, z_of_string c, z_of_string l) | _ -> failwith "S")
  | 'F' | 'G' -> OpSprintf (bytes_of_hex body)
  | 'R' -> OpReset
  | _ -> failwith "pb op"

let term_name = function TNul -> "1" | TNonNul -> "0" | TUnknown -> "?" | TOutside -> "0"

let obs p ret err =
  let cells = pb_cells p in
  let hex = if cells = [] then "-" else
    String.concat "" (List.map (function Some b -> Printf.sprintf "%02x" (int_of_z b) | None -> "??") cells) in
  Printf.sprintf "%s %s %s %s %s %s" ret err (string_of_z p.bpos) (string_of_z p.size) hex (term_name (pb_term p))

let run line =
  match split_on ' ' line with
  | [limit; ops] ->
    let lim = z_of_string limit in
    let al n = Z.leb n lim in
    let p = ref pb_new in
    let out = ref [] in
    let unknown = ref false in
    (try
      List.iter (fun s ->
        (* X<k>: sprintbuf(p, "<%s|%d|%s>", p->buf, k, p->buf) — the arguments point into the buffer itself;
           the text is formatted from the contents as they are before the call (up to the first NUL) *)
        if s.[0] = 'T' then out := "threads 0" :: !out else
        (* contents of more than 300000 bytes: the list-based model is not run on them (its extracted list functions are
           not tail-recursive); the case is then judged by the direct byte-array oracle alone *)
        let huge = (s.[0] = 'S' && (match String.split_on_char ',' (String.sub s 1 (String.length s - 1)) with
                                     | [_; _; l] -> (try int_of_string l > 300000 with _ -> true) | _ -> false)) in
        if huge then unknown := true;
        if !unknown then out := "? ? ? ? ? ?" :: !out else
        let op =
          if s.[0] = 'X' then begin
            let k = String.sub s 1 (String.length s - 1) in
            let rec upto = function
              | Some b :: r -> if int_of_z b = 0 then Some [] else (match upto r with Some l -> Some (b :: l) | None -> None)
              | None :: _ -> None
              | [] -> Some [] in
            match upto (pb_cells !p) with
            | None -> out := "? ? ? ? ? ?" :: !out; raise Exit
            | Some body ->
              let z c = z_of_int (Char.code c) in
              let lit str = List.map z (List.init (String.length str) (String.get str)) in
              OpSprintf (lit "<" @ body @ lit ("|" ^ k ^ "|") @ body @ lit ">")
          end else parse_op s in
        match pb_step al !p op with
        | POk (p', r, _) -> p := p'; out := obs p' (string_of_z r) "0" :: !out
        | PErr (p', e) -> p := p'; out := obs p' "-1" (errno_name e) :: !out
        | PUB -> out := "UB" :: !out; raise Exit) (split_on ';' ops)
    with Exit -> ());
    String.concat " | " (List.rev !out)
  | _ -> failwith "pb line"

let () = register "pb" run
