(* drv_loc.ml — locale domain (C14).  Lines (see harness/drv_loc.c):
     P <hextext> <flags> <depth> <chunks> <fault>     parse under the three locale modes
     S <jvtext> <flags> [<cfg>]                       serialize under the three locale modes, cfg = custom double formats etc.
     G <hexstring>                                    json_object_get_double on a string
     F <16hex>                                        libc snprintf("%.17g") itself (oracle hypothesis)
   Observation: "<mode> <data…> H? D? F? L? sep=.. | … | same <0/1>".
   The model does not compute the data (the parser and libc are not modelled here): it prints
   `?` for them.  What it does predict comes from the extracted protocol model run over the
   REGENERATED exit list (LocaleExits.exits): when every exit restores the thread locale and
   releases what it created (exits_all_ok), every call leaves handle / decimal point /
   printf("%f") untouched (H1 D1 F1), leaks no locale object (L0), and the three modes agree
   (same 1: C14_parse_locale_indep; for S: C14_ser_locale_indep).  When the regenerated list
   contains a bad exit the model cannot tell whether a given input takes it: it prints `?`. *)
open Model
open Util

let ok = shape_recognised && exits_all_ok exits

let modes = [ ("C", "2e"); ("G", "2c"); ("T", "2c") ]

(* S <tree> <flags> [<cfg>]: a custom double format is inside the hypothesis of C14_ser_fmt_locale_indep
   (one conversion; literal text without ',' and without '.' before the number) or not ("exotic":
   then the model makes no prediction about the modes agreeing) *)
let format_exotic (f : string) =
  let n = String.length f in
  let rec before i =
    if i >= n then false
    else if f.[i] = '%' then (if i + 1 < n && f.[i+1] = '%' then before (i + 2) else false)
    else if f.[i] = '.' then true else before (i + 1) in
  String.contains f ',' || before 0

let cfg_exotic cfg =
  List.exists (fun it ->
    String.length it > 1 && (it.[0] = 'G' || it.[0] = 'T' || it.[0] = 'O') && String.sub it 1 (String.length it - 1) <> "0"
    && format_exotic (string_of_bytes (bytes_of_hex (String.sub it 1 (String.length it - 1)))))
    (String.split_on_char ',' cfg)

(* M <variant> <nthreads> <iters> <pevery> <flags> <tree> [<cfg>]: concurrent threads under their own locales.
   Prediction: no mismatching text (C14_ser_concurrent_indep: the text is ser_spec of the job alone — for formats
   inside its hypothesis), and, when every regenerated exit restores and releases (exits_all_ok), no thread's
   locale handle changed and no locale object leaked by the parses.  The counts are not modelled. *)
let run_m args =
  let cfg = (match args with [_; _; _; _; _; _; cfg] -> cfg | _ -> "-") in
  let ser = if cfg_exotic cfg then "? ?" else "mism=0 pmism=0" in
  let par = if ok then "perr=0 lbad=0 L0" else "? ? ?" in
  Printf.sprintf "M %s %s ? ? %s" ser par (if cfg_exotic cfg || not ok then "?" else "first=-")

let run line =
  match split_on ' ' line with
  | "M" :: args -> run_m args
  | op :: args when op = "P" || op = "S" || op = "G" || op = "F" ->
    let ndata = (match op with "P" -> 4 | _ -> 1) in
    let data = String.concat " " (List.init ndata (fun _ -> "?")) in
    let inv = if op = "P" then (if ok then "H1 D1 F1 L0" else "? ? ? ?") else "H1 D1 F1 L0" in
    let per = List.map (fun (m, sep) -> Printf.sprintf "%s %s %s sep=%s" m data inv sep) modes in
    let same = (match op with
                | "P" -> if ok then "1" else "?"
                | "S" -> (match args with [_; _; cfg] when cfg_exotic cfg -> "?" | _ -> "1")
                | _ -> "?") in
    String.concat " | " per ^ " | same " ^ same
  | _ -> failwith "loc line"

let () = register "loc" run
