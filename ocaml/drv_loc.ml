(* drv_loc.ml — locale domain (C14).  Lines (see harness/drv_loc.c):
     P <hextext> <flags> <depth> <chunks> <fault>     parse under the three locale modes
     S <jvtext> <flags>                               serialize under the three locale modes
     G <hexstring>                                    json_object_get_double on a string
     F <16hex>                                        libc snprintf("%.17g") itself (oracle hypothesis)
   Observation: "<mode> <data…> H? D? F? L? sep=.. | … | same <0/1>".
   The model does not compute the data (the parser and libc are not modelled here): it prints
   `?` for them.  What it does predict comes from the extracted protocol model run over the
   REGENERATED exit list (LocaleExits.exits): when every exit restores the thread locale and
   releases what it created (exits_all_ok), every call leaves handle / decimal point /
   printf("%f") untouched (H1 D1 F1), leaks no locale object (L0), and the three modes agree
   (same 1: C14_parse_locale_indep; for S: C14_ser_locale_indep).  When the regenerated list
   contains a bad exit the model cannot tell whether a given input takes it: it prints `?`. *)
open Model
open Util

let ok = shape_recognised && exits_all_ok exits

let modes = [ ("C", "2e"); ("G", "2c"); ("T", "2c") ]

let run line =
  match split_on ' ' line with
  | op :: _ when op = "P" || op = "S" || op = "G" || op = "F" ->
    let ndata = (match op with "P" -> 4 | _ -> 1) in
    let data = String.concat " " (List.init ndata (fun _ -> "?")) in
    let inv = if op = "P" then (if ok then "H1 D1 F1 L0" else "? ? ? ?") else "H1 D1 F1 L0" in
    let per = List.map (fun (m, sep) -> Printf.sprintf "%s %s %s sep=%s" m data inv sep) modes in
    let same = (match op with
                | "P" -> if ok then "1" else "?"
                | "S" -> "1"
                | _ -> "?") in
    String.concat " | " per ^ " | same " ^ same
  | _ -> failwith "loc line"

let () = register "loc" run
