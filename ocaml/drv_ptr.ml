(* drv_ptr.ml — JSON Pointer domain (C12).  Line: "<tree jvtext> op;op;…" with
   g<hexptr> get; G H I J D <hexptr> getf in five format shapes whose expansion is <ptr>
   ("%s" | pointer as format | "/%s" | "%s%s" | "%s/%d": for the model they are all
   getf on the formatted bytes); s<hexptr>=<jvtext> set; S T U V E the same five shapes of
   setf; a leading 'n' on a lookup = res == NULL.  See harness/drv_ptr.c. *)
open Model
open Util

(* the allocator oracle of the C driver: PTR_ALLOC_LIMIT / sizeof(void * ) slots *)
let slot_limit = z_of_string "2097152"
let al n = Z.leb n slot_limit

let id_of_path (path : (z list, z) sum list) node =
  match node with
  | JNull -> "NULL"
  | _ -> "r" ^ String.concat "" (List.map (function
            | Inl k -> ".k" ^ hex_of_bytes k
            | Inr i -> ".i" ^ string_of_z i) path)

(* an op may be prefixed with 'n': the lookup is called with res == NULL *)
let parse_op s0 =
  let with_res = s0.[0] <> 'n' in
  let s = if with_res then s0 else String.sub s0 1 (String.length s0 - 1) in
  let body = String.sub s 1 (String.length s - 1) in
  match s.[0] with
  | 'g' -> OGet (bytes_of_hex body, with_res)
  | 'G' | 'H' | 'I' | 'J' | 'D' -> OGetf (Some (bytes_of_hex body), with_res)
  | 's' | 'S' | 'T' | 'U' | 'V' | 'E' ->
    let i = String.index body '=' in
    let p = bytes_of_hex (String.sub body 0 i) in
    let v = Jvtext.jv_of_string (String.sub body (i + 1) (String.length body - i - 1)) in
    if s.[0] = 's' then OSet (p, v) else OSetf (Some p, v)
  | _ -> failwith "ptr op"

(* third token: the caller's result variable after a lookup (preset to a sentinel before it):
   the stored node | kept | noarg (res == NULL); the root handle after a set: same | new *)
let res_token = function
  | None -> "noarg"
  | Some RPreset -> "kept"
  | Some (RNode (path, node)) -> id_of_path path node

let run line =
  match split_on ' ' line with
  | [tree; ops] ->
    let t = ref (Jvtext.jv_of_string tree) in
    let out = ref [] in
    List.iter (fun s ->
      let (t', o) = ptr_step al !t (parse_op s) in
      t := t';
      let head = match o with
        | ObsGet (GOk _, r) -> "0 0 " ^ res_token r
        | ObsGet (GErr e, r) -> "-1 " ^ errno_name e ^ " " ^ res_token r
        | ObsSet (None, nw) -> "0 0 " ^ (if nw then "new" else "same")
        | ObsSet (Some e, nw) -> "-1 " ^ errno_name e ^ " " ^ (if nw then "new" else "same") in
      out := (head ^ " " ^ Jvtext.string_of_jv t') :: !out) (split_on ';' ops);
    String.concat " | " (List.rev ("END 0" :: !out))
  | _ -> failwith "ptr line"

let () = register "ptr" run
