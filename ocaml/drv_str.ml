(* drv_str.ml — string-node domain (C11).  Script and observation format: see
   harness/drv_str.c. *)
open Model
open Util

let always : z -> z -> bool = fun _ _ -> true

(* "<hex>[,<len>][!k]" *)
let parse_arg a =
  let a, fault = match String.index_opt a '!' with
    | Some i -> String.sub a 0 i, Some (int_of_string (String.sub a (i+1) (String.length a - i - 1)))
    | None -> a, None in
  match String.index_opt a ',' with
  | Some i -> bytes_of_hex (String.sub a 0 i), Some (z_of_string (String.sub a (i+1) (String.length a - i - 1))), fault
  | None -> bytes_of_hex a, None, fault

(* the allocator of one call: request number reqs0 + k fails *)
let alloc_for reqs0 fault : z -> z -> bool =
  match fault with
  | None -> always
  | Some k -> let bad = Z.add reqs0 (z_of_int k) in fun idx _ -> not (idx = bad)

let rec take n l = if n <= 0 then [] else match l with [] -> [] | x :: t -> x :: take (n-1) t
let rec before_nul = function [] -> [] | x :: t -> if x = Z0 then [] else x :: before_nul t

exception Ub

let cells_hex cs =
  if cs = [] then "-" else
  String.concat "" (List.map (function Some b -> Printf.sprintf "%02x" (int_of_z b) | None -> "??") cs)

let fresh bs =
  match new_string_len always bs (z_of_int (List.length bs)) with
  | NOk s -> s | _ -> raise Ub

let eqc s bs =
  match str_equal s (fresh bs) with
  | Some true -> "1" | Some false -> "0" | None -> raise Ub

let observe s ret dlive ns expected =
  let len = get_string_len s in
  let hex = match get_string s with Some cs -> cells_hex cs | None -> raise Ub in
  let nul = match get_nul s with
    | Some (Some b) -> if b = Z0 then "1" else "0" | Some None -> "?" | None -> raise Ub in
  let n = List.length expected in
  let a = eqc s expected in
  let b = if n > 0 then
      eqc s (List.mapi (fun i x -> if i = n - 1 then z_of_int ((int_of_z x) lxor 1) else x) expected)
    else "-" in
  let c = if List.mem Z0 expected then eqc s (before_nul expected) else "-" in
  let d = eqc s (expected @ [Z0]) in
  let copy = match str_copy always s with
    | NOk c -> (match get_string c with Some cs -> cells_hex cs | None -> raise Ub)
    | NNull _ -> "NULL" | NUB -> raise Ub in
  let ser = match str_ser ns s with Some bs -> hex_of_bytes bs | None -> raise Ub in
  Printf.sprintf "%s %s %s %s %s %s E%s%s%s%s C%s J%s" ret (string_of_z len) hex nul
    (if is_sep s then "S" else "I") (string_of_z dlive) a b c d copy ser

let run line =
  let toks = split_on ' ' line in
  let nsf, create, steps = match toks with
    | [a; b] -> a, b, [] | [a; b; c] -> a, b, split_on ';' c | _ -> failwith "str line" in
  let ns = (nsf = "1") in
  let out = ref [] in
  let emit x = out := x :: !out in
  (try
    let bs, len, fault = parse_arg (String.sub create 1 (String.length create - 1)) in
    let al = alloc_for Z0 fault in
    let r, expected = match create.[0], len with
      | 'L', Some l -> new_string_len al bs l, take (int_of_z l) bs
      | 'Z', _ -> let src = bs @ [Z0] in new_string al src, before_nul src
      | _ -> failwith "str create" in
    (match r with
     | NUB -> emit "UB"
     | NNull _ -> emit "NULL"; emit "END 0"
     | NOk s0 ->
       let s = ref s0 and expected = ref expected in
       emit (observe !s "n" (live_count !s) ns !expected);
       List.iter (fun tok ->
         if tok = "g" then emit (observe !s "g" Z0 ns !expected) else begin
           let body = String.sub tok 1 (String.length tok - 1) in
           let op, fault = match tok.[0] with
             | 'l' -> (match parse_arg body with
                       | bs, Some l, f -> OpSetLen (bs, l), f | _ -> failwith "str step l")
             | 'z' -> let bs, _, f = parse_arg body in OpSet (bs @ [Z0]), f
             | 'o' | 's' | 'O' | 'S' ->
               (* own-buffer source: o<off>,<len>[!k]  /  s<off>[!k] *)
               let body, f = match String.index_opt body '!' with
                 | Some i -> String.sub body 0 i,
                             Some (int_of_string (String.sub body (i+1) (String.length body - i - 1)))
                 | None -> body, None in
               (match tok.[0], String.split_on_char ',' body with
                | ('o' | 'O'), [off; l] -> OpSetOwnLen (z_of_string off, z_of_string l), f
                | ('s' | 'S'), [off] -> OpSetOwn (z_of_string off), f
                | _ -> failwith "str step own")
             | _ -> failwith "str step" in
           let al = alloc_for !s.reqs fault in
           match str_step al !s op with
           | SUB -> raise Ub
           | SOk (s', ret, _) ->
             let dl = Z.sub (live_count s') (live_count !s) in
             if ret = z_of_int 1 then expected := op_bytes !expected op;
             s := s';
             emit (observe s' (string_of_z ret) dl ns !expected)
         end) steps;
       (match str_delete !s with
        | DOk s' -> emit ("END " ^ string_of_z (live_count s'))
        | DUB -> raise Ub))
  with Ub -> emit "UB");
  String.concat " | " (List.rev !out)

let () = register "str" run
