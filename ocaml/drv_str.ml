(* drv_str.ml — string-node domain (C11).  Script and observation format: see
   harness/drv_str.c. *)
open Model
open Util

(* The extracted list functions are not tail recursive: a value of 1 MiB needs a deeper stack
   than the default 8 MiB.  The driver restarts itself once under "ulimit -s unlimited" (Stdlib
   only: no Unix in the build line). *)
let () =
  if (try Sys.getenv "JC_STR_BIGSTACK" with Not_found -> "") = "" then begin
    let args = String.concat " " (List.map Filename.quote (List.tl (Array.to_list Sys.argv))) in
    let cmd = Printf.sprintf
        "JC_STR_BIGSTACK=1; export JC_STR_BIGSTACK; ulimit -s unlimited 2>/dev/null || ulimit -s 4000000 2>/dev/null; OCAMLRUNPARAM=s=64M; export OCAMLRUNPARAM; exec %s %s"
        (Filename.quote Sys.executable_name) args in
    exit (Sys.command cmd)
  end

let always : z -> z -> bool = fun _ _ -> true

(* source bytes: hex, or "@<k>x<n>" = the n bytes b(i) = (7 i + 13 k + 5 (i / 256)) mod 251 *)
let bytes_of_src h : z list =
  if String.length h > 0 && h.[0] = '@' then
    Scanf.sscanf h "@%dx%d" (fun k n -> List.init n (fun i -> z_of_int ((7 * i + 13 * k + 5 * (i / 256)) mod 251)))
  else bytes_of_hex h

(* values longer than 256 bytes are printed as #<len>:<fnv1a-32>:<first 16>:<last 16> *)
let show_ints (a : int array) =
  let n = Array.length a in
  if n = 0 then "-" else
  if n <= 256 then String.concat "" (Array.to_list (Array.map (Printf.sprintf "%02x") a)) else begin
    let h = ref 0x811c9dc5 in
    Array.iter (fun b -> h := ((!h lxor b) * 16777619) land 0xFFFFFFFF) a;
    let hex lo hi = String.concat "" (List.init (hi - lo) (fun i -> Printf.sprintf "%02x" a.(lo + i))) in
    Printf.sprintf "#%d:%08x:%s:%s" n !h (hex 0 16) (hex (n - 16) n)
  end

(* "<hex>[,<len>][!k]" *)
let parse_arg a =
  let a, fault = match String.index_opt a '!' with
    | Some i -> String.sub a 0 i, Some (int_of_string (String.sub a (i+1) (String.length a - i - 1)))
    | None -> a, None in
  match String.index_opt a ',' with
  | Some i -> bytes_of_src (String.sub a 0 i), Some (z_of_string (String.sub a (i+1) (String.length a - i - 1))), fault
  | None -> bytes_of_src a, None, fault

(* the allocator of one call: request number reqs0 + k fails *)
let alloc_for reqs0 fault : z -> z -> bool =
  match fault with
  | None -> always
  | Some k -> let bad = Z.add reqs0 (z_of_int k) in fun idx _ -> not (idx = bad)

let take n l =
  let rec go n l acc = if n <= 0 then List.rev acc else match l with [] -> List.rev acc | x :: t -> go (n-1) t (x :: acc) in
  go n l []
let before_nul l =
  let rec go l acc = match l with [] -> List.rev acc | x :: t -> if x = Z0 then List.rev acc else go t (x :: acc) in
  go l []

exception Ub

let cells_hex cs =
  if cs = [] then "-" else
  if List.for_all (function Some _ -> true | None -> false) cs then
    show_ints (Array.of_list (List.rev (List.rev_map (function Some b -> int_of_z b | None -> 0) cs)))
  else String.concat "" (List.map (function Some b -> Printf.sprintf "%02x" (int_of_z b) | None -> "??") cs)
let bytes_show bs = show_ints (Array.of_list (List.rev (List.rev_map int_of_z bs)))

let fresh bs =
  match new_string_len always bs (z_of_int (List.length bs)) with
  | NOk s -> s | _ -> raise Ub

let eqc s bs =
  match str_equal s (fresh bs) with
  | Some true -> "1" | Some false -> "0" | None -> raise Ub

(* Above 256 KiB the model side prints the wildcard "?" for the equality, copy and
   serialisation tokens (the extracted functions need seconds per MiB); contents, length,
   NUL, storage and live-block delta are still compared, and the direct oracle checks all
   tokens of the implementation at every size. *)
let huge = 262144

let observe s ret dlive ns expected =
  let len = get_string_len s in
  let hex = match get_string s with Some cs -> cells_hex cs | None -> raise Ub in
  let nul = match get_nul s with
    | Some (Some b) -> if b = Z0 then "1" else "0" | Some None -> "?" | None -> raise Ub in
  let n = List.length expected in
  let tail =
    if n > huge then "? ? ?" else begin
      let a = eqc s expected in
      let b = match List.rev expected with
        | x :: t -> eqc s (List.rev (z_of_int ((int_of_z x) lxor 1) :: t))
        | [] -> "-" in
      let c = if List.mem Z0 expected then eqc s (before_nul expected) else "-" in
      let d = eqc s (List.rev (Z0 :: List.rev expected)) in
      let copy = match str_copy always s with
        | NOk c -> (match get_string c with Some cs -> cells_hex cs | None -> raise Ub)
        | NNull _ -> "NULL" | NUB -> raise Ub in
      let ser = match str_ser ns s with Some bs -> bytes_show bs | None -> raise Ub in
      Printf.sprintf "E%s%s%s%s C%s J%s" a b c d copy ser
    end in
  Printf.sprintf "%s %s %s %s %s %s %s" ret (string_of_z len) hex nul
    (if is_sep s then "S" else "I") (string_of_z dlive) tail

let run line =
  let toks = split_on ' ' line in
  let nsf, create, steps = match toks with
    | [a; b] -> a, b, [] | [a; b; c] -> a, b, split_on ';' c | _ -> failwith "str line" in
  let ns = (nsf = "1") in
  let out = ref [] in
  let emit x = out := x :: !out in
  (try
    let bs, len, fault = parse_arg (String.sub create 1 (String.length create - 1)) in
    let al = alloc_for Z0 fault in
    let r, expected = match create.[0], len with
      | 'L', Some l -> new_string_len al bs l, take (int_of_z l) bs
      | 'Z', _ -> let src = List.rev (Z0 :: List.rev bs) in new_string al src, before_nul src
      | _ -> failwith "str create" in
    (match r with
     | NUB -> emit "UB"
     | NNull _ -> emit "NULL"; emit "END 0"
     | NOk s0 ->
       let s = ref s0 and expected = ref expected in
       emit (observe !s "n" (live_count !s) ns !expected);
       List.iter (fun tok ->
         if tok = "g" then emit (observe !s "g" Z0 ns !expected) else begin
           let body = String.sub tok 1 (String.length tok - 1) in
           let op, fault = match tok.[0] with
             | 'l' -> (match parse_arg body with
                       | bs, Some l, f -> OpSetLen (bs, l), f | _ -> failwith "str step l")
             | 'z' -> let bs, _, f = parse_arg body in OpSet (List.rev (Z0 :: List.rev bs)), f
             | 'o' | 's' | 'O' | 'S' ->
               (* own-buffer source: o<off>,<len>[!k]  /  s<off>[!k] *)
               let body, f = match String.index_opt body '!' with
                 | Some i -> String.sub body 0 i,
                             Some (int_of_string (String.sub body (i+1) (String.length body - i - 1)))
                 | None -> body, None in
               (match tok.[0], String.split_on_char ',' body with
                | ('o' | 'O'), [off; l] -> OpSetOwnLen (z_of_string off, z_of_string l), f
                | ('s' | 'S'), [off] -> OpSetOwn (z_of_string off), f
                | _ -> failwith "str step own")
             | _ -> failwith "str step" in
           let al = alloc_for !s.reqs fault in
           match str_step al !s op with
           | SUB -> raise Ub
           | SOk (s', ret, _) ->
             let dl = Z.sub (live_count s') (live_count !s) in
             if ret = z_of_int 1 then expected := op_bytes !expected op;
             s := s';
             emit (observe s' (string_of_z ret) dl ns !expected)
         end) steps;
       (match str_delete !s with
        | DOk s' -> emit ("END " ^ string_of_z (live_count s'))
        | DUB -> raise Ub))
  with Ub -> emit "UB");
  String.concat " | " (List.rev !out)

let () = register "str" run
