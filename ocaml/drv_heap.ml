(* drv_heap.ml — reference-counted heap domain (C05).
   Line: "op;op;..." over handles h<id> (n = NULL):
     h3=newobj | h3=newarr | h4=newint 7 | h4=newstr 6162 | h4=newbool | h4=newdbl
     get h4 | put h3 | add h3 <hexkey> h4 | del h3 <hexkey>
     aadd h5 h4 | aput h5 2 h4 | ains h5 1 h4 | adel h5 0 2
     setud h4 <tag> | setser h4 <tag> | clrud h4
     copy h6=h3 (shallow-copy function that installs callbacks) | copyd h6=h3 (NULL)
     ptrset h3 <hexpath|-> h4 | use h4
   Observation per step: "<ret> <events>" with events "-" or d<id>.<tag> (delete callback at
   destruction) / u<id>.<tag> (old callback invoked by set_userdata) joined by ","; `use`
   prints "use <dump>"; after the last step "end <nodes with a callback still alive> <leaked blocks>". *)
open Model
open Util

let hid s =
  if s = "n" then None
  else if String.length s > 1 && s.[0] = 'h' then Some (z_of_string (String.sub s 1 (String.length s - 1)))
  else failwith ("handle " ^ s)
let hid1 s = match hid s with Some i -> i | None -> failwith "null handle"

(* "/a/b" -> Some [a; b]; "" -> Some []; no leading slash -> None *)
let path_of_hex hx =
  let s = string_of_bytes (bytes_of_hex hx) in
  if s = "" then Some []
  else if s.[0] <> '/' then None
  else Some (List.map bytes_of_string (String.split_on_char '/' (String.sub s 1 (String.length s - 1))))

let parse_op (s : string) : op * z option =
  match String.split_on_char ' ' s with
  | [a] when String.contains a '=' ->
    let i = String.index a '=' in
    let lhs = hid1 (String.sub a 0 i) and rhs = String.sub a (i + 1) (String.length a - i - 1) in
    (match rhs with
     | "newobj" -> (ONew KObject, Some lhs)
     | "newarr" -> (ONew KArray, Some lhs)
     | "newbool" | "newdbl" -> (ONew KScalar, Some lhs)
     | _ -> failwith "ctor")
  | [a; _] when String.contains a '=' && (let i = String.index a '=' in
                                          let r = String.sub a (i + 1) (String.length a - i - 1) in r = "newint" || r = "newstr") ->
    let i = String.index a '=' in (ONew KScalar, Some (hid1 (String.sub a 0 i)))
  | ["copy"; a] | ["copyd"; a] as l ->
    let i = String.index a '=' in
    let lhs = hid1 (String.sub a 0 i) and src = hid1 (String.sub a (i + 1) (String.length a - i - 1)) in
    (OCopy (src, List.hd l = "copy"), Some lhs)
  | ["get"; a] -> (OGet (hid1 a), None)
  | ["put"; a] -> (OPut (hid1 a), None)
  | ["add"; p; k; v] -> (OObjAdd (hid1 p, bytes_of_hex k, hid v), None)
  | ["del"; p; k] -> (OObjDel (hid1 p, bytes_of_hex k), None)
  | ["aadd"; p; v] -> (OArrAdd (hid1 p, hid v), None)
  | ["aput"; p; i; v] -> (OArrPut (hid1 p, z_of_string i, hid v), None)
  | ["ains"; p; i; v] -> (OArrIns (hid1 p, z_of_string i, hid v), None)
  | ["adel"; p; i; c] -> (OArrDel (hid1 p, z_of_string i, z_of_string c), None)
  | ["setud"; a; t] | ["setser"; a; t] -> (OSetUd (hid1 a, Some (z_of_string t)), None)
  | ["clrud"; a] -> (OSetUd (hid1 a, None), None)
  | ["ptrset"; r; p; v] -> (OPtrSet (hid1 r, path_of_hex p, hid v), None)
  | ["use"; a] -> (OUse (hid1 a), None)
  | _ -> failwith ("heap op: " ^ s)

let ev_str = function
  | EDestroy (i, Some t) -> Some (Printf.sprintf "d%s.%s" (string_of_z i) (string_of_z t))
  | EDestroy (_, None) -> None
  | EUser (i, t) -> Some (Printf.sprintf "u%s.%s" (string_of_z i) (string_of_z t))
let evs_str l =
  match List.filter_map ev_str l with [] -> "-" | xs -> String.concat "," xs

let rec dump h depth (v : z option) =
  match v with
  | None -> "n"
  | Some i ->
    if depth > 200 then "DEEP" else
    match hfind h i with
    | None -> "DEAD" ^ string_of_z i
    | Some n ->
      let idt = match n.cb with Some t -> string_of_z i ^ "." ^ string_of_z t | None -> "?" in
      let k = match n.nkind with KScalar -> "s" | KArray -> "a" | KObject -> "o" in
      let head = Printf.sprintf "%s%s#%s" k idt (string_of_z n.rc) in
      (match n.nkind with
       | KScalar -> head
       | KArray -> head ^ "[" ^ String.concat "," (List.map (fun (_, c) -> dump h (depth + 1) c) n.children) ^ "]"
       | KObject -> head ^ "{" ^ String.concat "," (List.map (fun (k, c) -> hex_of_bytes k ^ "=" ^ dump h (depth + 1) c) n.children) ^ "}")

let run line =
  let ops = List.filter (fun x -> x <> "") (String.split_on_char ';' line) in
  let st = ref init_state in
  let out = ref [] in
  let stopped = ref false in
  (try
    List.iter (fun s ->
      let (o, want) = parse_op s in
      (* the script assigns ids; the model allocates them: keep the two in step *)
      (match want with
       | Some w when Z.ltb w !st.nxt -> out := "BADID" :: !out; stopped := true; raise Exit
       | Some w -> st := { !st with nxt = w }
       | None -> ());
      match step !st o with
      | ROk (s', ret, evs) ->
        (match o with
         | OUse i -> out := ("use " ^ dump s'.heap_of 0 (Some i)) :: !out
         | _ -> out := Printf.sprintf "%s %s" (string_of_z ret) (evs_str evs) :: !out);
        st := s'
      | RUB -> out := "UB" :: !out; stopped := true; raise Exit
      | RFuel -> out := "FUEL" :: !out; stopped := true; raise Exit) ops
  with Exit -> ());
  if not !stopped then begin
    let alive = List.length (List.filter (fun (_, n) -> n.cb <> None) !st.heap_of) in
    out := Printf.sprintf "end %d 0" alive :: !out
  end;
  String.concat " | " (List.rev !out)

let () = register "heap" run
