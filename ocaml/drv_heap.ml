(* drv_heap.ml — reference-counted heap domain (C05).
   Line: "op;op;..." over handles h<id> (n = NULL):
     h3=newobj | h3=newarr | h4=newint 7 | h4=newstr 6162 | h4=newbool | h4=newdbl
     get h4 | put h3 | add h3 <hexkey> h4 | del h3 <hexkey>
     addx h3 <hexkey> h4 <flags>   json_object_object_add_ex; flags: 1 = KEY_IS_NEW, 2 = CONSTANT_KEY
     aadd h5 h4 | aput h5 2 h4 | ains h5 1 h4 | adel h5 0 2
     reg h4 <regno> <u> <d> <s>   set_userdata (s=0) / set_serializer with NULL (s=1), a custom function
                                  (s=2), json_object_userdata_to_json_string (s=3) or
                                  json_object_double_to_json_string (s=4); u: userdata non-NULL,
                                  d: delete callback given
     setv h4 bool|int|int64|uint64|inc|dbl|str|strlen   the value setters (json_object_set_*, int_inc)
     hash 0|1   json_global_set_string_hash (1 = the unseeded perl-like hash) for tables created afterwards
     copy h6=h3 (shallow-copy function that installs callbacks) | copyd h6=h3 (NULL)
     ptrset h3 <hexpath|-> h4 | use h4
     padd h3 <hexpath> h4 | prepl h3 <hexpath> h4 | prem h3 <hexpath> | pcopy h3 <hexfrom> <hexpath>
     | pmove h3 <hexfrom> <hexpath>   one-operation JSON patches applied to h3 (json_patch_apply)
   Observation per step: "<ret> <events>" with events "-" or d<id>.<tag> (delete callback at
   destruction) / u<id>.<tag> (old callback invoked by set_userdata) joined by ","; `use`
   prints "use <dump>"; after the last step "end <nodes with a callback still alive> <leaked blocks>". *)
open Model
open Util

let hid s =
  if s = "n" then None
  else if String.length s > 1 && s.[0] = 'h' then Some (z_of_string (String.sub s 1 (String.length s - 1)))
  else failwith ("handle " ^ s)
let hid1 s = match hid s with Some i -> i | None -> failwith "null handle"

(* "/a/b" -> Some [a; b]; "" -> Some []; no leading slash -> None *)
let path_of_hex hx =
  let s = string_of_bytes (bytes_of_hex hx) in
  if s = "" then Some []
  else if s.[0] <> '/' then None
  else Some (List.map bytes_of_string (String.split_on_char '/' (String.sub s 1 (String.length s - 1))))

let parse_op (s : string) : op * z option =
  match String.split_on_char ' ' s with
  | [a] when String.contains a '=' ->
    let i = String.index a '=' in
    let lhs = hid1 (String.sub a 0 i) and rhs = String.sub a (i + 1) (String.length a - i - 1) in
    (match rhs with
     | "newobj" -> (ONew KObject, Some lhs)
     | "newarr" -> (ONew KArray, Some lhs)
     | "newbool" -> (ONew (KScalar TBool), Some lhs)
     | "newdbl" -> (ONew (KScalar TDouble), Some lhs)
     | "newdbls" -> (ONewDoubleS, Some lhs)      (* json_object_new_double_s: retains its text *)
     | _ -> failwith "ctor")
  | [a; _] when String.contains a '=' && (let i = String.index a '=' in
                                          let r = String.sub a (i + 1) (String.length a - i - 1) in r = "newint" || r = "newstr") ->
    let i = String.index a '=' in
    let r = String.sub a (i + 1) (String.length a - i - 1) in
    (ONew (KScalar (if r = "newint" then TInt else TString)), Some (hid1 (String.sub a 0 i)))
  | ["copy"; a] | ["copyd"; a] as l ->
    let i = String.index a '=' in
    let lhs = hid1 (String.sub a 0 i) and src = hid1 (String.sub a (i + 1) (String.length a - i - 1)) in
    (OCopy (src, List.hd l = "copy"), Some lhs)
  | ["get"; a] -> (OGet (hid1 a), None)
  | ["setv"; a; w] ->
    let w = (match w with
      | "bool" -> SBool | "int" -> SInt | "int64" -> SInt64 | "uint64" -> SUint64 | "inc" -> SIntInc
      | "dbl" -> SDouble | "str" -> SString | "strlen" -> SStringLen | _ -> failwith "setter") in
    (OSetVal (hid1 a, w), None)
  | ["put"; a] -> (OPut (hid1 a), None)
  | ["add"; p; k; v] -> (OObjAdd (hid1 p, bytes_of_hex k, hid v), None)
  | ["addx"; p; k; v; f] ->
    let f = int_of_string f in
    (OObjAddEx (hid1 p, bytes_of_hex k, hid v, f land 1 <> 0, f land 2 <> 0), None)
  | ["del"; p; k] -> (OObjDel (hid1 p, bytes_of_hex k), None)
  | ["aadd"; p; v] -> (OArrAdd (hid1 p, hid v), None)
  | ["aput"; p; i; v] -> (OArrPut (hid1 p, z_of_string i, hid v), None)
  | ["ains"; p; i; v] -> (OArrIns (hid1 p, z_of_string i, hid v), None)
  | ["adel"; p; i; c] -> (OArrDel (hid1 p, z_of_string i, z_of_string c), None)
  | ["reg"; a; t; u; d; _] -> (OSetUd (hid1 a, u = "1", d = "1"), Some (z_of_string t))
  | ["ptrset"; r; p; v] -> (OPtrSet (hid1 r, path_of_hex p, hid v), None)
  | ["use"; a] -> (OUse (hid1 a), None)
  | _ -> failwith ("heap op: " ^ s)

(* registration -1 is the library's own (json_object_new_double_s): no callback of the caller *)
let is_lib t = int_of_z t = -1
let ev_str = function
  | EDestroy (i, Some t) when not (is_lib t) -> Some (Printf.sprintf "d%s.%s" (string_of_z i) (string_of_z t))
  | EDestroy (_, _) -> None
  | EUser (i, t) when not (is_lib t) -> Some (Printf.sprintf "u%s.%s" (string_of_z i) (string_of_z t))
  | EUser (_, _) -> None
let evs_str l =
  match List.filter_map ev_str l with [] -> "-" | xs -> String.concat "," xs

let rec dump h depth (v : z option) =
  match v with
  | None -> "n"
  | Some i ->
    if depth > 200 then "DEEP" else
    match hfind h i with
    | None -> "DEAD" ^ string_of_z i
    | Some n ->
      let idt = match n.cb with Some t when not (is_lib t) -> string_of_z i ^ "." ^ string_of_z t | _ -> "?" in
      let k = match n.nkind with KScalar _ -> "s" | KArray -> "a" | KObject -> "o" in
      let head = Printf.sprintf "%s%s%s#%s" k idt (if n.ud then "u" else "-") (string_of_z n.rc) in
      (match n.nkind with
       | KScalar _ -> head
       | KArray -> head ^ "[" ^ String.concat "," (List.map (fun (_, c) -> dump h (depth + 1) c) n.children) ^ "]"
       | KObject ->
         (* an entry whose key storage belongs to the caller (k_is_constant) is printed with '*' *)
         let kstr k = match k with
           | x :: t when int_of_z x = -1 -> "*" ^ hex_of_bytes t
           | _ -> hex_of_bytes k in
         head ^ "{" ^ String.concat "," (List.map (fun (k, c) -> kstr k ^ "=" ^ dump h (depth + 1) c) n.children) ^ "}")

(* ---- json_patch operations: json_patch.c implements add/replace/copy as json_object_deep_copy
   (default shallow copy) of the value + json_pointer_set with an insert callback, remove as
   json_object_object_del / array_del_idx, move as json_object_get + remove + set, and puts
   the value when the set fails.  Here they are the same compositions of
   model steps (each component an admissible operation, so the theorems apply to the
   composition). *)
exception Stop of string

type patch = PAdd of z * string * z option | PRepl of z * string * z option | PRem of z * string
           | PCopy of z * string * string | PMove of z * string * string

let parse_patch (s : string) : patch option =
  match String.split_on_char ' ' s with
  | ["padd"; r; p; v] -> Some (PAdd (hid1 r, p, hid v))
  | ["prepl"; r; p; v] -> Some (PRepl (hid1 r, p, hid v))
  | ["prem"; r; p] -> Some (PRem (hid1 r, p))
  | ["pcopy"; r; f; p] -> Some (PCopy (hid1 r, f, p))
  | ["pmove"; r; f; p] -> Some (PMove (hid1 r, f, p))
  | _ -> None

let sub st o =
  match step !st o with
  | ROk (s', ret, evs) -> st := s'; (ret, evs)
  | RUB -> raise (Stop "UB")
  | RFuel -> raise (Stop "FUEL")

let arr_len st p = match hfind !st.heap_of p with Some n -> zlen n.children | None -> Z0

(* json_pointer_set_with_array_cb with json_object_array_insert_idx_cb (add) / put (replace) /
   json_object_array_move_cb (move): returns (ret, events) *)
let patch_set st root path v ~(add : bool) =
  match ptr_target !st.heap_of root (path_of_hex path) with
  | PTNone -> (z_of_int (-1), [])
  | PTRoot -> raise (Stop "PATCHROOT")
  | PTObj (p, k) -> sub st (OObjAdd (p, k, v))
  | PTArrAdd p -> sub st (OArrAdd (p, v))
  | PTArrPut (p, idx) ->
    if Z.ltb (arr_len st p) idx then (z_of_int (-1), [])
    else if add then sub st (OArrIns (p, idx, v)) else sub st (OArrPut (p, idx, v))

(* json_pointer_get_internal: (parent target, the object found) *)
let patch_get st root path =
  match path_of_hex path with
  | None -> None
  | Some [] -> raise (Stop "PATCHROOT")
  | Some toks ->
    (match ptr_walk !st.heap_of (Some root) toks with
     | None -> None
     | Some obj -> Some (ptr_target !st.heap_of root (Some toks), obj))

let patch_remove st tgt =
  match tgt with
  | PTObj (p, k) -> sub st (OObjDel (p, k))
  | PTArrPut (p, idx) -> sub st (OArrDel (p, idx, z_of_int 1))
  | _ -> raise (Stop "PATCHREMOVE")

let opt_step st f v = match v with Some i -> snd (sub st (f i)) | None -> []

(* json_object_deep_copy(value, &copy, NULL) of a non-null value: None = the copy failed *)
let copy_value st (v : z option) : z option option =
  match v with
  | None -> Some None
  | Some i -> let (ret, _) = sub st (OCopy (i, false)) in
    if Z.ltb ret Z0 then None else Some (Some ret)

let starts_with s pre = String.length s >= String.length pre && String.sub s 0 (String.length pre) = pre

let run_patch st (p : patch) : z * ev list =
  let fail = z_of_int (-1) in
  let place root path v =            (* store an owned value; release it when the store fails *)
    let (ret, e1) = patch_set st root path v ~add:true in
    let e2 = if ret <> Z0 then opt_step st (fun i -> OPut i) v else [] in
    (ret, e1 @ e2) in
  match p with
  | PAdd (root, path, v) | PRepl (root, path, v) ->
    let add = (match p with PAdd _ -> true | _ -> false) in
    if (not add) && patch_get st root path = None then (fail, [])
    else (match copy_value st v with
          | None -> (fail, [])
          | Some c ->
            let (ret, e1) = patch_set st root path c ~add in
            let e2 = if ret <> Z0 then opt_step st (fun i -> OPut i) c else [] in
            (ret, e1 @ e2))
  | PRem (root, path) ->
    (match patch_get st root path with
     | None -> (fail, [])
     | Some (tgt, _) -> patch_remove st tgt)
  | PCopy (root, from, path) ->
    (match patch_get st root from with
     | None -> (fail, [])
     | Some (_, obj) ->
       (match copy_value st obj with
        | None -> (fail, [])
        | Some c -> place root path c))
  | PMove (root, from, path) ->
    let fs = string_of_bytes (bytes_of_hex from) and ps = string_of_bytes (bytes_of_hex path) in
    let same = (fs = ps) in
    if starts_with ps fs && (not same) && (ps.[String.length fs] = '/' || fs = "") then (fail, [])
    else
    (match patch_get st root from with
     | None -> (fail, [])
     | Some (tgt, obj) ->
       if same then (Z0, []) else begin
         let e0 = opt_step st (fun i -> OGet i) obj in
         let (r1, e1) = patch_remove st tgt in
         if r1 <> Z0 then (r1, e0 @ e1 @ opt_step st (fun i -> OPut i) obj)
         else begin
           let (ret, e2) = place root path obj in
           (ret, e0 @ e1 @ e2)
         end
       end)

let run line =
  let ops = List.filter (fun x -> x <> "") (String.split_on_char ';' line) in
  let st = ref init_state in
  let out = ref [] in
  let stopped = ref false in
  (try
    List.iter (fun s ->
      if String.length s > 5 && String.sub s 0 5 = "hash " then
        (* json_global_set_string_hash: which hash function new tables use; not part of the model *)
        out := "0 -" :: !out
      else
      match parse_patch s with
      | Some p ->
        (try
          let (ret, evs) = run_patch st p in
          out := Printf.sprintf "%s %s" (string_of_z ret) (evs_str evs) :: !out
        with Stop m -> out := m :: !out; stopped := true; raise Exit)
      | None ->
      let (o, want) = parse_op s in
      (* the script assigns ids; the model allocates them: keep the two in step *)
      (match want with
       | Some w when Z.ltb w !st.nxt -> out := "BADID" :: !out; stopped := true; raise Exit
       | Some w -> st := { !st with nxt = w }
       | None -> ());
      match step !st o with
      | ROk (s', ret, evs) ->
        (match o with
         | OUse i -> out := ("use " ^ dump s'.heap_of 0 (Some i)) :: !out
         | _ -> out := Printf.sprintf "%s %s" (string_of_z ret) (evs_str evs) :: !out);
        st := s'
      | RUB -> out := "UB" :: !out; stopped := true; raise Exit
      | RFuel -> out := "FUEL" :: !out; stopped := true; raise Exit) ops
  with Exit -> ());
  if not !stopped then begin
    let alive = List.length (List.filter (fun (_, n) -> match n.cb with Some t -> not (is_lib t) | None -> false) !st.heap_of) in
    out := Printf.sprintf "end %d 0" alive :: !out
  end;
  String.concat " | " (List.rev !out)

let () = register "heap" run
