(* drv_tok.ml — tokener domain.  Line: "<depth> <flags> op;op;..." with
   P<hex> parse_ex(chunk, len)   Z<hex> parse_ex(cstring, -1)   R reset   F<n> set_flags.
   Observation per op: <err> <char_offset> <value|-> *)
open Model
open Util
open Jvtext

let z_of_int64_unsigned (x : int64) : z =
  let lo = Int64.to_int (Int64.logand x 0xFFFFFFFFL) and hi = Int64.to_int (Int64.shift_right_logical x 32) in
  Z.add (Z.mul (z_of_int hi) (z_of_string "4294967296")) (z_of_int lo)

(* the libc oracle: strtod on a token that strtod consumes entirely *)
let strtod_bits (bs : z list) : z =
  let s = string_of_bytes bs in
  let f = try float_of_string s with _ -> nan in
  let bits = Int64.bits_of_float f in
  if f <> f then z_of_string "9221120237041090560" else z_of_int64_unsigned bits

let err_name = function
  | TE_success -> "success" | TE_continue -> "continue" | TE_depth -> "depth" | TE_eof -> "eof"
  | TE_unexpected -> "unexpected" | TE_null -> "null" | TE_boolean -> "boolean" | TE_number -> "number"
  | TE_array -> "array" | TE_object_key_name -> "object_key_name" | TE_object_key_sep -> "object_key_sep"
  | TE_object_value_sep -> "object_value_sep" | TE_string -> "string" | TE_comment -> "comment"
  | TE_utf8 -> "utf8" | TE_size -> "size" | TE_memory -> "memory"

let flags_of n = match flags_of_word (z_of_int n) with (a, b) -> (match a with (s, al) -> (s, al, b))   (* TokFd.flags_of_word *)

let run line =
  match split_on ' ' line with
  | [d; fl; ops] ->
    let (s, a, v) = flags_of (int_of_string fl) in
    (match tok_new (z_of_string d) s a v with
     | None -> "NEWFAIL"
     | Some t0 ->
       let t = ref t0 in
       let dead = ref false in
       let unknown = ref false in
       let armed = ref false in  (* an allocation fault is scheduled for the next parse: its outcome is not modelled *)   (* after an error status the API requires a reset: further parses are skipped *)
       let out = ref [] in
       (try
         List.iter (fun op ->
           let body = String.sub op 1 (String.length op - 1) in
           match op.[0] with
           | ('P' | 'Z') when !dead -> out := "skipped" :: !out
           | ('P' | 'Z') when !unknown || String.length body > 60000 ->
             (* a chunk of more than 30000 bytes: the list-based model is quadratic in the token length, so such a
                call is not modelled (any outcome matches) and neither are the calls after it, until a reset puts
                the parser into a state that does not depend on it (TokDead2.reset_is_new) *)
             unknown := true; out := "? ? ?" :: !out
           | ('P' | 'Z') when !armed -> armed := false; dead := true; out := "? ? ?" :: !out
           | 'M' -> armed := true; out := "armed" :: !out
           | 'P' | 'Z' ->
             let bs = bytes_of_hex body in
             let r = if op.[0] = 'P' then parse_ex strtod_bits !t bs else parse_ex_cstr strtod_bits !t bs in
             (match r with
              | PRFuel -> out := "FUEL" :: !out; raise Exit
              | PR (t', ret) ->
                t := t';
                dead := (match t'.err with TE_success | TE_continue -> false | _ -> true);
                let v = match ret with Some v -> string_of_jv v | None -> "-" in
                out := Printf.sprintf "%s %s %s" (err_name t'.err) (string_of_z t'.char_offset) v :: !out)
           | 'S' when !dead -> out := "skipped" :: !out
           | 'S' ->
             (* stream of concatenated documents fed in chunks: S<hex>[,cut,cut,...]; after a success the caller
                resumes at the reported end position; after continue it feeds the next chunk *)
             let parts = String.split_on_char ',' body in
             let data = Array.of_list (bytes_of_hex (List.hd parts)) in
             let n = Array.length data in
             let cuts = List.map int_of_string (List.tl parts) @ [n] in
             let b = Buffer.create 64 in
             let base = ref 0 in
             let stop = ref false in
             let last = ref "none" in
             List.iter (fun cut ->
               if not !stop then begin
                 let off = ref !base in
                 let fin = ref false in
                 let iters = ref 0 in
                 while not !fin && not !stop do
                   incr iters;
                   let chunk = Array.to_list (Array.sub data !off (cut - !off)) in
                   (match parse_ex strtod_bits !t chunk with
                    | PRFuel -> Buffer.add_string b "FUEL"; stop := true
                    | PR (t', ret) ->
                      t := t';
                      let e = int_of_z t'.char_offset in
                      (match t'.err, ret with
                       | TE_success, Some v ->
                         Buffer.add_string b (Printf.sprintf "%s@%d;" (string_of_jv v) (!off + e));
                         last := "success"; off := !off + e;
                         if !off >= cut || !iters > 10000 then fin := true
                       | TE_continue, _ -> last := "continue"; fin := true
                       | er, _ -> last := Printf.sprintf "%s@%d" (err_name er) (!off + e); stop := true; dead := true))
                 done;
                 base := cut
               end) cuts;
             out := Printf.sprintf "docs=%s final=%s" (if Buffer.length b = 0 then "-" else Buffer.contents b) !last :: !out
           | 'V' | 'W' ->
             (* json_tokener_parse_verbose / json_tokener_parse: a fresh default parser (depth 32, no flags) on the
                C string; a value is returned only with status success *)
             (match tok_new default_depth false false false with
              | None -> out := "NEWFAIL" :: !out
              | Some tf ->
                (match parse_ex_cstr strtod_bits tf (bytes_of_hex body) with
                 | PRFuel -> out := "FUEL" :: !out
                 | PR (t', ret) ->
                   let v = (match t'.err, ret with TE_success, Some v -> string_of_jv v | _ -> "-") in
                   (* json_tokener_parse cannot tell a parsed null from a failure: both are the NULL pointer *)
                   let vw = if v = "n" then "-" else v in
                   out := (if op.[0] = 'V' then Printf.sprintf "%s %s" (err_name t'.err) v else Printf.sprintf "parse %s" vw) :: !out))
           | 'D' ->
             (* json_object_from_fd_ex(fd, depth) on the given bytes: depth -1 = default 32; the
                accumulated bytes are parsed with their explicit length, then (when that call asks for more input)
                the terminating NUL is passed on: TokFd.from_fd_parse *)
             (match String.split_on_char ',' body with
              | [dstr; h] ->
                let dreq = int_of_string dstr in
                let deff = if dreq = -1 then int_of_z default_depth else dreq in
                (match tok_new (z_of_int deff) false false false with
                 | None -> out := "fd -" :: !out
                 | Some tf ->
                   (match from_fd_parse strtod_bits tf (bytes_of_hex h) with
                    | PR (_, Some v) -> out := ("fd " ^ (if v = JNull then "-" else string_of_jv v)) :: !out   (* a JSON null is the NULL pointer, like a failure *)
                    | _ -> out := "fd -" :: !out))
              | _ -> failwith "D op")
           | 'E' ->
             (* the same through a descriptor that delivers the bytes in slices: what arrives is what was sent *)
             (match String.split_on_char ',' body with
              | dstr :: h :: _ ->
                let dreq = int_of_string dstr in
                let deff = if dreq = -1 then int_of_z default_depth else dreq in
                (match tok_new (z_of_int deff) false false false with
                 | None -> out := "fd -" :: !out
                 | Some tf ->
                   (match from_fd_parse strtod_bits tf (bytes_of_hex h) with
                    | PR (_, Some v) -> out := ("fd " ^ (if v = JNull then "-" else string_of_jv v)) :: !out   (* a JSON null is the NULL pointer, like a failure *)
                    | _ -> out := "fd -" :: !out))
              | _ -> failwith "E op")
           | 'Y' when !dead -> out := "skipped" :: !out
           | 'Y' ->
             (* an invalid length argument (len < -1): TokSize.size_guard_n refuses; the caller's locale is not an
                input of the model (it is untouched: C14) *)
             if size_guard_n true (z_of_int 3) (z_of_string body) then begin
               dead := true; out := "size 0 - loc1" :: !out
             end else out := "? ? ? ?" :: !out
           | 'B' when !dead -> out := "skipped" :: !out
           | 'B' ->
             (* a NUL-terminated input of n bytes, len = -1: the size guard of TokSize.parse_api refuses
                strlen >= INT32_MAX; below that the character-level model runs (small n only) *)
             (match String.split_on_char ',' body with
              | [m; ns] ->
                let n = int_of_string ns in
                if size_guard_n true (z_of_string ns) (z_of_string "-1") then begin
                  dead := true; out := "size 0 -" :: !out
                end else begin
                  let mode = int_of_string m in
                  let fill = if mode = 2 then 32 else 97 in
                  let bs = List.init n (fun i ->
                    z_of_int (if mode = 0 && i = 0 then 34 else if mode = 1 && n >= 2 && i = 0 then 47 else if mode = 1 && n >= 2 && i = 1 then 42
                              else if mode = 2 && i = 0 then 55 else fill)) in
                  (match parse_ex_cstr strtod_bits !t bs with
                   | PRFuel -> out := "FUEL" :: !out; raise Exit
                   | PR (t', ret) ->
                     t := t';
                     dead := (match t'.err with TE_success | TE_continue -> false | _ -> true);
                     let v = match ret with Some v -> string_of_jv v | None -> "-" in
                     out := Printf.sprintf "%s %s %s" (err_name t'.err) (string_of_z t'.char_offset) v :: !out)
                end
              | _ -> failwith "B op")
           | 'R' -> t := tok_reset !t; dead := false; unknown := false; out := "reset" :: !out
           | 'N' -> t := t0; dead := false; unknown := false; out := "new" :: !out
           | 'L' -> out := "locale" :: !out   (* the caller's locale: not an input of the model (locale independence is C14) *)
           | 'F' -> let (s, a, v) = flags_of (int_of_string body) in t := set_flags !t s a v; out := "flags" :: !out
           | _ -> failwith "tok op") (split_on ';' ops)
       with Exit -> ());
       String.concat " | " (List.rev !out))
  | _ -> failwith "tok line"

let () = register "tok" run
