(* TokSyntaxExt.v — the documented non-standard spellings json-c accepts in default mode
   (property C16), as an extension of the RFC 8259 syntax trees of TokSyntax.v: at every
   position where a form is possible it can be spelled in the tree.
     blanks      : any sequence of whitespace bytes, block comments and line comments
     strings     : in double or single quotes (also member names); raw control bytes
     literals    : every letter in either case
     containers  : a trailing comma before the closing bracket of a non-empty container
     numbers     : superfluous leading zeros; an exponent without digits
   Definitions only.  [erase] maps a tree to the RFC 8259 tree it stands for; [xvalue] is
   the value json-c gives it in default mode. *)
From JC Require Import Base BaseLemmas Value TokModel TokProofs TokSyntax.
Local Open Scope Z_scope.

(* ------------------------------------------------------------------ blanks *)
Inductive wsitem :=
| WB (b : byte)                  (* one of 32 9 10 13 *)
| WBlock (body : list byte)      (* slash star body star slash *)
| WLine (body : list byte).      (* slash slash body newline *)
Definition xws := list wsitem.

(* the scan of a block comment body: [true] = the previous byte was a star that may close
   the comment (a further star keeps it a candidate: json-c commit d13d591, before which
   star star slash did not close).  None = closed inside the body. *)
Fixpoint block_st (s : bool) (body : list byte) : option bool :=
  match body with
  | [] => Some s
  | b :: r => if s && (b =? 47) then None else block_st (b =? 42) r
  end.
Definition nozero (l : list byte) : bool := forallb (fun b => negb (b =? 0)) l.
Definition wf_wsitem (i : wsitem) : bool :=
  match i with
  | WB b => is_ws b
  | WBlock body => nozero body && match block_st false body with Some _ => true | None => false end
  | WLine body => nozero body && negb (has_byte 10 body)
  end.
Definition wf_xws (w : xws) : bool := forallb wf_wsitem w.

Definition render_wsitem (i : wsitem) : list byte :=
  match i with
  | WB b => [b]
  | WBlock body => 47 :: 42 :: body ++ [42; 47]
  | WLine body => 47 :: 47 :: body ++ [10]
  end.
Definition render_xws (w : xws) : list byte := flat_map render_wsitem w.

(* ------------------------------------------------------------------ trees *)
Definition xmem (X : Type) : Type := (xws * (byte * list schar) * xws * xws * X * xws)%type.

Inductive xstx :=
| XLit (l : lit) (ups : list bool)            (* ups: which letters are written in upper case *)
| XNum (n : numtok)                           (* int part: any digit+; exponent digits may be missing *)
| XStr (q : byte) (cs : list schar)           (* q = 34 or 39 *)
| XArr (w : xws) (es : list (xws * xstx * xws)) (tc : option xws)   (* tc: trailing comma, then blanks *)
| XObj (w : xws) (ms : list (xmem xstx)) (tc : option xws).

Definition xel_val (x : xws * xstx * xws) : xstx := snd (fst x).
Definition xm_q (m : xmem xstx) : byte := fst (snd (fst (fst (fst (fst m))))).
Definition xm_name (m : xmem xstx) : list schar := snd (snd (fst (fst (fst (fst m))))).
Definition xm_val (m : xmem xstx) : xstx := snd (fst m).

Section xstx_ind'.
  Variable P : xstx -> Prop.
  Hypothesis Hlit : forall l u, P (XLit l u).
  Hypothesis Hnum : forall n, P (XNum n).
  Hypothesis Hstr : forall q cs, P (XStr q cs).
  Hypothesis Harr : forall w es tc, Forall (fun x => P (xel_val x)) es -> P (XArr w es tc).
  Hypothesis Hobj : forall w ms tc, Forall (fun m => P (xm_val m)) ms -> P (XObj w ms tc).
  Fixpoint xstx_ind' (s : xstx) : P s :=
    match s with
    | XLit l u => Hlit l u | XNum n => Hnum n | XStr q cs => Hstr q cs
    | XArr w es tc =>
        Harr w es tc ((fix go (l : list (xws * xstx * xws)) : Forall (fun x => P (xel_val x)) l :=
                         match l with
                         | [] => Forall_nil _
                         | x :: r => Forall_cons x (xstx_ind' (xel_val x)) (go r)
                         end) es)
    | XObj w ms tc =>
        Hobj w ms tc ((fix go (l : list (xmem xstx)) : Forall (fun m => P (xm_val m)) l :=
                         match l with
                         | [] => Forall_nil _
                         | x :: r => Forall_cons x (xstx_ind' (xm_val x)) (go r)
                         end) ms)
    end.
End xstx_ind'.

(* ------------------------------------------------------------------ rendering *)
Fixpoint recase (bs : list byte) (ups : list bool) : list byte :=
  match bs, ups with
  | b :: r, u :: us => (if u then b - 32 else b) :: recase r us
  | _, _ => bs
  end.
Definition render_xlit (l : lit) (ups : list bool) : list byte := recase (render_lit l) ups.
Definition render_xstr (q : byte) (cs : list schar) : list byte := q :: render_chars cs ++ [q].
Definition render_tc (tc : option xws) : list byte :=
  match tc with Some w => 44 :: render_xws w | None => [] end.

Fixpoint xrender (s : xstx) : list byte :=
  match s with
  | XLit l ups => render_xlit l ups
  | XNum n => render_num n
  | XStr q cs => render_xstr q cs
  | XArr w es tc =>
      91 :: (match es with
             | [] => render_xws w
             | _ => join 44 (map (fun x : xws * xstx * xws =>
                                    let '(a, e, b) := x in render_xws a ++ xrender e ++ render_xws b) es)
                    ++ render_tc tc
             end) ++ [93]
  | XObj w ms tc =>
      123 :: (match ms with
              | [] => render_xws w
              | _ => join 44 (map (fun m : xmem xstx =>
                                     let '(a, (q, k), b, c, v, d) := m in
                                     render_xws a ++ render_xstr q k ++ render_xws b ++ 58 :: render_xws c ++ xrender v ++ render_xws d) ms)
                     ++ render_tc tc
              end) ++ [125]
  end.

Definition render_xdoc (lead : xws) (s : xstx) (trail : xws) : list byte :=
  render_xws lead ++ xrender s ++ render_xws trail.

(* ------------------------------------------------------------------ the value in default mode *)
(* a number token as strtod / strtoll see it: an exponent without digits is cut off *)
Definition drop_dangling (n : numtok) : numtok :=
  match n_exp n with
  | Some (_, _, []) => mknum (n_neg n) (n_int n) (n_frac n) None
  | _ => n
  end.
Definition xnum_value (strtod_bits : list byte -> Z) (n : numtok) : jv :=
  if is_int_tok n then
    let v := dec_value (n_int n) in
    if n_neg n then JInt (- v)
    else if v <=? INT64_MAX then JInt v else JUint v
  else JDouble (strtod_bits (render_num (drop_dangling n))) (Some (render_num (drop_dangling n))).

Fixpoint xvalue (strtod_bits : list byte -> Z) (s : xstx) : jv :=
  match s with
  | XLit l _ => lit_value l
  | XNum n => xnum_value strtod_bits n
  | XStr _ cs => JStr (decode cs)
  | XArr _ es _ => JArr (map (fun x : xws * xstx * xws => xvalue strtod_bits (xel_val x)) es)
  | XObj _ ms _ =>
      JObj (fold_left (fun acc kv => obj_add acc (fst kv) (snd kv))
                      (map (fun m : xmem xstx => (decode (xm_name m), xvalue strtod_bits (xm_val m))) ms)
                      [])
  end.

Fixpoint xnest (s : xstx) : nat :=
  match s with
  | XArr _ es _ => list_max (map (fun x : xws * xstx * xws => S (xnest (xel_val x))) es)
  | XObj _ ms _ => list_max (map (fun m : xmem xstx => S (xnest (xm_val m))) ms)
  | _ => 0%nat
  end.

(* ------------------------------------------------------------------ side conditions *)
Definition nonempty {A} (l : list A) : bool := match l with [] => false | _ => true end.
Definition wf_xint (ds : list byte) : bool := all_digits ds && nonempty ds.
Definition wf_xexp (e : option (byte * option byte * list byte)) : bool :=
  match e with
  | Some (ec, sg, ds) =>
      ((ec =? 101) || (ec =? 69)) &&
      (match sg with Some s => (s =? 43) || (s =? 45) | None => true end) &&
      all_digits ds
  | None => true
  end.
Definition wf_xnum (n : numtok) : bool := wf_xint (n_int n) && wf_frac (n_frac n) && wf_xexp (n_exp n).

Definition wf_quote (q : byte) : bool := (q =? 34) || (q =? 39).
(* raw bytes: anything from 1 to 255 except the quote in use and the backslash *)
Definition wf_xschar (q : byte) (c : schar) : bool :=
  match c with
  | CRaw b => (1 <=? b) && (b <=? 255) && negb (b =? q) && negb (b =? 92)
  | CEsc _ => true
  | CUni d1 d2 d3 d4 => is_hex d1 && is_hex d2 && is_hex d3 && is_hex d4
  end.
Definition wf_xchars (q : byte) (cs : list schar) : bool := forallb (wf_xschar q) cs.
Definition wf_tc {A} (es : list A) (tc : option xws) : bool :=
  match tc with Some w => nonempty es && wf_xws w | None => true end.

Fixpoint wf_xstxb (s : xstx) : bool :=
  match s with
  | XLit l ups => Nat.eqb (length ups) (length (render_lit l))
  | XNum n => wf_xnum n
  | XStr q cs => wf_quote q && wf_xchars q cs
  | XArr w es tc =>
      wf_xws w && wf_tc es tc &&
      forallb (fun x : xws * xstx * xws => let '(a, e, b) := x in wf_xws a && wf_xstxb e && wf_xws b) es
  | XObj w ms tc =>
      wf_xws w && wf_tc ms tc &&
      forallb (fun m : xmem xstx =>
                 let '(a, (q, k), b, c, v, d) := m in
                 wf_xws a && (wf_quote q && wf_xchars q k) && wf_xws b && wf_xws c && wf_xstxb v && wf_xws d) ms
  end.
Definition wf_xstx (s : xstx) : Prop := wf_xstxb s = true.

Definition xint_in_range (n : numtok) : bool :=
  if is_int_tok n then
    if n_neg n then dec_value (n_int n) <=? 9223372036854775808 else dec_value (n_int n) <=? UINT64_MAX
  else true.
Fixpoint xints_in_range (s : xstx) : bool :=
  match s with
  | XNum n => xint_in_range n
  | XArr _ es _ => forallb (fun x : xws * xstx * xws => xints_in_range (xel_val x)) es
  | XObj _ ms _ => forallb (fun m : xmem xstx => xints_in_range (xm_val m)) ms
  | _ => true
  end.
Fixpoint xnames_nul_free (s : xstx) : bool :=
  match s with
  | XArr _ es _ => forallb (fun x : xws * xstx * xws => xnames_nul_free (xel_val x)) es
  | XObj _ ms _ => forallb (fun m : xmem xstx =>
                              negb (has_byte 0 (decode (xm_name m))) && xnames_nul_free (xm_val m)) ms
  | _ => true
  end.

(* ------------------------------------------------------------------ erasure to RFC 8259 *)
Definition erase_ws (w : xws) : ws :=
  flat_map (fun i => match i with WB b => [b] | _ => [] end) w.

Definition hexch (d : Z) : byte := if d <? 10 then 48 + d else 87 + d.
(* control bytes and the double quote are written as escapes *)
Definition erase_char (c : schar) : schar :=
  match c with
  | CRaw b => if b <? 32 then CUni 48 48 (hexch (b / 16)) (hexch (b mod 16))
              else if b =? 34 then CEsc EQuote else CRaw b
  | _ => c
  end.
Fixpoint strip_zeros (ds : list byte) : list byte :=
  match ds with
  | d :: (_ :: _) as r => if d =? 48 then strip_zeros r else ds
  | _ => ds
  end.
Definition erase_num (n : numtok) : numtok :=
  let n' := drop_dangling n in mknum (n_neg n') (strip_zeros (n_int n')) (n_frac n') (n_exp n').

Fixpoint erase (s : xstx) : stx :=
  match s with
  | XLit l _ => SLit l
  | XNum n => SNum (erase_num n)
  | XStr _ cs => SStr (map erase_char cs)
  | XArr w es _ =>
      SArr (erase_ws w) (map (fun x : xws * xstx * xws => let '(a, e, b) := x in (erase_ws a, erase e, erase_ws b)) es)
  | XObj w ms _ =>
      SObj (erase_ws w)
           (map (fun m : xmem xstx =>
                   let '(a, (q, k), b, c, v, d) := m in
                   (erase_ws a, map erase_char k, erase_ws b, erase_ws c, erase v, erase_ws d)) ms)
  end.

(* the forms whose value is that of the erased tree: everything except number tokens that
   are not RFC-shaped (for those only acceptance is required: a fraction/exponent token
   keeps its own text) *)
Fixpoint neutral (s : xstx) : bool :=
  match s with
  | XNum n => wf_num n
  | XArr _ es _ => forallb (fun x : xws * xstx * xws => neutral (xel_val x)) es
  | XObj _ ms _ => forallb (fun m : xmem xstx => neutral (xm_val m)) ms
  | _ => true
  end.

(* bytes that may follow the document in default mode (trailing garbage is ignored): not a
   blank, not a slash, not NUL, and nothing a number token would absorb *)
Definition junk_ok (junk : list byte) : bool :=
  match junk with
  | [] => true
  | j :: _ => negb (is_ws j) && negb (j =? 47) && negb (j =? 0) &&
              negb (is_digit j || (j =? 101) || (j =? 69) || (j =? 43) || (j =? 45) || (j =? 46) || (j =? 73) || (j =? 105))
  end.
