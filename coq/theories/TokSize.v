(* TokSize.v — the entry of json_tokener_parse_ex(tok, str, len): the input size guard, and what it
   buys: the int field char_offset never leaves the int range (C04: no undefined operation; the
   reported end position is meaningful).  The character-level model (TokModel.parse_ex /
   parse_ex_cstr) counts in Z; this file adds the C type.

   json_tokener.c:  tok->char_offset = 0; tok->err = json_tokener_success;
                    if ((len < -1) || (len == -1 && strlen(str) >= INT32_MAX))
                    { tok->err = json_tokener_error_size; return NULL; }
   (the comparison was  >  before fix "refuse NUL-terminated input of INT32_MAX bytes": with
   strlen(str) == INT32_MAX a state that steps over the terminating NUL — inside a string or a
   comment — incremented char_offset to 2^31: [old_guard_overflows]). *)
From JC Require Import Base BaseLemmas Value TokModel TokFrame TokStack TokTotal.
Local Open Scope Z_scope.

(* strlen of the C string that starts the byte list (the list may go on behind the NUL) *)
Fixpoint c_strlen (l : list byte) : Z :=
  match l with c :: r => if c =? 0 then 0 else 1 + c_strlen r | [] => 0 end.

Lemma c_strlen_nonneg l : 0 <= c_strlen l.
Proof. induction l as [|c r IH]; cbn [c_strlen]; [lia|]. destruct (c =? 0); lia. Qed.

Lemma zlen_upto_nul l : zlen (upto_nul l) = c_strlen l + 1.
Proof.
  induction l as [|c r IH]; cbn [upto_nul c_strlen]; [reflexivity|].
  destruct (c =? 0); cbn [zlen]; lia.
Qed.

Section S.
Variable sb : list byte -> Z.

Definition refuse_size (t : tok) : presult := PR (set_err (set_off t 0) TE_size) None.

(* [strict_cmp] = true: the repaired comparison (>=); false: the comparison as it was (>) *)
Definition size_guard_n (strict_cmp : bool) (slen len : Z) : bool :=
  (len <? -1) || ((len =? -1) && (if strict_cmp then INT32_MAX <=? slen else INT32_MAX <? slen)).
Definition size_guard (strict_cmp : bool) (bytes : list byte) (len : Z) : bool :=
  size_guard_n strict_cmp (c_strlen bytes) len.

(* the API call: len = -1: NUL-terminated; len >= 0: the first len bytes (the caller guarantees
   that many bytes exist: len <= zlen bytes) *)
Definition parse_api_g (strict_cmp : bool) (t : tok) (bytes : list byte) (len : Z) : presult :=
  if size_guard strict_cmp bytes len then refuse_size t
  else if len =? -1 then parse_ex_cstr sb t bytes
  else parse_ex sb t (zfirstn len bytes).

Definition parse_api := parse_api_g true.

(* a refused call: error "size", no value, end position 0, nothing else touched *)
Theorem guard_refuses t bytes len :
  size_guard true bytes len = true ->
  parse_api t bytes len = refuse_size t /\
  (forall t', refuse_size t = PR t' None -> err t' = TE_size /\ char_offset t' = 0 /\ stack t' = stack t /\ cfg0 t' = cfg0 t).
Proof.
  intros H. unfold parse_api, parse_api_g. rewrite H. split; [reflexivity|].
  intros t' E. unfold refuse_size in E. inversion E; subst. repeat split; reflexivity.
Qed.

(* an accepted call is the character-level model's call *)
Theorem guard_passes t bytes len :
  size_guard true bytes len = false ->
  parse_api t bytes len = if len =? -1 then parse_ex_cstr sb t bytes else parse_ex sb t (zfirstn len bytes).
Proof. intros H. unfold parse_api, parse_api_g. rewrite H. reflexivity. Qed.

Lemma zlen_zfirstn_le {A} n (l : list A) : 0 <= n -> zlen (zfirstn n l) <= n.
Proof.
  intros Hn. unfold zfirstn. rewrite <- (Z2Nat.id n) at 2 by exact Hn.
  generalize (Z.to_nat n) as k. intros k. revert l.
  induction k as [|k IH]; intros l; [cbn; lia|]. destruct l as [|a l]; [cbn; lia|].
  cbn [firstn zlen]. specialize (IH l). lia.
Qed.

(* C04: whatever the input, the end position reported by an API call lies in 0..INT32_MAX when
   len fits an int (it is a C int argument): the counter cannot overflow.  (Within a call the
   counter only grows — TokTotal.run_bounds — so the bound holds at every step.) *)
Theorem api_offset_in_int t bytes len t' r :
  len <= INT32_MAX -> parse_api t bytes len = PR t' r -> 0 <= char_offset t' <= INT32_MAX.
Proof.
  intros Hl E. unfold parse_api, parse_api_g in E.
  destruct (size_guard true bytes len) eqn:G.
  - unfold refuse_size in E. inversion E; subst. cbn. unfold INT32_MAX. lia.
  - unfold size_guard, size_guard_n in G. apply orb_false_iff in G. destruct G as [G1 G2].
    destruct (len =? -1) eqn:E1.
    + cbn [andb] in G2. unfold parse_ex_cstr in E.
      destruct (parse_ex_outcome sb t (upto_nul bytes) t' r E) as (_ & Ho & _).
      rewrite zlen_upto_nul in Ho. lia.
    + destruct (parse_ex_outcome sb t (zfirstn len bytes) t' r E) as (_ & Ho & _).
      pose proof (zlen_zfirstn_le len bytes ltac:(lia)). lia.
Qed.

(* the bound is tight for the old comparison: a C string of INT32_MAX bytes passed the old guard,
   and the character-level call on it can end at INT32_MAX + 1 (one step over the NUL).  Shown on
   the structure of the call, not by running 2^31 steps: the old guard accepts, and the model's
   bound for such a call is INT32_MAX + 1, attained by every input whose last state consumes the
   NUL (see the scaled-down witness below and the finding old_size_guard_off_by_one). *)
Theorem old_guard_accepts_int32max bytes :
  c_strlen bytes = INT32_MAX -> size_guard false bytes (-1) = false /\ size_guard true bytes (-1) = true.
Proof. intros H. unfold size_guard, size_guard_n. rewrite H. split; reflexivity. Qed.
End S.

(* the scaled-down shape of the overflow: an unterminated string / comment of n bytes ends the
   call at offset n + 1 (the state steps over the terminating NUL) *)
Definition over_nul_examples : bool :=
  match tok_new 32 false false false with
  | None => false
  | Some t =>
      forallb (fun bs => match parse_ex_cstr (fun _ => 0) t bs with
                         | PR t' None => char_offset t' =? c_strlen bs + 1
                         | _ => false end)
              [[34;97;97;97]; [47;42;97;97;97]; [34]; [91;34;120]]
  end.
Lemma over_nul_examples_ok : over_nul_examples = true.
Proof. vm_compute. reflexivity. Qed.
