(* TokTotal.v — outcome trichotomy, end position within the given bytes, configuration
   never changed by a call, histories of parse/reset calls (C04, C15). *)
From JC Require Import Base BaseLemmas Value TokModel TokFrame TokStack.
Local Open Scope Z_scope.

Section S.
Variable sb : list byte -> Z.

Lemma redo_cfg fuel : forall t l r, redo sb fuel t l = Some r -> cfg (sres_tok r) = cfg t.
Proof.
  induction fuel as [|f IH]; intros t l r E; [discriminate|]. cbn [redo] in E.
  pose proof (cfg_step1 sb t l) as C.
  destruct (step1 sb t l) as [t' l'|t' l'|t' l'] eqn:S; cbn [sres_tok] in C.
  - inversion E; subst. exact C.
  - rewrite (IH _ _ _ E). exact C.
  - inversion E; subst. exact C.
Qed.

(* configuration without the offset *)
Definition cfg0 (t : tok) := (max_depth t, strict t, allow_trailing t, validate_utf8 t).
Lemma cfg_cfg0 t t' : cfg t' = cfg t -> cfg0 t' = cfg0 t /\ char_offset t' = char_offset t.
Proof. unfold cfg, cfg0. intros H. inversion H. split; congruence. Qed.

Lemma off_set_err t e : char_offset (set_err t e) = char_offset t. Proof. reflexivity. Qed.
Lemma off_set_off t n : char_offset (set_off t n) = n. Proof. reflexivity. Qed.

Lemma run_bounds bytes : forall t l t' l',
  run sb bytes t l = LOut t' l' ->
  cfg0 t' = cfg0 t /\ char_offset t <= char_offset t' <= char_offset t + zlen bytes.
Proof.
  induction bytes as [|b rest IH]; intros t l t' l' E; cbn [run] in E.
  - inversion E; subst. cbn [zlen]. split; [reflexivity|]. rewrite off_set_err. lia.
  - pose proof (zlen_nonneg rest) as Hr. cbn [zlen].
    destruct (if validate_utf8 t then validate_utf8_step b (nbytes l) else Some (nbytes l)) as [nb|].
    2:{ inversion E; subst. split; [reflexivity|]. rewrite off_set_err. lia. }
    destruct (redo sb REDO_FUEL t (mkloc b nb (lobj l) (lnum l))) as [[t1 l1|t1 l1|t1 l1]|] eqn:R; try discriminate.
    + apply redo_cfg in R. cbn [sres_tok] in R. apply cfg_cfg0 in R. destruct R as [R0 Ro].
      destruct (b =? 0).
      * inversion E; subst. split; [exact R0|]. rewrite off_set_off. lia.
      * apply IH in E. destruct E as [E0 Eo]. rewrite off_set_off in Eo.
        split; [rewrite E0; exact R0|]. lia.
    + apply redo_cfg in R. cbn [sres_tok] in R. apply cfg_cfg0 in R. destruct R as [R0 Ro].
      inversion E; subst. split; [exact R0|]. lia.
Qed.

(* what a call returns *)
Lemma finish_call_shape t l t' r :
  finish_call t l = PR t' r ->
  cfg0 t' = cfg0 t /\ char_offset t' = char_offset t /\
  ((exists v, r = Some v) <-> err t' = TE_success).
Proof.
  unfold finish_call. intros E.
  match type of E with context [if ?b then set_err ?x TE_utf8 else _] =>
    set (ta := if b then set_err x TE_utf8 else x) in *;
    assert (Ha : cfg0 ta = cfg0 t /\ char_offset ta = char_offset t) by (subst ta; destruct b; split; reflexivity) end.
  match type of E with context [if ?b then set_err ?x TE_unexpected else _] =>
    set (tb := if b then set_err x TE_unexpected else x) in *;
    assert (Hb : cfg0 tb = cfg0 ta /\ char_offset tb = char_offset ta) by (subst tb; destruct b; split; reflexivity) end.
  match type of E with context [if ?b then set_err ?x TE_eof else _] =>
    set (tc := if b then set_err x TE_eof else x) in *;
    assert (Hc : cfg0 tc = cfg0 tb /\ char_offset tc = char_offset tb) by (subst tc; destruct b; split; reflexivity) end.
  destruct Ha as [Ha1 Ha2], Hb as [Hb1 Hb2], Hc as [Hc1 Hc2].
  destruct (err tc) eqn:Ee; inversion E; subst.
  1: { split; [change (cfg0 (reset_levels tc)) with (cfg0 tc); congruence|].
       split; [change (char_offset (reset_levels tc)) with (char_offset tc); congruence|].
       change (err (reset_levels tc)) with (err tc). split; [intros _; exact Ee|eauto]. }
  all: split; [congruence|]; split; [congruence|]; rewrite Ee; split; [intros [v Hv]; discriminate|discriminate].
Qed.

(* C04: exactly one of (value, success) / (no value, continue) / (no value, error);
   the end position lies within the bytes given; the configuration is untouched *)
Theorem parse_ex_outcome t bytes t' r :
  parse_ex sb t bytes = PR t' r ->
  ((exists v, r = Some v) /\ err t' = TE_success \/
   r = None /\ err t' = TE_continue \/
   r = None /\ err t' <> TE_success /\ err t' <> TE_continue) /\
  0 <= char_offset t' <= zlen bytes /\
  cfg0 t' = cfg0 t.
Proof.
  unfold parse_ex. intros E.
  destruct (run sb bytes (set_err (set_off t 0) TE_success) (mkloc 1 0 JNull None)) as [t1 l1|] eqn:R; [|discriminate].
  apply run_bounds in R. destruct R as [R0 Ro]. rewrite off_set_err, off_set_off in Ro.
  apply finish_call_shape in E. destruct E as (E0 & Eo & Er).
  split; [|split; [lia|rewrite E0, R0; reflexivity]].
  destruct r as [v|].
  - left. split; [eauto|]. apply Er. eauto.
  - destruct (err t') eqn:Ee.
    + exfalso. destruct Er as [_ Er]. destruct (Er eq_refl) as [v Hv]. discriminate.
    + right; left. split; reflexivity.
    + right; right. split; [reflexivity|]. split; discriminate.
    + right; right. split; [reflexivity|]. split; discriminate.
    + right; right. split; [reflexivity|]. split; discriminate.
    + right; right. split; [reflexivity|]. split; discriminate.
    + right; right. split; [reflexivity|]. split; discriminate.
    + right; right. split; [reflexivity|]. split; discriminate.
    + right; right. split; [reflexivity|]. split; discriminate.
    + right; right. split; [reflexivity|]. split; discriminate.
    + right; right. split; [reflexivity|]. split; discriminate.
    + right; right. split; [reflexivity|]. split; discriminate.
    + right; right. split; [reflexivity|]. split; discriminate.
    + right; right. split; [reflexivity|]. split; discriminate.
    + right; right. split; [reflexivity|]. split; discriminate.
    + right; right. split; [reflexivity|]. split; discriminate.
    + right; right. split; [reflexivity|]. split; discriminate.
Qed.

(* histories of calls on one parser *)
Inductive tcall := CParse (bs : list byte) | CReset | CFlags (s a v : bool).
Definition do_call (t : tok) (c : tcall) : option tok :=
  match c with
  | CParse bs => match parse_ex sb t bs with PR t' _ => Some t' | PRFuel => None end
  | CReset => Some (tok_reset t)
  | CFlags s a v => Some (set_flags t s a v)
  end.
Fixpoint do_calls (t : tok) (cs : list tcall) : option tok :=
  match cs with
  | [] => Some t
  | c :: r => match do_call t c with Some t' => do_calls t' r | None => None end
  end.

Theorem history_stack_ok cs : forall t t',
  stack_ok t -> do_calls t cs = Some t' -> stack_ok t' /\ max_depth t' = max_depth t.
Proof.
  induction cs as [|c cs IH]; intros t t' H E; cbn [do_calls] in E.
  - inversion E; subst. auto.
  - destruct (do_call t c) as [t1|] eqn:D; [|discriminate].
    assert (H1 : stack_ok t1 /\ max_depth t1 = max_depth t).
    { destruct c as [bs| |s a v]; cbn [do_call] in D.
      - destruct (parse_ex sb t bs) as [t2 r|] eqn:P; [|discriminate]. inversion D; subst.
        split; [eapply parse_ex_stack_ok; eassumption|].
        apply parse_ex_outcome in P. destruct P as (_ & _ & C). unfold cfg0 in C. congruence.
      - inversion D; subst. split; [|reflexivity]. apply tok_reset_stack_ok. unfold stack_ok in H.
        pose proof (zlen_nonneg (stack t)). lia.
      - inversion D; subst. split; [exact H|reflexivity]. }
    destruct H1 as [H1 M1]. destruct (IH _ _ H1 E) as [H2 M2]. split; [exact H2|congruence].
Qed.
End S.

(* depth examples evaluated inside Coq: limit 2 accepts [[]] and [1], rejects [[1]] at offset 2 *)
Definition depth_case (d : Z) (s : list byte) : option (terr * Z) :=
  match tok_new d false false false with
  | Some t => match parse_ex_cstr (fun _ => 0) t s with PR t' _ => Some (err t', char_offset t') | PRFuel => None end
  | None => None
  end.
Definition depth_examples_ok : bool :=
  match depth_case 2 [91;91;93;93], depth_case 2 [91;49;93], depth_case 2 [91;91;49;93;93], depth_case 1 [91;93], depth_case 1 [91;49;93], depth_case 0 [49] with
  | Some (TE_success, 4), Some (TE_success, 3), Some (TE_depth, 2), Some (TE_success, 2), Some (TE_depth, 1), None => true
  | _, _, _, _, _, _ => false
  end.
Lemma depth_examples : depth_examples_ok = true.
Proof. vm_compute. reflexivity. Qed.
