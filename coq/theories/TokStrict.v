(* TokStrict.v — per-site behaviour of the strict flag (C16). *)
From JC Require Import Base BaseLemmas Value TokModel TokFrame.
Local Open Scope Z_scope.

Section S.
Variable sb : list byte -> Z.

Lemma err_set_err t e : err (set_err t e) = e. Proof. reflexivity. Qed.

Lemma strict_no_comment t l :
  strict t = true -> st t = S_eatws -> lc l = 47 ->
  step1 sb t l = Redo (set_state t (sv t)) l /\
  (forall t2, st t2 = S_start \/ st t2 = S_array_sep \/ st t2 = S_object_sep \/ st t2 = S_object_field_end \/
              st t2 = S_object_field_start \/ st t2 = S_object_field_start_after_sep ->
     exists t', step1 sb t2 l = Out t' l /\ err t' <> TE_success /\ err t' <> TE_continue).
Proof.
  intros Hs Hst Hc. split.
  - unfold step1. rewrite Hst, Hc, Hs. reflexivity.
  - intros t2 H. unfold step1, fail.
    destruct H as [H|[H|[H|[H|[H|H]]]]]; rewrite H, Hc; cbn;
      try destruct (strict t2); eexists; (split; [reflexivity|]); rewrite err_set_err; split; discriminate.
Qed.

Lemma strict_rejects_single_quote_value t l :
  strict t = true -> st t = S_start -> lc l = 39 ->
  exists t', step1 sb t l = Out t' l /\ err t' = TE_unexpected.
Proof.
  intros Hs Hst Hc. unfold step1, fail. rewrite Hst, Hc, Hs. cbn. eexists. split; reflexivity.
Qed.

Lemma strict_rejects_trailing_comma t l :
  strict t = true -> (st t = S_array_after_sep /\ lc l = 93 \/ st t = S_object_field_start_after_sep /\ lc l = 125) ->
  exists t', step1 sb t l = Out t' l /\ err t' = TE_unexpected.
Proof.
  intros Hs [[Hst Hc]|[Hst Hc]]; unfold step1, fail; rewrite Hst, Hc, Hs; cbn; eexists; split; reflexivity.
Qed.

Lemma strict_rejects_control_char t l :
  strict t = true -> (st t = S_string \/ st t = S_object_field) -> 0 <= lc l <= 31 -> lc l <> quote_char t ->
  exists t', step1 sb t l = Out t' l /\ err t' = TE_string.
Proof.
  intros Hs Hst Hc Hq. unfold step1, fail.
  assert (E1 : (lc l =? quote_char t) = false) by lia.
  assert (E2 : (lc l =? 92) = false) by lia.
  assert (E3 : (lc l <=? 31) = true) by lia.
  destruct Hst as [Hst|Hst]; rewrite Hst, E1, E2, Hs, E3; cbn; eexists; split; reflexivity.
Qed.

Lemma default_accepts_sites t l :
  strict t = false ->
  (st t = S_start -> lc l = 39 -> exists t', step1 sb t l = Consumed t' l /\ st t' = S_string) /\
  (st t = S_array_after_sep -> lc l = 93 -> exists t', step1 sb t l = Consumed t' l /\ sv t' = S_finish) /\
  (st t = S_eatws -> lc l = 47 -> exists t', step1 sb t l = Consumed t' l /\ st t' = S_comment_start).
Proof.
  intros Hs. repeat split; intros Hst Hc; unfold step1; rewrite Hst, Hc, ?Hs; cbn; eexists; split; try reflexivity.
  - unfold st, set_quote, set_pb, set_state, set_top, top; cbn. destruct (stack t); reflexivity.
  - unfold sv, set_top, top; cbn. destruct (stack t); reflexivity.
  - unfold st, set_pb, set_state, set_top, top; cbn. destruct (stack t); reflexivity.
Qed.
End S.

Definition parse_err (strictf : bool) (s : list byte) : option terr :=
  match tok_new 32 strictf false false with
  | Some t => match parse_ex_cstr (fun _ => 4607182418800017408) t s with
              | PR t' _ => Some (err t') | PRFuel => None end
  | None => None
  end.
Definition is_ok (o : option terr) : bool := match o with Some TE_success => true | _ => false end.
Definition is_rej (o : option terr) : bool := match o with Some TE_success | Some TE_continue | None => false | _ => true end.

(* [1,]  /**/1  'a'  True  "<0x01>"  [1] x  — each rejected strictly, accepted by default *)
Definition ext_samples : list (list byte) :=
  [[91;49;44;93]; [47;42;42;47;49]; [39;97;39]; [84;114;117;101]; [34;1;34]; [91;49;93;32;120]].
Definition strict_examples_ok : bool :=
  forallb (fun s => is_rej (parse_err true s) && is_ok (parse_err false s)) ext_samples.
Lemma strict_examples : strict_examples_ok = true.
Proof. vm_compute. reflexivity. Qed.
