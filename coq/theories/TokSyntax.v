(* TokSyntax.v — RFC 8259 syntax trees that record every spelling choice, their rendering
   as bytes, and the value a text denotes (property C01).  Definitions only; the proofs
   are in TokValid*.v.

   Everything here is independent of the tokener state machine: the only items taken from
   TokModel.v are the character classes (is_ws, is_digit, is_hex), the surrogate ranges,
   has_byte, and obj_add (member insertion: first-occurrence order, last value; its
   specification is TokProofs.obj_add_spec); from TokProofs.v the bitwise reference UTF-8
   encoder utf8_ref. *)
From JC Require Import Base BaseLemmas Value TokModel TokProofs.
Local Open Scope Z_scope.

(* ------------------------------------------------------------------ syntax *)
Definition ws := list byte.                       (* each byte one of 32 9 10 13 *)

Inductive lit := LNull | LTrue | LFalse.

Inductive esc := EQuote | EBackslash | ESlash | Eb | Ef | En | Er | Et.

Inductive schar :=
| CRaw (b : byte)                 (* any byte >= 32 except 34 (quote) and 92 (backslash); bytes >= 128 are copied verbatim *)
| CEsc (e : esc)                  (* backslash followed by one of: quote backslash / b f n r t *)
| CUni (d1 d2 d3 d4 : byte).      (* \uXXXX, hex digits of either case *)

(* number = [ minus ] int [ frac ] [ exp ] *)
Record numtok := mknum {
  n_neg : bool;
  n_int : list byte;                                  (* 0, or a nonzero digit followed by digits *)
  n_frac : option (list byte);                        (* . digit+ *)
  n_exp : option (byte * option byte * list byte) }.  (* (e|E) [+|-] digit+ *)

Inductive stx :=
| SLit (l : lit)
| SNum (n : numtok)
| SStr (cs : list schar)
| SArr (w : ws) (es : list (ws * stx * ws))                         (* w: the blanks of an empty array, used only when es = [] *)
| SObj (w : ws) (ms : list (ws * list schar * ws * ws * stx * ws)). (* ws name ws : ws value ws *)

Definition el_val (x : ws * stx * ws) : stx := snd (fst x).
Definition m_name (m : ws * list schar * ws * ws * stx * ws) : list schar := snd (fst (fst (fst (fst m)))).
Definition m_val (m : ws * list schar * ws * ws * stx * ws) : stx := snd (fst m).

(* induction principle with Forall on the children *)
Section stx_ind'.
  Variable P : stx -> Prop.
  Hypothesis Hlit : forall l, P (SLit l).
  Hypothesis Hnum : forall n, P (SNum n).
  Hypothesis Hstr : forall cs, P (SStr cs).
  Hypothesis Harr : forall w es, Forall (fun x => P (el_val x)) es -> P (SArr w es).
  Hypothesis Hobj : forall w ms, Forall (fun m => P (m_val m)) ms -> P (SObj w ms).
  Fixpoint stx_ind' (s : stx) : P s :=
    match s with
    | SLit l => Hlit l | SNum n => Hnum n | SStr cs => Hstr cs
    | SArr w es =>
        Harr w es ((fix go (l : list (ws * stx * ws)) : Forall (fun x => P (el_val x)) l :=
                      match l with
                      | [] => Forall_nil _
                      | x :: r => Forall_cons x (stx_ind' (el_val x)) (go r)
                      end) es)
    | SObj w ms =>
        Hobj w ms ((fix go (l : list (ws * list schar * ws * ws * stx * ws)) : Forall (fun m => P (m_val m)) l :=
                      match l with
                      | [] => Forall_nil _
                      | x :: r => Forall_cons x (stx_ind' (m_val x)) (go r)
                      end) ms)
    end.
End stx_ind'.

(* ------------------------------------------------------------------ rendering *)
Definition render_lit (l : lit) : list byte :=
  match l with LNull => [110;117;108;108] | LTrue => [116;114;117;101] | LFalse => [102;97;108;115;101] end.

Definition render_esc (e : esc) : byte :=
  match e with
  | EQuote => 34 | EBackslash => 92 | ESlash => 47
  | Eb => 98 | Ef => 102 | En => 110 | Er => 114 | Et => 116
  end.

Definition render_schar (c : schar) : list byte :=
  match c with
  | CRaw b => [b]
  | CEsc e => [92; render_esc e]
  | CUni d1 d2 d3 d4 => [92; 117; d1; d2; d3; d4]
  end.

Definition render_chars (cs : list schar) : list byte := flat_map render_schar cs.
Definition render_str (cs : list schar) : list byte := 34 :: render_chars cs ++ [34].

Definition render_frac (f : option (list byte)) : list byte :=
  match f with Some ds => 46 :: ds | None => [] end.
Definition render_exp (e : option (byte * option byte * list byte)) : list byte :=
  match e with
  | Some (ec, sg, ds) => ec :: (match sg with Some s => [s] | None => [] end) ++ ds
  | None => []
  end.
Definition render_num (n : numtok) : list byte :=
  (if n_neg n then [45] else []) ++ n_int n ++ render_frac (n_frac n) ++ render_exp (n_exp n).

(* x1 sep x2 sep ... xn *)
Fixpoint join (sep : byte) (ls : list (list byte)) : list byte :=
  match ls with
  | [] => []
  | x :: r => match r with [] => x | _ => x ++ sep :: join sep r end
  end.

Fixpoint render (s : stx) : list byte :=
  match s with
  | SLit l => render_lit l
  | SNum n => render_num n
  | SStr cs => render_str cs
  | SArr w es =>
      91 :: (match es with
             | [] => w
             | _ => join 44 (map (fun x : ws * stx * ws => let '(a, e, b) := x in a ++ render e ++ b) es)
             end) ++ [93]
  | SObj w ms =>
      123 :: (match ms with
              | [] => w
              | _ => join 44 (map (fun m : ws * list schar * ws * ws * stx * ws =>
                                     let '(a, k, b, c, v, d) := m in
                                     a ++ render_str k ++ b ++ 58 :: c ++ render v ++ d) ms)
              end) ++ [125]
  end.

Definition render_doc (lead : ws) (s : stx) (trail : ws) : list byte := lead ++ render s ++ trail.

(* ------------------------------------------------------------------ denotation *)
Definition lit_value (l : lit) : jv :=
  match l with LNull => JNull | LTrue => JBool true | LFalse => JBool false end.

(* decimal value of a digit string *)
Definition dec_value (ds : list byte) : Z := fold_left (fun a c => a * 10 + (c - 48)) ds 0.

Definition is_int_tok (n : numtok) : bool :=
  match n_frac n, n_exp n with None, None => true | _, _ => false end.

(* integers exactly: int64 node when it fits (minus zero is the int64 0), uint64 node above
   INT64_MAX; everything with a fraction or an exponent is the double strtod makes of the
   token, which is retained as the source text *)
Definition num_value (strtod_bits : list byte -> Z) (n : numtok) : jv :=
  if is_int_tok n then
    let v := dec_value (n_int n) in
    if n_neg n then JInt (- v)
    else if v <=? INT64_MAX then JInt v else JUint v
  else JDouble (strtod_bits (render_num n)) (Some (render_num n)).

Definition esc_byte (e : esc) : byte :=
  match e with
  | EQuote => 34 | EBackslash => 92 | ESlash => 47
  | Eb => 8 | Ef => 12 | En => 10 | Er => 13 | Et => 9
  end.

Definition hexval (c : byte) : Z :=
  if c <=? 57 then c - 48 else if c <=? 70 then c - 55 else c - 87.
Definition code_unit (d1 d2 d3 d4 : byte) : Z :=
  hexval d1 * 4096 + hexval d2 * 256 + hexval d3 * 16 + hexval d4.

(* a string is first read as a sequence of units: plain bytes and UTF-16 code units *)
Inductive sunit := UByte (b : byte) | UCode (u : Z).
Definition unit_of (c : schar) : sunit :=
  match c with
  | CRaw b => UByte b
  | CEsc e => UByte (esc_byte e)
  | CUni d1 d2 d3 d4 => UCode (code_unit d1 d2 d3 d4)
  end.

Definition pair_scalar (hi lo : Z) : Z := 65536 + (hi - 55296) * 1024 + (lo - 56320).

(* ... then a high surrogate immediately followed by a low surrogate is one scalar value,
   every other surrogate is replaced by U+FFFD, everything is encoded as UTF-8 *)
Fixpoint utf8_of_units (us : list sunit) : list byte :=
  match us with
  | [] => []
  | UByte b :: r => b :: utf8_of_units r
  | UCode u :: r =>
      if is_high_surrogate u then
        match r with
        | UCode v :: r' =>
            if is_low_surrogate v then utf8_ref (pair_scalar u v) ++ utf8_of_units r'
            else utf8_replacement ++ utf8_of_units r
        | _ => utf8_replacement ++ utf8_of_units r
        end
      else if is_low_surrogate u then utf8_replacement ++ utf8_of_units r
      else utf8_ref u ++ utf8_of_units r
  end.

Definition decode (cs : list schar) : list byte := utf8_of_units (map unit_of cs).

Fixpoint value (strtod_bits : list byte -> Z) (s : stx) : jv :=
  match s with
  | SLit l => lit_value l
  | SNum n => num_value strtod_bits n
  | SStr cs => JStr (decode cs)
  | SArr _ es => JArr (map (fun x : ws * stx * ws => value strtod_bits (el_val x)) es)
  | SObj _ ms =>
      JObj (fold_left (fun acc kv => obj_add acc (fst kv) (snd kv))
                      (map (fun m : ws * list schar * ws * ws * stx * ws =>
                              (decode (m_name m), value strtod_bits (m_val m))) ms)
                      [])
  end.

(* the largest number of containers enclosing a value *)
Fixpoint nest (s : stx) : nat :=
  match s with
  | SArr _ es => list_max (map (fun x : ws * stx * ws => S (nest (el_val x))) es)
  | SObj _ ms => list_max (map (fun m : ws * list schar * ws * ws * stx * ws => S (nest (m_val m))) ms)
  | _ => 0%nat
  end.

(* ------------------------------------------------------------------ side conditions *)
Definition all_ws (w : ws) : bool := forallb is_ws w.
Definition all_digits (ds : list byte) : bool := forallb is_digit ds.

Definition wf_int (ds : list byte) : bool :=
  match ds with
  | [] => false
  | d :: r => all_digits ds && ((d =? 48) && (match r with [] => true | _ => false end) || negb (d =? 48))
  end.
Definition wf_frac (f : option (list byte)) : bool :=
  match f with Some ds => all_digits ds && negb (match ds with [] => true | _ => false end) | None => true end.
Definition wf_exp (e : option (byte * option byte * list byte)) : bool :=
  match e with
  | Some (ec, sg, ds) =>
      ((ec =? 101) || (ec =? 69)) &&
      (match sg with Some s => (s =? 43) || (s =? 45) | None => true end) &&
      all_digits ds && negb (match ds with [] => true | _ => false end)
  | None => true
  end.
Definition wf_num (n : numtok) : bool := wf_int (n_int n) && wf_frac (n_frac n) && wf_exp (n_exp n).

Definition wf_schar (c : schar) : bool :=
  match c with
  | CRaw b => (32 <=? b) && (b <=? 255) && negb (b =? 34) && negb (b =? 92)
  | CEsc _ => true
  | CUni d1 d2 d3 d4 => is_hex d1 && is_hex d2 && is_hex d3 && is_hex d4
  end.
Definition wf_chars (cs : list schar) : bool := forallb wf_schar cs.

Fixpoint wf_stxb (s : stx) : bool :=
  match s with
  | SLit _ => true
  | SNum n => wf_num n
  | SStr cs => wf_chars cs
  | SArr w es =>
      all_ws w && forallb (fun x : ws * stx * ws => let '(a, e, b) := x in all_ws a && wf_stxb e && all_ws b) es
  | SObj w ms =>
      all_ws w && forallb (fun m : ws * list schar * ws * ws * stx * ws =>
                             let '(a, k, b, c, v, d) := m in
                             all_ws a && wf_chars k && all_ws b && all_ws c && wf_stxb v && all_ws d) ms
  end.
Definition wf_stx (s : stx) : Prop := wf_stxb s = true.

(* every integer token within [INT64_MIN, UINT64_MAX] (beyond that json-c saturates in
   default mode and rejects in strict mode) *)
Definition int_in_range (n : numtok) : bool :=
  if is_int_tok n then
    if n_neg n then dec_value (n_int n) <=? 9223372036854775808 else dec_value (n_int n) <=? UINT64_MAX
  else true.
Fixpoint ints_in_range (s : stx) : bool :=
  match s with
  | SNum n => int_in_range n
  | SArr _ es => forallb (fun x : ws * stx * ws => ints_in_range (el_val x)) es
  | SObj _ ms => forallb (fun m : ws * list schar * ws * ws * stx * ws => ints_in_range (m_val m)) ms
  | _ => true
  end.

(* no member name denotes a string containing U+0000 (KNOWN defect: names are C strings,
   see TokProofs.parse_name_nul_refuted) *)
Fixpoint names_nul_free (s : stx) : bool :=
  match s with
  | SArr _ es => forallb (fun x : ws * stx * ws => names_nul_free (el_val x)) es
  | SObj _ ms => forallb (fun m : ws * list schar * ws * ws * stx * ws =>
                            negb (has_byte 0 (decode (m_name m))) && names_nul_free (m_val m)) ms
  | _ => true
  end.
