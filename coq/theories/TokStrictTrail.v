(* TokStrictTrail.v — C16, last sentence: with JSON_TOKENER_ALLOW_TRAILING_CHARS strict mode
   accepts trailing bytes after the document and reports where the value ended (and so
   does default mode, with or without the flag).  For every RFC 8259 syntax tree. *)
From JC Require Import Base BaseLemmas Value TokModel TokProofs TokSyntax
  TokValidBase TokValidLit TokValid TokSyntaxExt TokValidExtNum TokValid2 TokExt.
Local Open Scope Z_scope.

(* the guard on the trailing bytes.  Only the FIRST byte matters:
   - it is not a blank (else the end position would lie behind it);
   - when it follows the value directly (no trailing blank in the document) it is not a byte
     a number token would absorb: digit e E + - . (and I i, which the number state of the
     C code special-cases) — [xstop], needed only after a number but required uniformly;
   - in default mode it is not a slash (it would open a comment).
   Nothing is required of the other bytes; a NUL among the trailing bytes just ends the
   C string there (and counts as "no more trailing bytes" when it is the first). *)
Definition tjunk_ok (sf : bool) (trail junk : list byte) : bool :=
  match junk with
  | [] => true
  | j :: _ => negb (is_ws j) && (nonempty trail || xstop j) && (sf || negb (j =? 47))
  end.
(* the flag words: strict needs allow_trailing, default mode does not *)
Definition mode_ok (sf al : bool) : bool := negb sf || al.

Section S.
Variable sb : list byte -> Z.

(* the byte after the document, in (eatws, saved = finish) at depth 0: the loop is left without
   consuming it and the call returns the value *)
Lemma final_byte md sf al f j more v g off x nb lo :
  (2 <= f)%nat -> is_ws j = false -> mode_ok sf al = true -> (sf || negb (j =? 47)) = true ->
  exists t' l', run_f sb f (j :: more) (T (mkcf md sf al) [mksrec S_eatws S_finish v None] g 0 off) (mkloc x nb lo None) = LOut t' l' /\
    finish_call t' l' = PR (reset_levels t') (Some v) /\ err t' = TE_success /\ char_offset t' = off.
Proof.
  intros Hf Hws Hm H47. fuel f. destruct g as [p d s u q].
  eexists _, _. split; [|split; [|split]].
  - apply runT_O. cbn [redo].
    assert (S1 : step1 sb (T (mkcf md sf al) [mksrec S_eatws S_finish v None] (mkgb p d s u q) 0 off) (mkloc j nb lo None) =
                 Redo (T (mkcf md sf al) [mksrec S_finish S_finish v None] (mkgb p d s u q) 0 off) (mkloc j nb lo None)).
    { unfold step1. cbn [st top stack T s_state lc strict c_sf]. rewrite Hws.
      assert (E : ((j =? 47) && negb sf) = false) by (destruct sf, (j =? 47); cbn in *; congruence). rewrite E. reflexivity. }
    rewrite S1. reflexivity.
  - unfold finish_call. cbn [lc validate_utf8 T andb strict allow_trailing c_sf c_al].
    assert (E2 : (negb (j =? 0) && tstate_eqb (st (T (mkcf md sf al) [mksrec S_finish S_finish v None] (mkgb p d s u q) 0 off)) S_finish &&
                  (depth (T (mkcf md sf al) [mksrec S_finish S_finish v None] (mkgb p d s u q) 0 off) =? 0) && sf && negb al) = false).
    { unfold mode_ok in Hm. destruct sf, al; cbn in Hm; try discriminate; rewrite ?andb_false_r; reflexivity. }
    rewrite E2.
    assert (E3 : ((j =? 0) && (negb (depth (T (mkcf md sf al) [mksrec S_finish S_finish v None] (mkgb p d s u q) 0 off) =? 0) ||
                  (negb (tstate_eqb (st (T (mkcf md sf al) [mksrec S_finish S_finish v None] (mkgb p d s u q) 0 off)) S_finish) &&
                   negb (tstate_eqb (sv (T (mkcf md sf al) [mksrec S_finish S_finish v None] (mkgb p d s u q) 0 off)) S_finish)))) = false).
    { cbn. rewrite !andb_false_r. reflexivity. }
    rewrite E3. reflexivity.
  - reflexivity.
  - reflexivity.
Qed.

(* the loop over the document followed by a byte that ends it *)
Lemma doc_then_byte D sf al s lead trail j more :
  wf_stx s -> all_ws lead = true -> all_ws trail = true ->
  Z.of_nat (nest s) < D -> ints_in_range s = true -> names_nul_free s = true ->
  is_ws j = false -> (nonempty trail || xstop j) = true -> mode_ok sf al = true -> (sf || negb (j =? 47)) = true ->
  exists t' l',
    run sb (lead ++ render s ++ trail ++ j :: more) (T (mkcf D sf al) [fresh_level] (mkgb [] false 0 0 0) 0 0) (mkloc 1 0 JNull None) = LOut t' l' /\
    finish_call t' l' = PR (reset_levels t') (Some (value sb s)) /\ err t' = TE_success /\
    char_offset t' = zlen (lead ++ render s ++ trail).
Proof.
  intros Hw Hl Htr Hd Hi Hn Hws Hst Hm H47.
  pose proof (value_ok2 sb (mkcf D sf al) s Hw (covered_all s) Hi Hn) as HV.
  rewrite run_run_f. unfold val_ok2, fresh_level in *.
  destruct (run_ws sb (mkcf D sf al) lead REDO_FUEL S_start JNull None [] (mkgb [] false 0 0 0) 0 0 1 0 JNull None
              (render s ++ trail ++ j :: more)) as (f1 & x1 & Hf1 & ->); [unfold REDO_FUEL; lia|exact Hl|].
  destruct (HV f1 [] (mkgb [] false 0 0 0) (0 + zlen lead) x1 0 JNull (trail ++ j :: more)) as (f2 & g2 & x2 & lo2 & Hf2 & ->).
  { lia. } { cbn [zlen c_md]. lia. }
  { destruct trail as [|b w]; cbn [app xfol_rest xfol_ok is_nil].
    - cbn [nonempty orb] in Hst. exact Hst.
    - cbn [all_ws forallb] in Htr. apply andb_true_iff in Htr. destruct Htr as [Hb _]. unfold xstop, is_ws, is_digit in *. lia. }
  destruct (run_ws sb (mkcf D sf al) trail f2 S_finish (value sb s) None [] g2 0 (0 + zlen lead + zlen (render s)) x2 0 lo2 None
              (j :: more)) as (f3 & x3 & Hf3 & ->); [exact Hf2|exact Htr|].
  destruct (final_byte D sf al f3 j more (value sb s) g2 (0 + zlen lead + zlen (render s) + zlen trail) x3 0 lo2)
    as (t' & l' & E & Hfin & He & Ho); [lia|exact Hws|exact Hm|exact H47|].
  exists t', l'. split; [exact E|]. split; [exact Hfin|]. split; [exact He|]. rewrite Ho, !zlen_app. lia.
Qed.

Lemma tok_new_T D sf al t : tok_new D sf al false = Some t ->
  set_err (set_off t 0) TE_success = T (mkcf D sf al) [fresh_level] (mkgb [] false 0 0 0) 0 0.
Proof. unfold tok_new. destruct (D <? 1); [discriminate|]. intros H. inversion H. reflexivity. Qed.

(* ---------------------------------------------------------------- the theorems *)
(* NUL-terminated text (len = -1): document, then any trailing bytes whose first byte passes tjunk_ok *)
Theorem trailing_accepted_cstr D sf al s lead trail junk t :
  wf_stx s -> all_ws lead = true -> all_ws trail = true ->
  Z.of_nat (nest s) < D -> ints_in_range s = true -> names_nul_free s = true ->
  tjunk_ok sf trail junk = true -> mode_ok sf al = true ->
  tok_new D sf al false = Some t ->
  exists t', parse_ex_cstr sb t (render_doc lead s trail ++ junk) = PR t' (Some (value sb s)) /\
             err t' = TE_success /\ char_offset t' = zlen (render_doc lead s trail).
Proof.
  intros Hw Hl Htr Hd Hi Hn Hj Hm Hnew.
  unfold parse_ex_cstr, render_doc. rewrite upto_nul_app.
  2:{ rewrite !nonul_app, (render_nonul s Hw), (nonul_ws _ Hl), (nonul_ws _ Htr). reflexivity. }
  assert (Hup : exists j more, upto_nul junk = j :: more /\ is_ws j = false /\ (nonempty trail || xstop j) = true /\ (sf || negb (j =? 47)) = true).
  { destruct junk as [|j js]; cbn [upto_nul].
    - exists 0, []. repeat split. rewrite !orb_true_r. reflexivity. rewrite orb_true_r. reflexivity.
    - destruct (j =? 0) eqn:E0.
      + exists 0, []. repeat split. rewrite !orb_true_r. reflexivity. rewrite orb_true_r. reflexivity.
      + exists j, (upto_nul js). cbn [tjunk_ok] in Hj. apply andb_true_iff in Hj. destruct Hj as [Hj H47].
        apply andb_true_iff in Hj. destruct Hj as [Hws Hst].
        split; [reflexivity|]. split; [destruct (is_ws j); [discriminate|reflexivity]|]. split; assumption. }
  destruct Hup as (j & more & Eu & Hws & Hst & H47). rewrite Eu. unfold parse_ex. rewrite (tok_new_T D sf al t Hnew).
  rewrite <- !app_assoc.
  destruct (doc_then_byte D sf al s lead trail j more Hw Hl Htr Hd Hi Hn Hws Hst Hm H47) as (t' & l' & -> & -> & He & Ho).
  exists (reset_levels t'). split; [reflexivity|]. split; [exact He|]. exact Ho.
Qed.

(* explicit length (len = the whole buffer): here at least one trailing byte is needed (a
   literal or number at the very end of the buffer is not complete: json_tokener_continue) *)
Theorem trailing_accepted_len D sf al s lead trail j js t :
  wf_stx s -> all_ws lead = true -> all_ws trail = true ->
  Z.of_nat (nest s) < D -> ints_in_range s = true -> names_nul_free s = true ->
  tjunk_ok sf trail (j :: js) = true -> mode_ok sf al = true ->
  tok_new D sf al false = Some t ->
  exists t', parse_ex sb t (render_doc lead s trail ++ j :: js) = PR t' (Some (value sb s)) /\
             err t' = TE_success /\ char_offset t' = zlen (render_doc lead s trail).
Proof.
  intros Hw Hl Htr Hd Hi Hn Hj Hm Hnew.
  cbn [tjunk_ok] in Hj. apply andb_true_iff in Hj. destruct Hj as [Hj H47]. apply andb_true_iff in Hj. destruct Hj as [Hws Hst].
  assert (Hws' : is_ws j = false) by (destruct (is_ws j); [discriminate|reflexivity]).
  unfold parse_ex, render_doc. rewrite (tok_new_T D sf al t Hnew). rewrite <- !app_assoc.
  destruct (doc_then_byte D sf al s lead trail j js Hw Hl Htr Hd Hi Hn Hws' Hst Hm H47) as (t' & l' & -> & -> & He & Ho).
  exists (reset_levels t'). split; [reflexivity|]. split; [exact He|]. exact Ho.
Qed.

(* strict + allow_trailing, as the property states it *)
Corollary strict_allow_trailing D s lead trail junk t :
  wf_stx s -> all_ws lead = true -> all_ws trail = true ->
  Z.of_nat (nest s) < D -> ints_in_range s = true -> names_nul_free s = true ->
  tjunk_ok true trail junk = true ->
  tok_new D true true false = Some t ->
  exists t', parse_ex_cstr sb t (render_doc lead s trail ++ junk) = PR t' (Some (value sb s)) /\
             err t' = TE_success /\ char_offset t' = zlen (render_doc lead s trail).
Proof. intros. apply (trailing_accepted_cstr D true true); auto. Qed.

(* default mode, with or without the flag *)
Corollary default_allow_trailing D al s lead trail junk t :
  wf_stx s -> all_ws lead = true -> all_ws trail = true ->
  Z.of_nat (nest s) < D -> ints_in_range s = true -> names_nul_free s = true ->
  tjunk_ok false trail junk = true ->
  tok_new D false al false = Some t ->
  exists t', parse_ex_cstr sb t (render_doc lead s trail ++ junk) = PR t' (Some (value sb s)) /\
             err t' = TE_success /\ char_offset t' = zlen (render_doc lead s trail).
Proof. intros. apply (trailing_accepted_cstr D false al); auto. Qed.

End S.

(* non-vacuity: the nested example document of TokValid.v followed by  ]x{  — the hypotheses
   hold; strict + allow_trailing returns the value and the end position of the document (both
   through the C-string and the explicit-length entry), strict alone refuses *)
Definition trail_junk : list byte := [93; 120; 123].
Definition trail_example_ok : bool :=
  let sb := fun _ : list byte => 7 in
  let text := render_doc [32] ex_tree [10] ++ trail_junk in
  wf_stxb ex_tree && (Z.of_nat (nest ex_tree) <? 3) && ints_in_range ex_tree && names_nul_free ex_tree &&
  tjunk_ok true [10] trail_junk && tjunk_ok true [] trail_junk &&
  match tok_new 3 true true false, tok_new 3 true false false with
  | Some t, Some t0 =>
      match parse_ex_cstr sb t text, parse_ex sb t text, parse_ex_cstr sb t0 text with
      | PR t1 (Some v1), PR t2 (Some v2), PR t3 None =>
          jv_eqb_ex v1 && jv_eqb_ex v2 &&
          (char_offset t1 =? zlen (render_doc [32] ex_tree [10])) && (char_offset t2 =? zlen (render_doc [32] ex_tree [10])) &&
          match err t1, err t2, err t3 with TE_success, TE_success, TE_unexpected => true | _, _, _ => false end
      | _, _, _ => false end
  | _, _ => false end.
Lemma trail_example : trail_example_ok = true.
Proof. vm_compute. reflexivity. Qed.
