(* TokValidNum.v — parse_valid (C01), part 2: number tokens. *)
From JC Require Import Base BaseLemmas Value TokModel TokProofs TokSyntax TokValidBase TokValidLit.
Local Open Scope Z_scope.

Lemma is_digit_cases d : is_digit d = true ->
  d = 48 \/ d = 49 \/ d = 50 \/ d = 51 \/ d = 52 \/ d = 53 \/ d = 54 \/ d = 55 \/ d = 56 \/ d = 57.
Proof. unfold is_digit. lia. Qed.
Ltac digit_cases H :=
  destruct (is_digit_cases _ H) as [->|[->|[->|[->|[->|[->|[->|[->|[->| ->]]]]]]]]].

(* the tokener inside a number token *)
Definition NS (c : cf) (below : list srec) (p : list byte) (dbl : bool) (sp u q off : Z) : tok :=
  T c (mksrec S_number S_start JNull None :: below) (mkgb p dbl sp u q) 0 off.

Definition after_digits (ds : list byte) (b : bool) : bool := match ds with [] => b | _ => false end.

(* ---------------------------------------------------------------- facts about tokens *)
Lemma digits_val_fold ds : all_digits ds = true -> forall acc,
  digits_val ds acc = (fold_left (fun a c => a * 10 + (c - 48)) ds acc, []).
Proof.
  induction ds as [|d ds IH]; intros H acc; [reflexivity|].
  cbn [all_digits forallb] in H. apply andb_true_iff in H. destruct H as [Hd H].
  cbn [digits_val fold_left]. rewrite Hd. apply IH. exact H.
Qed.
Lemma digits_value_dec ds : all_digits ds = true -> digits_value ds = dec_value ds.
Proof. intros H. unfold digits_value, dec_value. rewrite digits_val_fold by exact H. reflexivity. Qed.

Lemma all_digits_Forall ds : all_digits ds = true -> Forall (fun c => is_digit c = true) ds.
Proof. unfold all_digits. rewrite forallb_forall, Forall_forall. auto. Qed.

Lemma wf_int_facts ip : wf_int ip = true -> ip <> [] /\ all_digits ip = true /\ leading_zero ip = false.
Proof.
  destruct ip as [|d r]; [discriminate|]. unfold wf_int. intros H.
  apply andb_true_iff in H. destruct H as [H1 H2]. split; [discriminate|]. split; [exact H1|].
  unfold leading_zero. destruct r; [reflexivity|]. cbn in H2. lia.
Qed.

Lemma skip_digits_app ds more : all_digits ds = true -> skip_digits (ds ++ more) = skip_digits more.
Proof.
  induction ds as [|d ds IH]; [reflexivity|]. cbn [all_digits forallb app skip_digits]. intros H.
  apply andb_true_iff in H. destruct H as [Hd H]. rewrite Hd. apply IH. exact H.
Qed.
Lemma skip_digits_all ds : all_digits ds = true -> skip_digits ds = [].
Proof. intros H. rewrite <- (app_nil_r ds). rewrite skip_digits_app by exact H. reflexivity. Qed.

Lemma wf_frac_facts fr : wf_frac fr = true -> match fr with Some ds => all_digits ds = true /\ 0 < zlen ds | None => True end.
Proof.
  destruct fr as [ds|]; [|auto]. unfold wf_frac. intros H. apply andb_true_iff in H. destruct H as [H1 H2].
  split; [exact H1|]. destruct ds; [discriminate|]. cbn [zlen]. pose proof (zlen_nonneg ds). lia.
Qed.
Lemma wf_exp_facts ex : wf_exp ex = true ->
  match ex with
  | Some (ec, sg, ds) => (ec = 101 \/ ec = 69) /\ match sg with Some s => s = 43 \/ s = 45 | None => True end /\
                         all_digits ds = true /\ 0 < zlen ds
  | None => True end.
Proof.
  destruct ex as [[[ec sg] ds]|]; [|auto]. unfold wf_exp. intros H.
  apply andb_true_iff in H. destruct H as [H H4]. apply andb_true_iff in H. destruct H as [H H3].
  apply andb_true_iff in H. destruct H as [H1 H2].
  split; [lia|]. split; [destruct sg; [lia|exact I]|]. split; [exact H3|].
  destruct ds; [discriminate|]. cbn [zlen]. pose proof (zlen_nonneg ds). lia.
Qed.

Definition sc_core (sign_len : Z) (l0 : list byte) : Z :=
  let l1 := skip_digits l0 in
  let int_digits := zlen l0 - zlen l1 in
  let '(l2, frac_digits, dot) :=
     match l1 with
     | c :: r => if c =? 46 then let r' := skip_digits r in (r', zlen r - zlen r', 1) else (l1, 0, 0)
     | [] => (l1, 0, 0)
     end in
  if (int_digits + frac_digits) =? 0 then 0
  else
    let mant_len := sign_len + int_digits + dot + frac_digits in
    match l2 with
    | c :: r =>
        if (c =? 101) || (c =? 69) then
          let r0 := match r with s :: r' => if (s =? 45) || (s =? 43) then r' else r | [] => [] end in
          let r1 := skip_digits r0 in
          if zlen r0 - zlen r1 =? 0 then mant_len
          else mant_len + 1 + (zlen r - zlen r0) + (zlen r0 - zlen r1)
        else mant_len
    | [] => mant_len
    end.
Lemma strtod_consumed_unfold l :
  strtod_consumed l =
  let l0 := match l with c :: r => if (c =? 45) || (c =? 43) then r else l | [] => [] end in
  sc_core (zlen l - zlen l0) l0.
Proof. reflexivity. Qed.

Lemma strtod_consumed_rfc n : wf_num n = true -> strtod_consumed (render_num n) = zlen (render_num n).
Proof.
  destruct n as [neg ip fr ex]. unfold wf_num, render_num. cbn [n_neg n_int n_frac n_exp]. intros H.
  apply andb_true_iff in H. destruct H as [H Hex]. apply andb_true_iff in H. destruct H as [Hip Hfr].
  destruct (wf_int_facts ip Hip) as (Hne & Hd & _).
  pose proof (wf_frac_facts fr Hfr) as Ffr. pose proof (wf_exp_facts ex Hex) as Fex.
  (* the exponent part *)
  set (E := render_exp ex).
  assert (HE : skip_digits E = E /\ (match E with c :: _ => (c =? 46) = false | [] => True end) /\
               (match E with
                | c :: r =>
                    ((c =? 101) || (c =? 69)) = true /\
                    let r0 := match r with s :: r' => if (s =? 45) || (s =? 43) then r' else r | [] => [] end in
                    zlen r0 - zlen (skip_digits r0) <> 0 /\
                    1 + (zlen r - zlen r0) + (zlen r0 - zlen (skip_digits r0)) = zlen E
                | [] => True end)).
  { subst E. destruct ex as [[[ec sg] ds]|]; [|cbn; auto]. destruct Fex as (Hec & Hsg & Hds & Hlen).
    cbn [render_exp]. assert (is_digit ec = false) by (unfold is_digit; lia).
    split; [cbn [skip_digits]; rewrite H; reflexivity|]. split; [lia|]. split; [lia|].
    destruct sg as [sgc|].
    - cbn [app]. assert (E1 : ((sgc =? 45) || (sgc =? 43)) = true) by lia. rewrite E1. cbv zeta.
      rewrite (skip_digits_all ds Hds). cbn [zlen]. lia.
    - cbn [app]. destruct ds as [|d ds]; [cbn in Hlen; lia|].
      assert (Hd0 : is_digit d = true) by (cbn in Hds; apply andb_true_iff in Hds; tauto).
      assert (E1 : ((d =? 45) || (d =? 43)) = false) by (unfold is_digit in Hd0; lia). rewrite E1. cbv zeta.
      rewrite (skip_digits_all (d :: ds) Hds). cbn [zlen] in *. lia. }
  destruct HE as (HE1 & HE2 & HE3).
  (* after the sign *)
  assert (Hcore : forall sign_len, sc_core sign_len (ip ++ render_frac fr ++ E) = sign_len + zlen (ip ++ render_frac fr ++ E)).
  { intros sign_len. unfold sc_core. cbv zeta. rewrite (skip_digits_app ip _ Hd).
    assert (Hip0 : 0 < zlen ip) by (destruct ip; [congruence|cbn [zlen]; pose proof (zlen_nonneg ip); lia]).
    destruct fr as [fd|].
    - destruct Ffr as [Hfd Hfl]. cbn [render_frac app]. cbn [skip_digits is_digit]. 
      change (is_digit 46) with false. cbv iota. rewrite Z.eqb_refl.
      rewrite (skip_digits_app fd E Hfd), HE1. rewrite !zlen_app. cbn [zlen]. rewrite !zlen_app.
      destruct (zlen ip + (1 + (zlen fd + zlen E)) - (1 + (zlen fd + zlen E)) + (zlen fd + zlen E - zlen E) =? 0) eqn:E0; [lia|].
      destruct E as [|ec r]; [cbn [zlen]; lia|]. destruct HE3 as (Hec & Hnz & Htot). rewrite Hec. cbv zeta in *.
      destruct (_ - _ =? 0) eqn:E9; [lia|]. cbn [zlen] in *. lia.
    - cbn [render_frac app]. rewrite HE1.
      assert (X : match E with
                  | c :: r => if c =? 46 then (skip_digits r, zlen r - zlen (skip_digits r), 1) else (E, 0, 0)
                  | [] => (E, 0, 0) end = (E, 0, 0)).
      { destruct E as [|ec r]; [reflexivity|]. rewrite HE2. reflexivity. }
      rewrite X. rewrite !zlen_app.
      destruct (zlen ip + zlen E - zlen E + 0 =? 0) eqn:E0; [lia|].
      destruct E as [|ec r]; [cbn [zlen]; lia|]. destruct HE3 as (Hec & Hnz & Htot). rewrite Hec. cbv zeta in *.
      destruct (_ - _ =? 0) eqn:E9; [lia|]. cbn [zlen] in *. lia. }
  rewrite strtod_consumed_unfold. cbv zeta. destruct neg.
  - cbn [app]. rewrite Z.eqb_refl. cbn [orb]. 
    replace (zlen (45 :: ip ++ render_frac fr ++ E) - zlen (ip ++ render_frac fr ++ E)) with 1 by (cbn [zlen]; lia).
    rewrite (Hcore 1). cbn [zlen]. reflexivity.
  - cbn [app]. destruct ip as [|d r]; [congruence|]. cbn [app].
    assert (Hd0 : is_digit d = true) by (cbn in Hd; apply andb_true_iff in Hd; tauto).
    assert (E1 : ((d =? 45) || (d =? 43)) = false) by (unfold is_digit in Hd0; lia). rewrite E1.
    replace (zlen (d :: r ++ render_frac fr ++ E) - zlen (d :: r ++ render_frac fr ++ E)) with 0 by lia.
    change (d :: r ++ render_frac fr ++ E) with ((d :: r) ++ render_frac fr ++ E).
    rewrite (Hcore 0). lia.
Qed.

Section S.
Variable sb : list byte -> Z.

(* ---------------------------------------------------------------- single characters *)
Lemma num_first_digit c f d rest below g off x nb lo :
  (3 <= f)%nat -> is_digit d = true ->
  run_f sb f (d :: rest) (T c (fresh_level :: below) g 0 off) (mkloc x nb lo None) =
  run_f sb REDO_FUEL rest (NS c below [d] false (g_sp g) (g_ucs g) (g_q g) (off + 1)) (mkloc d nb lo (Some (mknl false false false 1))).
Proof.
  intros Hf Hd. fuel f. destruct c as [md sf al]. destruct g as [p0 d0 s u q]. unfold NS.
  destruct sf; digit_cases Hd; stepC; reflexivity.
Qed.

Lemma num_first_minus c f rest below g off x nb lo :
  (3 <= f)%nat ->
  run_f sb f (45 :: rest) (T c (fresh_level :: below) g 0 off) (mkloc x nb lo None) =
  run_f sb REDO_FUEL rest (NS c below [45] false (g_sp g) (g_ucs g) (g_q g) (off + 1)) (mkloc 45 nb lo (Some (mknl false false false 1))).
Proof.
  intros Hf. fuel f. destruct c as [md sf al]. destruct g as [p0 d0 s u q]. unfold NS.
  destruct sf; stepC; reflexivity.
Qed.

Lemma num_digit c f d rest below p dbl s u q off x nb lo e ng ps len :
  (1 <= f)%nat -> is_digit d = true ->
  run_f sb f (d :: rest) (NS c below p dbl s u q off) (mkloc x nb lo (Some (mknl e ng ps len))) =
  run_f sb REDO_FUEL rest (NS c below (p ++ [d]) dbl s u q (off + 1)) (mkloc d nb lo (Some (mknl e false false (len + 1)))).
Proof.
  intros Hf Hd. fuel f. destruct c as [md sf al]. unfold NS.
  destruct sf; digit_cases Hd; stepC; reflexivity.
Qed.

Lemma num_dot c f rest below p s u q off x nb lo len :
  (1 <= f)%nat ->
  run_f sb f (46 :: rest) (NS c below p false s u q off) (mkloc x nb lo (Some (mknl false false false len))) =
  run_f sb REDO_FUEL rest (NS c below (p ++ [46]) true s u q (off + 1)) (mkloc 46 nb lo (Some (mknl false true true (len + 1)))).
Proof.
  intros Hf. fuel f. destruct c as [md sf al]. unfold NS.
  destruct sf; stepC; reflexivity.
Qed.

Lemma num_e c f ec rest below p dbl s u q off x nb lo len :
  (1 <= f)%nat -> (ec = 101 \/ ec = 69) ->
  run_f sb f (ec :: rest) (NS c below p dbl s u q off) (mkloc x nb lo (Some (mknl false false false len))) =
  run_f sb REDO_FUEL rest (NS c below (p ++ [ec]) true s u q (off + 1)) (mkloc ec nb lo (Some (mknl true true true (len + 1)))).
Proof.
  intros Hf He. fuel f. destruct c as [md sf al]. unfold NS.
  destruct sf, dbl, He as [->| ->]; stepC; reflexivity.
Qed.

Lemma num_sign c f sg rest below p dbl s u q off x nb lo len :
  (1 <= f)%nat -> (sg = 43 \/ sg = 45) ->
  run_f sb f (sg :: rest) (NS c below p dbl s u q off) (mkloc x nb lo (Some (mknl true true true len))) =
  run_f sb REDO_FUEL rest (NS c below (p ++ [sg]) dbl s u q (off + 1)) (mkloc sg nb lo (Some (mknl true false false (len + 1)))).
Proof.
  intros Hf He. fuel f. destruct c as [md sf al]. unfold NS.
  destruct sf, dbl, He as [->| ->]; stepC; reflexivity.
Qed.

(* ---------------------------------------------------------------- digit runs *)
Lemma last_cons {A} (d : A) ds x : last (d :: ds) x = last ds d.
Proof. revert d. induction ds as [|e ds IH]; intros d; [reflexivity|]. cbn [last] in *. destruct ds; [reflexivity|]. apply IH. Qed.

Definition fuel_after (ds : list byte) (f : nat) : nat := match ds with [] => f | _ => REDO_FUEL end.

Lemma num_digits c ds : forall f rest below p dbl s u q off x nb lo e ng ps len,
  (1 <= f)%nat -> all_digits ds = true ->
  run_f sb f (ds ++ rest) (NS c below p dbl s u q off) (mkloc x nb lo (Some (mknl e ng ps len))) =
  run_f sb (fuel_after ds f) rest (NS c below (p ++ ds) dbl s u q (off + zlen ds))
        (mkloc (last ds x) nb lo (Some (mknl e (after_digits ds ng) (after_digits ds ps) (len + zlen ds)))).
Proof.
  induction ds as [|d ds IH]; intros f rest below p dbl s u q off x nb lo e ng ps len Hf Hd.
  - cbn [app zlen after_digits fuel_after last]. rewrite app_nil_r, !Z.add_0_r. reflexivity.
  - cbn [all_digits forallb] in Hd. apply andb_true_iff in Hd. destruct Hd as [Hd Hds].
    cbn [app]. rewrite (num_digit c f d (ds ++ rest)); [|exact Hf|exact Hd].
    rewrite (IH REDO_FUEL rest below (p ++ [d]) dbl s u q (off + 1) d nb lo e false false (len + 1));
      [|unfold REDO_FUEL; lia|exact Hds].
    rewrite <- app_assoc, last_cons. cbn [app zlen after_digits fuel_after].
    replace (off + 1 + zlen ds) with (off + (1 + zlen ds)) by lia.
    replace (len + 1 + zlen ds) with (len + (1 + zlen ds)) by lia.
    destruct ds; reflexivity.
Qed.

(* ---------------------------------------------------------------- end of the token *)
Lemma num_end c f fc rest below p dbl s u q off x nb lo n v :
  fol_ok below fc = true ->
  classify_number sb (NS c below (if dbl && negb (c_sf c) then trim_number p else p) dbl s u q off) = NumVal v ->
  run_f sb (S f) (fc :: rest) (NS c below p dbl s u q off) (mkloc x nb lo (Some n)) =
  run_f sb f (fc :: rest)
        (T c (mksrec S_eatws S_finish v None :: below) (mkgb (if dbl && negb (c_sf c) then trim_number p else p) dbl s u q) 0 off)
        (mkloc fc nb lo None).
Proof.
  intros Hfc Hcl. unfold NS in *. apply runT_R.
  unfold step1. cbn [st top stack T s_state lc lnum].
  assert (E1 : num_char_ok (T c (mksrec S_number S_start JNull None :: below) (mkgb p dbl s u q) 0 off) n fc = false).
  { unfold num_char_ok. cbn [is_double T g_dbl]. unfold fol_ok, is_ws in Hfc. unfold is_digit.
    destruct (nl_exp n), (nl_neg n), (nl_pos n), dbl; lia. }
  rewrite E1.
  assert (E2 : ((depth (T c (mksrec S_number S_start JNull None :: below) (mkgb p dbl s u q) 0 off) >? 0) &&
                negb ((fc =? 44) || (fc =? 93) || (fc =? 125) || (fc =? 47) || (fc =? 73) || (fc =? 105) || is_ws fc)) = false).
  { unfold depth. cbn [stack T]. unfold fol_ok, is_ws in *. destruct below as [|b0 below]; cbn [zlen is_nil] in *; lia. }
  rewrite E2.
  assert (E3 : ((fc =? 105) || (fc =? 73)) = false) by (unfold fol_ok, is_ws in Hfc; lia).
  rewrite E3, andb_false_r.
  cbn [is_double strict T g_dbl pb g_pb].
  assert (E4 : (if dbl && negb (c_sf c)
                then set_pb (T c (mksrec S_number S_start JNull None :: below) (mkgb p dbl s u q) 0 off) (trim_number p)
                else T c (mksrec S_number S_start JNull None :: below) (mkgb p dbl s u q) 0 off) =
               T c (mksrec S_number S_start JNull None :: below) (mkgb (if dbl && negb (c_sf c) then trim_number p else p) dbl s u q) 0 off).
  { destruct (dbl && negb (c_sf c)); reflexivity. }
  change (mktok (mksrec S_number S_start JNull None :: below) (c_md c) p dbl s u 0 q (c_sf c) (c_al c) false off TE_success)
    with (T c (mksrec S_number S_start JNull None :: below) (mkgb p dbl s u q) 0 off).
  rewrite E4, Hcl. reflexivity.
Qed.

(* ---------------------------------------------------------------- classification *)
Lemma classify_int c below ip s u q off :
  wf_int ip = true -> dec_value ip <= UINT64_MAX ->
  classify_number sb (NS c below ip false s u q off) =
  NumVal (if dec_value ip <=? INT64_MAX then JInt (dec_value ip) else JUint (dec_value ip)).
Proof.
  intros Hw Hr. destruct (wf_int_facts ip Hw) as (Hne & Hd & Hlz).
  rewrite (int_token_exact sb (NS c below ip false s u q off) ip Hne (all_digits_Forall ip Hd) eq_refl eq_refl).
  cbv zeta. rewrite Hlz, andb_false_r, (digits_value_dec ip Hd).
  destruct (dec_value ip <=? INT64_MAX); [reflexivity|].
  destruct (dec_value ip <=? UINT64_MAX) eqn:E; [reflexivity|lia].
Qed.

Lemma classify_neg_int c below ip s u q off :
  wf_int ip = true -> dec_value ip <= 9223372036854775808 ->
  classify_number sb (NS c below (45 :: ip) false s u q off) = NumVal (JInt (- dec_value ip)).
Proof.
  intros Hw Hr. destruct (wf_int_facts ip Hw) as (Hne & Hd & Hlz).
  rewrite (neg_int_token_exact sb (NS c below (45 :: ip) false s u q off) ip Hne (all_digits_Forall ip Hd) eq_refl eq_refl).
  cbv zeta. rewrite Hlz, andb_false_r, (digits_value_dec ip Hd).
  destruct (dec_value ip <=? 9223372036854775808) eqn:E; [reflexivity|lia].
Qed.

End S.

(* ---------------------------------------------------------------- fraction / exponent tokens *)
Lemma all_digits_last ds : all_digits ds = true -> 0 < zlen ds -> exists q d, ds = q ++ [d] /\ is_digit d = true.
Proof.
  intros H Hl. destruct (exists_last (l := ds)) as (q & d & ->); [destruct ds; [cbn in Hl; lia|discriminate]|].
  exists q, d. split; [reflexivity|]. unfold all_digits in H. rewrite forallb_app in H.
  apply andb_true_iff in H. destruct H as [_ H]. cbn in H. rewrite andb_true_r in H. exact H.
Qed.

Lemma trim_number_digit q d : is_digit d = true -> trim_number (q ++ [d]) = q ++ [d].
Proof.
  intros Hd. unfold trim_number. rewrite rev_app_distr. cbn [rev app].
  assert (E : ((d =? 101) || (d =? 69) || (d =? 45) || (d =? 43)) = false) by (unfold is_digit in Hd; lia).
  destruct (rev q) as [|z l] eqn:R; cbn [trim_tail_rev].
  - apply (f_equal (@rev Z)) in R. rewrite rev_involutive in R. subst q. reflexivity.
  - rewrite E, <- R. cbn [rev]. rewrite rev_involutive. reflexivity.
Qed.

Lemma render_num_last n : wf_num n = true -> exists q d, render_num n = q ++ [d] /\ is_digit d = true.
Proof.
  destruct n as [neg ip fr ex]. unfold wf_num, render_num. cbn [n_neg n_int n_frac n_exp]. intros H.
  apply andb_true_iff in H. destruct H as [H Hex]. apply andb_true_iff in H. destruct H as [Hip Hfr].
  destruct (wf_int_facts ip Hip) as (Hne & Hd & _).
  pose proof (wf_frac_facts fr Hfr) as Ffr. pose proof (wf_exp_facts ex Hex) as Fex.
  destruct ex as [[[ec sg] ed]|].
  - destruct Fex as (_ & _ & He & Hl). destruct (all_digits_last ed He Hl) as (q & d & -> & Hdd).
    exists ((if neg then [45] else []) ++ ip ++ render_frac fr ++ ec :: match sg with Some s => [s] | None => [] end ++ q), d.
    split; [|exact Hdd]. cbn [render_exp]. rewrite <- !app_assoc. cbn [app]. rewrite <- !app_assoc. reflexivity.
  - cbn [render_exp]. rewrite app_nil_r. destruct fr as [fd|].
    + destruct Ffr as (Hf & Hl). destruct (all_digits_last fd Hf Hl) as (q & d & -> & Hdd).
      exists ((if neg then [45] else []) ++ ip ++ 46 :: q), d. split; [|exact Hdd].
      cbn [render_frac]. rewrite <- !app_assoc. cbn [app]. reflexivity.
    + cbn [render_frac]. rewrite app_nil_r.
      destruct (all_digits_last ip Hd) as (q & d & -> & Hdd).
      { destruct ip; [congruence|]. cbn [zlen]. pose proof (zlen_nonneg ip). lia. }
      exists ((if neg then [45] else []) ++ q), d. split; [|exact Hdd]. rewrite <- !app_assoc. reflexivity.
Qed.

(* the strict-mode leading-zero test never fires on an RFC token *)
Lemma lz_check_rfc ip more :
  wf_int ip = true -> match more with [] => True | c :: _ => is_digit c = false end ->
  match ip ++ more with d0 :: d1 :: _ => (d0 =? 48) && is_digit d1 | _ => false end = false.
Proof.
  intros Hw Hm. destruct ip as [|d r]; [discriminate|]. unfold wf_int in Hw.
  apply andb_true_iff in Hw. destruct Hw as [_ Hw]. cbn [app].
  destruct r as [|d1 r].
  - cbn [app]. destruct more as [|m more]; [reflexivity|]. rewrite Hm. apply andb_false_r.
  - cbn [app]. cbn in Hw. assert ((d =? 48) = false) by lia. rewrite H. reflexivity.
Qed.

Section S2.
Variable sb : list byte -> Z.

Lemma classify_double c below n s u q off :
  wf_num n = true -> is_int_tok n = false ->
  classify_number sb (NS c below (if true && negb (c_sf c) then trim_number (render_num n) else render_num n) true s u q off) =
  NumVal (JDouble (sb (render_num n)) (Some (render_num n))).
Proof.
  intros Hw Hi.
  assert (Ht : (if true && negb (c_sf c) then trim_number (render_num n) else render_num n) = render_num n).
  { destruct (true && negb (c_sf c)); [|reflexivity].
    destruct (render_num_last n Hw) as (q0 & d & -> & Hd). apply trim_number_digit. exact Hd. }
  rewrite Ht. unfold classify_number. cbn [pb is_double strict NS T g_pb g_dbl negb andb].
  rewrite (strtod_consumed_rfc n Hw), Z.eqb_refl.
  (* the leading-zero test *)
  match goal with |- (if ?b then _ else _) = _ => assert (E : b = false); [|rewrite E; reflexivity] end.
  destruct (c_sf c); [|reflexivity]. cbn [andb].
  destruct n as [neg ip fr ex]. unfold wf_num, is_int_tok, render_num in *. cbn [n_neg n_int n_frac n_exp] in *.
  apply andb_true_iff in Hw. destruct Hw as [Hw Hex]. apply andb_true_iff in Hw. destruct Hw as [Hip Hfr].
  pose proof (wf_exp_facts ex Hex) as Fex.
  assert (Hm : match render_frac fr ++ render_exp ex with [] => True | c0 :: _ => is_digit c0 = false end).
  { destruct fr as [fd|]; [reflexivity|]. destruct ex as [[[ec sg] ed]|]; [|discriminate].
    cbn [render_frac render_exp app]. destruct Fex as (He & _). unfold is_digit. lia. }
  destruct neg.
  - cbn [app tl]. rewrite Z.eqb_refl. apply lz_check_rfc; assumption.
  - cbn [app]. destruct (wf_int_facts ip Hip) as (Hne & Hd & _). destruct ip as [|d r]; [congruence|].
    cbn [app]. assert (Hd0 : is_digit d = true) by (cbn in Hd; apply andb_true_iff in Hd; tauto).
    assert (E1 : (d =? 45) = false) by (unfold is_digit in Hd0; lia). rewrite E1.
    exact (lz_check_rfc (d :: r) (render_frac fr ++ render_exp ex) Hip Hm).
Qed.


(* ---------------------------------------------------------------- the value lemma for numbers *)
Lemma after_digits_false ds : after_digits ds false = false.
Proof. destruct ds; reflexivity. Qed.
Lemma after_digits_ne ds b : 0 < zlen ds -> after_digits ds b = false.
Proof. destruct ds; [cbn; lia|reflexivity]. Qed.
Lemma fuel_after_ne ds f : 0 < zlen ds -> fuel_after ds f = REDO_FUEL.
Proof. destruct ds; [cbn; lia|reflexivity]. Qed.
Lemma fuel_after_same ds : fuel_after ds REDO_FUEL = REDO_FUEL.
Proof. destruct ds; reflexivity. Qed.

Lemma num_ok c n : wf_num n = true -> int_in_range n = true -> val_ok sb c (SNum n).
Proof.
  intros Hw Hrange f below g off x nb lo rest Hf _ Hr.
  destruct rest as [|fc rest]; [discriminate|]. cbn [fol_rest] in Hr.
  pose proof Hw as Hw0.
  destruct n as [neg ip fr ex]. unfold wf_num in Hw. cbn [n_neg n_int n_frac n_exp] in Hw.
  apply andb_true_iff in Hw. destruct Hw as [Hw Hex]. apply andb_true_iff in Hw. destruct Hw as [Hip Hfr].
  destruct (wf_int_facts ip Hip) as (Hne & Hd & _).
  pose proof (wf_frac_facts fr Hfr) as Ffr. pose proof (wf_exp_facts ex Hex) as Fex.
  set (sgn := if neg then [45] else @nil byte).
  destruct g as [p0 d0 s u q].
  assert (F1 : (1 <= REDO_FUEL)%nat) by (unfold REDO_FUEL; lia).
  (* sign and integer part *)
  assert (P1 : exists x1 len1, forall more,
    run_f sb f ((sgn ++ ip) ++ more) (T c (fresh_level :: below) (mkgb p0 d0 s u q) 0 off) (mkloc x nb lo None) =
    run_f sb REDO_FUEL more (NS c below (sgn ++ ip) false s u q (off + zlen (sgn ++ ip)))
          (mkloc x1 nb lo (Some (mknl false false false len1)))).
  { subst sgn. destruct neg.
    - eexists _, _. intros more. cbn [app].
      rewrite num_first_minus by lia. cbn [g_sp g_ucs g_q].
      rewrite (num_digits sb c ip REDO_FUEL more) by assumption.
      rewrite !after_digits_false, fuel_after_same. cbn [zlen app].
      replace (off + 1 + zlen ip) with (off + (1 + zlen ip)) by lia. reflexivity.
    - destruct ip as [|d r]; [congruence|]. cbn [all_digits forallb] in Hd. apply andb_true_iff in Hd. destruct Hd as [Hd0 Hdr].
      eexists _, _. intros more. cbn [app].
      rewrite num_first_digit by (try lia; assumption). cbn [g_sp g_ucs g_q].
      rewrite (num_digits sb c r REDO_FUEL more) by assumption.
      rewrite !after_digits_false, fuel_after_same. cbn [zlen app].
      replace (off + 1 + zlen r) with (off + (1 + zlen r)) by lia. reflexivity. }
  destruct P1 as (x1 & len1 & P1).
  (* fraction *)
  set (dblF := match fr with Some _ => true | None => false end).
  assert (P2 : forall p off1, exists x2 len2, forall more,
    run_f sb REDO_FUEL (render_frac fr ++ more) (NS c below p false s u q off1) (mkloc x1 nb lo (Some (mknl false false false len1))) =
    run_f sb REDO_FUEL more (NS c below (p ++ render_frac fr) dblF s u q (off1 + zlen (render_frac fr)))
          (mkloc x2 nb lo (Some (mknl false false false len2)))).
  { intros p off1. subst dblF. destruct fr as [fd|].
    - destruct Ffr as [Hfd Hfl]. eexists _, _. intros more. cbn [render_frac app].
      rewrite num_dot by assumption.
      rewrite (num_digits sb c fd REDO_FUEL more) by assumption.
      rewrite !(after_digits_ne fd true Hfl), fuel_after_same. cbn [zlen].
      replace (p ++ 46 :: fd) with ((p ++ [46]) ++ fd) by (rewrite <- app_assoc; reflexivity).
      replace (off1 + 1 + zlen fd) with (off1 + (1 + zlen fd)) by lia. reflexivity.
    - exists x1, len1. intros more. cbn [render_frac app zlen]. rewrite app_nil_r, Z.add_0_r. reflexivity. }
  (* exponent *)
  set (dblE := match ex with Some _ => true | None => dblF end).
  assert (P3 : forall p off2 x2 len2, exists x3 n3, forall more,
    run_f sb REDO_FUEL (render_exp ex ++ more) (NS c below p dblF s u q off2) (mkloc x2 nb lo (Some (mknl false false false len2))) =
    run_f sb REDO_FUEL more (NS c below (p ++ render_exp ex) dblE s u q (off2 + zlen (render_exp ex)))
          (mkloc x3 nb lo (Some n3))).
  { intros p off2 x2 len2. subst dblE. destruct ex as [[[ec sg] ed]|].
    - destruct Fex as (Hec & Hsg & Hed & Hel). destruct sg as [sgc|].
      + eexists _, _. intros more. cbn [render_exp app].
        rewrite num_e by assumption. rewrite num_sign by assumption.
        rewrite (num_digits sb c ed REDO_FUEL more) by assumption. rewrite fuel_after_same. cbn [zlen].
        replace (p ++ ec :: sgc :: ed) with (((p ++ [ec]) ++ [sgc]) ++ ed) by (rewrite <- !app_assoc; reflexivity).
        replace (off2 + 1 + 1 + zlen ed) with (off2 + (1 + (1 + zlen ed))) by lia. reflexivity.
      + eexists _, _. intros more. cbn [render_exp app].
        rewrite num_e by assumption.
        rewrite (num_digits sb c ed REDO_FUEL more) by assumption. rewrite fuel_after_same. cbn [zlen].
        replace (p ++ ec :: ed) with ((p ++ [ec]) ++ ed) by (rewrite <- !app_assoc; reflexivity).
        replace (off2 + 1 + zlen ed) with (off2 + (1 + zlen ed)) by lia. reflexivity.
    - eexists _, _. intros more. cbn [render_exp app zlen]. rewrite app_nil_r, Z.add_0_r. reflexivity. }
  destruct (P2 (sgn ++ ip) (off + zlen (sgn ++ ip))) as (x2 & len2 & P2').
  destruct (P3 ((sgn ++ ip) ++ render_frac fr) (off + zlen (sgn ++ ip) + zlen (render_frac fr)) x2 len2) as (x3 & n3 & P3').
  clear P2 P3.
  assert (ER : render (SNum (mknum neg ip fr ex)) = ((sgn ++ ip) ++ render_frac fr) ++ render_exp ex).
  { cbn [render]. unfold render_num. cbn [n_neg n_int n_frac n_exp]. fold sgn. rewrite <- !app_assoc. reflexivity. }
  rewrite ER. rewrite <- !app_assoc. rewrite (app_assoc sgn ip). rewrite P1, P2', P3'.
  unfold REDO_FUEL at 1.
  rewrite (num_end sb c 15 fc rest below _ dblE s u q _ x3 nb lo n3 (value sb (SNum (mknum neg ip fr ex))) Hr).
  - exists 15%nat. eexists (mkgb _ _ _ _ _), fc, lo. split; [lia|]. f_equal. f_equal.
    rewrite !zlen_app. lia.
  - (* classification *)
    cbn [value]. unfold num_value. destruct (is_int_tok (mknum neg ip fr ex)) eqn:Eint.
    + unfold is_int_tok in Eint. cbn [n_frac n_exp] in Eint. destruct fr; [discriminate|]. destruct ex; [discriminate|].
      subst dblE dblF. cbn [andb render_frac render_exp n_neg n_int]. rewrite !app_nil_r.
      unfold int_in_range, is_int_tok in Hrange. cbn [n_frac n_exp n_neg n_int] in Hrange.
      subst sgn. destruct neg.
      * apply classify_neg_int; [exact Hip|lia].
      * apply classify_int; [exact Hip|lia].
    + assert (EdblE : dblE = true).
      { subst dblE dblF. unfold is_int_tok in Eint. cbn [n_frac n_exp] in Eint. destruct ex; [reflexivity|]. destruct fr; [reflexivity|discriminate]. }
      rewrite EdblE. rewrite <- ER. cbn [render]. apply classify_double; assumption.
Qed.

End S2.
