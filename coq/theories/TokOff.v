(* TokOff.v — one dispatch never reads the character offset: step1 commutes with shifting
   char_offset (needed to compare a resumed call, whose offset restarts at 0, with the
   continuation of a single call). *)
From JC Require Import Base BaseLemmas Value TokModel TokFrame.
Local Open Scope Z_scope.

Definition toff (t : tok) (d : Z) : tok := set_off t (char_offset t + d).

Definition sres_map (f : tok -> tok) (r : sres) : sres :=
  match r with Consumed t l => Consumed (f t) l | Redo t l => Redo (f t) l | Out t l => Out (f t) l end.

Section Rw.
Variable d : Z.
Lemma o_stack t : stack (toff t d) = stack t. Proof. reflexivity. Qed.
Lemma o_maxd t : max_depth (toff t d) = max_depth t. Proof. reflexivity. Qed.
Lemma o_pb t : pb (toff t d) = pb t. Proof. reflexivity. Qed.
Lemma o_dbl t : is_double (toff t d) = is_double t. Proof. reflexivity. Qed.
Lemma o_stpos t : st_pos (toff t d) = st_pos t. Proof. reflexivity. Qed.
Lemma o_ucs t : ucs_char (toff t d) = ucs_char t. Proof. reflexivity. Qed.
Lemma o_high t : high_surrogate (toff t d) = high_surrogate t. Proof. reflexivity. Qed.
Lemma o_quote t : quote_char (toff t d) = quote_char t. Proof. reflexivity. Qed.
Lemma o_strict t : strict (toff t d) = strict t. Proof. reflexivity. Qed.
Lemma o_trail t : allow_trailing (toff t d) = allow_trailing t. Proof. reflexivity. Qed.
Lemma o_val t : validate_utf8 (toff t d) = validate_utf8 t. Proof. reflexivity. Qed.
Lemma o_err t : err (toff t d) = err t. Proof. reflexivity. Qed.
Lemma o_top t : top (toff t d) = top t. Proof. reflexivity. Qed.
Lemma o_st t : st (toff t d) = st t. Proof. reflexivity. Qed.
Lemma o_sv t : sv (toff t d) = sv t. Proof. reflexivity. Qed.
Lemma o_depth t : depth (toff t d) = depth t. Proof. reflexivity. Qed.
Lemma o_set_top t s : set_top (toff t d) s = toff (set_top t s) d. Proof. reflexivity. Qed.
Lemma o_set_stack t s : set_stack (toff t d) s = toff (set_stack t s) d. Proof. reflexivity. Qed.
Lemma o_set_pb t s : set_pb (toff t d) s = toff (set_pb t s) d. Proof. reflexivity. Qed.
Lemma o_set_dbl t s : set_is_double (toff t d) s = toff (set_is_double t s) d. Proof. reflexivity. Qed.
Lemma o_set_stpos t s : set_st_pos (toff t d) s = toff (set_st_pos t s) d. Proof. reflexivity. Qed.
Lemma o_set_ucs t s : set_ucs (toff t d) s = toff (set_ucs t s) d. Proof. reflexivity. Qed.
Lemma o_set_high t s : set_high (toff t d) s = toff (set_high t s) d. Proof. reflexivity. Qed.
Lemma o_set_quote t s : set_quote (toff t d) s = toff (set_quote t s) d. Proof. reflexivity. Qed.
Lemma o_set_err t s : set_err (toff t d) s = toff (set_err t s) d. Proof. reflexivity. Qed.
Lemma o_set_state t s : set_state (toff t d) s = toff (set_state t s) d. Proof. reflexivity. Qed.
Lemma o_value_done t s : value_done (toff t d) s = toff (value_done t s) d. Proof. reflexivity. Qed.
Lemma o_append t s : append (toff t d) s = toff (append t s) d. Proof. reflexivity. Qed.
Lemma o_lit t l n : lit_match (toff t d) l n = lit_match t l n. Proof. reflexivity. Qed.
Lemma o_numok t n c : num_char_ok (toff t d) n c = num_char_ok t n c. Proof. reflexivity. Qed.
End Rw.
Global Hint Rewrite o_stack o_maxd o_pb o_dbl o_stpos o_ucs o_high o_quote o_strict o_trail o_val o_err o_top o_st o_sv
  o_depth o_set_top o_set_stack o_set_pb o_set_dbl o_set_stpos o_set_ucs o_set_high o_set_quote o_set_err o_set_state
  o_value_done o_append o_lit o_numok : tokoff.

Lemma o_resolve t d : resolve_pair (toff t d) = (toff (fst (resolve_pair t)) d, snd (resolve_pair t)).
Proof.
  unfold resolve_pair. autorewrite with tokoff.
  repeat match goal with |- context [if ?b then _ else _] => destruct b end; cbn [fst snd]; autorewrite with tokoff; reflexivity.
Qed.
Lemma o_emit t d u l : emit_unicode (toff t d) u l = sres_map (fun x => toff x d) (emit_unicode t u l).
Proof.
  unfold emit_unicode. autorewrite with tokoff.
  repeat match goal with |- context [if ?b then _ else _] => destruct b end; cbn [sres_map]; reflexivity.
Qed.
Lemma o_finish_unicode t d l : finish_unicode (toff t d) l = sres_map (fun x => toff x d) (finish_unicode t l).
Proof.
  unfold finish_unicode. autorewrite with tokoff. rewrite o_resolve. cbn [fst snd]. apply o_emit.
Qed.

Section S.
Variable sb : list byte -> Z.

Lemma o_classify t d : classify_number sb (toff t d) = classify_number sb t.
Proof. reflexivity. Qed.

Lemma step1_toff t d l : step1 sb (toff t d) l = sres_map (fun x => toff x d) (step1 sb t l).
Proof.
  unfold step1, fail. autorewrite with tokoff. rewrite ?o_classify.
  destruct (st t).
  all: repeat match goal with
              | |- context [finish_unicode (toff ?a ?e) ?b] => rewrite (o_finish_unicode a e b)
              | |- context [classify_number sb (toff ?a ?e)] => rewrite (o_classify a e)
              | |- context [if ?b then _ else _] => destruct b
              | |- context [match classify_number sb ?x with _ => _ end] => destruct (classify_number sb x)
              | |- context [match lnum ?x with _ => _ end] => destruct (lnum x)
              | |- context [match stack ?x with _ => _ end] => destruct (stack x) as [|? [|? ?]]
              end; cbn [sres_map]; autorewrite with tokoff; try reflexivity.
Qed.

Lemma redo_toff fuel : forall t d l,
  redo sb fuel (toff t d) l = option_map (sres_map (fun x => toff x d)) (redo sb fuel t l).
Proof.
  induction fuel as [|f IH]; intros t d l; [reflexivity|]. cbn [redo]. rewrite step1_toff.
  destruct (step1 sb t l) as [t' l'|t' l'|t' l']; cbn [sres_map option_map]; try reflexivity. apply IH.
Qed.
End S.
