(* Properties_C10.v — statements only.  C10: numeric accessors and mutators are exact when
   representable, else saturating; never a wrapped value, never an undefined conversion.

   Reading guide.  [spec_int lo hi nanv o] is the documented coercion of node [o] to the integer
   type [lo, hi]: clamp(trunc(value)) with ERANGE exactly when the value lies outside the type,
   EINVAL (and the documented value) for NaN and for texts without a number, 0 for null and
   containers.  [spec_uint] is [spec_int 0 UINT64_MAX 0] except that a text with a '-' sign has no
   uint64 conversion (0 with EINVAL, "-0" included).  [wf] is the representation invariant of
   integer nodes.
   History: five statements were refuted by the code before the C10 `fix:` commits in /repo
   (get_int64 at the double 2^63, get_uint64 at 2^64, int_inc of a uint64 node by INT64_MIN,
   get_uint64 of "\t-5" and of "-5"; known_findings.json, status fixed).  Since the repairs every
   statement below holds at full strength: there is no `_partial` or `_refuted` theorem left.  The
   former witnesses are C10_former_witnesses. *)
From JC Require Import Base Value NumModel NumProofs.
Local Open Scope Z_scope.

(* ------------------------------------------------------------------ get_boolean *)
Theorem C10_get_boolean_spec : forall e0 o, get_boolean e0 o = Ret (b2z (spec_bool o)) e0.
Proof. exact get_boolean_spec. Qed.
Print Assumptions C10_get_boolean_spec.

(* ------------------------------------------------------------------ get_int (int32): holds *)
Theorem C10_get_int_spec_no_ub : forall e0 o, wf o ->
  get_int e0 o = ret_of (spec_int INT32_MIN INT32_MAX INT32_MIN o) /\ get_int e0 o <> UB.
Proof. exact get_int_spec_no_ub. Qed.
Print Assumptions C10_get_int_spec_no_ub.


(* ------------------------------------------------------------------ get_int64 *)
Theorem C10_get_int64_spec : forall e0 o, wf o ->
  get_int64 e0 o = ret_of (spec_int INT64_MIN INT64_MAX INT64_MIN o).
Proof. exact get_int64_spec. Qed.
Print Assumptions C10_get_int64_spec.

Theorem C10_get_int64_no_ub : forall e0 o, wf o -> get_int64 e0 o <> UB.
Proof. exact get_int64_no_ub. Qed.
Print Assumptions C10_get_int64_no_ub.

(* ------------------------------------------------------------------ get_uint64 *)
Theorem C10_get_uint64_spec : forall e0 o, wf o -> get_uint64 e0 o = ret_of (spec_uint o).
Proof. exact get_uint64_spec. Qed.
Print Assumptions C10_get_uint64_spec.

Theorem C10_get_uint64_no_ub : forall e0 o, wf o -> get_uint64 e0 o <> UB.
Proof. exact get_uint64_no_ub. Qed.
Print Assumptions C10_get_uint64_no_ub.

(* the comparison matters: with `>` in place of `>=` (the code before the repair) the double
   hi + 1 = (double)hi reaches an undefined cast *)
Theorem C10_gt_comparison_reaches_ub : forall lo hi d, lo <= hi -> TWO52 <= hi -> fin_ok d ->
  dval_trunc_is d (hi + 1) -> forall nanv, dbl_get_lh lo hi (hi + 1) nanv d = UB.
Proof. exact dbl_get_lh_ub. Qed.
Print Assumptions C10_gt_comparison_reaches_ub.

(* ------------------------------------------------------------------ get_double: holds, for every strtod *)
Theorem C10_get_double_spec : forall strtod e0 o, get_double strtod e0 o = ret_of (spec_double strtod e0 o).
Proof. exact get_double_spec. Qed.
Print Assumptions C10_get_double_spec.

Theorem C10_get_double_no_ub : forall strtod e0 o, get_double strtod e0 o <> UB.
Proof. exact get_double_no_ub. Qed.
Print Assumptions C10_get_double_no_ub.

(* int64/uint64 -> double: exact up to 2^53, beyond that nearest with ties to even *)
Theorem C10_int_to_double :
  (forall z, Z.abs z <= TWO53 -> dval_is_int (decode (z_to_b64 z)) z) /\
  (forall z, 52 < Z.log2 (Z.abs z) -> Z.abs z < TWO64 ->
     exists m e, decode (z_to_b64 z) = DFin (z <? 0) m e /\ 0 <= e /\
       let ulp := 2 ^ (Z.log2 (Z.abs z) - 52) in
       let v := m * 2 ^ e in
       2 * Z.abs (v - Z.abs z) <= ulp /\ (2 * Z.abs (v - Z.abs z) = ulp -> Z.even (v / ulp) = true)).
Proof. exact z_to_b64_correct. Qed.
Print Assumptions C10_int_to_double.

(* ------------------------------------------------------------------ the vocabulary of the specs is what it says *)
Theorem C10_spec_vocabulary :
  (* [dmag_trunc] is truncation toward zero of m * 2^e *)
  (forall m e, 0 <= m ->
     if 0 <=? e then dmag_trunc m e = m * 2 ^ e
     else dmag_trunc m e * 2 ^ (- e) <= m < (dmag_trunc m e + 1) * 2 ^ (- e)) /\
  (* a double is "zero" for get_boolean exactly when it is +0 or -0 (NaN reads as true) *)
  (forall bits, 0 <= bits < TWO64 -> (dne0 (decode bits) = false <-> bits = 0 \/ bits = TWO63)) /\
  (* [str_int] / [str_minus] read "isspace* sign? digit+ rest" *)
  (forall ws sg neg ds rest,
     Forall (fun c => is_space c = true) ws -> sign_bytes neg sg ->
     Forall (fun c => is_digit c = true) ds -> ds <> [] -> not_digit_head rest ->
     str_int (ws ++ sg ++ ds ++ rest) = Some (if neg then - dec_value ds else dec_value ds) /\
     str_minus (ws ++ sg ++ ds ++ rest) = neg) /\
  (* ... and a text without digits at that place has no value *)
  (forall ws sg neg rest,
     Forall (fun c => is_space c = true) ws -> sign_bytes neg sg -> not_digit_head rest ->
     (sg = [] -> match rest with c :: _ => is_space c = false /\ c <> 45 /\ c <> 43 | [] => True end) ->
     str_int (ws ++ sg ++ rest) = None).
Proof. exact spec_vocabulary. Qed.
Print Assumptions C10_spec_vocabulary.

(* ------------------------------------------------------------------ no dependence on the caller's errno *)
(* values never depend on the incoming errno; the outgoing errno is either the incoming one handed
   back (get_boolean; get_double on null/boolean/number nodes) or does not depend on it at all *)
Theorem C10_errno_independent : forall strtod o e0 e1,
  get_int e0 o = get_int e1 o /\ get_int64 e0 o = get_int64 e1 o /\ get_uint64 e0 o = get_uint64 e1 o /\
  (exists v, get_boolean e0 o = Ret v e0 /\ get_boolean e1 o = Ret v e1) /\
  (exists v, (get_double strtod e0 o = Ret v e0 /\ get_double strtod e1 o = Ret v e1) \/
             (exists e, get_double strtod e0 o = Ret v e /\ get_double strtod e1 o = Ret v e)).
Proof. exact errno_independent. Qed.
Print Assumptions C10_errno_independent.

Theorem C10_mutators_leave_errno : forall strtod e0 o op r e o',
  num_step strtod e0 o op = (OSet r e, o') -> e = e0.
Proof. exact step_mutator_errno. Qed.
Print Assumptions C10_mutators_leave_errno.

(* ------------------------------------------------------------------ set then get *)
Theorem C10_set_get_int64 : forall e0 o v, is_intnode o = true -> INT64_MIN <= v <= INT64_MAX ->
  fst (set_int64 o v) = 1 /\ wf (snd (set_int64 o v)) /\ get_int64 e0 (snd (set_int64 o v)) = Ret v E_NONE.
Proof. exact set_get_int64. Qed.
Print Assumptions C10_set_get_int64.

Theorem C10_set_get_uint64 : forall e0 o v, is_intnode o = true -> 0 <= v <= UINT64_MAX ->
  fst (set_uint64 o v) = 1 /\ wf (snd (set_uint64 o v)) /\ get_uint64 e0 (snd (set_uint64 o v)) = Ret v E_NONE.
Proof. exact set_get_uint64. Qed.
Print Assumptions C10_set_get_uint64.

Theorem C10_set_get_int : forall e0 o v, is_intnode o = true -> INT32_MIN <= v <= INT32_MAX ->
  fst (set_int o v) = 1 /\ wf (snd (set_int o v)) /\ get_int e0 (snd (set_int o v)) = Ret v E_NONE.
Proof. exact set_get_int. Qed.
Print Assumptions C10_set_get_int.

Theorem C10_set_get_double : forall strtod e0 o bits, is_dblnode o = true ->
  fst (set_double o bits) = 1 /\ get_double strtod e0 (snd (set_double o bits)) = Ret bits e0.
Proof. exact set_get_double. Qed.
Print Assumptions C10_set_get_double.

Theorem C10_set_get_boolean : forall e0 o b, is_boolnode o = true ->
  fst (set_boolean o b) = 1 /\ get_boolean e0 (snd (set_boolean o b)) = Ret (b2z b) e0.
Proof. exact set_get_boolean. Qed.
Print Assumptions C10_set_get_boolean.

Theorem C10_set_wrong_kind : forall o,
  (is_intnode o = false -> forall v, set_int64 o v = (0, o) /\ set_uint64 o v = (0, o) /\ set_int o v = (0, o)) /\
  (is_dblnode o = false -> forall b, set_double o b = (0, o)) /\
  (is_boolnode o = false -> forall b, set_boolean o b = (0, o)).
Proof. exact set_wrong_kind. Qed.
Print Assumptions C10_set_wrong_kind.

(* ------------------------------------------------------------------ int_inc, ALL (value, increment) pairs *)
(* [inc_post o val o']: o' is an integer node satisfying the invariant, its value is
   clamp_[INT64_MIN, UINT64_MAX](value o + val), it is uint64 iff that exceeds INT64_MAX or
   (o was uint64 and the result is >= 0). *)
Theorem C10_inc_exact : forall o val,
  wf o -> is_intnode o = true -> INT64_MIN <= val <= INT64_MAX ->
  exists o', int_inc o val = IOk 1 o' /\ inc_post o val o'.
Proof. exact inc_exact. Qed.
Print Assumptions C10_inc_exact.

Theorem C10_inc_no_ub : forall o val, wf o -> INT64_MIN <= val <= INT64_MAX -> int_inc o val <> IUB.
Proof. exact inc_no_ub. Qed.
Print Assumptions C10_inc_no_ub.

Theorem C10_inc_not_int : forall o val, is_intnode o = false -> int_inc o val = IOk 0 o.
Proof. exact inc_not_int. Qed.
Print Assumptions C10_inc_not_int.

(* ------------------------------------------------------------------ non-vacuity *)
Theorem C10_nonvacuous :
  get_int64 E_NONE (JDouble 4890909195324358655 None) = Ret 9223372036854774784 E_NONE /\   (* just below 2^63 *)
  get_int64 EINVAL (JDouble 14114281232179134464 None) = Ret INT64_MIN E_NONE /\             (* -2^63 is exact *)
  get_int E_NONE (JDouble 4746794007246405632 None) = Ret INT32_MAX ERANGE /\                 (* 2147483647.5 *)
  get_uint64 E_NONE (JInt (-1)) = Ret 0 ERANGE /\
  get_int64 E_NONE (JStr [57; 57; 57; 57; 57; 57; 57; 57; 57; 57; 57; 57; 57; 57; 57; 57; 57; 57; 57; 57]) = Ret INT64_MAX ERANGE /\
  int_inc (JInt INT64_MAX) 1 = IOk 1 (JUint TWO63) /\ int_inc (JUint TWO63) (-1) = IOk 1 (JUint INT64_MAX) /\
  int_inc (JUint 3) (-5) = IOk 1 (JInt (-2)) /\ int_inc (JUint UINT64_MAX) 7 = IOk 1 (JUint UINT64_MAX) /\
  z_to_b64 (TWO53 + 1) = 4845873199050653696 /\ z_to_b64 (TWO53 + 3) = 4845873199050653698.
Proof.
  exact (conj ex_get_int64_dbl (conj ex_get_int64_dbl_neg (conj ex_get_int_half (conj ex_get_uint64_neg
        (conj ex_get_int64_str_sat (conj ex_inc_switch (conj ex_inc_back (conj ex_inc_neg
        (conj (proj1 ex_inc_sat) ex_z_to_b64))))))))).
Qed.
Print Assumptions C10_nonvacuous.

(* the witnesses of the five repaired defects give the documented results *)
Theorem C10_former_witnesses :
  get_int64 E_NONE (JDouble B64_2P63 None) = Ret INT64_MAX ERANGE /\
  get_uint64 E_NONE (JDouble B64_2P64 None) = Ret UINT64_MAX ERANGE /\
  (int_inc (JUint 5) INT64_MIN = IOk 1 (JInt (5 + INT64_MIN)) /\
   int_inc (JUint UINT64_MAX) INT64_MIN = IOk 1 (JUint INT64_MAX)) /\
  (get_uint64 E_NONE (JStr [9; 45; 53]) = Ret 0 EINVAL /\ get_uint64 E_NONE (JStr [45; 53]) = Ret 0 EINVAL /\
   get_uint64 E_NONE (JStr [32; 45; 120]) = Ret 0 EINVAL /\ get_uint64 E_NONE (JStr [45; 48]) = Ret 0 EINVAL).
Proof. exact (conj ex_fixed_2p63 (conj ex_fixed_2p64 (conj ex_fixed_inc ex_fixed_str))). Qed.
Print Assumptions C10_former_witnesses.
