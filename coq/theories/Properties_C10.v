(* Properties_C10.v — statements only.  C10: numeric accessors and mutators are exact when
   representable, else saturating; never a wrapped value, never an undefined conversion.

   Reading guide.  [spec_int lo hi nanv o] is the documented coercion of node [o] to the integer
   type [lo, hi]: clamp(trunc(value)) with ERANGE exactly when the value lies outside the type,
   EINVAL (and the documented value) for NaN and for texts without a number, 0 for null and
   containers.  [wf] is the representation invariant of integer nodes.  A statement that the
   CURRENT json-c code does not satisfy appears three times: negated at full strength
   (`_full_refuted`, with the computed witness as `_refuted`), under its guard (`_partial`), and
   with the proof that the guard is exact (`_ub_iff`). *)
From JC Require Import Base Value NumModel NumProofs.
Local Open Scope Z_scope.

(* ------------------------------------------------------------------ get_boolean *)
Theorem C10_get_boolean_spec : forall e0 o, get_boolean e0 o = Ret (b2z (spec_bool o)) e0.
Proof. exact get_boolean_spec. Qed.
Print Assumptions C10_get_boolean_spec.

(* ------------------------------------------------------------------ get_int (int32): holds *)
Theorem C10_get_int_spec_no_ub : forall e0 o, wf o ->
  get_int e0 o = ret_of (spec_int INT32_MIN INT32_MAX INT32_MIN o) /\ get_int e0 o <> UB.
Proof. exact get_int_spec_no_ub. Qed.
Print Assumptions C10_get_int_spec_no_ub.


(* ------------------------------------------------------------------ get_int64 *)
(* full strength — REFUTED by the current code (the double 2^63 reaches an undefined cast) *)
Theorem C10_get_int64_spec_full_refuted :
  ~ (forall e0 o, wf o -> get_int64 e0 o = ret_of (spec_int INT64_MIN INT64_MAX INT64_MIN o)).
Proof. exact get_int64_spec_full_refuted. Qed.
Print Assumptions C10_get_int64_spec_full_refuted.

Theorem C10_get_int64_2p63_refuted : exists e0 o, wf o /\ get_int64 e0 o = UB.
Proof. exact get_int64_no_ub_refuted. Qed.
Print Assumptions C10_get_int64_2p63_refuted.

(* guard: the node is not the double whose value is exactly 2^63 *)
Theorem C10_get_int64_spec_partial : forall e0 o, wf o -> ~ is_dbl_val o TWO63 ->
  get_int64 e0 o = ret_of (spec_int INT64_MIN INT64_MAX INT64_MIN o).
Proof. exact get_int64_spec_partial. Qed.
Print Assumptions C10_get_int64_spec_partial.


(* the guard is exact: undefined behaviour is reached there and nowhere else (get_int64_no_ub) *)
Theorem C10_get_int64_ub_iff : forall e0 o, wf o -> (get_int64 e0 o = UB <-> is_dbl_val o TWO63).
Proof. exact get_int64_ub_iff. Qed.
Print Assumptions C10_get_int64_ub_iff.

(* ------------------------------------------------------------------ get_uint64 *)
Theorem C10_get_uint64_spec_full_refuted :
  ~ (forall e0 o, wf o -> get_uint64 e0 o = ret_of (spec_int 0 UINT64_MAX 0 o)).
Proof. exact get_uint64_spec_full_refuted. Qed.
Print Assumptions C10_get_uint64_spec_full_refuted.

Theorem C10_get_uint64_2p64_refuted : exists e0 o, wf o /\ get_uint64 e0 o = UB.
Proof. exact get_uint64_no_ub_refuted. Qed.
Print Assumptions C10_get_uint64_2p64_refuted.

(* a '-' after whitespace other than ' ' reaches strtoull: the negated value wraps *)
Theorem C10_get_uint64_str_neg_wrap_refuted :
  exists s, get_uint64 E_NONE (JStr s) = Ret (TWO64 - 5) E_NONE /\
            ret_of (spec_int 0 UINT64_MAX 0 (JStr s)) = Ret 0 ERANGE.
Proof. exact get_uint64_str_neg_wrap_refuted. Qed.
Print Assumptions C10_get_uint64_str_neg_wrap_refuted.

(* a '-' after spaces only: the failure is reported with errno left at 0 *)
Theorem C10_get_uint64_str_minus_errno_refuted :
  exists s1 s2,
    get_uint64 E_NONE (JStr s1) = Ret 0 E_NONE /\ ret_of (spec_int 0 UINT64_MAX 0 (JStr s1)) = Ret 0 ERANGE /\
    get_uint64 E_NONE (JStr s2) = Ret 0 E_NONE /\ ret_of (spec_int 0 UINT64_MAX 0 (JStr s2)) = Ret 0 EINVAL.
Proof. exact get_uint64_str_minus_errno_refuted. Qed.
Print Assumptions C10_get_uint64_str_minus_errno_refuted.

(* guard: not the double 2^64; a string node has no '-' sign or denotes 0 *)
Theorem C10_get_uint64_spec_partial : forall e0 o, wf o ->
  (~ is_dbl_val o TWO64 /\ (forall s, o = JStr s -> str_minus s = false \/ str_int s = Some 0)) ->
  get_uint64 e0 o = ret_of (spec_int 0 UINT64_MAX 0 o).
Proof. exact get_uint64_spec_partial. Qed.
Print Assumptions C10_get_uint64_spec_partial.


(* get_uint64_no_ub, with its exact guard *)
Theorem C10_get_uint64_ub_iff : forall e0 o, wf o -> (get_uint64 e0 o = UB <-> is_dbl_val o TWO64).
Proof. exact get_uint64_ub_iff. Qed.
Print Assumptions C10_get_uint64_ub_iff.

(* ------------------------------------------------------------------ get_double: holds, for every strtod *)
Theorem C10_get_double_spec : forall strtod e0 o, get_double strtod e0 o = ret_of (spec_double strtod e0 o).
Proof. exact get_double_spec. Qed.
Print Assumptions C10_get_double_spec.

Theorem C10_get_double_no_ub : forall strtod e0 o, get_double strtod e0 o <> UB.
Proof. exact get_double_no_ub. Qed.
Print Assumptions C10_get_double_no_ub.

(* int64/uint64 -> double: exact up to 2^53, beyond that nearest with ties to even *)
Theorem C10_int_to_double :
  (forall z, Z.abs z <= TWO53 -> dval_is_int (decode (z_to_b64 z)) z) /\
  (forall z, 52 < Z.log2 (Z.abs z) -> Z.abs z < TWO64 ->
     exists m e, decode (z_to_b64 z) = DFin (z <? 0) m e /\ 0 <= e /\
       let ulp := 2 ^ (Z.log2 (Z.abs z) - 52) in
       let v := m * 2 ^ e in
       2 * Z.abs (v - Z.abs z) <= ulp /\ (2 * Z.abs (v - Z.abs z) = ulp -> Z.even (v / ulp) = true)).
Proof. exact z_to_b64_correct. Qed.
Print Assumptions C10_int_to_double.

(* ------------------------------------------------------------------ the vocabulary of the specs is what it says *)
Theorem C10_spec_vocabulary :
  (* [dmag_trunc] is truncation toward zero of m * 2^e *)
  (forall m e, 0 <= m ->
     if 0 <=? e then dmag_trunc m e = m * 2 ^ e
     else dmag_trunc m e * 2 ^ (- e) <= m < (dmag_trunc m e + 1) * 2 ^ (- e)) /\
  (* a double is "zero" for get_boolean exactly when it is +0 or -0 (NaN reads as true) *)
  (forall bits, 0 <= bits < TWO64 -> (dne0 (decode bits) = false <-> bits = 0 \/ bits = TWO63)) /\
  (* [str_int] / [str_minus] read "isspace* sign? digit+ rest" *)
  (forall ws sg neg ds rest,
     Forall (fun c => is_space c = true) ws -> sign_bytes neg sg ->
     Forall (fun c => is_digit c = true) ds -> ds <> [] -> not_digit_head rest ->
     str_int (ws ++ sg ++ ds ++ rest) = Some (if neg then - dec_value ds else dec_value ds) /\
     str_minus (ws ++ sg ++ ds ++ rest) = neg) /\
  (* ... and a text without digits at that place has no value *)
  (forall ws sg neg rest,
     Forall (fun c => is_space c = true) ws -> sign_bytes neg sg -> not_digit_head rest ->
     (sg = [] -> match rest with c :: _ => is_space c = false /\ c <> 45 /\ c <> 43 | [] => True end) ->
     str_int (ws ++ sg ++ rest) = None).
Proof. exact spec_vocabulary. Qed.
Print Assumptions C10_spec_vocabulary.

(* ------------------------------------------------------------------ set then get *)
Theorem C10_set_get_int64 : forall e0 o v, is_intnode o = true -> INT64_MIN <= v <= INT64_MAX ->
  fst (set_int64 o v) = 1 /\ wf (snd (set_int64 o v)) /\ get_int64 e0 (snd (set_int64 o v)) = Ret v E_NONE.
Proof. exact set_get_int64. Qed.
Print Assumptions C10_set_get_int64.

Theorem C10_set_get_uint64 : forall e0 o v, is_intnode o = true -> 0 <= v <= UINT64_MAX ->
  fst (set_uint64 o v) = 1 /\ wf (snd (set_uint64 o v)) /\ get_uint64 e0 (snd (set_uint64 o v)) = Ret v E_NONE.
Proof. exact set_get_uint64. Qed.
Print Assumptions C10_set_get_uint64.

Theorem C10_set_get_int : forall e0 o v, is_intnode o = true -> INT32_MIN <= v <= INT32_MAX ->
  fst (set_int o v) = 1 /\ wf (snd (set_int o v)) /\ get_int e0 (snd (set_int o v)) = Ret v E_NONE.
Proof. exact set_get_int. Qed.
Print Assumptions C10_set_get_int.

Theorem C10_set_get_double : forall strtod e0 o bits, is_dblnode o = true ->
  fst (set_double o bits) = 1 /\ get_double strtod e0 (snd (set_double o bits)) = Ret bits e0.
Proof. exact set_get_double. Qed.
Print Assumptions C10_set_get_double.

Theorem C10_set_get_boolean : forall e0 o b, is_boolnode o = true ->
  fst (set_boolean o b) = 1 /\ get_boolean e0 (snd (set_boolean o b)) = Ret (b2z b) e0.
Proof. exact set_get_boolean. Qed.
Print Assumptions C10_set_get_boolean.

Theorem C10_set_wrong_kind : forall o,
  (is_intnode o = false -> forall v, set_int64 o v = (0, o) /\ set_uint64 o v = (0, o) /\ set_int o v = (0, o)) /\
  (is_dblnode o = false -> forall b, set_double o b = (0, o)) /\
  (is_boolnode o = false -> forall b, set_boolean o b = (0, o)).
Proof. exact set_wrong_kind. Qed.
Print Assumptions C10_set_wrong_kind.

(* ------------------------------------------------------------------ int_inc, ALL (value, increment) pairs *)
(* [inc_post o val o']: o' is an integer node satisfying the invariant, its value is
   clamp_[INT64_MIN, UINT64_MAX](value o + val), it is uint64 iff that exceeds INT64_MAX or
   (o was uint64 and the result is >= 0). *)
Theorem C10_inc_exact_full_refuted :
  ~ (forall o val, wf o -> is_intnode o = true -> INT64_MIN <= val <= INT64_MAX ->
     exists o', int_inc o val = IOk 1 o' /\ inc_post o val o').
Proof. exact inc_exact_full_refuted. Qed.
Print Assumptions C10_inc_exact_full_refuted.

Theorem C10_inc_uint_intmin_refuted :
  exists o val, wf o /\ is_intnode o = true /\ INT64_MIN <= val <= INT64_MAX /\ int_inc o val = IUB.
Proof. exact inc_exact_refuted. Qed.
Print Assumptions C10_inc_uint_intmin_refuted.

(* guard: not (uint64 node and increment INT64_MIN) *)
Theorem C10_inc_exact_partial : forall o val,
  wf o -> is_intnode o = true -> INT64_MIN <= val <= INT64_MAX ->
  ~ (is_uint o = true /\ val = INT64_MIN) ->
  exists o', int_inc o val = IOk 1 o' /\ inc_post o val o'.
Proof. exact inc_exact_partial. Qed.
Print Assumptions C10_inc_exact_partial.


(* inc_no_ub, with its exact guard *)
Theorem C10_inc_ub_iff : forall o val, wf o -> INT64_MIN <= val <= INT64_MAX ->
  (int_inc o val = IUB <-> is_uint o = true /\ val = INT64_MIN).
Proof. exact inc_ub_iff. Qed.
Print Assumptions C10_inc_ub_iff.

Theorem C10_inc_not_int : forall o val, is_intnode o = false -> int_inc o val = IOk 0 o.
Proof. exact inc_not_int. Qed.
Print Assumptions C10_inc_not_int.

(* ------------------------------------------------------------------ non-vacuity *)
Theorem C10_nonvacuous :
  get_int64 E_NONE (JDouble 4890909195324358655 None) = Ret 9223372036854774784 E_NONE /\   (* just below 2^63 *)
  get_int64 EINVAL (JDouble 14114281232179134464 None) = Ret INT64_MIN E_NONE /\             (* -2^63 is exact *)
  get_int E_NONE (JDouble 4746794007246405632 None) = Ret INT32_MAX ERANGE /\                 (* 2147483647.5 *)
  get_uint64 E_NONE (JInt (-1)) = Ret 0 ERANGE /\
  get_int64 E_NONE (JStr [57; 57; 57; 57; 57; 57; 57; 57; 57; 57; 57; 57; 57; 57; 57; 57; 57; 57; 57; 57]) = Ret INT64_MAX ERANGE /\
  int_inc (JInt INT64_MAX) 1 = IOk 1 (JUint TWO63) /\ int_inc (JUint TWO63) (-1) = IOk 1 (JUint INT64_MAX) /\
  int_inc (JUint 3) (-5) = IOk 1 (JInt (-2)) /\ int_inc (JUint UINT64_MAX) 7 = IOk 1 (JUint UINT64_MAX) /\
  z_to_b64 (TWO53 + 1) = 4845873199050653696 /\ z_to_b64 (TWO53 + 3) = 4845873199050653698.
Proof.
  exact (conj ex_get_int64_dbl (conj ex_get_int64_dbl_neg (conj ex_get_int_half (conj ex_get_uint64_neg
        (conj ex_get_int64_str_sat (conj ex_inc_switch (conj ex_inc_back (conj ex_inc_neg
        (conj (proj1 ex_inc_sat) ex_z_to_b64))))))))).
Qed.
Print Assumptions C10_nonvacuous.
