(* Value.v — the JSON value type shared by the models.  JSON null is the C NULL
   pointer in json-c, hence [JNull] is also what an empty array slot holds.
   Integers keep their C representation (int64 or uint64 node); doubles are their
   IEEE-754 binary64 bit pattern plus the retained source text, if any. *)
From JC Require Import Base.
Local Open Scope Z_scope.

Inductive jv :=
| JNull
| JBool (b : bool)
| JInt (z : Z)                                  (* json_object_int_type_int64 *)
| JUint (z : Z)                                 (* json_object_int_type_uint64 *)
| JDouble (bits : Z) (text : option (list byte))
| JStr (s : list byte)
| JArr (l : list jv)
| JObj (l : list (list byte * jv)).

(* induction principle with Forall on the children *)
Section jv_ind'.
  Variable P : jv -> Prop.
  Hypothesis Hnull : P JNull.
  Hypothesis Hbool : forall b, P (JBool b).
  Hypothesis Hint : forall z, P (JInt z).
  Hypothesis Huint : forall z, P (JUint z).
  Hypothesis Hdbl : forall b t, P (JDouble b t).
  Hypothesis Hstr : forall s, P (JStr s).
  Hypothesis Harr : forall l, Forall P l -> P (JArr l).
  Hypothesis Hobj : forall l, Forall (fun kv => P (snd kv)) l -> P (JObj l).
  Fixpoint jv_ind' (v : jv) : P v :=
    match v with
    | JNull => Hnull | JBool b => Hbool b | JInt z => Hint z | JUint z => Huint z
    | JDouble b t => Hdbl b t | JStr s => Hstr s
    | JArr l => Harr l ((fix go (l : list jv) : Forall P l :=
                           match l with [] => Forall_nil _ | x :: t => Forall_cons _ (jv_ind' x) (go t) end) l)
    | JObj l => Hobj l ((fix go (l : list (list byte * jv)) : Forall (fun kv => P (snd kv)) l :=
                           match l with [] => Forall_nil _ | x :: t => Forall_cons _ (jv_ind' (snd x)) (go t) end) l)
    end.
End jv_ind'.

Fixpoint bytes_eqb (a b : list byte) : bool :=
  match a, b with
  | [], [] => true
  | x :: a', y :: b' => (x =? y) && bytes_eqb a' b'
  | _, _ => false
  end.

(* number of nodes, nesting depth *)
Fixpoint jv_size (v : jv) : nat :=
  match v with
  | JArr l => S (fold_right (fun x n => (jv_size x + n)%nat) 0%nat l)
  | JObj l => S (fold_right (fun kv n => (jv_size (snd kv) + n)%nat) 0%nat l)
  | _ => 1%nat
  end.
