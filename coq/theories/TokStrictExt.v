(* TokStrictExt.v — C16, strict mode: one documented extension, at any position of an
   otherwise valid document, makes strict-mode parsing fail, whatever follows it.
   A position is given by the valid text to its left (TokStrictPos.v). *)
From JC Require Import Base BaseLemmas Value TokModel TokProofs TokSyntax
  TokValidBase TokValidLit TokValidNum TokValidStr TokValidObj TokValid TokDepth TokStrictPos
  TokSyntaxExt TokValidExtNum TokValidExt TokValid2 TokExt.
Local Open Scope Z_scope.

(* ---------------------------------------------------------------- positions *)
Inductive pos :=
| PV (p : vpos)                                           (* where a value starts *)
| PF (p : vpos) (v : stx) (w : ws)                        (* after the complete value v at p and blanks *)
| PB (p : vpos) (pre : list mem) (a : ws)                 (* in an object at p, where a member name starts *)
| PC (p : vpos) (pre : list mem) (a : ws) (k : list schar) (b : ws).   (* after the member name and blanks *)

Definition render_pos (q : pos) : list byte :=
  match q with
  | PV p => render_vpos p
  | PF p v w => render_vpos p ++ render v ++ w
  | PB p pre a => render_vpos p ++ 123 :: pre_mems pre ++ a
  | PC p pre a k b => render_vpos p ++ 123 :: pre_mems pre ++ a ++ render_str k ++ b
  end.
Definition pos_vpos (q : pos) : vpos := match q with PV p | PF p _ _ | PB p _ _ | PC p _ _ _ _ => p end.

Definition pgood (q : pos) : bool :=
  match q with
  | PV p => vgood p
  | PF p v w => vgood p && good_stx v && all_ws w
  | PB p pre a => vgood p && forallb good_mem pre && all_ws a
  | PC p pre a k b => vgood p && forallb good_mem pre && all_ws a && wf_chars k && all_ws b
  end.
Definition pfit (md : Z) (q : pos) : bool :=
  match q with
  | PV p => vfit md p && (Z.of_nat (vdepth p) <? md)
  | PF p v _ => vfit md p && (Z.of_nat (vdepth p) + Z.of_nat (nest v) <? md)
  | PB p pre _ | PC p pre _ _ _ =>
      vfit md p && (Z.of_nat (vdepth p) <? md) &&
      forallb (fun m => Z.of_nat (vdepth p) + 1 + Z.of_nat (nest (m_val m)) <? md) pre
  end.

Definition pos_shape (sb : list byte -> Z) (q : pos) (stk : list srec) : Prop :=
  match q with
  | PV p => vp_shape p stk
  | PF p v _ => exists frs, stk = mksrec S_eatws S_finish (value sb v) None :: map frame_rec frs /\
                            zlen frs = Z.of_nat (vdepth p) /\ frames_ok frs
  | PB p pre _ => exists acc frs, stk = mksrec S_eatws (if is_nil pre then S_object_field_start else S_object_field_start_after_sep)
                                               (JObj acc) None :: map frame_rec frs
  | PC p pre _ k _ => exists acc nm frs, stk = mksrec S_eatws S_object_field_end (JObj acc) nm :: map frame_rec frs
  end.

(* how a refused call ends *)
Definition bad_out (r : loopres) : Prop :=
  exists t' l' t'', r = LOut t' l' /\ finish_call t' l' = PR t'' None /\ err t'' <> TE_success /\ err t'' <> TE_continue.

Lemma nonul_pre_elems pre : forallb good_el pre = true -> nonul (pre_elems pre) = true.
Proof.
  induction pre as [|[[a e] b] r IH]; [reflexivity|]. cbn [forallb]. intros H. apply andb_true_iff in H. destruct H as [H Hr].
  change (pre_elems ((a, e, b) :: r)) with ((render_el (a, e, b) ++ [44]) ++ pre_elems r).
  rewrite !nonul_app, (IH Hr). unfold good_el in H. apply andb_true_iff in H. destruct H as [Hok Hg].
  cbn [el_ok] in Hok. apply andb_true_iff in Hok. destruct Hok as [Hok Hb]. apply andb_true_iff in Hok. destruct Hok as [Ha He].
  cbn [render_el]. rewrite !nonul_app, (nonul_ws a Ha), (nonul_ws b Hb), (render_nonul e He). reflexivity.
Qed.
Lemma nonul_mem m : mem_ok m = true -> nonul (render_mem m) = true.
Proof.
  destruct m as [[[[[a k] b] cw] v] d]. cbn [mem_ok render_mem]. intros Hok.
  apply andb_true_iff in Hok. destruct Hok as [Hok Hd]. apply andb_true_iff in Hok. destruct Hok as [Hok Hv].
  apply andb_true_iff in Hok. destruct Hok as [Hok Hc]. apply andb_true_iff in Hok. destruct Hok as [Hok Hb].
  apply andb_true_iff in Hok. destruct Hok as [Ha Hk].
  rewrite !nonul_app, nonul_cons, !nonul_app.
  rewrite (nonul_ws a Ha), (nonul_ws b Hb), (nonul_ws cw Hc), (nonul_ws d Hd), (nonul_str k Hk), (render_nonul v Hv). reflexivity.
Qed.
Lemma nonul_pre_mems pre : forallb good_mem pre = true -> nonul (pre_mems pre) = true.
Proof.
  induction pre as [|m r IH]; [reflexivity|]. cbn [forallb]. intros H. apply andb_true_iff in H. destruct H as [H Hr].
  change (pre_mems (m :: r)) with ((render_mem m ++ [44]) ++ pre_mems r).
  rewrite !nonul_app, (IH Hr). unfold good_mem in H. apply andb_true_iff in H. destruct H as [H _]. apply andb_true_iff in H. destruct H as [Hok _].
  rewrite (nonul_mem m Hok). reflexivity.
Qed.
Lemma nonul_vpos p : vgood p = true -> nonul (render_vpos p) = true.
Proof.
  induction p as [lead|p IH pre a|p IH pre a k b cw]; cbn [vgood render_vpos]; intros Hg.
  - apply nonul_ws. exact Hg.
  - apply andb_true_iff in Hg. destruct Hg as [Hg Hwa]. apply andb_true_iff in Hg. destruct Hg as [Hgp Hgpre].
    rewrite nonul_app, nonul_cons, nonul_app, (IH Hgp), (nonul_pre_elems pre Hgpre), (nonul_ws a Hwa). reflexivity.
  - apply andb_true_iff in Hg. destruct Hg as [Hg Hnk]. apply andb_true_iff in Hg. destruct Hg as [Hg Hwc].
    apply andb_true_iff in Hg. destruct Hg as [Hg Hwb]. apply andb_true_iff in Hg. destruct Hg as [Hg Hwk].
    apply andb_true_iff in Hg. destruct Hg as [Hg Hwa]. apply andb_true_iff in Hg. destruct Hg as [Hgp Hgpre].
    rewrite nonul_app, nonul_cons, !nonul_app, nonul_cons.
    rewrite (IH Hgp), (nonul_pre_mems pre Hgpre), (nonul_ws a Hwa), (nonul_ws b Hwb), (nonul_ws cw Hwc), (nonul_str k Hwk). reflexivity.
Qed.
Lemma nonul_pos q : pgood q = true -> nonul (render_pos q) = true.
Proof.
  destruct q as [p|p v w|p pre a|p pre a k b]; cbn [pgood render_pos]; intros Hg.
  - apply nonul_vpos. exact Hg.
  - apply andb_true_iff in Hg. destruct Hg as [Hg Hw]. apply andb_true_iff in Hg. destruct Hg as [Hgp Hgv].
    destruct (good_stx_facts v Hgv) as (Hwv & _).
    rewrite !nonul_app, (nonul_vpos p Hgp), (render_nonul v Hwv), (nonul_ws w Hw). reflexivity.
  - apply andb_true_iff in Hg. destruct Hg as [Hg Hwa]. apply andb_true_iff in Hg. destruct Hg as [Hgp Hgpre].
    rewrite nonul_app, nonul_cons, nonul_app, (nonul_vpos p Hgp), (nonul_pre_mems pre Hgpre), (nonul_ws a Hwa). reflexivity.
  - apply andb_true_iff in Hg. destruct Hg as [Hg Hwb]. apply andb_true_iff in Hg. destruct Hg as [Hg Hwk].
    apply andb_true_iff in Hg. destruct Hg as [Hg Hwa]. apply andb_true_iff in Hg. destruct Hg as [Hgp Hgpre].
    rewrite nonul_app, nonul_cons, !nonul_app, (nonul_vpos p Hgp), (nonul_pre_mems pre Hgpre), (nonul_ws a Hwa), (nonul_ws b Hwb), (nonul_str k Hwk). reflexivity.
Qed.

Section S.
Variable sb : list byte -> Z.
Variable c : cf.

(* ---------------------------------------------------------------- reaching a position (either mode) *)
(* the byte after a complete value must be one that ends it *)
Definition pfol (q : pos) (more : list byte) : bool :=
  match q with
  | PF p v w =>
      match w ++ more with
      | fc :: _ => if Nat.eqb (vdepth p) 0 then xstop fc else is_ws fc || (fc =? 44) || (fc =? 93) || (fc =? 125) || (fc =? 47)
      | [] => false
      end
  | _ => true
  end.

Lemma is_nil_frames (frs : list pframe) n : zlen frs = Z.of_nat n -> is_nil (map frame_rec frs) = Nat.eqb n 0.
Proof.
  destruct frs as [|fr frs]; destruct n; cbn [zlen map is_nil Nat.eqb]; intros H; try reflexivity; [lia|].
  pose proof (zlen_nonneg frs). lia.
Qed.

Lemma pos_reach q : pgood q = true -> pfit (c_md c) q = true ->
  forall f g x nb lo more, (8 <= f)%nat -> pfol q more = true ->
  exists stk f' g' off' x' lo', (8 <= f')%nat /\ pos_shape sb q stk /\
    run_f sb f (render_pos q ++ more) (T c [fresh_level] g 0 0) (mkloc x nb lo None) =
    run_f sb f' more (T c stk g' 0 off') (mkloc x' nb lo' None).
Proof.
  intros Hg Hfit f g x nb lo more Hf Hfol.
  destruct q as [p|p v w|p pre a|p pre a k b]; cbn [pgood pfit render_pos pos_shape pfol] in *.
  - apply andb_true_iff in Hfit. destruct Hfit as [Hfit Hd]. apply Z.ltb_lt in Hd. pose proof (Nat2Z.is_nonneg (vdepth p)).
    apply vpos_pre; [exact Hg|exact Hfit|lia|exact Hf].
  - apply andb_true_iff in Hg. destruct Hg as [Hg Hw]. apply andb_true_iff in Hg. destruct Hg as [Hgp Hgv].
    apply andb_true_iff in Hfit. destruct Hfit as [Hfit Hd]. apply Z.ltb_lt in Hd.
    pose proof (Nat2Z.is_nonneg (vdepth p)). pose proof (Nat2Z.is_nonneg (nest v)).
    destruct (good_stx_facts v Hgv) as (Hwv & Hiv & Hnv).
    destruct (render_first v Hwv) as (x0 & tl0 & Ex0 & Hx0).
    rewrite <- !app_assoc. rewrite Ex0. cbn [app].
    destruct (vpos_enter sb c p Hgp Hfit ltac:(lia) f g x nb lo x0 (tl0 ++ w ++ more) Hf Hx0)
      as (frs & f1 & g1 & off1 & x1 & lo1 & Hf1 & Hz & Hok & ->).
    change (x0 :: tl0 ++ w ++ more) with ((x0 :: tl0) ++ w ++ more). rewrite <- Ex0.
    destruct (value_ok2 sb c v Hwv (covered_all v) Hiv Hnv f1 (map frame_rec frs) g1 off1 x1 nb lo1 (w ++ more) Hf1)
      as (f2 & g2 & x2 & lo2 & Hf2 & ->).
    { rewrite zlen_map, Hz. lia. }
    { unfold xfol_rest, xfol_ok. rewrite (is_nil_frames frs _ Hz). exact Hfol. }
    destruct (run_ws sb c w f2 S_finish (value sb v) None (map frame_rec frs) g2 0 (off1 + zlen (render v)) x2 nb lo2 None more Hf2 Hw)
      as (f3 & x3 & Hf3 & ->).
    eexists _, f3, g2, _, x3, lo2. split; [exact Hf3|]. split; [|reflexivity]. exists frs. auto.
  - apply andb_true_iff in Hg. destruct Hg as [Hg Hwa]. apply andb_true_iff in Hg. destruct Hg as [Hgp Hgpre].
    apply andb_true_iff in Hfit. destruct Hfit as [Hfit Hfpre]. apply andb_true_iff in Hfit. destruct Hfit as [Hfp Hd].
    apply Z.ltb_lt in Hd. rewrite <- app_assoc. cbn [app].
    destruct (vpos_enter sb c p Hgp Hfp ltac:(lia) f g x nb lo 123 ((pre_mems pre ++ a) ++ more) Hf eq_refl)
      as (frs & f2 & g1 & off1 & x2 & lo1 & Hf2 & Hz & Hok & ->).
    assert (E1 : exists g3, run_f sb f2 (123 :: (pre_mems pre ++ a) ++ more) (T c (fresh_level :: map frame_rec frs) g1 0 off1) (mkloc x2 nb lo1 None) =
                 run_f sb REDO_FUEL ((pre_mems pre ++ a) ++ more) (T c (mksrec S_eatws S_object_field_start (JObj []) None :: map frame_rec frs) g3 0 (off1 + 1)) (mkloc 123 nb lo1 None)).
    { clear - Hf2. fuel f2. destruct c as [md sf al]. destruct g1 as [p0 d0 s0 u0 q0]. eexists (mkgb _ _ _ _ _).
      destruct sf; stepC; reflexivity. }
    destruct E1 as (g3 & ->). rewrite <- app_assoc.
    destruct (obj_pre_run sb c pre REDO_FUEL S_object_field_start [] (map frame_rec frs) g3 (off1 + 1) 123 nb lo1 (a ++ more) Hgpre)
      as (acc' & f4 & g4 & off4 & x4 & lo4 & Hf4 & ->); [rewrite zlen_map, Hz; exact Hfpre|auto|unfold REDO_FUEL; lia|].
    destruct (run_ws sb c a f4 (if is_nil pre then S_object_field_start else S_object_field_start_after_sep) (JObj acc') None
                (map frame_rec frs) g4 0 off4 x4 nb lo4 None more Hf4 Hwa) as (f5 & x5 & Hf5 & ->).
    eexists _, f5, g4, _, x5, lo4. split; [exact Hf5|]. split; [|reflexivity]. exists acc', frs. reflexivity.
  - apply andb_true_iff in Hg. destruct Hg as [Hg Hwb]. apply andb_true_iff in Hg. destruct Hg as [Hg Hwk].
    apply andb_true_iff in Hg. destruct Hg as [Hg Hwa]. apply andb_true_iff in Hg. destruct Hg as [Hgp Hgpre].
    apply andb_true_iff in Hfit. destruct Hfit as [Hfit Hfpre]. apply andb_true_iff in Hfit. destruct Hfit as [Hfp Hd].
    apply Z.ltb_lt in Hd. rewrite <- app_assoc. cbn [app].
    set (tailm := (pre_mems pre ++ a ++ render_str k ++ b) ++ more).
    destruct (vpos_enter sb c p Hgp Hfp ltac:(lia) f g x nb lo 123 tailm Hf eq_refl)
      as (frs & f2 & g1 & off1 & x2 & lo1 & Hf2 & Hz & Hok & ->).
    assert (E1 : exists g3, run_f sb f2 (123 :: tailm) (T c (fresh_level :: map frame_rec frs) g1 0 off1) (mkloc x2 nb lo1 None) =
                 run_f sb REDO_FUEL tailm (T c (mksrec S_eatws S_object_field_start (JObj []) None :: map frame_rec frs) g3 0 (off1 + 1)) (mkloc 123 nb lo1 None)).
    { clear - Hf2. fuel f2. destruct c as [md sf al]. destruct g1 as [p0 d0 s0 u0 q0]. eexists (mkgb _ _ _ _ _).
      destruct sf; stepC; reflexivity. }
    destruct E1 as (g3 & ->). subst tailm. rewrite <- app_assoc.
    destruct (obj_pre_run sb c pre REDO_FUEL S_object_field_start [] (map frame_rec frs) g3 (off1 + 1) 123 nb lo1 ((a ++ render_str k ++ b) ++ more) Hgpre)
      as (acc' & f4 & g4 & off4 & x4 & lo4 & Hf4 & ->); [rewrite zlen_map, Hz; exact Hfpre|auto|unfold REDO_FUEL; lia|].
    set (svs := if is_nil pre then S_object_field_start else S_object_field_start_after_sep).
    assert (Hs : svs = S_object_field_start \/ svs = S_object_field_start_after_sep) by (subst svs; destruct (is_nil pre); auto).
    assert (F16 : (8 <= REDO_FUEL)%nat) by (unfold REDO_FUEL; lia).
    replace ((a ++ render_str k ++ b) ++ more) with (a ++ 34 :: render_chars k ++ 34 :: b ++ more)
      by (unfold render_str; repeat (rewrite <- ?app_assoc; cbn [app]; rewrite <- ?app_comm_cons); reflexivity).
    ws_step sb Hwa f5 x5 Hf5.
    rewrite obj_name_open; [|exact Hs|lia].
    match goal with |- context [run_f sb REDO_FUEL (render_chars k ++ ?more) (SS c _ _ _ _ _ _ _ ?dd ?ss ?uu ?oo) (mkloc ?xx nb ?ll None)] =>
      destruct (str_body sb c S_object_field k (or_intror eq_refl) Hwk REDO_FUEL 0 [] svs dd ss uu (map frame_rec frs) (JObj acc') None
                  oo xx nb ll more F16 (or_introl eq_refl))
        as (f6 & x6 & hi6 & pend & svx6 & sp6 & uc6 & Hf6 & Hhi6 & Hp & ->) end.
    match goal with |- context [run_f sb f6 (34 :: ?more) (SS c _ _ _ _ _ _ _ ?dd ?ss ?uu ?oo) (mkloc ?xx nb ?ll None)] =>
      destruct (str_close sb c S_object_field (or_intror eq_refl) f6 hi6 pend svx6 dd ss uu (map frame_rec frs) (JObj acc') None
                  oo xx nb ll more Hf6 Hhi6) as (g7 & ->) end.
    cbn [close_top].
    ws_step sb Hwb f8 x8 Hf8.
    eexists _, f8, g7, _, x8, lo4. split; [exact Hf8|]. split; [|reflexivity]. eexists _, _, frs. reflexivity.
Qed.

End S.

(* ---------------------------------------------------------------- strict mode: the rejections *)
Ltac bad_lazy :=
  eexists _, _, _; split; [apply runT_O; lazy; reflexivity|split; [lazy; reflexivity|split; lazy; discriminate]].

Section F.
Variable sb : list byte -> Z.
Variable md : Z.
Local Notation SC := (mkcf md true false).

(* in strict mode a slash, too, makes the level push *)
Lemma push_step_slash f more svs cur nm below g off x nb lo :
  (svs = S_array \/ svs = S_array_after_sep \/ svs = S_object_value) ->
  zlen below + 1 < md ->
  run_f sb (S (S f)) (47 :: more) (T SC (mksrec S_eatws svs cur nm :: below) g 0 off) (mkloc x nb lo None) =
  run_f sb f (47 :: more) (T SC (fresh_level :: mksrec (add_of svs) svs cur nm :: below) g 0 off) (mkloc 47 nb lo None).
Proof.
  intros Hs Hd. destruct g as [p d s u q].
  rewrite (runT_R sb SC (S f) 47 more _ _ 0 off x nb lo None (mksrec svs svs cur nm :: below) p d s u q 0 lo None).
  2:{ reflexivity. }
  rewrite (runT_R sb SC f 47 more _ _ 0 off 47 nb lo None (fresh_level :: mksrec (add_of svs) svs cur nm :: below) p d s u q 0 lo None).
  2:{ unfold step1.
      match goal with |- context [depth ?t >=? max_depth ?t - 1] =>
        assert (E : (depth t >=? max_depth t - 1) = false) by (unfold depth; cbn [stack T zlen max_depth c_md]; lia) end.
      destruct Hs as [->|[->| ->]]; cbn [st top stack T s_state lc]; cbn [Z.eqb Pos.eqb]; rewrite E; reflexivity. }
  reflexivity.
Qed.

(* at the start of a value *)
Lemma bad_fresh_slash f Q stk g off x nb lo :
  (3 <= f)%nat -> bad_out (run_f sb f (47 :: Q) (T SC (fresh_level :: stk) g 0 off) (mkloc x nb lo None)).
Proof. intros Hf. fuel f. destruct g as [p d s u q]. bad_lazy. Qed.
Lemma bad_fresh_quote f Q stk g off x nb lo :
  (3 <= f)%nat -> bad_out (run_f sb f (39 :: Q) (T SC (fresh_level :: stk) g 0 off) (mkloc x nb lo None)).
Proof. intros Hf. fuel f. destruct g as [p d s u q]. bad_lazy. Qed.

Lemma bad_lit f l ups Q stk g off x nb lo :
  (3 <= f)%nat -> Nat.eqb (length ups) (length (render_lit l)) = true -> existsb (fun u => u) ups = true ->
  bad_out (run_f sb f (render_xlit l ups ++ Q) (T SC (fresh_level :: stk) g 0 off) (mkloc x nb lo None)).
Proof.
  intros Hf Hl Hu. fuel f. destruct g as [p d s u q].
  destruct l.
  - destruct ups as [|u1 [|u2 [|u3 [|u4 [|? ?]]]]]; try discriminate.
    destruct u1, u2, u3, u4; try discriminate; cbn [render_xlit render_lit recase app]; repeat stepC; bad_lazy.
  - destruct ups as [|u1 [|u2 [|u3 [|u4 [|? ?]]]]]; try discriminate.
    destruct u1, u2, u3, u4; try discriminate; cbn [render_xlit render_lit recase app]; repeat stepC; bad_lazy.
  - destruct ups as [|u1 [|u2 [|u3 [|u4 [|u5 [|? ?]]]]]]; try discriminate.
    destruct u1, u2, u3, u4, u5; try discriminate; cbn [render_xlit render_lit recase app]; repeat stepC; bad_lazy.
Qed.

(* at a value position: slash or single quote *)
Lemma bad_vp_slash_or_quote p stk (b0 : byte) f Q g off x nb lo :
  vp_shape p stk -> Z.of_nat (vdepth p) < md -> (b0 = 47 \/ b0 = 39) -> (8 <= f)%nat ->
  bad_out (run_f sb f (b0 :: Q) (T SC stk g 0 off) (mkloc x nb lo None)).
Proof.
  intros Hsh Hd Hb Hf. destruct Hb as [->| ->].
  - destruct p as [lead|p pre a|p pre a k b]; cbn [vp_shape vdepth] in *.
    + subst stk. apply bad_fresh_slash. lia.
    + destruct Hsh as (acc & frs & -> & Hz & Hok). fuel f.
      rewrite push_step_slash; [|destruct (is_nil pre); auto|rewrite zlen_map; lia]. apply bad_fresh_slash. lia.
    + destruct Hsh as (acc & frs & -> & Hz & Hok). fuel f.
      rewrite push_step_slash; [|auto|rewrite zlen_map; lia]. apply bad_fresh_slash. lia.
  - destruct (vp_enter sb SC p stk Hsh Hd f g off x nb lo 39 Q Hf eq_refl) as (frs & f' & x' & Hf' & _ & _ & ->).
    apply bad_fresh_quote. lia.
Qed.

(* after a complete value: slash *)
Lemma bad_after_slash f Q v frs g off x nb lo :
  (8 <= f)%nat ->
  bad_out (run_f sb f (47 :: Q) (T SC (mksrec S_eatws S_finish v None :: map frame_rec frs) g 0 off) (mkloc x nb lo None)).
Proof.
  intros Hf. fuel f. destruct g as [p d s u q]. destruct frs as [|[svs acc|acc key] frs]; cbn [map frame_rec]; bad_lazy.
Qed.

(* where a member name starts: slash, single quote, closing brace after a comma *)
Lemma bad_name_start f (b0 : byte) Q (e : bool) acc stk g off x nb lo :
  (3 <= f)%nat -> (b0 = 47 \/ b0 = 39 \/ (b0 = 125 /\ e = false)) ->
  bad_out (run_f sb f (b0 :: Q) (T SC (mksrec S_eatws (if e then S_object_field_start else S_object_field_start_after_sep) (JObj acc) None :: stk) g 0 off)
                 (mkloc x nb lo None)).
Proof.
  intros Hf Hb. fuel f. destruct g as [p d s u q].
  destruct Hb as [->|[->|[-> ->]]]; try destruct e; bad_lazy.
Qed.

(* after a member name: slash *)
Lemma bad_after_name f Q acc nm stk g off x nb lo :
  (3 <= f)%nat ->
  bad_out (run_f sb f (47 :: Q) (T SC (mksrec S_eatws S_object_field_end (JObj acc) nm :: stk) g 0 off) (mkloc x nb lo None)).
Proof. intros Hf. fuel f. destruct g as [p d s u q]. bad_lazy. Qed.

(* a closing bracket after a comma *)
Lemma bad_arr_tc f Q acc stk g off x nb lo :
  (3 <= f)%nat ->
  bad_out (run_f sb f (93 :: Q) (T SC (mksrec S_eatws S_array_after_sep (JArr acc) None :: stk) g 0 off) (mkloc x nb lo None)).
Proof. intros Hf. fuel f. destruct g as [p d s u q]. bad_lazy. Qed.

(* anything but a blank after the top-level value *)
Lemma bad_junk f j Q v g off x nb lo :
  (3 <= f)%nat -> is_ws j = false -> (j =? 0) = false ->
  bad_out (run_f sb f (j :: Q) (T SC [mksrec S_eatws S_finish v None] g 0 off) (mkloc x nb lo None)).
Proof.
  intros Hf Hws H0. fuel f. destruct g as [p d s u q].
  eexists _, _, _. split; [|split; [|split]].
  - apply runT_O. cbn [redo].
    assert (S1 : step1 sb (T SC [mksrec S_eatws S_finish v None] (mkgb p d s u q) 0 off) (mkloc j nb lo None) =
                 Redo (T SC [mksrec S_finish S_finish v None] (mkgb p d s u q) 0 off) (mkloc j nb lo None)).
    { unfold step1. cbn [st top stack T s_state lc strict c_sf]. rewrite Hws. cbn [negb]. rewrite andb_false_r. reflexivity. }
    rewrite S1. reflexivity.
  - unfold finish_call. cbn [lc validate_utf8 T andb]. rewrite H0. reflexivity.
  - cbn. discriminate.
  - cbn. discriminate.
Qed.

End F.

(* ---------------------------------------------------------------- number tokens *)
(* strtod stops before an exponent that has no digits *)
Lemma strtod_consumed_dangling neg ip fr ec sg :
  wf_xint ip = true -> wf_frac fr = true -> (ec = 101 \/ ec = 69) -> match sg with Some s => s = 43 \/ s = 45 | None => True end ->
  strtod_consumed (render_num (mknum neg ip fr (Some (ec, sg, [])))) <> zlen (render_num (mknum neg ip fr (Some (ec, sg, [])))).
Proof.
  intros Hip Hfr Hec Hsg. unfold render_num. cbn [n_neg n_int n_frac n_exp render_exp]. rewrite app_nil_r.
  destruct (wf_xint_facts ip Hip) as (Hne & Hd). pose proof (wf_frac_facts fr Hfr) as Ffr.
  set (sgl := match sg with Some s => [s] | None => @nil byte end).
  set (E := ec :: sgl).
  assert (Hnd : is_digit ec = false) by (unfold is_digit; lia).
  assert (HE1 : skip_digits E = E) by (subst E; cbn [skip_digits]; rewrite Hnd; reflexivity).
  assert (HE2 : (ec =? 46) = false) by lia.
  assert (HE3 : ((ec =? 101) || (ec =? 69)) = true) by lia.
  assert (HE4 : let r0 := match sgl with s :: r' => if (s =? 45) || (s =? 43) then r' else sgl | [] => [] end in
                zlen r0 - zlen (skip_digits r0) = 0).
  { subst sgl. destruct sg as [s0|]; [|reflexivity]. cbn. assert (X : ((s0 =? 45) || (s0 =? 43)) = true) by lia. rewrite X. reflexivity. }
  assert (Hip0 : 0 < zlen ip) by (destruct ip; [congruence|cbn [zlen]; pose proof (zlen_nonneg ip); lia]).
  assert (HE0 : 0 < zlen E) by (subst E; cbn [zlen]; pose proof (zlen_nonneg sgl); lia).
  assert (Hcore : forall sign_len, sc_core sign_len (ip ++ render_frac fr ++ E) = sign_len + zlen (ip ++ render_frac fr)).
  { intros sign_len. unfold sc_core. cbv zeta. rewrite (skip_digits_app ip _ Hd).
    destruct fr as [fd|].
    - destruct Ffr as [Hfd Hfl]. cbn [render_frac app]. cbn [skip_digits is_digit].
      change (is_digit 46) with false. cbv iota. rewrite Z.eqb_refl.
      rewrite (skip_digits_app fd E Hfd), HE1. rewrite !zlen_app. cbn [zlen]. rewrite !zlen_app.
      destruct (zlen ip + (1 + (zlen fd + zlen E)) - (1 + (zlen fd + zlen E)) + (zlen fd + zlen E - zlen E) =? 0) eqn:E0; [lia|].
      unfold E. cbv beta iota. rewrite HE3. cbv zeta in HE4 |- *. rewrite HE4. cbn [Z.eqb]. unfold E in *. cbn [zlen] in *. lia.
    - cbn [render_frac app]. rewrite HE1.
      assert (X : match E with
                  | c :: r => if c =? 46 then (skip_digits r, zlen r - zlen (skip_digits r), 1) else (E, 0, 0)
                  | [] => (E, 0, 0) end = (E, 0, 0)) by (unfold E; cbv beta iota; rewrite HE2; reflexivity).
      rewrite X. rewrite !zlen_app.
      destruct (zlen ip + zlen E - zlen E + 0 =? 0) eqn:E0; [lia|].
      unfold E. cbv beta iota. rewrite HE3. cbv zeta in HE4 |- *. rewrite HE4. cbn [Z.eqb]. unfold E in *. cbn [zlen] in *. lia. }
  rewrite strtod_consumed_unfold. cbv zeta. destruct neg.
  - cbn [app]. rewrite Z.eqb_refl. cbn [orb].
    replace (zlen (45 :: ip ++ render_frac fr ++ E) - zlen (ip ++ render_frac fr ++ E)) with 1 by (cbn [zlen]; lia).
    rewrite (Hcore 1). cbn [zlen]. rewrite !zlen_app. lia.
  - cbn [app]. destruct ip as [|d r]; [congruence|]. cbn [app].
    assert (Hd0 : is_digit d = true) by (cbn in Hd; apply andb_true_iff in Hd; tauto).
    assert (E1 : ((d =? 45) || (d =? 43)) = false) by (unfold is_digit in Hd0; lia). rewrite E1.
    replace (zlen (d :: r ++ render_frac fr ++ E) - zlen (d :: r ++ render_frac fr ++ E)) with 0 by lia.
    change (d :: r ++ render_frac fr ++ E) with ((d :: r) ++ render_frac fr ++ E).
    rewrite (Hcore 0). rewrite !zlen_app. lia.
Qed.

Definition dangling (n : numtok) : bool := match n_exp n with Some (_, _, []) => true | _ => false end.
(* a number token that is not RFC 8259: a superfluous leading zero, or a dangling exponent *)
Definition ext_num (n : numtok) : bool := leading_zero (n_int n) || (wf_int (n_int n) && dangling n).

Section G.
Variable sb : list byte -> Z.
Variable md : Z.
Local Notation SC := (mkcf md true false).

Lemma classify_strict_bad below n s u q off :
  wf_xnum n = true -> ext_num n = true ->
  classify_number sb (NS SC below (render_num n) (negb (is_int_tok n)) s u q off) = NumErr.
Proof.
  intros Hw He. destruct n as [neg ip fr ex]. unfold wf_xnum, ext_num in *. cbn [n_neg n_int n_frac n_exp] in *.
  apply andb_true_iff in Hw. destruct Hw as [Hw Hex]. apply andb_true_iff in Hw. destruct Hw as [Hip Hfr].
  destruct (wf_xint_facts ip Hip) as (Hne & Hd).
  apply orb_true_iff in He. destruct He as [Hlz|Hdg].
  - (* leading zero *)
    unfold classify_number. cbn [pb strict NS T g_pb c_sf andb]. unfold render_num. cbn [n_neg n_int n_frac n_exp].
    unfold leading_zero in Hlz. destruct ip as [|d0 [|d1 r]]; try discriminate. assert (d0 = 48) by lia. subst d0.
    assert (Hd1 : is_digit d1 = true).
    { cbn [all_digits forallb] in Hd. apply andb_true_iff in Hd. destruct Hd as [_ Hd]. apply andb_true_iff in Hd. tauto. }
    destruct neg; cbn [app tl Z.eqb Pos.eqb]; rewrite Hd1; reflexivity.
  - apply andb_true_iff in Hdg. destruct Hdg as [Hwi Hdg]. unfold dangling in Hdg. cbn [n_exp] in Hdg.
    destruct ex as [[[ec sg] [|? ?]]|]; try discriminate.
    pose proof (wf_xexp_facts _ Hex) as (Hec & Hsg & _).
    pose proof (strtod_consumed_dangling neg ip fr ec sg Hip Hfr Hec Hsg) as Hsc.
    unfold classify_number. cbn [pb strict is_double NS T g_pb g_dbl c_sf andb].
    assert (Ei : is_int_tok (mknum neg ip fr (Some (ec, sg, []))) = false) by (unfold is_int_tok; cbn; destruct fr; reflexivity).
    rewrite Ei. cbn [negb andb].
    match goal with |- (if ?b then _ else _) = _ => assert (E : b = false) end.
    { unfold render_num. cbn [n_neg n_int n_frac n_exp].
      assert (Hm : match render_frac fr ++ render_exp (Some (ec, sg, [])) with [] => True | c0 :: _ => is_digit c0 = false end).
      { destruct fr as [fd|]; [reflexivity|]. cbn [render_frac render_exp app]. unfold is_digit. lia. }
      destruct neg.
      - cbn [app tl]. rewrite Z.eqb_refl. apply lz_check_rfc; assumption.
      - cbn [app]. destruct ip as [|d r]; [congruence|]. cbn [app].
        assert (Hd0 : is_digit d = true) by (cbn in Hd; apply andb_true_iff in Hd; tauto).
        assert (E1 : (d =? 45) = false) by (unfold is_digit in Hd0; lia). rewrite E1.
        exact (lz_check_rfc (d :: r) _ Hwi Hm). }
    rewrite E. destruct (strtod_consumed _ =? zlen _) eqn:E2; [lia|reflexivity].
Qed.

Lemma bad_num f n fc Q stk g off x nb lo :
  (4 <= f)%nat -> wf_xnum n = true -> ext_num n = true -> xstop fc = true ->
  bad_out (run_f sb f (render_num n ++ fc :: Q) (T SC (fresh_level :: stk) g 0 off) (mkloc x nb lo None)).
Proof.
  intros Hf Hw He Hfc.
  destruct (num_scan sb SC n Hw f stk g off x nb lo Hf) as (x3 & n3 & ->).
  set (p := render_num n). set (dbl := negb (is_int_tok n)).
  assert (S1 : step1 sb (NS SC stk p dbl (g_sp g) (g_ucs g) (g_q g) (off + zlen p)) (mkloc fc nb lo (Some n3)) =
               Out (set_err (NS SC stk p dbl (g_sp g) (g_ucs g) (g_q g) (off + zlen p)) TE_number) (mkloc fc nb lo None)).
  { unfold NS. unfold step1. cbn [st top stack T s_state lc lnum].
    assert (E1 : num_char_ok (T SC (mksrec S_number S_start JNull None :: stk) (mkgb p dbl (g_sp g) (g_ucs g) (g_q g)) 0 (off + zlen p)) n3 fc = false).
    { unfold num_char_ok. cbn [is_double T g_dbl]. unfold xstop in Hfc. unfold is_digit in *.
      destruct (nl_exp n3), (nl_neg n3), (nl_pos n3), dbl; lia. }
    rewrite E1. unfold fail.
    match goal with |- (if ?b then _ else _) = _ => destruct b; [reflexivity|] end.
    assert (E3 : ((fc =? 105) || (fc =? 73)) = false) by (unfold xstop in Hfc; lia).
    rewrite E3, andb_false_r.
    cbn [is_double strict T g_dbl c_sf negb andb]. rewrite andb_false_r.
    change (T SC (mksrec S_number S_start JNull None :: stk) (mkgb p dbl (g_sp g) (g_ucs g) (g_q g)) 0 (off + zlen p))
      with (NS SC stk p dbl (g_sp g) (g_ucs g) (g_q g) (off + zlen p)).
    subst p dbl. rewrite (classify_strict_bad stk n _ _ _ _ Hw He). reflexivity. }
  unfold REDO_FUEL. unfold NS in *.
  destruct (fc =? 0) eqn:E0.
  all: eexists _, _, _; (split; [apply runT_O; cbn [redo]; rewrite S1; reflexivity|]).
  all: unfold finish_call; cbn [lc validate_utf8 set_err T andb st top stack s_state sv s_saved tstate_eqb negb err]; rewrite E0;
       cbn [andb negb err set_err]; rewrite ?orb_true_r; cbn [andb negb err set_err]; (split; [reflexivity|split; discriminate]).
Qed.

(* ---------------------------------------------------------------- control bytes in strings and names *)
Lemma bad_ctl S b f Q hi pend svx dbl sp uc below cur nm off x nb lo :
  str_state S -> hi_ok hi -> 1 <= b <= 31 -> (8 <= f)%nat ->
  bad_out (run_f sb f (b :: Q) (SS SC S below cur nm hi pend svx dbl sp uc off) (mkloc x nb lo None)).
Proof.
  intros HS Hhi Hb Hf.
  assert (P : forall f p svx sp uc x, (1 <= f)%nat ->
    bad_out (run_f sb f (b :: Q) (T SC (mksrec S svx cur nm :: below) (mkgb p dbl sp uc 34) 0 off) (mkloc x nb lo None))).
  { clear - HS Hb. intros f p svx sp uc x Hf. fuel f.
    assert (E1 : (b =? 34) = false) by lia. assert (E2 : (b =? 92) = false) by lia. assert (E3 : (b <=? 31) = true) by lia.
    assert (E0 : (b =? 0) = false) by lia.
    destruct HS as [->| ->].
    all: eexists _, _, _; (split; [|split; [|split]]);
      [ apply runT_O; cbn [redo]; unfold step1; cbn [st top stack T s_state lc quote_char g_q strict c_sf]; rewrite E1, E2, E3; reflexivity
      | unfold finish_call, fail; cbn [lc validate_utf8 set_err T andb]; rewrite E0; reflexivity
      | cbn; discriminate | cbn; discriminate ]. }
  destruct Hhi as [->|Hh].
  - unfold SS. cbn [Z.eqb]. apply P. lia.
  - unfold SS. rewrite (high_nonzero hi Hh). fuel f. rewrite run_need_flush by lia. apply P. lia.
Qed.

End G.

(* ---------------------------------------------------------------- the theorems *)
Section W.
Variable sb : list byte -> Z.

Definition rejected (t : tok) (text : list byte) : Prop :=
  exists t', parse_ex_cstr sb t text = PR t' None /\ err t' <> TE_success /\ err t' <> TE_continue.

Lemma reject_at D q R t :
  pgood q = true -> pfit D q = true -> pfol q (upto_nul R) = true ->
  (forall stk f g off x lo, pos_shape sb q stk -> (8 <= f)%nat ->
     bad_out (run_f sb f (upto_nul R) (T (mkcf D true false) stk g 0 off) (mkloc x 0 lo None))) ->
  tok_new D true false false = Some t ->
  rejected t (render_pos q ++ R).
Proof.
  intros Hg Hfit Hfol Hbad Hnew.
  unfold tok_new in Hnew. destruct (D <? 1); [discriminate|]. inversion Hnew; subst t; clear Hnew.
  unfold rejected, parse_ex_cstr. rewrite upto_nul_app by (apply nonul_pos; exact Hg).
  unfold parse_ex.
  change (set_err (set_off (mktok [fresh_level] D [] false 0 0 0 0 true false false 0 TE_success) 0) TE_success)
    with (T (mkcf D true false) [fresh_level] (mkgb [] false 0 0 0) 0 0).
  rewrite run_run_f.
  destruct (pos_reach sb (mkcf D true false) q Hg Hfit REDO_FUEL (mkgb [] false 0 0 0) 1 0 JNull (upto_nul R))
    as (stk & f' & g' & off' & x' & lo' & Hf' & Hsh & ->); [unfold REDO_FUEL; lia|exact Hfol|].
  destruct (Hbad stk f' g' off' x' lo' Hsh Hf') as (t1 & l1 & t2 & -> & Hfin & He1 & He2).
  exists t2. rewrite Hfin. auto.
Qed.

Lemma pfol_after p v w fc more :
  all_ws w = true -> xstop fc = true -> (is_ws fc || (fc =? 44) || (fc =? 93) || (fc =? 125) || (fc =? 47)) = true ->
  pfol (PF p v w) (fc :: more) = true.
Proof.
  intros Hw H1 H2. cbn [pfol]. destruct w as [|b w]; cbn [app].
  - destruct (Nat.eqb (vdepth p) 0); assumption.
  - cbn [all_ws forallb] in Hw. apply andb_true_iff in Hw. destruct Hw as [Hb _].
    destruct (Nat.eqb (vdepth p) 0); [unfold xstop, is_ws, is_digit in *; lia|rewrite Hb; reflexivity].
Qed.
Lemma pfol_after_top lead v w fc more :
  all_ws w = true -> (w <> [] \/ xstop fc = true) -> pfol (PF (VTop lead) v w) (fc :: more) = true.
Proof.
  intros Hw H1. cbn [pfol vdepth Nat.eqb]. destruct w as [|b w]; cbn [app]; [destruct H1; [congruence|assumption]|].
  cbn [all_ws forallb] in Hw. apply andb_true_iff in Hw. destruct Hw as [Hb _]. unfold xstop, is_ws, is_digit in *. lia.
Qed.

Lemma pfit_depth D q : pfit D q = true -> match q with PF _ _ _ => True | _ => Z.of_nat (vdepth (pos_vpos q)) < D end.
Proof.
  destruct q; cbn [pfit pos_vpos]; intros H; try exact I.
  - apply andb_true_iff in H. destruct H as [_ H]. lia.
  - apply andb_true_iff in H. destruct H as [H _]. apply andb_true_iff in H. destruct H as [_ H]. lia.
  - apply andb_true_iff in H. destruct H as [H _]. apply andb_true_iff in H. destruct H as [_ H]. lia.
Qed.

(* 1. a comment, at ANY position between two tokens *)
Theorem strict_rejects_comment D q Q t :
  pgood q = true -> pfit D q = true -> tok_new D true false false = Some t ->
  rejected t (render_pos q ++ 47 :: Q).
Proof.
  intros Hg Hfit Hnew. apply (reject_at D q (47 :: Q) t Hg Hfit); [| |exact Hnew].
  - cbn [upto_nul Z.eqb]. destruct q; try reflexivity.
    cbn [pgood] in Hg. apply andb_true_iff in Hg. destruct Hg as [_ Hw]. apply pfol_after; [exact Hw|reflexivity|reflexivity].
  - intros stk f g off x lo Hsh Hf. cbn [upto_nul Z.eqb]. pose proof (pfit_depth D q Hfit) as Hd.
    destruct q as [p|p v w|p pre a|p pre a k b]; cbn [pos_shape pos_vpos] in *.
    + apply (bad_vp_slash_or_quote sb D p stk 47); auto.
    + destruct Hsh as (frs & -> & _). apply bad_after_slash. exact Hf.
    + destruct Hsh as (acc & frs & ->). apply (bad_name_start sb D f 47 _ (is_nil pre)); [lia|auto].
    + destruct Hsh as (acc & nm & frs & ->). apply bad_after_name. lia.
Qed.

(* 2. a single-quoted string where a value starts, a single-quoted member name *)
Theorem strict_rejects_single_quote_value D p Q t :
  vgood p = true -> vfit D p = true -> Z.of_nat (vdepth p) < D -> tok_new D true false false = Some t ->
  rejected t (render_vpos p ++ 39 :: Q).
Proof.
  intros Hg Hfit Hd Hnew. apply (reject_at D (PV p) (39 :: Q) t); [exact Hg| |reflexivity| |exact Hnew].
  - cbn [pfit]. rewrite Hfit. cbn [andb]. lia.
  - intros stk f g off x lo Hsh Hf. cbn [upto_nul Z.eqb]. apply (bad_vp_slash_or_quote sb D p stk 39); auto.
Qed.
Theorem strict_rejects_single_quote_name D p pre a Q t :
  pgood (PB p pre a) = true -> pfit D (PB p pre a) = true -> tok_new D true false false = Some t ->
  rejected t (render_pos (PB p pre a) ++ 39 :: Q).
Proof.
  intros Hg Hfit Hnew. apply (reject_at D (PB p pre a) (39 :: Q) t Hg Hfit); [reflexivity| |exact Hnew].
  intros stk f g off x lo Hsh Hf. cbn [upto_nul Z.eqb]. destruct Hsh as (acc & frs & ->).
  apply (bad_name_start sb D f 39 _ (is_nil pre)); [lia|auto].
Qed.

(* 3. a trailing comma *)
Theorem strict_rejects_trailing_comma_array D p pre a Q t :
  pre <> [] -> vgood (VArr p pre a) = true -> vfit D (VArr p pre a) = true -> tok_new D true false false = Some t ->
  rejected t (render_vpos (VArr p pre a) ++ 93 :: Q).
Proof.
  intros Hne Hg Hfit Hnew. apply (reject_at D (PV (VArr p pre a)) (93 :: Q) t); [exact Hg| |reflexivity| |exact Hnew].
  - cbn [pfit]. rewrite Hfit. cbn [andb vdepth]. cbn [vfit] in Hfit.
    apply andb_true_iff in Hfit. destruct Hfit as [Hfit _]. apply andb_true_iff in Hfit. destruct Hfit as [_ Hr].
    apply Z.ltb_lt in Hr. apply Z.ltb_lt. rewrite Nat2Z.inj_succ. lia.
  - intros stk f g off x lo Hsh Hf. cbn [upto_nul Z.eqb]. cbn [pos_shape vp_shape] in Hsh. destruct Hsh as (acc & frs & -> & _).
    destruct pre; [congruence|]. cbn [is_nil]. apply bad_arr_tc. lia.
Qed.
Theorem strict_rejects_trailing_comma_object D p pre a Q t :
  pre <> [] -> pgood (PB p pre a) = true -> pfit D (PB p pre a) = true -> tok_new D true false false = Some t ->
  rejected t (render_pos (PB p pre a) ++ 125 :: Q).
Proof.
  intros Hne Hg Hfit Hnew. apply (reject_at D (PB p pre a) (125 :: Q) t Hg Hfit); [reflexivity| |exact Hnew].
  intros stk f g off x lo Hsh Hf. cbn [upto_nul Z.eqb]. destruct Hsh as (acc & frs & ->).
  destruct pre; [congruence|]. cbn [is_nil]. apply (bad_name_start sb D f 125 _ false); [lia|auto].
Qed.

(* 4. trailing bytes after the document (directly after the value only bytes that a number
   token would not absorb are considered) *)
Theorem strict_rejects_trailing_bytes D lead v w j Q t :
  pgood (PF (VTop lead) v w) = true -> pfit D (PF (VTop lead) v w) = true ->
  is_ws j = false -> j <> 0 -> (w <> [] \/ xstop j = true) ->
  tok_new D true false false = Some t ->
  rejected t (render_pos (PF (VTop lead) v w) ++ j :: Q).
Proof.
  intros Hg Hfit Hws H0 Hst Hnew. assert (E0 : (j =? 0) = false) by lia.
  apply (reject_at D (PF (VTop lead) v w) (j :: Q) t Hg Hfit); [| |exact Hnew].
  - cbn [upto_nul]. rewrite E0. cbn [pgood] in Hg. apply andb_true_iff in Hg. destruct Hg as [_ Hw].
    apply pfol_after_top; assumption.
  - intros stk f g off x lo Hsh Hf. cbn [upto_nul]. rewrite E0. destruct Hsh as (frs & -> & Hz & _).
    destruct frs; [|cbn [zlen vdepth] in Hz; pose proof (zlen_nonneg frs); lia]. apply bad_junk; [lia|exact Hws|exact E0].
Qed.

(* the level in which a value at position p is read, then the offending value *)
Lemma reject_value D p E Q t :
  vgood p = true -> vfit D p = true -> Z.of_nat (vdepth p) < D ->
  (exists x0 tl, upto_nul (E ++ Q) = x0 :: tl /\ vfirst x0 = true) ->
  (forall frs f g off x lo, (4 <= f)%nat ->
     bad_out (run_f sb f (upto_nul (E ++ Q)) (T (mkcf D true false) (fresh_level :: map frame_rec frs) g 0 off) (mkloc x 0 lo None))) ->
  tok_new D true false false = Some t ->
  rejected t (render_vpos p ++ E ++ Q).
Proof.
  intros Hg Hfit Hd (x0 & tl & Ex & Hx0) Hbad Hnew.
  apply (reject_at D (PV p) (E ++ Q) t); [exact Hg| |reflexivity| |exact Hnew].
  - cbn [pfit]. rewrite Hfit. cbn [andb]. lia.
  - intros stk f g off x lo Hsh Hf. cbn [pos_shape] in Hsh. rewrite Ex.
    destruct (vp_enter sb (mkcf D true false) p stk Hsh Hd f g off x 0 lo x0 tl Hf Hx0) as (frs & f' & x' & Hf' & _ & _ & ->).
    rewrite <- Ex. apply Hbad. exact Hf'.
Qed.

(* 5. a literal with a letter in upper case *)
Theorem strict_rejects_literal_case D p l ups Q t :
  vgood p = true -> vfit D p = true -> Z.of_nat (vdepth p) < D ->
  Nat.eqb (length ups) (length (render_lit l)) = true -> existsb (fun u => u) ups = true ->
  tok_new D true false false = Some t ->
  rejected t (render_vpos p ++ render_xlit l ups ++ Q).
Proof.
  intros Hg Hfit Hd Hl Hu Hnew.
  assert (En : upto_nul (render_xlit l ups ++ Q) = render_xlit l ups ++ upto_nul Q).
  { apply upto_nul_app. apply (xrender_nonul (XLit l ups)). exact Hl. }
  apply (reject_value D p _ Q t Hg Hfit Hd); [| |exact Hnew].
  - rewrite En. destruct (xrender_first (XLit l ups) Hl) as (x0 & tl & E & Hx). cbn [xrender] in E. rewrite E.
    exists x0, (tl ++ upto_nul Q). split; [reflexivity|exact Hx].
  - intros frs f g off x lo Hf. rewrite En. apply bad_lit; [lia|exact Hl|exact Hu].
Qed.

(* 6. a number token with a superfluous leading zero or an exponent without digits; the
   token must end, i.e. be followed by nothing or by a byte that cannot continue it *)
Definition stops (Q : list byte) : bool := match Q with [] => true | fc :: _ => xstop fc end.
Theorem strict_rejects_number D p n Q t :
  vgood p = true -> vfit D p = true -> Z.of_nat (vdepth p) < D ->
  wf_xnum n = true -> ext_num n = true -> stops Q = true ->
  tok_new D true false false = Some t ->
  rejected t (render_vpos p ++ render_num n ++ Q).
Proof.
  intros Hg Hfit Hd Hw He Hs Hnew.
  assert (En : exists fc Q', upto_nul (render_num n ++ Q) = render_num n ++ fc :: Q' /\ xstop fc = true).
  { rewrite upto_nul_app by (apply nonul_xnum; exact Hw). destruct Q as [|fc Q']; cbn [upto_nul].
    - exists 0, []. split; reflexivity.
    - destruct (fc =? 0) eqn:E0; [exists 0, []; split; reflexivity|]. exists fc, (upto_nul Q'). split; [reflexivity|exact Hs]. }
  destruct En as (fc & Q' & En & Hfc).
  apply (reject_value D p _ Q t Hg Hfit Hd); [| |exact Hnew].
  - rewrite En. destruct (xrender_first (XNum n) Hw) as (x0 & tl & E & Hx). cbn [xrender] in E. rewrite E.
    exists x0, (tl ++ fc :: Q'). split; [reflexivity|exact Hx].
  - intros frs f g off x lo Hf. rewrite En. apply bad_num; assumption.
Qed.

(* 7. a raw control byte in a string value or in a member name *)
Theorem strict_rejects_control_char_value D p cs b Q t :
  vgood p = true -> vfit D p = true -> Z.of_nat (vdepth p) < D ->
  wf_chars cs = true -> 1 <= b <= 31 ->
  tok_new D true false false = Some t ->
  rejected t (render_vpos p ++ (34 :: render_chars cs ++ [b]) ++ Q).
Proof.
  intros Hg Hfit Hd Hw Hb Hnew.
  assert (En : upto_nul ((34 :: render_chars cs ++ [b]) ++ Q) = 34 :: render_chars cs ++ b :: upto_nul Q).
  { rewrite upto_nul_app.
    - cbn [app]. rewrite <- app_assoc. reflexivity.
    - rewrite nonul_cons, nonul_app, (nonul_chars cs Hw). cbn [nonul forallb]. lia. }
  apply (reject_value D p _ Q t Hg Hfit Hd); [| |exact Hnew].
  - rewrite En. eexists _, _. split; reflexivity.
  - intros frs f g off x lo Hf. rewrite En. destruct g as [p0 d0 s0 u0 q0].
    assert (E1 : run_f sb f (34 :: render_chars cs ++ b :: upto_nul Q) (T (mkcf D true false) (fresh_level :: map frame_rec frs) (mkgb p0 d0 s0 u0 q0) 0 off) (mkloc x 0 lo None) =
                 run_f sb REDO_FUEL (render_chars cs ++ b :: upto_nul Q)
                       (SS (mkcf D true false) S_string (map frame_rec frs) JNull None 0 [] S_start d0 s0 u0 (off + 1)) (mkloc 34 0 lo None)).
    { fuel f. unfold SS. cbn [Z.eqb]. stepC. reflexivity. }
    rewrite E1.
    destruct (str_body sb (mkcf D true false) S_string cs (or_introl eq_refl) Hw REDO_FUEL 0 [] S_start d0 s0 u0 (map frame_rec frs) JNull None
                (off + 1) 34 0 lo (b :: upto_nul Q)) as (f2 & x2 & hi2 & pend & svx2 & sp2 & uc2 & Hf2 & Hhi2 & _ & ->);
      [unfold REDO_FUEL; lia|left; reflexivity|].
    apply bad_ctl; [left; reflexivity|exact Hhi2|exact Hb|exact Hf2].
Qed.

Theorem strict_rejects_control_char_name D p pre a cs b Q t :
  pgood (PB p pre a) = true -> pfit D (PB p pre a) = true ->
  wf_chars cs = true -> 1 <= b <= 31 ->
  tok_new D true false false = Some t ->
  rejected t (render_pos (PB p pre a) ++ (34 :: render_chars cs ++ [b]) ++ Q).
Proof.
  intros Hg Hfit Hw Hb Hnew.
  assert (En : upto_nul ((34 :: render_chars cs ++ [b]) ++ Q) = 34 :: render_chars cs ++ b :: upto_nul Q).
  { rewrite upto_nul_app.
    - cbn [app]. rewrite <- app_assoc. reflexivity.
    - rewrite nonul_cons, nonul_app, (nonul_chars cs Hw). cbn [nonul forallb]. lia. }
  apply (reject_at D (PB p pre a) _ t Hg Hfit); [reflexivity| |exact Hnew].
  intros stk f g off x lo Hsh Hf. rewrite En. destruct Hsh as (acc & frs & ->).
  set (svs := if is_nil pre then S_object_field_start else S_object_field_start_after_sep).
  assert (Hs : svs = S_object_field_start \/ svs = S_object_field_start_after_sep) by (subst svs; destruct (is_nil pre); auto).
  rewrite obj_name_open; [|exact Hs|lia].
  destruct (str_body sb (mkcf D true false) S_object_field cs (or_intror eq_refl) Hw REDO_FUEL 0 [] svs (g_dbl g) (g_sp g) (g_ucs g)
              (map frame_rec frs) (JObj acc) None (off + 1) 34 0 lo (b :: upto_nul Q))
    as (f2 & x2 & hi2 & pend & svx2 & sp2 & uc2 & Hf2 & Hhi2 & _ & ->); [unfold REDO_FUEL; lia|left; reflexivity|].
  apply bad_ctl; [right; reflexivity|exact Hhi2|exact Hb|exact Hf2].
Qed.

End W.

(* ---------------------------------------------------------------- non-vacuity *)
(* the position after  {"a":[1, 2 ,   inside  {"a":[1, 2 , <here>  with depth 3: the hypotheses
   hold, and each extension form put there is refused by the strict parser (evaluated) while
   the default parser accepts the completed document *)
Definition ex_vpos : vpos :=
  VArr (VObj (VTop [32]) [] [] [CRaw 97] [] []) [([], SNum (mknum false [49] None None), []); ([32], SNum (mknum false [50] None None), [32])] [32].
Definition ex_after : pos := PF ex_vpos (SStr [CRaw 120]) [9].
Definition strict_err (bytes : list byte) : bool :=
  match tok_new 3 true false false with
  | Some t => match parse_ex_cstr (fun _ => 0) t bytes with
              | PR t' None => match err t' with TE_success | TE_continue => false | _ => true end
              | _ => false end
  | None => false end.
Definition strict_pos_example_ok : bool :=
  vgood ex_vpos && vfit 3 ex_vpos && (Z.of_nat (vdepth ex_vpos) <? 3) && pgood ex_after && pfit 3 ex_after &&
  strict_err (render_vpos ex_vpos ++ [47;42;42;47;51;93;125]) &&
  strict_err (render_vpos ex_vpos ++ [39;120;39;93;125]) &&
  strict_err (render_vpos ex_vpos ++ [93;125]) &&
  strict_err (render_vpos ex_vpos ++ [116;114;85;101;93;125]) &&
  strict_err (render_vpos ex_vpos ++ [48;51;93;125]) &&
  strict_err (render_vpos ex_vpos ++ [51;101;93;125]) &&
  strict_err (render_vpos ex_vpos ++ [34;120;7;34;93;125]) &&
  strict_err (render_pos ex_after ++ [47;47;10;93;125]).
Lemma strict_pos_example : strict_pos_example_ok = true.
Proof. vm_compute. reflexivity. Qed.
