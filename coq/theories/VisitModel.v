(* VisitModel.v — json_visit.c as written (C17), over the shared value type [jv].

   The user function is an arbitrary function of the call history: [userfunc tr] is the
   value the callback returns for the call whose event is the head of [tr]; the tail of
   [tr] holds the earlier calls, most recent first.  (The history is kept newest-first
   inside the model; [json_c_visit] hands it out in call order.)  An event records what
   the callback is given — the node (as its path from the root: child positions), the
   flags, the parent (its kind; its path is the node's path without the last component),
   the key or the index — plus the nesting depth as a ghost.

   Correspondence notes.
   - json_object_get_type(NULL) = json_type_null, so [JNull] takes the scalar case.
   - The five scalar types share one case of the switch; [jv] has no "unknown type", so the
     default branch of that switch is not representable.
   - json_object_object_foreach walks the entry chain in insertion order = the member list
     (this is what C06 iteration_order states for the real table); the member position is a
     ghost used for the path only (the callback gets jso_index = NULL there).
   - [ii] is a size_t: [ii < array_len <= SIZE_MAX], so [ii++] never wraps.
   - The callback is assumed not to modify the tree or *jso_index. *)
From JC Require Import Base Value.
Local Open Scope Z_scope.

Definition JSON_C_VISIT_SECOND : Z := 2.
Definition RET_CONTINUE : Z := 0.
Definition RET_SKIP : Z := 7547.
Definition RET_POP : Z := 767.
Definition RET_STOP : Z := 7867.
Definition RET_ERROR : Z := -1.

Inductive pkind := PNone | PArr | PObj.                       (* parent_jso: NULL / array / object *)
Inductive kidx := KNone | KKey (k : list byte) | KIdx (i : Z). (* jso_key / *jso_index / both NULL *)

Record event := mkev {
  ev_path : list Z;     (* which node: child positions from the root *)
  ev_flags : Z;
  ev_parent : pkind;
  ev_key : kidx;
  ev_depth : Z }.

(* The for / foreach loop over the children of a container.  [vis c ii tr] is the recursive
   call on the [ii]-th child.  Result [None]: the loop was left by [break] or ran to its
   end (the code after the switch is reached); [Some r]: the function returns [r]. *)
Section Loop.
  Context {A : Type}.
  Variable vis : A -> Z -> list event -> list event * Z.
  Fixpoint child_loop (l : list A) (ii : Z) (tr : list event) : list event * option Z :=
    match l with
    | [] => (tr, None)
    | c :: rest =>
        let '(tr1, userret) := vis c ii tr in
        if userret =? RET_POP then (tr1, None)                                    (* break *)
        else if (userret =? RET_STOP) || (userret =? RET_ERROR) then (tr1, Some userret)
        else if negb (userret =? RET_CONTINUE) && negb (userret =? RET_SKIP)
             then (tr1, Some RET_ERROR)                                           (* INTERNAL ERROR *)
        else child_loop rest (ii + 1) tr1
    end.
End Loop.

Section Visit.
  Variable userfunc : list event -> Z.

  (* the call with JSON_C_VISIT_SECOND and the switch that follows it *)
  Definition second_call (path : list Z) (pk : pkind) (ki : kidx) (d : Z) (tr : list event)
    : list event * Z :=
    let tr2 := mkev path JSON_C_VISIT_SECOND pk ki d :: tr in
    let userret := userfunc tr2 in
    if (userret =? RET_SKIP) || (userret =? RET_POP) || (userret =? RET_CONTINUE)
    then (tr2, RET_CONTINUE)
    else if (userret =? RET_STOP) || (userret =? RET_ERROR) then (tr2, userret)
    else (tr2, RET_ERROR).

  (* _json_c_visit(jso, parent_jso, jso_key, jso_index, userfunc, userarg) *)
  Fixpoint visit (jso : jv) (path : list Z) (pk : pkind) (ki : kidx) (d : Z) (tr : list event)
    {struct jso} : list event * Z :=
    let tr1 := mkev path 0 pk ki d :: tr in
    let userret := userfunc tr1 in
    if userret =? RET_CONTINUE then
      match jso with
      | JObj l =>
          match child_loop (fun kv ii t => visit (snd kv) (path ++ [ii]) PObj (KKey (fst kv)) (d + 1) t)
                           l 0 tr1 with
          | (tr2, Some r) => (tr2, r)
          | (tr2, None) => second_call path pk ki d tr2
          end
      | JArr l =>
          match child_loop (fun c ii t => visit c (path ++ [ii]) PArr (KIdx ii) (d + 1) t)
                           l 0 tr1 with
          | (tr2, Some r) => (tr2, r)
          | (tr2, None) => second_call path pk ki d tr2
          end
      | _ => (tr1, RET_CONTINUE)
      end
    else if (userret =? RET_SKIP) || (userret =? RET_POP) || (userret =? RET_STOP) || (userret =? RET_ERROR)
    then (tr1, userret)
    else (tr1, RET_ERROR).

  (* json_c_visit(jso, future_flags, userfunc, userarg): the calls in call order, and the value
     returned.  [future_flags] is accepted and not used: the flags handed to the user function
     are the constants 0 and JSON_C_VISIT_SECOND.  [userarg] is passed through unchanged to every
     call; in the model it is part of the closure [userfunc]. *)
  Definition json_c_visit_ff (jso : jv) (future_flags : Z) : list event * Z :=
    let '(tr, ret) := visit jso [] PNone KNone 0 [] in
    (rev_append tr [],      (* = rev tr, in linear time (the extracted model runs on large trees) *)
     if (ret =? RET_CONTINUE) || (ret =? RET_SKIP) || (ret =? RET_POP) || (ret =? RET_STOP)
     then 0 else RET_ERROR).

  (* the documented way to call it: future_flags = 0 *)
  Definition json_c_visit (jso : jv) : list event * Z := json_c_visit_ff jso 0.
End Visit.

(* ---- several traversals ---------------------------------------------------------------
   json_c_visit is a function of its arguments only: it keeps nothing between calls and
   nothing outside its own activation.  So a callback may itself start another traversal
   (of the same or another tree, with another user function and argument) before it returns,
   and traversals may follow one another: each one behaves as if it were alone.  A program
   [Prog v ff codes nested] is the traversal of [v] (called with future_flags = [ff]) whose callback answers its n-th call with
   the n-th code (CONTINUE when the list is exhausted) and, during its k-th call and before
   returning from it, runs the programs [q] with [(k, q)] in [nested].  [run_prog] lists the
   outcome of every traversal of the program in the order of the program text; [None] = the
   traversal was never started because its outer traversal made fewer than [k] calls. *)
Definition sched_fun (codes : list Z) : list event -> Z :=
  fun hist => nth (length hist - 1) codes 0.

Inductive prog := Prog (v : jv) (ff : Z) (codes : list Z) (nested : list (Z * prog)).

Fixpoint not_run (p : prog) : list (option (list event * Z)) :=
  match p with
  | Prog _ _ _ nested =>
      None :: (fix go (l : list (Z * prog)) :=
                 match l with [] => [] | kq :: t => not_run (snd kq) ++ go t end) nested
  end.

Fixpoint run_prog (p : prog) : list (option (list event * Z)) :=
  match p with
  | Prog v ff codes nested =>
      let out := json_c_visit_ff (sched_fun codes) v ff in
      Some out :: (fix go (l : list (Z * prog)) :=
                     match l with
                     | [] => []
                     | kq :: t =>
                         (if (1 <=? fst kq) && (fst kq <=? zlen (fst out)) then run_prog (snd kq)
                          else not_run (snd kq)) ++ go t
                     end) nested
  end.

(* traversals one after the other *)
Definition run_progs (ps : list prog) : list (option (list event * Z)) := flat_map run_prog ps.
