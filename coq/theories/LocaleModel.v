(* LocaleModel.v — models for property C14 (no proofs here).

   Part 1: the number text of json_object_double_to_json_string_format (json_object.c), as
           written: snprintf("%.17g") into buf, then the ','->'.' fix-up, the ".0" suffix,
           the NOZERO trimming.  snprintf is an ORACLE: its output is described by an abstract
           shape `g17` (sign, integer digits, optional separator + fraction digits, optional
           exponent) rendered with the decimal separator of the numeric locale in effect.
   Part 2: the locale protocol of json_tokener_parse_ex (json_tokener.c): the thread's locale
           handle, the locale objects created by the call, the entry sequence, the body, the
           exits.  The list of exits itself is GENERATED from the source (LocaleExits.v). *)
From JC Require Import Base.
Local Open Scope Z_scope.

(* ===================================================================== Part 1 *)

(* shape of the text printf("%.17g") produces for a finite double.  Digits are the bytes
   '0'..'9'.  g_frac = [] means no separator is printed at all (%g without '#'). *)
Record g17 := mk_g17 {
  g_neg : bool;
  g_int : list byte;
  g_frac : list byte;
  g_exp : option (bool * list byte)      (* exponent: negative?, digits *)
}.

Definition is_digit (b : byte) : bool := (48 <=? b) && (b <=? 57).

Definition g17_wf (g : g17) : bool :=
  match g_int g with [] => false | _ => true end
  && forallb is_digit (g_int g) && forallb is_digit (g_frac g)
  && match g_exp g with
     | None => true
     | Some (_, ds) => match ds with [] => false | _ => true end && forallb is_digit ds
     end.

Definition CH_COMMA : byte := 44.
Definition CH_DOT : byte := 46.
Definition CH_MINUS : byte := 45.
Definition CH_PLUS : byte := 43.
Definition CH_e : byte := 101.
Definition CH_0 : byte := 48.

Definition render_exp (e : option (bool * list byte)) : list byte :=
  match e with
  | None => []
  | Some (neg, ds) => CH_e :: (if neg then CH_MINUS else CH_PLUS) :: ds
  end.

(* the bytes snprintf writes under a numeric locale whose decimal_point is the single byte
   `sep`.  (No thousands grouping: %g without the ' flag never groups.) *)
Definition render_with (sep : byte) (g : g17) : list byte :=
  (if g_neg g then [CH_MINUS] else []) ++ g_int g ++
  (match g_frac g with [] => [] | _ => sep :: g_frac g end) ++ render_exp (g_exp g).

(* strchr on the NUL-free contents of buf: index of the first occurrence *)
Fixpoint strchr (c : byte) (l : list byte) : option nat :=
  match l with
  | [] => None
  | b :: t => if b =? c then Some O else option_map S (strchr c t)
  end.

Fixpoint set_nth (n : nat) (c : byte) (l : list byte) : list byte :=
  match l, n with
  | [], _ => []
  | _ :: t, O => c :: t
  | b :: t, S n' => b :: set_nth n' c t
  end.

(*  p = strchr(buf, ','); if (p) p[0] = '.'; else p = strchr(buf, '.');  *)
Definition comma_fix (buf : list byte) : list byte * option nat :=
  match strchr CH_COMMA buf with
  | Some i => (set_nth i CH_DOT buf, Some i)
  | None => (buf, strchr CH_DOT buf)
  end.

(*  is_plain_digit(buf[0]) || (size > 1 && buf[0] == '-' && is_plain_digit(buf[1]))  *)
Definition looks_numeric (buf : list byte) : bool :=
  match buf with
  | [] => false
  | b0 :: rest =>
      is_digit b0 ||
      ((1 <? zlen buf) && (b0 =? CH_MINUS) && match rest with b1 :: _ => is_digit b1 | [] => false end)
  end.

Definition is_none {A} (o : option A) : bool := match o with None => true | Some _ => false end.

(*  if (format == std_format || strstr(format, ".0f") == NULL) format_drops_decimals = 1;
    `fmt` = None is the built-in "%.17g" (pointer equality with std_format), Some f a custom format:
    json_c_set_serialization_double_format (global / thread) or the userdata of a double whose
    serializer is json_object_double_to_json_string  *)
Fixpoint is_prefix (a l : list byte) : bool :=
  match a, l with
  | [], _ => true
  | _ :: _, [] => false
  | x :: a', y :: l' => (x =? y) && is_prefix a' l'
  end.
Fixpoint has_sub (a l : list byte) : bool :=
  is_prefix a l || match l with [] => false | _ :: t => has_sub a t end.
Definition format_drops_decimals (fmt : option (list byte)) : bool :=
  match fmt with None => true | Some f => negb (has_sub [46; 48; 102] f) end.

(*  if (size < sizeof(buf) - 2 && looks_numeric && !p && strchr(buf,'e') == NULL && format_drops_decimals)
        strcat(buf, ".0");
    (size is modelled by the length of what was written: they differ only when a custom format
    overflows the 128-byte buffer, and then both are >= 126)  *)
Definition add_dot0_fmt (drops : bool) (buf : list byte) (p : option nat) : list byte :=
  if (zlen buf <? 126) && looks_numeric buf && is_none p && is_none (strchr CH_e buf) && drops
  then buf ++ [CH_DOT; CH_0] else buf.
Definition add_dot0 (buf : list byte) (p : option nat) : list byte := add_dot0_fmt true buf p.

(*  for (q = p; q[0]; q++) if (q[0] != '0') p = q;   — scanning l = buf[q..], q the index of its head *)
Fixpoint last_nonzero (q : nat) (l : list byte) (p : nat) : nat :=
  match l with
  | [] => p
  | c :: t => last_nonzero (S q) t (if c =? CH_0 then p else q)
  end.

(*  p++; <loop>; if (p[0] != 0) { ++p; p[0] = 0; } size = p - buf;   (as written: the scan does not stop
    at an exponent — that is the C02 finding, irrelevant here) *)
Definition nozero_trim (buf : list byte) (i : nat) : list byte :=
  let p0 := S i in
  let p := last_nonzero p0 (skipn p0 buf) p0 in
  if Nat.ltb p (length buf) then firstn (S p) buf else buf.

(* everything after snprintf for a finite double; `drops` = format_drops_decimals *)
Definition double_text_fmt (drops nozero : bool) (buf : list byte) : list byte :=
  let '(b1, p) := comma_fix buf in
  let b2 := add_dot0_fmt drops b1 p in
  match p with
  | Some i => if nozero then nozero_trim b2 i else b2
  | None => b2
  end.

(* the standard format *)
Definition double_text (nozero : bool) (buf : list byte) : list byte := double_text_fmt true nozero buf.

Inductive dclass := DNaN | DInf (neg : bool) | DFin.

Definition TXT_NaN : list byte := [78; 97; 78].
Definition TXT_Infinity : list byte := [73; 110; 102; 105; 110; 105; 116; 121].

(* json_object_double_to_json_string_format with format == NULL and no custom format set;
   `snprintf17` is what snprintf(buf, 128, "%.17g", d) wrote (consulted for finite values only) *)
Definition ser_double (c : dclass) (nozero : bool) (snprintf17 : list byte) : list byte :=
  match c with
  | DNaN => TXT_NaN
  | DInf false => TXT_Infinity
  | DInf true => CH_MINUS :: TXT_Infinity
  | DFin => double_text nozero snprintf17
  end.

(* the same with any format in effect; `written` is what snprintf(buf, 128, format, d) wrote *)
Definition ser_double_fmt (fmt : option (list byte)) (c : dclass) (nozero : bool) (written : list byte) : list byte :=
  match c with
  | DNaN => TXT_NaN
  | DInf false => TXT_Infinity
  | DInf true => CH_MINUS :: TXT_Infinity
  | DFin => double_text_fmt (format_drops_decimals fmt) nozero written
  end.

(* ===================================================================== Part 2 *)

(* the decimal separator of a numeric locale *)
Inductive numloc := NumC | NumComma.
Definition sep_of (n : numloc) : byte := match n with NumC => CH_DOT | NumComma => CH_COMMA end.

(* ---- concurrency.  Threads each have their own numeric locale (uselocale, or the global one);
   the only state they share that is related to locales is the static struct lconv that ANY
   thread's localeconv() call overwrites with the separator of THAT thread's locale.  A job is
   one call of the double serializer by some thread; a schedule interleaves jobs with clobbering
   localeconv() calls of arbitrary threads.  The serializer AS WRITTEN searches for the literal
   ',' and never reads the shared cell, so the cell is threaded through unchanged and unused. *)
Record ser_job := mk_job {
  j_thread : nat;
  j_fmt : option (list byte);
  j_class : dclass;
  j_nozero : bool;
  j_txt : numloc -> list byte      (* the snprintf oracle for this format and double: text per numeric locale *)
}.
Inductive sched_ev := SJob (j : ser_job) | SClobber (t : nat).

(* the specification: a function of the job's tree data alone — NO locale, NO thread, NO shared state *)
Definition ser_spec (j : ser_job) : list byte :=
  ser_double_fmt (j_fmt j) (j_class j) (j_nozero j) (j_txt j NumC).

(* one step of the concurrent system: shared cell, output log *)
Definition conc_step (tl : nat -> numloc) (st : byte * list (list byte)) (e : sched_ev) : byte * list (list byte) :=
  let '(cell, outs) := st in
  match e with
  | SClobber t => (sep_of (tl t), outs)
  | SJob j => (cell, outs ++ [ser_double_fmt (j_fmt j) (j_class j) (j_nozero j) (j_txt j (tl (j_thread j)))])
  end.
Definition conc_run (tl : nat -> numloc) (cell0 : byte) (sch : list sched_ev) : list (list byte) :=
  snd (fold_left (conc_step tl) sch (cell0, [])).

Fixpoint jobs_of (sch : list sched_ev) : list ser_job :=
  match sch with
  | [] => []
  | SJob j :: t => j :: jobs_of t
  | SClobber _ :: t => jobs_of t
  end.

(* for contrast (the way NOT to write it): the separator to rewrite is read from the shared cell *)
Definition comma_fix_cell (cell : byte) (buf : list byte) : list byte * option nat :=
  match strchr cell buf with
  | Some i => (set_nth i CH_DOT buf, Some i)
  | None => (buf, strchr CH_DOT buf)
  end.
Definition double_text_cell (cell : byte) (drops nozero : bool) (buf : list byte) : list byte :=
  let '(b1, p) := comma_fix_cell cell buf in
  let b2 := add_dot0_fmt drops b1 p in
  match p with
  | Some i => if nozero then nozero_trim b2 i else b2
  | None => b2
  end.


(* a locale_t value: NULL, the handle the caller had installed on entry (LC_GLOBAL_LOCALE or
   the caller's own object — never inspected, never freed by a correct callee), or an object
   created during this call *)
Inductive handle := HNull | HEntry | HObj (id : nat).

Definition handle_eqb (a b : handle) : bool :=
  match a, b with
  | HNull, HNull | HEntry, HEntry => true
  | HObj x, HObj y => Nat.eqb x y
  | _, _ => false
  end.

Inductive outcome := OSucc | OFail | OAny.

(* the events of the protocol, one per recognised statement of the C function *)
Inductive ev :=
| EvQuery                 (* locale_t oldlocale = uselocale(NULL);                   *)
| EvDup (o : outcome)     (* locale_t duploc = duplocale(oldlocale);                  *)
| EvNew (o : outcome)     (* newloc = newlocale(LC_NUMERIC_MASK, "C", duploc);        *)
| EvFreeDup               (* freelocale(duploc);                                      *)
| EvFreeNew               (* freelocale(newloc);                                      *)
| EvSwitch                (* uselocale(newloc);                                       *)
| EvSwitchC               (* setlocale(LC_NUMERIC, "C");       (fallback variant)     *)
| EvBody                  (* the state machine loop; calls strtod                     *)
| EvRestore               (* uselocale(oldlocale);                                    *)
| EvRestoreName.          (* setlocale(LC_NUMERIC, oldlocale); (fallback variant)     *)

Record lstate := mk_lstate {
  cur : handle;                     (* the calling thread's current locale *)
  cur_forced_c : bool;              (* fallback variant: numeric category forced to "C" by name *)
  live : list (nat * numloc);       (* locale objects created by this call and not yet released: id, numeric category *)
  next_id : nat;
  r_old : handle; r_dup : handle; r_new : handle;     (* the C variables *)
  body_log : list numloc;           (* numeric locale in effect each time the body ran *)
  bad : bool                        (* use of an uninitialised / dead / NULL handle where C is undefined *)
}.

Definition st_init : lstate :=
  mk_lstate HEntry false [] O HNull HNull HNull [] false.

Fixpoint lookup (id : nat) (l : list (nat * numloc)) : option numloc :=
  match l with
  | [] => None
  | (i, n) :: t => if Nat.eqb i id then Some n else lookup id t
  end.

Fixpoint remove_id (id : nat) (l : list (nat * numloc)) : list (nat * numloc) :=
  match l with
  | [] => []
  | (i, n) :: t => if Nat.eqb i id then remove_id id t else (i, n) :: remove_id id t
  end.

(* numeric category of a handle; `en` is the numeric category of the entry locale *)
Definition num_of (en : numloc) (s : lstate) (h : handle) : option numloc :=
  match h with
  | HNull => None
  | HEntry => Some en
  | HObj id => lookup id (live s)
  end.

Definition cur_num (en : numloc) (s : lstate) : option numloc :=
  if cur_forced_c s then Some NumC else num_of en s (cur s).

Definition set_bad (s : lstate) : lstate :=
  mk_lstate (cur s) (cur_forced_c s) (live s) (next_id s) (r_old s) (r_dup s) (r_new s) (body_log s) true.

Definition free_handle (s : lstate) (h : handle) : lstate :=
  match h with
  | HObj id =>
      match lookup id (live s) with
      | Some _ => mk_lstate (cur s) (cur_forced_c s) (remove_id id (live s)) (next_id s) (r_old s) (r_dup s) (r_new s) (body_log s)
                            (bad s || handle_eqb (cur s) h)       (* freeing the locale in use *)
      | None => set_bad s                                         (* double free *)
      end
  | _ => set_bad s       (* freelocale(NULL) / freelocale of the caller's handle *)
  end.

(* one event with a concrete outcome (OAny is expanded before running; here it counts as OSucc) *)
Definition step (en : numloc) (s : lstate) (e : ev) : lstate :=
  match e with
  | EvQuery =>
      mk_lstate (cur s) (cur_forced_c s) (live s) (next_id s) (cur s) (r_dup s) (r_new s) (body_log s) (bad s)
  | EvDup OFail =>
      mk_lstate (cur s) (cur_forced_c s) (live s) (next_id s) (r_old s) HNull (r_new s) (body_log s) (bad s)
  | EvDup _ =>
      (* a new object, copy of oldlocale: same numeric category *)
      match num_of en s (r_old s) with
      | Some n => mk_lstate (cur s) (cur_forced_c s) ((next_id s, n) :: live s) (S (next_id s)) (r_old s)
                            (HObj (next_id s)) (r_new s) (body_log s) (bad s)
      | None => set_bad s
      end
  | EvNew OFail =>
      (* base untouched *)
      mk_lstate (cur s) (cur_forced_c s) (live s) (next_id s) (r_old s) (r_dup s) HNull (body_log s) (bad s)
  | EvNew _ =>
      (* success: the base object is absorbed into the result, whose numeric category is "C" *)
      match r_dup s with
      | HObj b =>
          match lookup b (live s) with
          | Some _ => mk_lstate (cur s) (cur_forced_c s) ((next_id s, NumC) :: remove_id b (live s)) (S (next_id s))
                                (r_old s) (r_dup s) (HObj (next_id s)) (body_log s) (bad s)
          | None => set_bad s
          end
      | HNull => mk_lstate (cur s) (cur_forced_c s) ((next_id s, NumC) :: live s) (S (next_id s))
                           (r_old s) (r_dup s) (HObj (next_id s)) (body_log s) (bad s)
      | HEntry => set_bad s          (* would modify the caller's own object *)
      end
  | EvFreeDup => free_handle s (r_dup s)
  | EvFreeNew => free_handle s (r_new s)
  | EvSwitch =>
      match num_of en s (r_new s) with
      | Some _ => mk_lstate (r_new s) (cur_forced_c s) (live s) (next_id s) (r_old s) (r_dup s) (r_new s) (body_log s) (bad s)
      | None => set_bad s            (* uselocale(NULL) is a query, an uninitialised/dead handle is undefined *)
      end
  | EvSwitchC =>
      mk_lstate (cur s) true (live s) (next_id s) (r_old s) (r_dup s) (r_new s) (body_log s) (bad s)
  | EvBody =>
      match cur_num en s with
      | Some n => mk_lstate (cur s) (cur_forced_c s) (live s) (next_id s) (r_old s) (r_dup s) (r_new s) (body_log s ++ [n]) (bad s)
      | None => set_bad s
      end
  | EvRestore =>
      match r_old s with
      | HNull => set_bad s
      | h => mk_lstate h (cur_forced_c s) (live s) (next_id s) (r_old s) (r_dup s) (r_new s) (body_log s) (bad s)
      end
  | EvRestoreName =>
      (* restores by the saved name: needs the copy made by EvDup *)
      match r_dup s with
      | HObj b => match lookup b (live s) with
                  | Some _ => mk_lstate (cur s) false (live s) (next_id s) (r_old s) (r_dup s) (r_new s) (body_log s) (bad s)
                  | None => set_bad s
                  end
      | _ => set_bad s
      end
  end.

Definition run (en : numloc) (p : list ev) : lstate := fold_left (step en) p st_init.

(* all concrete paths: every OAny replaced by OSucc and by OFail *)
Fixpoint expand (p : list ev) : list (list ev) :=
  match p with
  | [] => [[]]
  | e :: t =>
      let rest := expand t in
      match e with
      | EvDup OAny => map (cons (EvDup OSucc)) rest ++ map (cons (EvDup OFail)) rest
      | EvNew OAny => map (cons (EvNew OSucc)) rest ++ map (cons (EvNew OFail)) rest
      | _ => map (cons e) rest
      end
  end.

(* ---- exits (the list is generated: LocaleExits.v) *)
Inductive exit_kind := KReturn | KGotoPastRestore | KEnd.

Record exit_desc := mk_exit {
  line : nat;               (* source line of the return / goto / closing brace *)
  kind : exit_kind;
  after_switch : bool;      (* the locale-changing call precedes this exit *)
  restores : bool;          (* the path to it passes uselocale(oldlocale) *)
  frees_created : bool;     (* every locale object created on the path is released *)
  path : list ev
}.

Definition is_switch (e : ev) : bool := match e with EvSwitch | EvSwitchC => true | _ => false end.
Definition is_restore (e : ev) : bool := match e with EvRestore | EvRestoreName => true | _ => false end.
Definition is_body (e : ev) : bool := match e with EvBody => true | _ => false end.

Definition both_locales : list numloc := [NumC; NumComma].

(* the caller's view at an exit: locale handle as on entry, nothing forced, nothing live, nothing undefined *)
Definition final_restored (s : lstate) : bool := handle_eqb (cur s) HEntry && negb (cur_forced_c s).
Definition final_clean (s : lstate) : bool := match live s with [] => true | _ => false end && negb (bad s).
Definition body_under_c (s : lstate) : bool := forallb (fun n => match n with NumC => true | NumComma => false end) (body_log s).

Definition all_runs (f : lstate -> bool) (p : list ev) : bool :=
  forallb (fun en => forallb (fun q => f (run en q)) (expand p)) both_locales.

(* the booleans of an exit recomputed from its path by running the protocol *)
Definition model_after_switch (e : exit_desc) : bool := existsb is_switch (path e).
Definition model_restores (e : exit_desc) : bool :=
  all_runs final_restored (path e) && (negb (model_after_switch e) || existsb is_restore (path e)).
Definition model_frees (e : exit_desc) : bool := all_runs final_clean (path e).

Definition exit_consistent (e : exit_desc) : bool :=
  Bool.eqb (after_switch e) (model_after_switch e) && Bool.eqb (restores e) (model_restores e)
  && Bool.eqb (frees_created e) (model_frees e).

Definition exit_ok (e : exit_desc) : bool :=
  all_runs (fun s => final_restored s && final_clean s && body_under_c s) (path e).

(* used by the model driver: what the regenerated list predicts for any call *)
Definition exits_all_ok (l : list exit_desc) : bool :=
  match l with [] => false | _ => true end && forallb exit_ok l && forallb exit_consistent l.
