(* PatchModel.v — json_patch.c as written (C13), on [jv] trees.  No proofs here.

   The model follows the REPAIRED json_patch.c (seven "fix:" commits, known_findings.json):
   operation by operation, with json_pointer.c's functions taken from PtrModel.v (C12).

   Strings.  "op", "path", "from" reach the code as C strings (json_object_get_string): byte
   lists without 0 (the drivers never send a 0), and NULL for a JSON null — [fld] below.  A
   place where the C code would hand NULL to strcmp/strlen/strncmp is the explicit result
   [OUB]/[PUB]; [PatchProofs.malformed_is_error] shows it is unreachable.

   Hooks.  Every behaviour that was a defect of the original code sits in its own small
   definition, with the original behaviour in its comment, so that a change of the C code is
   a one-line change here:
     [op_field] [path_field] [from_field] [move_null_path]   NULL / non-string fields
     [remove_key]                                            escaped member name in remove/move
     [prefix_verdict]                                        parent-under-child test
     [same_location_needs_lookup]                            move of a location onto itself
     [move_cb_limit]                                         move within one array
     [placed_value]                                          add/replace/copy place a copy

   Sharing.  A [jv] is a value, not a heap: placing [v] at two locations gives two equal,
   independent subtrees.  That is what the repaired code does (json_object_deep_copy).  The
   original code placed the node itself (json_object_get); the pure model was then faithful
   only on the class [no_sharing_hazard] below. *)
From JC Require Import Base Value PtrModel EqModel.
Local Open Scope Z_scope.

(* ---------------------------------------------------------------- literals *)
Definition s_op : list byte := [111; 112].
Definition s_path : list byte := [112; 97; 116; 104].
Definition s_from : list byte := [102; 114; 111; 109].
Definition s_value : list byte := [118; 97; 108; 117; 101].
Definition s_test : list byte := [116; 101; 115; 116].
Definition s_remove : list byte := [114; 101; 109; 111; 118; 101].
Definition s_add : list byte := [97; 100; 100].
Definition s_replace : list byte := [114; 101; 112; 108; 97; 99; 101].
Definition s_move : list byte := [109; 111; 118; 101].
Definition s_copy : list byte := [99; 111; 112; 121].

(* json_object_object_get_ex(patch_elem, key, &v): fails on NULL and on anything that is not
   an object; Some JNull = the member is there and is a JSON null *)
Definition field (elem : jv) (k : list byte) : option jv :=
  match elem with JObj ms => object_get ms k | _ => None end.

(* what the code makes of a field that has to be a string *)
Inductive fld :=
| FStr (s : list byte)      (* a char * to these bytes *)
| FNull                     (* the NULL char * (json_object_get_string of a JSON null) *)
| FBad.                     (* rejected with EINVAL before it is used *)

(* HOOK "op": json_object_is_type(jop, json_type_string) or EINVAL.
   (Original code: op = json_object_get_string(jop): [JNull => FNull], then strcmp(NULL, "test");
   any other value => its serialization.) *)
Definition op_field (j : jv) : fld :=
  match j with JStr s => FStr s | _ => FBad end.

(* HOOK "path": a non-null non-string is EINVAL; a JSON null stays a NULL path, which every
   operation rejects (test/remove/add/replace through json_pointer_*'s own !path test).
   (Original code: no type test.) *)
Definition path_field (j : jv) : fld :=
  match j with JStr s => FStr s | JNull => FNull | _ => FBad end.

(* HOOK "from": json_object_is_type(jfrom, json_type_string) or EINVAL.
   (Original code: from_s = json_object_get_string(jfrom): [JNull => FNull], then strlen(NULL).) *)
Definition from_field (j : jv) : fld :=
  match j with JStr s => FStr s | _ => FBad end.

Inductive opres :=
| OOk (doc : jv)                 (* the operation returned 0; the document afterwards *)
| OErr (e : errno) (doc : jv)    (* returned < 0 with patch_error->errno_code = e; the document afterwards *)
| OUB.                           (* NULL passed to strcmp / strlen / strncmp *)

(* HOOK move/copy with a NULL "path": EINVAL.  (Original code: strncmp(from_s, NULL, n): [OUB].) *)
Definition move_null_path (doc : jv) : opres := OErr EINVAL doc.

(* ---------------------------------------------------------------- pointer calls with a possibly NULL path *)
Definition get_c (t : jv) (p : option (list byte)) : gres :=
  match p with None => GErr EINVAL | Some s => ptr_get t s end.          (* !path *)
Definition get_internal_c (t : jv) (p : option (list byte)) : gires :=
  match p with None => GIErr EINVAL | Some s => ptr_get_internal t s end.
Definition set_c (cb : array_cb) (al : alloc) (t : jv) (p : option (list byte)) (v : jv) : sres :=
  match p with None => SErr EINVAL | Some s => ptr_set_with_array_cb cb al t s v end.

(* ---------------------------------------------------------------- arrays and objects *)
(* array_list_insert_idx *)
Definition array_insert (al : alloc) (l : list jv) (idx : Z) (v : jv) : ares :=
  if idx >=? zlen l then array_put_idx_cb al l idx v               (* return array_list_put_idx() *)
  else if zlen l =? SIZE_MAX then AFail None
  else if al (zlen l + 1) then AOk (zfirstn idx l ++ v :: zskipn idx l)
  else AFail (Some ENOMEM).

(* a failing callback of json_patch.c sets errno = EINVAL itself *)
Definition einval_on_fail (r : ares) : ares :=
  match r with AOk l => AOk l | AFail _ => AFail (Some EINVAL) end.

(* json_object_array_insert_idx_cb with *priv = add *)
Definition insert_idx_cb (add : bool) : array_cb := fun al l idx v =>
  if idx >? zlen l then AFail (Some EINVAL)
  else einval_on_fail (if add then array_insert al l idx v else array_put_idx_cb al l idx v).

(* HOOK the highest index json_object_array_move_cb accepts, from the current length (the moved
   element is already removed).  (Original code: len + 1 when the element came from this very
   array, so "/c/0" -> "/c/3" on three elements left [b, c, null, a].) *)
Definition move_cb_limit (len : Z) : Z := len.

(* json_object_array_move_cb *)
Definition move_cb : array_cb := fun al l idx v =>
  if idx >? move_cb_limit (zlen l) then AFail (Some EINVAL)
  else einval_on_fail (array_insert al l idx v).

(* array_list_del_idx(arr, idx, 1) *)
Definition array_del_idx (l : list jv) (idx : Z) : option (list jv) :=
  if idx >? SIZE_MAX - 1 then None
  else if (idx >=? zlen l) || (idx + 1 >? zlen l) then None
  else Some (zfirstn idx l ++ zskipn (idx + 1) l).

(* json_object_object_del: the entry with that key, if any *)
Fixpoint object_del (ms : list (list byte * jv)) (k : list byte) : list (list byte * jv) :=
  match ms with
  | [] => []
  | (k', v) :: r => if bytes_eqb k' k then r else (k', v) :: object_del r k
  end.

(* json_patch_unescape_token: one pass, "~0" -> '~', "~1" -> '/'; any other byte is copied *)
Fixpoint unescape_token (tok : list byte) : list byte :=
  match tok with
  | [] => []
  | c :: t =>
      match t with
      | d :: u => if (c =? 126) && ((d =? 48) || (d =? 49))
                  then (if d =? 49 then 47 else 126) :: unescape_token u
                  else c :: unescape_token t
      | [] => [c]
      end
  end.

(* HOOK the member name remove/move delete, from key_in_parent (the last token as written).
   (Original code: the token itself, still escaped: "/a~1b" looked for the member "a~1b".) *)
Definition remove_key (tok : list byte) : list byte := unescape_token tok.

(* ---------------------------------------------------------------- test *)
Definition apply_test (doc elem : jv) (path : option (list byte)) : opres :=
  match field elem s_value with
  | None => OErr EINVAL doc
  | Some value1 =>
      match get_c doc path with
      | GErr e => OErr e doc
      | GOk _ value2 => if jv_equal value1 value2 then OOk doc else OErr ENOENT doc
      end
  end.

(* ---------------------------------------------------------------- remove *)
(* __json_patch_apply_remove(&jpres): Some = returned 0 and the document is now this; None =
   returned -1 (nothing changed) *)
Definition remove_result (doc : jv) (r : get_result) : option jv :=
  match r_parent r with
  | Some (ppath, JArr l) =>
      match array_del_idx l (r_index_in_parent r) with
      | Some l' => Some (subst_at ppath (JArr l') doc)
      | None => None
      end
  | Some (ppath, JObj ms) =>
      match r_key_in_parent r with
      | Some k => Some (subst_at ppath (JObj (object_del ms (remove_key k))) doc)
      | None => Some JNull
      end
  | _ => Some JNull               (* "We're removing the root object": *res = NULL *)
  end.

Definition apply_remove (doc : jv) (path : option (list byte)) : opres :=
  match get_internal_c doc path with
  | GIErr e => OErr e doc
  | GIOk r =>
      match remove_result doc r with
      | Some doc' => OOk doc'
      | None => OErr EINVAL doc
      end
  end.

(* ---------------------------------------------------------------- add / replace *)
(* HOOK what add/replace/copy place: json_object_deep_copy(value) — an equal tree of fresh nodes.
   (Original code: json_object_get(value): the node of the patch document / of the source
   location itself, see [no_sharing_hazard].) *)
Definition placed_value (v : jv) : jv := v.

Definition apply_add_replace (al : alloc) (doc elem : jv) (path : option (list byte)) (add : bool) : opres :=
  match field elem s_value with
  | None => OErr EINVAL doc
  | Some value =>
      let exists_err := if add then None
                        else match get_c doc path with GErr e => Some e | GOk _ _ => None end in
      match exists_err with
      | Some e => OErr e doc
      | None =>
          match set_c (insert_idx_cb add) al doc path (placed_value value) with
          | SOk doc' => OOk doc'
          | SErr e => OErr e doc
          end
      end
  end.

(* ---------------------------------------------------------------- move / copy *)
Fixpoint is_prefix (a b : list byte) : bool :=           (* strncmp(a, b, strlen(a)) == 0 *)
  match a, b with
  | [], _ => true
  | x :: a', y :: b' => (x =? y) && is_prefix a' b'
  | _ :: _, [] => false
  end.

Inductive verdict := VSame | VChild | VNone.

(* HOOK the parent-under-child test of move/copy on the two strings.  Repaired code: move only;
   "path" = "from" is the same location; "path" going on with '/' (or an empty "from") is a
   child; anything else is unrelated.
   (Original code, move AND copy:  if is_prefix from path then (if zlen from =? zlen path then
   VSame else VChild) else VNone  — "/a" -> "/ab" was a child, copy "/c" -> "/c/0" rejected,
   copy "/a/0" -> "/a/0" a no-op.) *)
Definition prefix_verdict (move : bool) (from path : list byte) : verdict :=
  if move && is_prefix from path then
    match skipn (length from) path with
    | [] => VSame
    | c :: _ => if (c =? 47) || (zlen from =? 0) then VChild else VNone
    end
  else VNone.

(* HOOK a move of a location onto itself returns 0 only after the lookup of "from" succeeded.
   (Original code: false — it returned 0 before looking at the document.) *)
Definition same_location_needs_lookup : bool := true.

(* json_patch_apply_move_copy once from_s and path are strings *)
Definition move_copy_strings (al : alloc) (doc : jv) (from_s p : list byte) (move : bool) : opres :=
  match prefix_verdict move from_s p with
  | VChild => OErr EINVAL doc
  | v =>
      let same := match v with VSame => true | _ => false end in
      if same && negb same_location_needs_lookup then OOk doc else
      match ptr_get_internal doc from_s with
      | GIErr e => OErr e doc
      | GIOk from =>
          if same then OOk doc
          else if move then
            match remove_result doc from with
            | None => OErr E_NONE doc          (* rc < 0 returned as it is: errno_code still 0 *)
            | Some doc1 =>
                match ptr_set_with_array_cb move_cb al doc1 p (r_obj from) with
                | SOk doc' => OOk doc'
                | SErr e => OErr e doc1        (* the source location is already gone *)
                end
            end
          else
            match ptr_set_with_array_cb (insert_idx_cb true) al doc p (placed_value (r_obj from)) with
            | SOk doc' => OOk doc'
            | SErr e => OErr e doc
            end
      end
  end.

Definition apply_move_copy (al : alloc) (doc elem : jv) (path : option (list byte)) (move : bool) : opres :=
  match field elem s_from with
  | None => OErr EINVAL doc
  | Some jfrom =>
      match from_field jfrom with
      | FBad => OErr EINVAL doc
      | FNull => OUB                                      (* strlen(NULL) *)
      | FStr from_s =>
          match path with
          | None => move_null_path doc
          | Some p => move_copy_strings al doc from_s p move
          end
      end
  end.

(* ---------------------------------------------------------------- one operation, the loop *)
(* the body of the for loop of json_patch_apply *)
Definition apply_op (al : alloc) (doc elem : jv) : opres :=
  match field elem s_op with
  | None => OErr EINVAL doc
  | Some jop =>
      match op_field jop with
      | FBad => OErr EINVAL doc
      | fop =>
          match field elem s_path with
          | None => OErr EINVAL doc
          | Some jpath =>
              match path_field jpath with
              | FBad => OErr EINVAL doc
              | fpath =>
                  let path := match fpath with FStr s => Some s | _ => None end in
                  match fop with
                  | FStr op =>
                      if bytes_eqb op s_test then apply_test doc elem path
                      else if bytes_eqb op s_remove then apply_remove doc path
                      else if bytes_eqb op s_add then apply_add_replace al doc elem path true
                      else if bytes_eqb op s_replace then apply_add_replace al doc elem path false
                      else if bytes_eqb op s_move then apply_move_copy al doc elem path true
                      else if bytes_eqb op s_copy then apply_move_copy al doc elem path false
                      else OErr EINVAL doc
                  | _ => OUB                              (* strcmp(NULL, "test") *)
                  end
              end
          end
      end
  end.

Inductive pres :=
| PDone (doc : jv)                      (* returned 0 *)
| PFail (idx : Z) (e : errno) (doc : jv)  (* returned < 0, patch_failure_idx = idx, errno_code = e *)
| PArgs                                 (* EFAULT, patch_failure_idx = SIZE_T_MAX: *base untouched *)
| PUB.

Fixpoint apply_ops (al : alloc) (ops : list jv) (ii : Z) (doc : jv) : pres :=
  match ops with
  | [] => PDone doc
  | elem :: rest =>
      match apply_op al doc elem with
      | OOk doc' => apply_ops al rest (ii + 1) doc'
      | OErr e doc' => PFail ii e doc'
      | OUB => PUB
      end
  end.

(* json_patch_apply(copy_from, patch, &base, &err) with exactly one of *base / copy_from given:
   [target] is that document (mode c works on json_object_deep_copy(copy_from), an equal tree).
   A JSON null target is the NULL pointer: neither is given. *)
Definition patch_apply (al : alloc) (target patch : jv) : pres :=
  if is_null target then PArgs
  else match patch with
       | JArr ops => apply_ops al ops 0 target
       | _ => PArgs
       end.

(* the caller's view: the result and the patch document afterwards.  No operation of the
   repaired code writes to the patch document (values are copied out of it) *)
Definition patch_apply_full (al : alloc) (target patch : jv) : pres * jv :=
  (patch_apply al target patch, patch).

(* ---------------------------------------------------------------- the sharing class *)
(* With [placed_value] = the node itself (the original code) a [jv] run is faithful only while
   no later operation works inside a value an earlier add/replace/copy placed (or inside its
   source).  Decidable sufficient condition: every value placed by an operation that is not
   the last one is a scalar (nothing inside to address). *)
Definition is_scalar (v : jv) : bool := match v with JArr _ | JObj _ => false | _ => true end.

Definition placed_by (doc elem : jv) : option jv :=
  match field elem s_op with
  | Some (JStr op) =>
      if bytes_eqb op s_add || bytes_eqb op s_replace then field elem s_value
      else if bytes_eqb op s_copy then
        match field elem s_from with
        | Some (JStr f) => match ptr_get doc f with GOk _ v => Some v | GErr _ => None end
        | _ => None
        end
      else None
  | _ => None
  end.

Fixpoint no_sharing_hazard_from (al : alloc) (ops : list jv) (doc : jv) : bool :=
  match ops with
  | [] => true
  | elem :: rest =>
      (match rest, placed_by doc elem with
       | _ :: _, Some v => is_scalar v
       | _, _ => true
       end)
      && match apply_op al doc elem with
         | OOk doc' => no_sharing_hazard_from al rest doc'
         | _ => true
         end
  end.

Definition no_sharing_hazard (al : alloc) (target patch : jv) : bool :=
  match patch with JArr ops => no_sharing_hazard_from al ops target | _ => true end.
