(* Properties_C18.v — statements only.  C18: in the threaded build the shared reference
   counts are atomic and the hash seed is set once.

   The theorems are about [ThreadImpl.impl] — the micro-operation programs of
   json_object_get / json_object_put / lh_char_hash that tr/atomics.py REGENERATES from the
   preprocessed C sources on every run — under the interleaving semantics of ThreadModel.v
   ([run impl rnd st schedule]; a schedule is any list of thread ids; [rnd] is the random
   source).  Trusted, not proved: that the __sync builtins are atomic as modelled and that
   the hardware gives the interleaving (sequentially consistent) semantics to them. *)
(* ThreadImplCheck is generated together with ThreadImpl: it compiles only when tr/atomics.py
   recognised every function; otherwise ThreadImpl holds marked placeholders and nothing below
   may count as established for the source at hand. *)
From JC Require Import Base ThreadModel ThreadImpl ThreadImplCheck ThreadProofs.
Local Open Scope Z_scope.

(* the regenerated programs have the atomic shapes (re-checked against the regenerated file) *)
Theorem C18_impl_shape : atomic_rc ThreadImpl.impl /\ cas_seed_impl ThreadImpl.impl.
Proof. exact (conj impl_atomic_rc impl_cas_seed). Qed.
Print Assumptions C18_impl_shape.

(* For every number of threads, all per-thread programs (get/put on any nodes, hashing)
   that respect ownership of node n ([wf_init]: the count equals the references handed out,
   a thread calls get/put on n only while it owns a reference, the 32-bit counter cannot
   overflow), every random source and EVERY schedule (complete or not):
   - no update is lost: the count is exactly the number of references currently owned;
   - the node is not destroyed while the count is non-zero, and at most once;
   - when all threads have finished: count = initial + gets - puts, and the node was
     destroyed exactly once iff that is 0;
   - the destruction is, on this node, directly preceded by the atomic decrement of the SAME
     thread that returned 0 (the last release) and is the last event on the node: nothing
     touches the node after it;
   - every access to the count is an atomic operation (no data race on it).
   Calls on other nodes are unconstrained: threads working on other trees do not interfere. *)
Theorem C18_refcount_all_schedules : forall rnd n rc0 ths sch,
  wf_init n rc0 ths ->
  let st := run ThreadImpl.impl rnd (init_state rc0 ths) sch in
  mem st (RC n) = zsum (map (fun th => held th n) (thr st)) /\
  0 <= mem st (RC n) <= UINT32_MAX /\
  (mem st (RC n) <> 0 -> destroy_count n (trace st) = 0) /\
  0 <= destroy_count n (trace st) <= 1 /\
  (finished st = true ->
     mem st (RC n) = rc0 n + total_get n ths - total_put n ths /\
     destroy_count n (trace st) = (if mem st (RC n) =? 0 then 1 else 0)) /\
  (destroy_count n (trace st) = 0 \/
   exists t rest, node_trace n (trace st) = EvDestroy t n :: EvAcc t (RC n) true 0 :: rest /\
                  destroy_count n rest = 0) /\
  Forall atomic_ev (node_trace n (trace st)).
Proof. exact refcount_all_schedules. Qed.
Print Assumptions C18_refcount_all_schedules.

(* the same for every implementation of the shape [atomic_rc]: atomic add for get, atomic
   subtract for put WITH THE DESTROY DECISION TAKEN ON THE RETURNED VALUE *)
Theorem C18_refcount_shape_condition : forall im rnd n rc0 ths sch,
  atomic_rc im -> wf_init n rc0 ths ->
  let st := run im rnd (init_state rc0 ths) sch in
  mem st (RC n) = zsum (map (fun th => held th n) (thr st)) /\
  0 <= mem st (RC n) <= UINT32_MAX /\
  (mem st (RC n) <> 0 -> destroy_count n (trace st) = 0) /\
  0 <= destroy_count n (trace st) <= 1 /\
  (finished st = true ->
     mem st (RC n) = rc0 n + total_get n ths - total_put n ths /\
     destroy_count n (trace st) = (if mem st (RC n) =? 0 then 1 else 0)) /\
  (destroy_count n (trace st) = 0 \/
   exists t rest, node_trace n (trace st) = EvDestroy t n :: EvAcc t (RC n) true 0 :: rest /\
                  destroy_count n rest = 0) /\
  Forall atomic_ev (node_trace n (trace st)).
Proof. exact refcount_all_schedules_gen. Qed.
Print Assumptions C18_refcount_shape_condition.

(* For all programs, every random source and every schedule: all hashes ever computed — by
   any thread, early or late — use one and the same seed s; the seed variable is written at
   most once; as soon as one hash exists it has been written exactly once, by the one
   successful compare-and-swap, with s, s is not the sentinel, and the variable holds s. *)
Theorem C18_seed_once : forall rnd rc0 ths sch,
  let st := run ThreadImpl.impl rnd (init_state rc0 ths) sch in
  exists s,
    Forall (fun v => v = s) (hashes (trace st)) /\
    (installs (trace st) = [] \/ installs (trace st) = [s]) /\
    (hashes (trace st) <> [] -> installs (trace st) = [s] /\ s <> -1 /\ mem st Seed = s).
Proof. exact seed_once. Qed.
Print Assumptions C18_seed_once.

(* exact condition on the program shape ([cas_seed_impl]): the seed is published by a CAS
   against the sentinel, the fresh value is re-drawn while it equals the sentinel, and the
   hash READS THE SHARED VARIABLE AFTER the CAS; get/put do not touch the seed *)
Theorem C18_seed_shape_condition : forall im rnd rc0 ths sch,
  cas_seed_impl im ->
  let st := run im rnd (init_state rc0 ths) sch in
  exists s,
    Forall (fun v => v = s) (hashes (trace st)) /\
    (installs (trace st) = [] \/ installs (trace st) = [s]) /\
    (hashes (trace st) <> [] -> installs (trace st) = [s] /\ s <> -1 /\ mem st Seed = s).
Proof. exact seed_once_gen. Qed.
Print Assumptions C18_seed_shape_condition.

(* ---- negative controls (the theorems really depend on the regenerated shapes) ---- *)
(* plain ++/-- (load, store): a schedule loses an update *)
Theorem C18_nonatomic_lost_update :
  exists ths sch, wf_init 0 rc_two ths /\
    let st := run plain_impl rnd_ex (init_state rc_two ths) sch in
    finished st = true /\
    mem st (RC 0) <> rc_two 0%nat + total_get 0 ths - total_put 0 ths.
Proof. exact nonatomic_lost_update. Qed.
Print Assumptions C18_nonatomic_lost_update.

(* get as a load and ONE compare-and-swap whose failure is ignored (no retry): a schedule
   loses an acquisition, and one then destroys the node while a reference is still owned *)
Theorem C18_casonce_lost_update :
  exists ths sch, wf_init 0 rc_two ths /\
    let st := run casonce_impl rnd_ex (init_state rc_two ths) sch in
    finished st = true /\
    mem st (RC 0) <> rc_two 0%nat + total_get 0 ths - total_put 0 ths.
Proof. exact casonce_lost_update. Qed.
Print Assumptions C18_casonce_lost_update.

Theorem C18_casonce_premature_destroy :
  exists ths sch, wf_init 0 rc_two ths /\
    let st := run casonce_impl rnd_ex (init_state rc_two ths) sch in
    destroy_count 0 (trace st) = 1 /\
    exists th, nth_error (thr st) 1 = Some th /\ 1 <= held th 0%nat.
Proof. exact casonce_premature_destroy. Qed.
Print Assumptions C18_casonce_premature_destroy.

(* ... and one destroys the node while a reference is still owned *)
Theorem C18_nonatomic_premature_destroy :
  exists ths sch, wf_init 0 rc_two ths /\
    let st := run plain_impl rnd_ex (init_state rc_two ths) sch in
    destroy_count 0 (trace st) = 1 /\
    exists th, nth_error (thr st) 1 = Some th /\ held th 0%nat = 1.
Proof. exact nonatomic_premature_destroy. Qed.
Print Assumptions C18_nonatomic_premature_destroy.

(* atomic decrement, but the destroy decision re-reads the field: destroyed twice *)
Theorem C18_reread_double_destroy :
  exists ths sch, wf_init 0 rc_two ths /\
    let st := run reread_impl rnd_ex (init_state rc_two ths) sch in
    finished st = true /\ destroy_count 0 (trace st) = 2.
Proof. exact reread_double_destroy. Qed.
Print Assumptions C18_reread_double_destroy.

(* ... also when the re-read is itself atomic (no data race at all on the count): the last
   two owners release concurrently, both read 0, the node is destroyed twice *)
Theorem C18_reread_atomic_double_destroy :
  exists ths sch, wf_init 0 rc_two ths /\
    let st := run reread_atomic_impl rnd_ex (init_state rc_two ths) sch in
    finished st = true /\ destroy_count 0 (trace st) = 2 /\
    Forall atomic_ev (node_trace 0 (trace st)).
Proof. exact reread_atomic_double_destroy. Qed.
Print Assumptions C18_reread_atomic_double_destroy.

(* the hash uses the function's local value instead of re-reading: two different hashes *)
Theorem C18_local_seed_two_hashes :
  exists sch, let st := run local_impl rnd_ex (init_state rc_two [([Hash], h1 0); ([Hash], h1 0)]) sch in
    finished st = true /\ hashes (trace st) = [6; 5].
Proof. exact local_seed_refuted. Qed.
Print Assumptions C18_local_seed_two_hashes.

(* one draw without the retry loop, random source returning the sentinel first: a single
   thread computes two different hashes; the regenerated program is immune (for every source) *)
Theorem C18_noretry_seed_two_hashes :
  exists sch, let st := run noretry_impl rnd_sentinel_first (init_state rc_two [([Hash; Hash], h1 0)]) sch in
    finished st = true /\ hashes (trace st) = [6; -1] /\ installs (trace st) = [6; -1].
Proof. exact noretry_seed_refuted. Qed.
Print Assumptions C18_noretry_seed_two_hashes.

Theorem C18_nonvacuous_seed_sentinel_source :
  let st := run ThreadImpl.impl rnd_sentinel_first (init_state rc_two [([Hash; Hash], h1 0)])
                [0;0;0;0;0;0;0;0;0;0;0;0]%nat in
  finished st = true /\ hashes (trace st) = [6; 6] /\ installs (trace st) = [6].
Proof. exact seed_example_sentinel. Qed.
Print Assumptions C18_nonvacuous_seed_sentinel_source.

(* a plain store instead of the CAS: two installs, a later hash differs from an earlier one *)
Theorem C18_store_seed_two_installs :
  exists sch, let st := run store_impl rnd_ex (init_state rc_two [([Hash], h1 0); ([Hash; Hash], h1 0)]) sch in
    finished st = true /\ hashes (trace st) = [6; 6; 5] /\ installs (trace st) = [6; 5].
Proof. exact store_seed_refuted. Qed.
Print Assumptions C18_store_seed_two_installs.

(* ---- non-vacuity ---- *)
Theorem C18_nonvacuous_refcount :
  wf_init 0 rc_two ex_ths /\
  let st := run ThreadImpl.impl rnd_ex (init_state rc_two ex_ths) [0;1;1;0;1;0;1;0;1;1;1;0;1;0]%nat in
  finished st = true /\ mem st (RC 0) = 0 /\ destroy_count 0 (trace st) = 1 /\
  hd_error (trace st) = Some (EvDestroy 1 0).
Proof. exact (conj ex_wf refcount_example). Qed.
Print Assumptions C18_nonvacuous_refcount.

Theorem C18_nonvacuous_seed :
  let st := run ThreadImpl.impl rnd_ex (init_state rc_two [([Hash], h1 0); ([Hash; Hash], h1 0)])
                [0;1;0;1;0;1;0;1;0;1;0;1;1;1;1]%nat in
  finished st = true /\ hashes (trace st) = [5; 5; 5] /\ installs (trace st) = [5].
Proof. exact seed_example. Qed.
Print Assumptions C18_nonvacuous_seed.

(* Remark, not a violation of the property text: the READS of the seed variable are plain
   (volatile) loads; a schedule puts one directly after another thread's CAS.  This is the
   class of ThreadSanitizer report the runtime driver recognises and counts. *)
Theorem C18_seed_plain_read_witness :
  exists sch,
    let st := run ThreadImpl.impl rnd_ex (init_state rc_two [([Hash], h1 0); ([Hash], h1 0)]) sch in
    plain_read_after_install (trace st) = true /\ mem st Seed = 5.
Proof. exact seed_plain_read_witness. Qed.
Print Assumptions C18_seed_plain_read_witness.
