(* Properties_C20.v — statements only.  C20: descriptor I/O is complete and exact under
   arbitrary short reads and writes.  The operating system is a schedule [list xfer]
   ([Short n]: the call moves min(n, requested/left) bytes; [Err e]: it returns -1 with errno e — every e, EINTR and EAGAIN included);
   [ge1]: an error-free entry with n >= 1 — the quantifier of the property.  A write()
   that takes 0 bytes makes the C loop spin ([C20_write_zero_spins]); that is why n >= 1
   is stated.  The serializer (C02) and the tokener (C01) are function arguments. *)
From JC Require Import Base Value FdModel FdProofs.
Local Open Scope Z_scope.

(* ---- writing: json_object_to_fd ---- *)

(* all strings x all schedules of sizes >= 1 that offer at least strlen bytes: success, and
   the descriptor received exactly the string — once, in order *)
Theorem C20_write_exact : forall sched ser,
  Forall ge1 sched -> zlen (c_str ser) <= wsum sched ->
  exists calls, object_to_fd sched false (Some ser) = WRet 0 false (c_str ser) calls
                /\ calls <= zlen sched /\ calls <= zlen (c_str ser).
Proof. exact write_exact. Qed.
Print Assumptions C20_write_exact.

(* one schedule entry per byte always suffices *)
Theorem C20_write_exact_len : forall sched ser,
  Forall ge1 sched -> zlen (c_str ser) <= zlen sched ->
  exists calls, object_to_fd sched false (Some ser) = WRet 0 false (c_str ser) calls.
Proof. exact write_exact_len. Qed.
Print Assumptions C20_write_exact_len.

(* a serialization without NUL (every json-c serialization, C02) is delivered whole *)
Theorem C20_write_exact_no_nul : forall sched ser,
  ~ In 0 ser -> Forall ge1 sched -> zlen ser <= wsum sched ->
  exists calls, object_to_fd sched false (Some ser) = WRet 0 false ser calls.
Proof. exact write_exact_no_nul. Qed.
Print Assumptions C20_write_exact_no_nul.

(* no length side condition: sizes >= 1 give a complete exact run or a schedule that ended
   too early (never a failure, never a spin) *)
Theorem C20_write_ge1_complete_or_short : forall sched ser,
  Forall ge1 sched ->
  (exists calls, object_to_fd sched false (Some ser) = WRet 0 false (c_str ser) calls) \/
  (exists dev, object_to_fd sched false (Some ser) = WOutOfSchedule dev (zlen sched)
               /\ strict_prefix dev (c_str ser)).
Proof. exact write_ge1_complete_or_short. Qed.
Print Assumptions C20_write_ge1_complete_or_short.

(* an error at call k = |pre|+1 before completion: -1, a message, and the descriptor holds
   exactly the bytes of the first k-1 transfers, a strict prefix *)
Theorem C20_write_error : forall pre e post ser,
  Forall ge1 pre -> wsum pre < zlen (c_str ser) ->
  object_to_fd (pre ++ Err e :: post) false (Some ser) =
    WRet (-1) true (zfirstn (wsum pre) (c_str ser)) (zlen pre + 1)
  /\ strict_prefix (zfirstn (wsum pre) (c_str ser)) (c_str ser).
Proof. exact write_error. Qed.
Print Assumptions C20_write_error.

Theorem C20_write_error_after_completion : forall pre e post ser,
  Forall ge1 pre -> zlen (c_str ser) <= wsum pre ->
  exists calls, object_to_fd (pre ++ Err e :: post) false (Some ser) = WRet 0 false (c_str ser) calls
                /\ calls <= zlen pre.
Proof. exact write_error_after_completion. Qed.
Print Assumptions C20_write_error_after_completion.

(* every schedule whatsoever: 0 is returned only with exactly the string delivered *)
Theorem C20_write_sound_any_schedule : forall sched ser,
  match object_to_fd sched false (Some ser) with
  | WRet rc msg dev _ =>
      (rc = 0 /\ msg = false /\ dev = c_str ser) \/
      (rc = -1 /\ msg = true /\ strict_prefix dev (c_str ser))
  | WSpin dev _ => strict_prefix dev (c_str ser)
  | WOutOfSchedule dev _ => strict_prefix dev (c_str ser)
  end.
Proof. exact write_sound_any_schedule. Qed.
Print Assumptions C20_write_sound_any_schedule.

(* the hazard outside the quantifier *)
Theorem C20_write_zero_spins : forall pre n post ser,
  Forall ge1 pre -> wsum pre < zlen (c_str ser) -> n <= 0 ->
  object_to_fd (pre ++ Short n :: post) false (Some ser) =
    WSpin (zfirstn (wsum pre) (c_str ser)) (zlen pre + 1).
Proof. exact write_zero_spins. Qed.
Print Assumptions C20_write_zero_spins.

(* json_object_to_file_ext *)
Theorem C20_to_file_open_fails : forall sched ser,
  object_to_file_ext false sched false ser = (WRet (-1) true [] 0, 1, 0).
Proof. exact to_file_open_fails. Qed.
Print Assumptions C20_to_file_open_fails.

Theorem C20_to_file_opened : forall sched ser,
  exists closes, object_to_file_ext true sched false ser = (object_to_fd sched false ser, 1, closes)
  /\ (forall rc m d c, object_to_fd sched false ser = WRet rc m d c -> closes = 1).
Proof. exact to_file_opened. Qed.
Print Assumptions C20_to_file_opened.

(* ---- reading: json_object_from_fd_ex ---- *)

(* all data x all schedules of sizes >= 1 (one entry more than bytes always suffices) x all
   tokeners: the tokener gets exactly the data and the configured depth (and, when it answers
   continue without a value, the terminating NUL in a second call: parse2)
   (32 for -1); object, message and resources are those of that one in-memory parse *)
Theorem C20_read_as_memory : forall parse app_ok sched data in_depth,
  always app_ok -> Forall ge1 sched -> zlen data < zlen sched -> 1 <= eff_depth in_depth ->
  exists reads, object_from_fd_ex parse app_ok sched data in_depth =
                  RRet (memory_result parse in_depth data reads)
                /\ 1 <= reads <= zlen data + 1.
Proof. exact read_as_memory. Qed.
Print Assumptions C20_read_as_memory.

Theorem C20_read_ge1_complete_or_short : forall parse app_ok sched data in_depth,
  always app_ok -> Forall ge1 sched -> 1 <= eff_depth in_depth ->
  (exists reads, object_from_fd_ex parse app_ok sched data in_depth =
                   RRet (memory_result parse in_depth data reads)) \/
  (exists pb, object_from_fd_ex parse app_ok sched data in_depth = ROutOfSchedule pb (zlen sched)
              /\ is_prefix pb data).
Proof. exact read_ge1_complete_or_short. Qed.
Print Assumptions C20_read_ge1_complete_or_short.

(* any two complete runs under error-free schedules agree *)
Theorem C20_schedule_independent : forall parse app_ok s1 s2 data in_depth o1 o2,
  always app_ok -> Forall ge1 s1 -> Forall ge1 s2 ->
  object_from_fd_ex parse app_ok s1 data in_depth = RRet o1 ->
  object_from_fd_ex parse app_ok s2 data in_depth = RRet o2 ->
  r_obj o1 = r_obj o2 /\ r_msg o1 = r_msg o2 /\ r_parsed o1 = r_parsed o2 /\ r_live o1 = r_live o2.
Proof. exact schedule_independent. Qed.
Print Assumptions C20_schedule_independent.

Theorem C20_default_depth : eff_depth (-1) = 32 /\ forall d, d <> -1 -> eff_depth d = d.
Proof. exact default_depth. Qed.
Print Assumptions C20_default_depth.

(* a read error at call k = |pre|+1, whatever its errno and even if the bytes received so far
   (or all of them: the failing call may be the end-of-file one) form a complete value: NULL,
   message, the parser is never called, nothing live *)
Theorem C20_read_error : forall parse app_ok pre e post data in_depth,
  always app_ok -> Forall ge1 pre -> rsum pre <= zlen data -> 1 <= eff_depth in_depth ->
  object_from_fd_ex parse app_ok (pre ++ Err e :: post) data in_depth =
    RRet (mkrout JNull MRead (zlen pre + 1) None 0).
Proof. exact read_error. Qed.
Print Assumptions C20_read_error.

(* every schedule, parser, append oracle, every returning path: NULL iff a message was set;
   a tree is what parse2 (one or two tokener calls) returned for a prefix of the data; nothing stays
   allocated *)
Theorem C20_read_failure_has_message_no_leak : forall parse app_ok sched data in_depth o,
  object_from_fd_ex parse app_ok sched data in_depth = RRet o ->
  (r_obj o = JNull <-> r_msg o <> MNone) /\
  (r_obj o <> JNull -> exists pb n, r_parsed o = Some (eff_depth in_depth, pb, n) /\
                                    parse2 parse (eff_depth in_depth) pb = (Some (r_obj o), n) /\ is_prefix pb data) /\
  r_live o = 0.
Proof. exact read_failure_has_message_no_leak. Qed.
Print Assumptions C20_read_failure_has_message_no_leak.

Theorem C20_read_bad_depth : forall parse app_ok sched data in_depth,
  eff_depth in_depth < 1 ->
  object_from_fd_ex parse app_ok sched data in_depth = RRet (mkrout JNull MTokNew 0 None 0).
Proof. exact read_bad_depth. Qed.
Print Assumptions C20_read_bad_depth.

(* json_object_from_file *)
Theorem C20_from_file_open_fails : forall parse app_ok sched data,
  object_from_file false parse app_ok sched data = (RRet (mkrout JNull MOpen 0 None 0), 1, 0).
Proof. exact from_file_open_fails. Qed.
Print Assumptions C20_from_file_open_fails.

Theorem C20_from_file_opened : forall parse app_ok sched data,
  always app_ok -> Forall ge1 sched -> zlen data < zlen sched ->
  exists reads, object_from_file true parse app_ok sched data =
                  (RRet (memory_result parse (-1) data reads), 1, 1).
Proof. exact from_file_opened. Qed.
Print Assumptions C20_from_file_opened.

(* ---- the file, not only the descriptor: a file system path -> contents, open() flags as data
   (TO_FILE_FLAGS = O_WRONLY|O_TRUNC|O_CREAT, FROM_FILE_FLAGS = O_RDONLY) ---- *)

(* every initial file system — fresh path, existing longer file, existing shorter file, a second
   write to the same path: after a successful json_object_to_file_ext the file holds exactly the
   bytes of the serialization and no other file changed *)
Theorem C20_to_file_holds_serialization : forall fs p sched ser,
  Forall ge1 sched -> zlen (c_str ser) <= wsum sched ->
  exists calls fs',
    object_to_file_fs None fs p sched false (Some ser) = (WRet 0 false (c_str ser) calls, fs', 1, 1)
    /\ fs_get fs' p = Some (c_str ser)
    /\ (forall q, q <> p -> fs_get fs' q = fs_get fs q).
Proof. exact to_file_holds_serialization. Qed.
Print Assumptions C20_to_file_holds_serialization.

(* every schedule: the file holds exactly what the descriptor received; closed once on return *)
Theorem C20_to_file_fs_shape : forall fs p sched ser,
  exists fs' closes,
    object_to_file_fs None fs p sched false ser = (object_to_fd sched false ser, fs', 1, closes)
    /\ fs_get fs' p = Some (wout_dev (object_to_fd sched false ser))
    /\ (forall q, q <> p -> fs_get fs' q = fs_get fs q)
    /\ (forall rc m d c, object_to_fd sched false ser = WRet rc m d c -> closes = 1).
Proof. exact to_file_fs_shape. Qed.
Print Assumptions C20_to_file_fs_shape.

Theorem C20_to_file_error : forall fs p pre e post ser,
  Forall ge1 pre -> wsum pre < zlen (c_str ser) ->
  exists fs',
    object_to_file_fs None fs p (pre ++ Err e :: post) false (Some ser) =
      (WRet (-1) true (zfirstn (wsum pre) (c_str ser)) (zlen pre + 1), fs', 1, 1)
    /\ fs_get fs' p = Some (zfirstn (wsum pre) (c_str ser))
    /\ (forall q, q <> p -> fs_get fs' q = fs_get fs q).
Proof. exact to_file_error. Qed.
Print Assumptions C20_to_file_error.

Theorem C20_to_file_open_denied : forall e fs p sched ser,
  object_to_file_fs (Some e) fs p sched false ser = (WRet (-1) true [] 0, fs, 1, 0).
Proof. exact to_file_open_denied. Qed.
Print Assumptions C20_to_file_open_denied.

(* O_TRUNC is necessary: the same function with O_WRONLY|O_CREAT leaves the stale tail of a longer
   file behind a "successful" write *)
Theorem C20_to_file_without_trunc_keeps_stale_tail : forall fs p old sched ser,
  fs_get fs p = Some old -> zlen (c_str ser) < zlen old ->
  Forall ge1 sched -> zlen (c_str ser) <= wsum sched ->
  exists calls fs',
    object_to_file_with TO_FILE_FLAGS_NO_TRUNC None fs p sched false (Some ser) =
      (WRet 0 false (c_str ser) calls, fs', 1, 1)
    /\ fs_get fs' p = Some (c_str ser ++ zskipn (zlen (c_str ser)) old)
    /\ c_str ser ++ zskipn (zlen (c_str ser)) old <> c_str ser.
Proof. exact to_file_without_trunc_keeps_stale_tail. Qed.
Print Assumptions C20_to_file_without_trunc_keeps_stale_tail.

(* call-by-call delivery at the advancing offset is delivery of the concatenation *)
Theorem C20_desc_write_app : forall old off a b,
  0 <= off <= zlen old ->
  desc_write (desc_write old off a) (off + zlen a) b = desc_write old off (a ++ b).
Proof. exact desc_write_app. Qed.
Print Assumptions C20_desc_write_app.

Theorem C20_from_file_fs_absent : forall fs p parse app_ok sched,
  fs_get fs p = None ->
  object_from_file_fs None fs p parse app_ok sched = (RRet (mkrout JNull MOpen 0 None 0), fs, 1, 0).
Proof. exact from_file_fs_absent. Qed.
Print Assumptions C20_from_file_fs_absent.

Theorem C20_from_file_fs_present : forall fs p c parse app_ok sched,
  fs_get fs p = Some c -> always app_ok -> Forall ge1 sched -> zlen c < zlen sched ->
  exists reads, object_from_file_fs None fs p parse app_ok sched =
                  (RRet (memory_result parse (-1) c reads), fs, 1, 1).
Proof. exact from_file_fs_present. Qed.
Print Assumptions C20_from_file_fs_present.

Theorem C20_file_roundtrip : forall fs p s1 s2 ser parse app_ok,
  Forall ge1 s1 -> zlen (c_str ser) <= wsum s1 ->
  always app_ok -> Forall ge1 s2 -> zlen (c_str ser) < zlen s2 ->
  exists calls fs' reads,
    object_to_file_fs None fs p s1 false (Some ser) = (WRet 0 false (c_str ser) calls, fs', 1, 1) /\
    object_from_file_fs None fs' p parse app_ok s2 =
      (RRet (memory_result parse (-1) (c_str ser) reads), fs', 1, 1).
Proof. exact file_roundtrip. Qed.
Print Assumptions C20_file_roundtrip.

(* ---- the descriptor is the caller's: it stands at a position of its file; json-c reads (writes)
   from where it stands and does nothing else to it (the model has no other descriptor operation;
   the C side is tied by recording stubs for lseek/pread/fstat/ftruncate/... in the driver) ---- *)

(* read_as_memory for every initial position 0 <= pos <= |file|, the end included: what is parsed
   is exactly file[pos:] and the descriptor is left at the end of the file *)
Theorem C20_read_as_memory_at : forall parse app_ok sched file pos in_depth,
  0 <= pos <= zlen file ->
  always app_ok -> Forall ge1 sched -> zlen file - pos < zlen sched -> 1 <= eff_depth in_depth ->
  exists reads, object_from_fd_at parse app_ok sched file pos in_depth =
                  (RRet (memory_result parse in_depth (zskipn pos file) reads), zlen file)
                /\ 1 <= reads <= zlen file - pos + 1.
Proof. exact read_as_memory_at. Qed.
Print Assumptions C20_read_as_memory_at.

Theorem C20_read_error_at : forall parse app_ok pre e post file pos in_depth,
  0 <= pos <= zlen file ->
  always app_ok -> Forall ge1 pre -> pos + rsum pre <= zlen file -> 1 <= eff_depth in_depth ->
  object_from_fd_at parse app_ok (pre ++ Err e :: post) file pos in_depth =
    (RRet (mkrout JNull MRead (zlen pre + 1) None 0), pos + rsum pre).
Proof. exact read_error_at. Qed.
Print Assumptions C20_read_error_at.

(* json_object_to_fd on a positioned descriptor: the serialization lands at the position (the rest
   of the file stays), at the end with O_APPEND; the position moves behind it *)
Theorem C20_to_fd_at_exact : forall sched old pos ser,
  0 <= pos <= zlen old -> Forall ge1 sched -> zlen (c_str ser) <= wsum sched ->
  exists calls,
    object_to_fd_at sched old pos false false (Some ser) =
      (WRet 0 false (c_str ser) calls,
       zfirstn pos old ++ c_str ser ++ zskipn (pos + zlen (c_str ser)) old,
       pos + zlen (c_str ser))
    /\ object_to_fd_at sched old pos true false (Some ser) =
      (WRet 0 false (c_str ser) calls, old ++ c_str ser,
       match c_str ser with [] => pos | _ => zlen old + zlen (c_str ser) end).
Proof. exact to_fd_at_exact. Qed.
Print Assumptions C20_to_fd_at_exact.

(* ---- any descriptor number is a descriptor: the number is an argument nothing depends on; -1 is
   the only failure value of open() (0, 1, 2 are what a process without standard descriptors gets) ---- *)

Theorem C20_fd_number_irrelevant : forall fd1 fd2,
  object_from_fd_ex_on fd1 = object_from_fd_ex_on fd2 /\ object_to_fd_on fd1 = object_to_fd_on fd2.
Proof. exact fd_number_irrelevant. Qed.
Print Assumptions C20_fd_number_irrelevant.

Theorem C20_from_file_any_descriptor : forall ret parse app_ok sched data,
  0 <= ret ->
  exists r closed, object_from_file_ret ret parse app_ok sched data = (r, 1, closed)
    /\ object_from_file true parse app_ok sched data = (r, 1, zlen closed)
    /\ (closed = [ret] \/ (closed = [] /\ exists pb c, r = ROutOfSchedule pb c)).
Proof. exact from_file_any_descriptor. Qed.
Print Assumptions C20_from_file_any_descriptor.

Theorem C20_to_file_any_descriptor : forall ret sched ser,
  0 <= ret ->
  exists r closed, object_to_file_ext_ret ret sched false ser = (r, 1, closed)
    /\ r = object_to_fd sched false ser
    /\ (forall rc m d c, r = WRet rc m d c -> closed = [ret]).
Proof. exact to_file_any_descriptor. Qed.
Print Assumptions C20_to_file_any_descriptor.

Theorem C20_open_minus_one_is_the_failure : forall parse app_ok sched data ser,
  object_from_file_ret (-1) parse app_ok sched data = (RRet (mkrout JNull MOpen 0 None 0), 1, [])
  /\ object_to_file_ext_ret (-1) sched false ser = (WRet (-1) true [] 0, 1, []).
Proof. exact open_minus_one_is_the_failure. Qed.
Print Assumptions C20_open_minus_one_is_the_failure.

Theorem C20_file_results_independent_of_descriptor : forall n m parse app_ok sched data ser,
  0 <= n -> 0 <= m ->
  fst (fst (object_from_file_ret n parse app_ok sched data)) = fst (fst (object_from_file_ret m parse app_ok sched data))
  /\ fst (fst (object_to_file_ext_ret n sched false ser)) = fst (fst (object_to_file_ext_ret m sched false ser)).
Proof. exact file_results_independent_of_descriptor. Qed.
Print Assumptions C20_file_results_independent_of_descriptor.

(* ---- the open() requests: (path, flags, mode) as documented — the driver compares every open()
   json_util.c makes with these constants ---- *)
Theorem C20_open_requests_as_documented : forall p,
  from_file_request p = mkreq p (mkofl O_RDONLY false false false false) 0 None
  /\ to_file_request p = mkreq p (mkofl O_WRONLY true true false false) 0 (Some (6 * 64 + 4 * 8 + 4))
  /\ rq_other_bits (from_file_request p) = 0 /\ rq_other_bits (to_file_request p) = 0.
Proof. exact open_requests_as_documented. Qed.
Print Assumptions C20_open_requests_as_documented.

(* ---- non-vacuity ---- *)

Theorem C20_write_nonvacuous :
  object_to_fd [Short 2; Short 1; Short 100] false (Some [104;101;108;108;111]) =
    WRet 0 false [104;101;108;108;111] 3
  /\ object_to_fd [Short 2; Err 5; Short 100] false (Some [104;101;108;108;111]) =
    WRet (-1) true [104;101] 2
  /\ object_to_fd [Short 2; Short 0; Short 100] false (Some [104;101;108;108;111]) =
    WSpin [104;101] 2
  /\ object_to_fd [Short 2] false (Some [104;101;108;108;111]) = WOutOfSchedule [104;101] 1
  /\ object_to_fd [Short 9] false (Some [104;101;0;108]) = WRet 0 false [104;101] 1.
Proof. exact write_nonvacuous. Qed.

Theorem C20_read_nonvacuous :
  object_from_fd_ex show_parse (fun _ _ => true) [Short 1; Short 5000; Short 1; Short 1] [91;49;93] 7 =
    RRet (mkrout (JArr [JInt 7; JStr [91;49;93]]) MNone 3 (Some (7, [91;49;93], 1)) 0)
  /\ object_from_fd_ex show_parse (fun _ _ => true) [Short 3; Short 3] [91;49;93] (-1) =
    RRet (mkrout (JArr [JInt 32; JStr [91;49;93]]) MNone 2 (Some (32, [91;49;93], 1)) 0)
  /\ object_from_fd_ex show_parse (fun _ _ => true) [Short 2; Err 5] [91;49;93] 7 =
    RRet (mkrout JNull MRead 2 None 0)
  /\ object_from_fd_ex show_parse (fun _ _ => true) [Short 3; Err 4] [91;49;93] 7 =
    RRet (mkrout JNull MRead 2 None 0)
  /\ object_from_fd_ex (mktokener (fun _ _ => PError) (fun _ _ => None)) (fun _ _ => true) [Short 2; Short 2; Short 2] [91;49;93] 7 =
    RRet (mkrout JNull MParse 3 (Some (7, [91;49;93], 1)) 0)
  /\ object_from_fd_ex literal_tokener (fun _ _ => true) [Short 1; Short 1; Short 1] [52;50] 7 =   (* the file holds just 42 *)
    RRet (mkrout (JInt 42) MNone 3 (Some (7, [52;50], 2)) 0)
  /\ object_from_fd_ex literal_tokener (fun _ _ => true) [Short 9; Short 9] [91;52;50] 7 =        (* [42 : unfinished *)
    RRet (mkrout JNull MParse 2 (Some (7, [91;52;50], 2)) 0)
  /\ object_from_fd_ex show_parse (fun _ _ => true) [Short 2; Short 2; Short 2] [91;49;93] 0 =
    RRet (mkrout JNull MTokNew 0 None 0)
  /\ object_from_fd_ex show_parse (fun l _ => l <? 2) [Short 2; Short 2; Short 2] [91;49;93] 7 =
    RRet (mkrout JNull MAppend 2 None 0).
Proof. exact read_nonvacuous. Qed.

(* n >= 1 is needed on the read side as well: an early 0 makes the function parse a
   truncated document *)
Theorem C20_read_zero_truncates :
  object_from_fd_ex show_parse (fun _ _ => true) [Short 2; Short 0; Short 5] [91;49;93] 7 =
    RRet (mkrout (JArr [JInt 7; JStr [91;49]]) MNone 2 (Some (7, [91;49], 1)) 0).
Proof. exact read_zero_truncates. Qed.

Theorem C20_read_chunked_at_buffer_size :
  exists o, object_from_fd_ex show_parse (fun _ _ => true) [Short 100000; Short 100000; Short 100000; Short 1]
              (zrepeat 32 8192) 7 = RRet o /\ r_reads o = 3 /\ r_parsed o = Some (7, zrepeat 32 8192, 1).
Proof. exact read_chunked_at_buffer_size. Qed.

Theorem C20_file_nonvacuous :
  let fs := [([97], [49;50;51;52;53;54;55;56;57])] in
  object_to_file_fs None fs [97] [Short 2; Short 5] false (Some [91;49;93]) =
    (WRet 0 false [91;49;93] 2, [([97], [91;49;93])], 1, 1)
  /\ object_to_file_with TO_FILE_FLAGS_NO_TRUNC None fs [97] [Short 2; Short 5] false (Some [91;49;93]) =
    (WRet 0 false [91;49;93] 2, [([97], [91;49;93;52;53;54;55;56;57])], 1, 1)
  /\ object_to_file_fs None fs [98] [Short 9] false (Some [91;49;93]) =
    (WRet 0 false [91;49;93] 1, [([97], [49;50;51;52;53;54;55;56;57]); ([98], [91;49;93])], 1, 1)
  /\ object_to_file_fs None fs [97] [Short 1; Err 28] false (Some [91;49;93]) =
    (WRet (-1) true [91] 2, [([97], [91])], 1, 1)
  /\ object_from_file_fs None fs [98] show_parse (fun _ _ => true) [Short 9; Short 9] =
    (RRet (mkrout JNull MOpen 0 None 0), fs, 1, 0)
  /\ object_from_file_fs None fs [97] show_parse (fun _ _ => true) [Short 4; Short 9; Short 9] =
    (RRet (mkrout (JArr [JInt 32; JStr [49;50;51;52;53;54;55;56;57]]) MNone 3
                  (Some (32, [49;50;51;52;53;54;55;56;57], 1)) 0), fs, 1, 1)
  /\ object_to_file_with (mkofl O_RDONLY false false false false) None fs [97] [Short 9] false (Some [91;49;93]) =
    (WRet (-1) true [] 1, fs, 1, 1)
  /\ object_to_file_with (mkofl O_WRONLY true false true false) None fs [97] [Short 9] false (Some [91;49;93]) =
    (WRet 0 false [91;49;93] 1, [([97], [49;50;51;52;53;54;55;56;57;91;49;93])], 1, 1).
Proof. exact file_nonvacuous. Qed.

Theorem C20_position_nonvacuous :
  object_from_fd_at show_parse (fun _ _ => true) [Short 2; Short 9; Short 9] [35;104;100;114;10;91;49;93] 5 7 =
    (RRet (mkrout (JArr [JInt 7; JStr [91;49;93]]) MNone 3 (Some (7, [91;49;93], 1)) 0), 8)
  /\ object_from_fd_at show_parse (fun _ _ => true) [Short 9] [91;49;93] 3 7 =
    (RRet (mkrout (JArr [JInt 7; JStr []]) MNone 1 (Some (7, [], 1)) 0), 3)
  /\ object_from_fd_at show_parse (fun _ _ => true) [Short 1; Err 4] [35;10;91;49;93] 2 7 =
    (RRet (mkrout JNull MRead 2 None 0), 3)
  /\ object_to_fd_at [Short 1; Short 9] [49;50;51;52;53;54] 2 false false (Some [91;93]) =
    (WRet 0 false [91;93] 2, [49;50;91;93;53;54], 4)
  /\ object_to_fd_at [Short 1; Short 9] [49;50;51;52;53;54] 2 true false (Some [91;93]) =
    (WRet 0 false [91;93] 2, [49;50;51;52;53;54;91;93], 8).
Proof. exact position_nonvacuous. Qed.

Theorem C20_descriptor_zero_nonvacuous :
  object_from_file_ret 0 show_parse (fun _ _ => true) [Short 9; Short 9] [91;49;93] =
    (RRet (mkrout (JArr [JInt 32; JStr [91;49;93]]) MNone 2 (Some (32, [91;49;93], 1)) 0), 1, [0])
  /\ object_to_file_ext_ret 0 [Short 9] false (Some [91;49;93]) = (WRet 0 false [91;49;93] 1, 1, [0])
  /\ object_to_file_ext_ret 2147483647 [Short 1; Err 5] false (Some [91;49;93]) = (WRet (-1) true [91] 2, 1, [2147483647])
  /\ object_from_file_ret (-1) show_parse (fun _ _ => true) [Short 9; Short 9] [91;49;93] =
    (RRet (mkrout JNull MOpen 0 None 0), 1, []).
Proof. exact descriptor_zero_nonvacuous. Qed.
