(* Properties_C20.v — statements only.  C20: descriptor I/O is complete and exact under
   arbitrary short reads and writes.  The operating system is a schedule [list xfer]
   ([Short n]: the call moves min(n, requested/left) bytes; [Err e]: it returns -1 with errno e — every e, EINTR and EAGAIN included);
   [ge1]: an error-free entry with n >= 1 — the quantifier of the property.  A write()
   that takes 0 bytes makes the C loop spin ([C20_write_zero_spins]); that is why n >= 1
   is stated.  The serializer (C02) and the tokener (C01) are function arguments. *)
From JC Require Import Base Value FdModel FdProofs.
Local Open Scope Z_scope.

(* ---- writing: json_object_to_fd ---- *)

(* all strings x all schedules of sizes >= 1 that offer at least strlen bytes: success, and
   the descriptor received exactly the string — once, in order *)
Theorem C20_write_exact : forall sched ser,
  Forall ge1 sched -> zlen (c_str ser) <= wsum sched ->
  exists calls, object_to_fd sched false (Some ser) = WRet 0 false (c_str ser) calls
                /\ calls <= zlen sched /\ calls <= zlen (c_str ser).
Proof. exact write_exact. Qed.
Print Assumptions C20_write_exact.

(* one schedule entry per byte always suffices *)
Theorem C20_write_exact_len : forall sched ser,
  Forall ge1 sched -> zlen (c_str ser) <= zlen sched ->
  exists calls, object_to_fd sched false (Some ser) = WRet 0 false (c_str ser) calls.
Proof. exact write_exact_len. Qed.
Print Assumptions C20_write_exact_len.

(* a serialization without NUL (every json-c serialization, C02) is delivered whole *)
Theorem C20_write_exact_no_nul : forall sched ser,
  ~ In 0 ser -> Forall ge1 sched -> zlen ser <= wsum sched ->
  exists calls, object_to_fd sched false (Some ser) = WRet 0 false ser calls.
Proof. exact write_exact_no_nul. Qed.
Print Assumptions C20_write_exact_no_nul.

(* no length side condition: sizes >= 1 give a complete exact run or a schedule that ended
   too early (never a failure, never a spin) *)
Theorem C20_write_ge1_complete_or_short : forall sched ser,
  Forall ge1 sched ->
  (exists calls, object_to_fd sched false (Some ser) = WRet 0 false (c_str ser) calls) \/
  (exists dev, object_to_fd sched false (Some ser) = WOutOfSchedule dev (zlen sched)
               /\ strict_prefix dev (c_str ser)).
Proof. exact write_ge1_complete_or_short. Qed.
Print Assumptions C20_write_ge1_complete_or_short.

(* an error at call k = |pre|+1 before completion: -1, a message, and the descriptor holds
   exactly the bytes of the first k-1 transfers, a strict prefix *)
Theorem C20_write_error : forall pre e post ser,
  Forall ge1 pre -> wsum pre < zlen (c_str ser) ->
  object_to_fd (pre ++ Err e :: post) false (Some ser) =
    WRet (-1) true (zfirstn (wsum pre) (c_str ser)) (zlen pre + 1)
  /\ strict_prefix (zfirstn (wsum pre) (c_str ser)) (c_str ser).
Proof. exact write_error. Qed.
Print Assumptions C20_write_error.

Theorem C20_write_error_after_completion : forall pre e post ser,
  Forall ge1 pre -> zlen (c_str ser) <= wsum pre ->
  exists calls, object_to_fd (pre ++ Err e :: post) false (Some ser) = WRet 0 false (c_str ser) calls
                /\ calls <= zlen pre.
Proof. exact write_error_after_completion. Qed.
Print Assumptions C20_write_error_after_completion.

(* every schedule whatsoever: 0 is returned only with exactly the string delivered *)
Theorem C20_write_sound_any_schedule : forall sched ser,
  match object_to_fd sched false (Some ser) with
  | WRet rc msg dev _ =>
      (rc = 0 /\ msg = false /\ dev = c_str ser) \/
      (rc = -1 /\ msg = true /\ strict_prefix dev (c_str ser))
  | WSpin dev _ => strict_prefix dev (c_str ser)
  | WOutOfSchedule dev _ => strict_prefix dev (c_str ser)
  end.
Proof. exact write_sound_any_schedule. Qed.
Print Assumptions C20_write_sound_any_schedule.

(* the hazard outside the quantifier *)
Theorem C20_write_zero_spins : forall pre n post ser,
  Forall ge1 pre -> wsum pre < zlen (c_str ser) -> n <= 0 ->
  object_to_fd (pre ++ Short n :: post) false (Some ser) =
    WSpin (zfirstn (wsum pre) (c_str ser)) (zlen pre + 1).
Proof. exact write_zero_spins. Qed.
Print Assumptions C20_write_zero_spins.

(* json_object_to_file_ext *)
Theorem C20_to_file_open_fails : forall sched ser,
  object_to_file_ext false sched false ser = (WRet (-1) true [] 0, 1, 0).
Proof. exact to_file_open_fails. Qed.
Print Assumptions C20_to_file_open_fails.

Theorem C20_to_file_opened : forall sched ser,
  exists closes, object_to_file_ext true sched false ser = (object_to_fd sched false ser, 1, closes)
  /\ (forall rc m d c, object_to_fd sched false ser = WRet rc m d c -> closes = 1).
Proof. exact to_file_opened. Qed.
Print Assumptions C20_to_file_opened.

(* ---- reading: json_object_from_fd_ex ---- *)

(* all data x all schedules of sizes >= 1 (one entry more than bytes always suffices) x all
   parsers: the parser is called once with exactly the data and the configured depth
   (32 for -1); object, message and resources are those of that one in-memory parse *)
Theorem C20_read_as_memory : forall parse app_ok sched data in_depth,
  always app_ok -> Forall ge1 sched -> zlen data < zlen sched -> 1 <= eff_depth in_depth ->
  exists reads, object_from_fd_ex parse app_ok sched data in_depth =
                  RRet (memory_result parse in_depth data reads)
                /\ 1 <= reads <= zlen data + 1.
Proof. exact read_as_memory. Qed.
Print Assumptions C20_read_as_memory.

Theorem C20_read_ge1_complete_or_short : forall parse app_ok sched data in_depth,
  always app_ok -> Forall ge1 sched -> 1 <= eff_depth in_depth ->
  (exists reads, object_from_fd_ex parse app_ok sched data in_depth =
                   RRet (memory_result parse in_depth data reads)) \/
  (exists pb, object_from_fd_ex parse app_ok sched data in_depth = ROutOfSchedule pb (zlen sched)
              /\ is_prefix pb data).
Proof. exact read_ge1_complete_or_short. Qed.
Print Assumptions C20_read_ge1_complete_or_short.

(* any two complete runs under error-free schedules agree *)
Theorem C20_schedule_independent : forall parse app_ok s1 s2 data in_depth o1 o2,
  always app_ok -> Forall ge1 s1 -> Forall ge1 s2 ->
  object_from_fd_ex parse app_ok s1 data in_depth = RRet o1 ->
  object_from_fd_ex parse app_ok s2 data in_depth = RRet o2 ->
  r_obj o1 = r_obj o2 /\ r_msg o1 = r_msg o2 /\ r_parsed o1 = r_parsed o2 /\ r_live o1 = r_live o2.
Proof. exact schedule_independent. Qed.
Print Assumptions C20_schedule_independent.

Theorem C20_default_depth : eff_depth (-1) = 32 /\ forall d, d <> -1 -> eff_depth d = d.
Proof. exact default_depth. Qed.
Print Assumptions C20_default_depth.

(* a read error at call k = |pre|+1, whatever its errno and even if the bytes received so far
   (or all of them: the failing call may be the end-of-file one) form a complete value: NULL,
   message, the parser is never called, nothing live *)
Theorem C20_read_error : forall parse app_ok pre e post data in_depth,
  always app_ok -> Forall ge1 pre -> rsum pre <= zlen data -> 1 <= eff_depth in_depth ->
  object_from_fd_ex parse app_ok (pre ++ Err e :: post) data in_depth =
    RRet (mkrout JNull MRead (zlen pre + 1) None 0).
Proof. exact read_error. Qed.
Print Assumptions C20_read_error.

(* every schedule, parser, append oracle, every returning path: NULL iff a message was set;
   a tree is what the one parser call returned for a prefix of the data; nothing stays
   allocated *)
Theorem C20_read_failure_has_message_no_leak : forall parse app_ok sched data in_depth o,
  object_from_fd_ex parse app_ok sched data in_depth = RRet o ->
  (r_obj o = JNull <-> r_msg o <> MNone) /\
  (r_obj o <> JNull -> exists pb, r_parsed o = Some (eff_depth in_depth, pb) /\
                                  parse (eff_depth in_depth) pb = Some (r_obj o) /\ is_prefix pb data) /\
  r_live o = 0.
Proof. exact read_failure_has_message_no_leak. Qed.
Print Assumptions C20_read_failure_has_message_no_leak.

Theorem C20_read_bad_depth : forall parse app_ok sched data in_depth,
  eff_depth in_depth < 1 ->
  object_from_fd_ex parse app_ok sched data in_depth = RRet (mkrout JNull MTokNew 0 None 0).
Proof. exact read_bad_depth. Qed.
Print Assumptions C20_read_bad_depth.

(* json_object_from_file *)
Theorem C20_from_file_open_fails : forall parse app_ok sched data,
  object_from_file false parse app_ok sched data = (RRet (mkrout JNull MOpen 0 None 0), 1, 0).
Proof. exact from_file_open_fails. Qed.
Print Assumptions C20_from_file_open_fails.

Theorem C20_from_file_opened : forall parse app_ok sched data,
  always app_ok -> Forall ge1 sched -> zlen data < zlen sched ->
  exists reads, object_from_file true parse app_ok sched data =
                  (RRet (memory_result parse (-1) data reads), 1, 1).
Proof. exact from_file_opened. Qed.
Print Assumptions C20_from_file_opened.

(* ---- non-vacuity ---- *)

Theorem C20_write_nonvacuous :
  object_to_fd [Short 2; Short 1; Short 100] false (Some [104;101;108;108;111]) =
    WRet 0 false [104;101;108;108;111] 3
  /\ object_to_fd [Short 2; Err 5; Short 100] false (Some [104;101;108;108;111]) =
    WRet (-1) true [104;101] 2
  /\ object_to_fd [Short 2; Short 0; Short 100] false (Some [104;101;108;108;111]) =
    WSpin [104;101] 2
  /\ object_to_fd [Short 2] false (Some [104;101;108;108;111]) = WOutOfSchedule [104;101] 1
  /\ object_to_fd [Short 9] false (Some [104;101;0;108]) = WRet 0 false [104;101] 1.
Proof. exact write_nonvacuous. Qed.

Theorem C20_read_nonvacuous :
  object_from_fd_ex show_parse (fun _ _ => true) [Short 1; Short 5000; Short 1; Short 1] [91;49;93] 7 =
    RRet (mkrout (JArr [JInt 7; JStr [91;49;93]]) MNone 3 (Some (7, [91;49;93])) 0)
  /\ object_from_fd_ex show_parse (fun _ _ => true) [Short 3; Short 3] [91;49;93] (-1) =
    RRet (mkrout (JArr [JInt 32; JStr [91;49;93]]) MNone 2 (Some (32, [91;49;93])) 0)
  /\ object_from_fd_ex show_parse (fun _ _ => true) [Short 2; Err 5] [91;49;93] 7 =
    RRet (mkrout JNull MRead 2 None 0)
  /\ object_from_fd_ex show_parse (fun _ _ => true) [Short 3; Err 4] [91;49;93] 7 =
    RRet (mkrout JNull MRead 2 None 0)
  /\ object_from_fd_ex (fun _ _ => None) (fun _ _ => true) [Short 2; Short 2; Short 2] [91;49;93] 7 =
    RRet (mkrout JNull MParse 3 (Some (7, [91;49;93])) 0)
  /\ object_from_fd_ex show_parse (fun _ _ => true) [Short 2; Short 2; Short 2] [91;49;93] 0 =
    RRet (mkrout JNull MTokNew 0 None 0)
  /\ object_from_fd_ex show_parse (fun l _ => l <? 2) [Short 2; Short 2; Short 2] [91;49;93] 7 =
    RRet (mkrout JNull MAppend 2 None 0).
Proof. exact read_nonvacuous. Qed.

(* n >= 1 is needed on the read side as well: an early 0 makes the function parse a
   truncated document *)
Theorem C20_read_zero_truncates :
  object_from_fd_ex show_parse (fun _ _ => true) [Short 2; Short 0; Short 5] [91;49;93] 7 =
    RRet (mkrout (JArr [JInt 7; JStr [91;49]]) MNone 2 (Some (7, [91;49])) 0).
Proof. exact read_zero_truncates. Qed.

Theorem C20_read_chunked_at_buffer_size :
  exists o, object_from_fd_ex show_parse (fun _ _ => true) [Short 100000; Short 100000; Short 100000; Short 1]
              (zrepeat 32 8192) 7 = RRet o /\ r_reads o = 3 /\ r_parsed o = Some (7, zrepeat 32 8192).
Proof. exact read_chunked_at_buffer_size. Qed.
