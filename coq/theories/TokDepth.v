(* TokDepth.v — the depth half of parse_valid (C01/C15): a valid text whose nesting does
   not fit the configured depth is refused with json_tokener_error_depth. *)
From JC Require Import Base BaseLemmas Value TokModel TokProofs TokSyntax
  TokValidBase TokValidLit TokValidNum TokValidStr TokValidObj TokValid.
Local Open Scope Z_scope.

(* how a refused call ends *)
Definition deep_out (r : loopres) : Prop :=
  exists t' l', r = LOut t' l' /\ finish_call t' l' = PR t' None /\ err t' = TE_depth.

(* from a fresh level on top of [below] (which exists: zlen below < max_depth) without room
   for the nesting of s, the loop over render s ++ rest stops with the depth error *)
Definition val_deep (sb : list byte -> Z) (c : cf) (s : stx) : Prop :=
  forall f below g off x nb lo rest,
    (4 <= f)%nat ->
    zlen below < c_md c ->
    c_md c <= zlen below + Z.of_nat (nest s) ->
    deep_out (run_f sb f (render s ++ rest) (T c (fresh_level :: below) g 0 off) (mkloc x nb lo None)).

Lemma render_first_nz s : wf_stx s -> exists x0 tl, render s = x0 :: tl /\ vfirst x0 = true /\ (x0 =? 0) = false.
Proof.
  intros Hw. destruct (render_first s Hw) as (x0 & tl & E & Hx). exists x0, tl. split; [exact E|]. split; [exact Hx|].
  pose proof (render_nonul s Hw) as Hn. rewrite E, nonul_cons in Hn. apply andb_true_iff in Hn. destruct Hn as [Hn _].
  destruct (x0 =? 0); [discriminate|reflexivity].
Qed.

Section S.
Variable sb : list byte -> Z.

(* the refused push *)
Lemma push_fail c f x0 more svs cur nm below g off x nb lo :
  (svs = S_array \/ svs = S_array_after_sep \/ svs = S_object_value) ->
  vfirst x0 = true -> (x0 =? 0) = false -> c_md c <= zlen below + 1 -> (2 <= f)%nat ->
  deep_out (run_f sb f (x0 :: more) (T c (mksrec S_eatws svs cur nm :: below) g 0 off) (mkloc x nb lo None)).
Proof.
  intros Hs Hx Hz Hd Hf. unfold vfirst in Hx.
  destruct (is_ws x0) eqn:E1; [discriminate|]. destruct (x0 =? 47) eqn:E2; [discriminate|].
  destruct (x0 =? 93) eqn:E3; [discriminate|]. clear Hx.
  destruct g as [p d s u q]. fuel f.
  eexists _, _. split; [|split].
  - apply runT_O. cbn [redo].
    assert (S1 : step1 sb (T c (mksrec S_eatws svs cur nm :: below) (mkgb p d s u q) 0 off) (mkloc x0 nb lo None) =
                 Redo (T c (mksrec svs svs cur nm :: below) (mkgb p d s u q) 0 off) (mkloc x0 nb lo None)).
    { unfold step1. cbn [st top stack T s_state lc]. rewrite E1, E2. cbn [andb]. reflexivity. }
    rewrite S1.
    assert (S2 : step1 sb (T c (mksrec svs svs cur nm :: below) (mkgb p d s u q) 0 off) (mkloc x0 nb lo None) =
                 Out (set_err (T c (mksrec svs svs cur nm :: below) (mkgb p d s u q) 0 off) TE_depth) (mkloc x0 nb lo None)).
    { unfold step1.
      match goal with |- context [depth ?t >=? max_depth ?t - 1] =>
        assert (E : (depth t >=? max_depth t - 1) = true) by (unfold depth; cbn [stack T zlen max_depth]; lia) end.
      destruct Hs as [->|[->| ->]]; cbn [st top stack T s_state lc]; rewrite ?E3, E; reflexivity. }
    rewrite S2. reflexivity.
  - unfold finish_call. cbn [lc validate_utf8 set_err T andb]. rewrite Hz. cbn [negb andb].
    destruct Hs as [->|[->| ->]]; reflexivity.
  - reflexivity.
Qed.

(* ---------------------------------------------------------------- arrays *)
Lemma arr_elem_comma c a e b svs acc below g off x nb lo f rest :
  val_ok sb c e -> all_ws a = true -> wf_stxb e = true -> all_ws b = true ->
  (svs = S_array \/ svs = S_array_after_sep) -> (8 <= f)%nat ->
  zlen below + 1 + Z.of_nat (nest e) < c_md c ->
  exists g' off' lo',
  run_f sb f (render_el (a, e, b) ++ 44 :: rest) (T c (mksrec S_eatws svs (JArr acc) None :: below) g 0 off) (mkloc x nb lo None) =
  run_f sb REDO_FUEL rest (T c (mksrec S_eatws S_array_after_sep (JArr (acc ++ [value sb e])) None :: below) g' 0 off') (mkloc 44 nb lo' None).
Proof.
  intros HVe Hwa Hwe Hwb Hs Hf Hde. cbn [render_el]. rewrite <- !app_assoc.
  ws_step sb Hwa f1 x1 Hf1.
  destruct (render_first e Hwe) as (x0 & tl0 & Ex0 & Hx0).
  set (tailb := b ++ 44 :: rest).
  assert (Hpush : forall gg oo xx ll, exists f2, (4 <= f2)%nat /\
            run_f sb f1 (render e ++ tailb) (T c (mksrec S_eatws svs (JArr acc) None :: below) gg 0 oo) (mkloc xx nb ll None) =
            run_f sb f2 (render e ++ tailb) (T c (fresh_level :: mksrec S_array_add svs (JArr acc) None :: below) gg 0 oo) (mkloc x0 nb ll None)).
  { intros gg oo xx ll. rewrite Ex0. cbn [app]. fuel f1. exists (S (S (S (S (S (S f1)))))). split; [lia|].
    rewrite push_step; [|destruct Hs as [->| ->]; auto|exact Hx0|pose proof (Nat2Z.is_nonneg (nest e)); lia].
    destruct Hs as [->| ->]; reflexivity. }
  destruct (Hpush g (off + zlen a) x1 lo) as (f2 & Hf2 & ->). clear Hpush.
  destruct (HVe f2 (mksrec S_array_add svs (JArr acc) None :: below) g (off + zlen a) x0 nb lo tailb Hf2)
    as (f3 & g3 & x3 & lo3 & Hf3 & ->).
  { cbn [zlen]. lia. }
  { subst tailb. apply fol_rest_ws; [exact Hwb|reflexivity]. }
  subst tailb. ws_step sb Hwb f4 x4 Hf4.
  match goal with |- context [run_f sb f4 _ (T c _ ?gg 0 ?oo) (mkloc ?xx nb ?ll None)] =>
    destruct (arr_pop_comma sb c f4 rest (value sb e) None svs acc None below gg oo xx nb ll) as (g5 & ->); [lia|] end.
  eexists _, _, _. reflexivity.
Qed.

Lemma arr_elem_deep c a e b svs acc below g off x nb lo f rest :
  val_deep sb c e -> all_ws a = true -> wf_stx e ->
  (svs = S_array \/ svs = S_array_after_sep) -> (8 <= f)%nat ->
  zlen below < c_md c -> c_md c <= zlen below + 1 + Z.of_nat (nest e) ->
  deep_out (run_f sb f (render_el (a, e, b) ++ rest) (T c (mksrec S_eatws svs (JArr acc) None :: below) g 0 off) (mkloc x nb lo None)).
Proof.
  intros HDe Hwa Hwe Hs Hf Hlt Hde. cbn [render_el]. rewrite <- !app_assoc.
  ws_step sb Hwa f1 x1 Hf1.
  destruct (render_first_nz e Hwe) as (x0 & tl0 & Ex0 & Hx0 & Hz0).
  destruct (Z_lt_le_dec (zlen below + 1) (c_md c)) as [Hroom|Hno].
  - assert (E : run_f sb f1 (render e ++ b ++ rest) (T c (mksrec S_eatws svs (JArr acc) None :: below) g 0 (off + zlen a)) (mkloc x1 nb lo None) =
                run_f sb (f1 - 2) (render e ++ b ++ rest) (T c (fresh_level :: mksrec S_array_add svs (JArr acc) None :: below) g 0 (off + zlen a)) (mkloc x0 nb lo None)).
    { rewrite Ex0. cbn [app]. fuel f1. cbn [Nat.sub].
      rewrite push_step; [|destruct Hs as [->| ->]; auto|exact Hx0|lia].
      destruct Hs as [->| ->]; reflexivity. }
    rewrite E. apply HDe; [lia|cbn [zlen]; lia|cbn [zlen]; lia].
  - rewrite Ex0. cbn [app]. apply push_fail; [destruct Hs as [->| ->]; auto|exact Hx0|exact Hz0|exact Hno|lia].
Qed.

Lemma arr_loop_deep c : forall es,
  Forall (fun x => val_ok sb c (el_val x) /\ val_deep sb c (el_val x)) es -> forallb el_ok es = true ->
  forall f svs acc below g off x nb lo rest,
    (svs = S_array \/ svs = S_array_after_sep) -> (8 <= f)%nat -> zlen below < c_md c ->
    Exists (fun x => c_md c <= zlen below + 1 + Z.of_nat (nest (el_val x))) es ->
    deep_out (run_f sb f (render_elems es ++ rest) (T c (mksrec S_eatws svs (JArr acc) None :: below) g 0 off) (mkloc x nb lo None)).
Proof.
  induction es as [|[[a e] b] r IH]; intros HV Hwf f svs acc below g off x nb lo rest Hs Hf Hlt Hex.
  - inversion Hex.
  - inversion HV as [|? ? [HVe HDe] HVr]; subst.
    cbn [forallb el_ok] in Hwf. apply andb_true_iff in Hwf. destruct Hwf as [Hwe Hwr].
    apply andb_true_iff in Hwe. destruct Hwe as [Hwe Hwb]. apply andb_true_iff in Hwe. destruct Hwe as [Hwa Hwe].
    unfold el_val in HVe, HDe. cbn [fst snd] in HVe, HDe.
    cbn [render_elems]. rewrite <- app_assoc.
    destruct (Z_lt_le_dec (zlen below + 1 + Z.of_nat (nest e)) (c_md c)) as [Hroom|Hno].
    + (* this element fits: the deep one is further on *)
      inversion Hex as [? ? Hh|? ? Ht]; subst; [unfold el_val in Hh; cbn [fst snd] in Hh; lia|].
      destruct r as [|y r]; [inversion Ht|]. cbn [app].
      destruct (arr_elem_comma c a e b svs acc below g off x nb lo f (render_elems (y :: r) ++ rest) HVe Hwa Hwe Hwb Hs Hf Hroom)
        as (g' & off' & lo' & ->).
      apply IH; auto. unfold REDO_FUEL; lia.
    + apply arr_elem_deep; assumption.
Qed.

(* ---------------------------------------------------------------- objects *)
Lemma obj_mem_prefix c a k b cw acc svs below g off x nb lo f more :
  all_ws a = true -> wf_chars k = true -> all_ws b = true -> all_ws cw = true ->
  has_byte 0 (decode k) = false ->
  (svs = S_object_field_start \/ svs = S_object_field_start_after_sep) -> (8 <= f)%nat ->
  exists f' g' off' x',  (8 <= f')%nat /\
  run_f sb f (a ++ render_str k ++ b ++ 58 :: cw ++ more) (T c (mksrec S_eatws svs (JObj acc) None :: below) g 0 off) (mkloc x nb lo None) =
  run_f sb f' more (T c (mksrec S_eatws S_object_value (JObj acc) (Some (decode k)) :: below) g' 0 off') (mkloc x' nb lo None).
Proof.
  intros Hwa Hwk Hwb Hwc Hnk Hs Hf.
  assert (Hkey : cstr (decode k) = decode k) by (apply cstr_nonul; exact Hnk).
  assert (F16 : (8 <= REDO_FUEL)%nat) by (unfold REDO_FUEL; lia).
  unfold render_str. cbn [app]. rewrite <- !app_assoc. cbn [app].
  ws_step sb Hwa f1 x1 Hf1.
  rewrite obj_name_open; [|exact Hs|lia].
  match goal with |- context [run_f sb REDO_FUEL (render_chars k ++ ?more) (SS c _ _ _ _ _ _ _ ?dd ?ss ?uu ?oo) (mkloc ?xx nb ?ll None)] =>
    destruct (str_body sb c S_object_field k (or_intror eq_refl) Hwk REDO_FUEL 0 [] svs dd ss uu below (JObj acc) None
                oo xx nb ll more F16 (or_introl eq_refl))
      as (f2 & x2 & hi2 & pend & svx2 & sp2 & uc2 & Hf2 & Hhi2 & Hp & ->) end.
  match goal with |- context [run_f sb f2 (34 :: ?more) (SS c _ _ _ _ _ _ _ ?dd ?ss ?uu ?oo) (mkloc ?xx nb ?ll None)] =>
    destruct (str_close sb c S_object_field (or_intror eq_refl) f2 hi2 pend svx2 dd ss uu below (JObj acc) None
                oo xx nb ll more Hf2 Hhi2) as (g3 & ->) end.
  cbn [close_top]. rewrite <- Hp. cbn [app]. rewrite dec_decode, Hkey.
  ws_step sb Hwb f4 x4 Hf4.
  rewrite obj_colon by lia.
  ws_step sb Hwc f5 x5 Hf5.
  eexists _, _, _, _. split; [exact Hf5|]. reflexivity.
Qed.

Lemma obj_mem_comma c a k b cw v d svs acc below g off x nb lo f rest :
  val_ok sb c v -> mem_ok (a, k, b, cw, v, d) = true -> has_byte 0 (decode k) = false ->
  (svs = S_object_field_start \/ svs = S_object_field_start_after_sep) -> (8 <= f)%nat ->
  zlen below + 1 + Z.of_nat (nest v) < c_md c ->
  exists acc' g' off' lo',
  run_f sb f (render_mem (a, k, b, cw, v, d) ++ 44 :: rest) (T c (mksrec S_eatws svs (JObj acc) None :: below) g 0 off) (mkloc x nb lo None) =
  run_f sb REDO_FUEL rest (T c (mksrec S_eatws S_object_field_start_after_sep (JObj acc') None :: below) g' 0 off') (mkloc 44 nb lo' None).
Proof.
  intros HVe Hwm Hnk Hs Hf Hde. cbn [mem_ok] in Hwm.
  apply andb_true_iff in Hwm. destruct Hwm as [Hwm Hwd]. apply andb_true_iff in Hwm. destruct Hwm as [Hwm Hwv].
  apply andb_true_iff in Hwm. destruct Hwm as [Hwm Hwc]. apply andb_true_iff in Hwm. destruct Hwm as [Hwm Hwb].
  apply andb_true_iff in Hwm. destruct Hwm as [Hwa Hwk].
  cbn [render_mem]. 
  replace ((a ++ render_str k ++ b ++ 58 :: cw ++ render v ++ d) ++ 44 :: rest)
    with (a ++ render_str k ++ b ++ 58 :: cw ++ (render v ++ d ++ 44 :: rest))
    by (repeat (rewrite <- ?app_assoc; cbn [app]; rewrite <- ?app_comm_cons); reflexivity).
  destruct (obj_mem_prefix c a k b cw acc svs below g off x nb lo f (render v ++ d ++ 44 :: rest) Hwa Hwk Hwb Hwc Hnk Hs Hf)
    as (f5 & g5 & off5 & x5 & Hf5 & ->).
  destruct (render_first v Hwv) as (x0 & tl0 & Ex0 & Hx0).
  set (tailb := d ++ 44 :: rest).
  assert (Hpush : exists f6, (4 <= f6)%nat /\
            run_f sb f5 (render v ++ tailb) (T c (mksrec S_eatws S_object_value (JObj acc) (Some (decode k)) :: below) g5 0 off5) (mkloc x5 nb lo None) =
            run_f sb f6 (render v ++ tailb) (T c (fresh_level :: mksrec S_object_value_add S_object_value (JObj acc) (Some (decode k)) :: below) g5 0 off5) (mkloc x0 nb lo None)).
  { rewrite Ex0. cbn [app]. fuel f5. exists (S (S (S (S (S (S f5)))))). split; [lia|].
    rewrite push_step; [|auto|exact Hx0|pose proof (Nat2Z.is_nonneg (nest v)); lia]. reflexivity. }
  destruct Hpush as (f6 & Hf6 & ->).
  destruct (HVe f6 (mksrec S_object_value_add S_object_value (JObj acc) (Some (decode k)) :: below) g5 off5 x0 nb lo tailb Hf6)
    as (f7 & g7 & x7 & lo7 & Hf7 & ->).
  { cbn [zlen]. lia. }
  { subst tailb. apply fol_rest_ws; [exact Hwd|reflexivity]. }
  subst tailb. ws_step sb Hwd f8 x8 Hf8.
  match goal with |- context [run_f sb f8 _ (T c _ ?gg 0 ?oo) (mkloc ?xx nb ?ll None)] =>
    destruct (obj_pop_comma sb c f8 rest (value sb v) None (decode k) acc below gg oo xx nb ll) as (g9 & ->); [lia|] end.
  eexists _, _, _, _. reflexivity.
Qed.

Lemma obj_mem_deep c a k b cw v d svs acc below g off x nb lo f rest :
  val_deep sb c v -> mem_ok (a, k, b, cw, v, d) = true -> has_byte 0 (decode k) = false ->
  (svs = S_object_field_start \/ svs = S_object_field_start_after_sep) -> (8 <= f)%nat ->
  zlen below < c_md c -> c_md c <= zlen below + 1 + Z.of_nat (nest v) ->
  deep_out (run_f sb f (render_mem (a, k, b, cw, v, d) ++ rest) (T c (mksrec S_eatws svs (JObj acc) None :: below) g 0 off) (mkloc x nb lo None)).
Proof.
  intros HDe Hwm Hnk Hs Hf Hlt Hde. cbn [mem_ok] in Hwm.
  apply andb_true_iff in Hwm. destruct Hwm as [Hwm Hwd]. apply andb_true_iff in Hwm. destruct Hwm as [Hwm Hwv].
  apply andb_true_iff in Hwm. destruct Hwm as [Hwm Hwc]. apply andb_true_iff in Hwm. destruct Hwm as [Hwm Hwb].
  apply andb_true_iff in Hwm. destruct Hwm as [Hwa Hwk].
  cbn [render_mem].
  replace ((a ++ render_str k ++ b ++ 58 :: cw ++ render v ++ d) ++ rest)
    with (a ++ render_str k ++ b ++ 58 :: cw ++ (render v ++ d ++ rest))
    by (repeat (rewrite <- ?app_assoc; cbn [app]; rewrite <- ?app_comm_cons); reflexivity).
  destruct (obj_mem_prefix c a k b cw acc svs below g off x nb lo f (render v ++ d ++ rest) Hwa Hwk Hwb Hwc Hnk Hs Hf)
    as (f5 & g5 & off5 & x5 & Hf5 & ->).
  destruct (render_first_nz v Hwv) as (x0 & tl0 & Ex0 & Hx0 & Hz0).
  destruct (Z_lt_le_dec (zlen below + 1) (c_md c)) as [Hroom|Hno].
  - assert (E : run_f sb f5 (render v ++ d ++ rest) (T c (mksrec S_eatws S_object_value (JObj acc) (Some (decode k)) :: below) g5 0 off5) (mkloc x5 nb lo None) =
                run_f sb (f5 - 2) (render v ++ d ++ rest) (T c (fresh_level :: mksrec S_object_value_add S_object_value (JObj acc) (Some (decode k)) :: below) g5 0 off5) (mkloc x0 nb lo None)).
    { rewrite Ex0. cbn [app]. fuel f5. cbn [Nat.sub].
      rewrite push_step; [|auto|exact Hx0|lia]. reflexivity. }
    rewrite E. apply HDe; [lia|cbn [zlen]; lia|cbn [zlen]; lia].
  - rewrite Ex0. cbn [app]. apply push_fail; [auto|exact Hx0|exact Hz0|exact Hno|lia].
Qed.

Lemma obj_loop_deep c : forall ms,
  Forall (fun m => val_ok sb c (m_val m) /\ val_deep sb c (m_val m)) ms -> forallb mem_ok ms = true ->
  forallb (fun m : mem => negb (has_byte 0 (decode (m_name m)))) ms = true ->
  forall f svs acc below g off x nb lo rest,
    (svs = S_object_field_start \/ svs = S_object_field_start_after_sep) -> (8 <= f)%nat -> zlen below < c_md c ->
    Exists (fun m => c_md c <= zlen below + 1 + Z.of_nat (nest (m_val m))) ms ->
    deep_out (run_f sb f (render_mems ms ++ rest) (T c (mksrec S_eatws svs (JObj acc) None :: below) g 0 off) (mkloc x nb lo None)).
Proof.
  induction ms as [|[[[[[a k] b] cw] v] d] r IH]; intros HV Hwf Hnn f svs acc below g off x nb lo rest Hs Hf Hlt Hex.
  - inversion Hex.
  - inversion HV as [|? ? [HVe HDe] HVr]; subst.
    cbn [forallb] in Hwf, Hnn. apply andb_true_iff in Hwf. destruct Hwf as [Hwm Hwr].
    apply andb_true_iff in Hnn. destruct Hnn as [Hnk Hnr].
    unfold m_val, m_name in HVe, HDe, Hnk. cbn [fst snd] in HVe, HDe, Hnk.
    assert (Hnk' : has_byte 0 (decode k) = false) by (destruct (has_byte 0 (decode k)); [discriminate|reflexivity]).
    cbn [render_mems]. rewrite <- app_assoc.
    destruct (Z_lt_le_dec (zlen below + 1 + Z.of_nat (nest v)) (c_md c)) as [Hroom|Hno].
    + inversion Hex as [? ? Hh|? ? Ht]; subst; [unfold m_val in Hh; cbn [fst snd] in Hh; lia|].
      destruct r as [|y r]; [inversion Ht|]. cbn [app].
      destruct (obj_mem_comma c a k b cw v d svs acc below g off x nb lo f (render_mems (y :: r) ++ rest) HVe Hwm Hnk' Hs Hf Hroom)
        as (acc' & g' & off' & lo' & ->).
      apply IH; auto. unfold REDO_FUEL; lia.
    + apply obj_mem_deep; assumption.
Qed.


(* ---------------------------------------------------------------- the induction *)
Lemma list_max_exists (g : nat -> Prop) l n :
  (0 < n)%nat -> (n <= list_max l)%nat -> Exists (fun k => (n <= k)%nat) l.
Proof.
  intros Hn. induction l as [|a l IH]; cbn [list_max fold_right]; intros H; [lia|].
  destruct (Nat.le_gt_cases n a) as [Ha|Ha]; [left; exact Ha|]. right. apply IH.
  change (fold_right Init.Nat.max 0%nat l) with (list_max l) in H. lia.
Qed.

Lemma deep_exists {A} (h : A -> stx) (l : list A) (zb md : Z) :
  zb < md -> md <= zb + Z.of_nat (list_max (map (fun x => S (nest (h x))) l)) ->
  Exists (fun x => md <= zb + 1 + Z.of_nat (nest (h x))) l.
Proof.
  intros Hlt H.
  assert (E : Exists (fun k => (Z.to_nat (md - zb) <= k)%nat) (map (fun x => S (nest (h x))) l)).
  { apply (list_max_exists (fun _ => True)); lia. }
  rewrite Exists_exists in E. destruct E as (k & Hin & Hk). rewrite in_map_iff in Hin. destruct Hin as (x & <- & Hx).
  rewrite Exists_exists. exists x. split; [exact Hx|]. lia.
Qed.

Lemma deep_ok c s :
  wf_stx s -> ints_in_range s = true -> names_nul_free s = true -> val_deep sb c s.
Proof.
  induction s as [l|n|cs|w es IH|w ms IH] using stx_ind'; intros Hw Hi Hn f below g off x nb lo rest Hf Hlt Hd;
    try (cbn [nest] in Hd; lia).
  - (* arrays *)
    pose proof Hw as Hw0. unfold wf_stx in Hw. cbn [wf_stxb] in Hw. apply andb_true_iff in Hw. destruct Hw as [Hww Hes].
    destruct es as [|y r]; [cbn [nest map list_max fold_right] in Hd; lia|].
    rewrite render_arr_cons. cbn [app].
    assert (E1 : exists g1, run_f sb f (91 :: render_elems (y :: r) ++ rest) (T c (fresh_level :: below) g 0 off) (mkloc x nb lo None) =
                 run_f sb REDO_FUEL (render_elems (y :: r) ++ rest) (T c (mksrec S_eatws S_array (JArr []) None :: below) g1 0 (off + 1)) (mkloc 91 nb lo None)).
    { fuel f. destruct c as [md sf al]. destruct g as [p d s u q]. eexists (mkgb _ _ _ _ _).
      destruct sf; stepC; reflexivity. }
    destruct E1 as (g1 & ->).
    apply arr_loop_deep; [|exact Hes|auto|unfold REDO_FUEL; lia|exact Hlt|].
    + cbn [ints_in_range names_nul_free] in Hi, Hn.
      rewrite forallb_forall in Hes, Hi, Hn. rewrite Forall_forall in IH |- *.
      intros [[a e] b] Hx.
      assert (Hwe : wf_stx e).
      { specialize (Hes _ Hx). cbn in Hes. unfold wf_stx.
        apply andb_true_iff in Hes. destruct Hes as [Hes _]. apply andb_true_iff in Hes. destruct Hes as [_ Hes]. exact Hes. }
      split.
      * apply value_ok; [exact Hwe|apply covered_all|apply (Hi _ Hx)|apply (Hn _ Hx)].
      * apply (IH _ Hx); [exact Hwe|apply (Hi _ Hx)|apply (Hn _ Hx)].
    + apply (deep_exists el_val (y :: r) (zlen below) (c_md c) Hlt). exact Hd.
  - (* objects *)
    pose proof Hw as Hw0. unfold wf_stx in Hw. cbn [wf_stxb] in Hw. apply andb_true_iff in Hw. destruct Hw as [Hww Hms].
    destruct ms as [|y r]; [cbn [nest map list_max fold_right] in Hd; lia|].
    rewrite render_obj_cons. cbn [app].
    assert (E1 : exists g1, run_f sb f (123 :: render_mems (y :: r) ++ rest) (T c (fresh_level :: below) g 0 off) (mkloc x nb lo None) =
                 run_f sb REDO_FUEL (render_mems (y :: r) ++ rest) (T c (mksrec S_eatws S_object_field_start (JObj []) None :: below) g1 0 (off + 1)) (mkloc 123 nb lo None)).
    { fuel f. destruct c as [md sf al]. destruct g as [p d s u q]. eexists (mkgb _ _ _ _ _).
      destruct sf; stepC; reflexivity. }
    destruct E1 as (g1 & ->).
    cbn [ints_in_range names_nul_free] in Hi, Hn.
    apply obj_loop_deep; [|exact Hms| |auto|unfold REDO_FUEL; lia|exact Hlt|].
    + rewrite forallb_forall in Hms, Hi, Hn. rewrite Forall_forall in IH |- *.
      intros [[[[[a k] b] cw] v] d] Hx.
      assert (Hwe : wf_stx v).
      { specialize (Hms _ Hx). cbn in Hms. unfold wf_stx.
        apply andb_true_iff in Hms. destruct Hms as [Hms _]. apply andb_true_iff in Hms. destruct Hms as [_ Hms]. exact Hms. }
      assert (Hnv : names_nul_free v = true).
      { specialize (Hn _ Hx). apply andb_true_iff in Hn. apply Hn. }
      split.
      * apply value_ok; [exact Hwe|apply covered_all|apply (Hi _ Hx)|exact Hnv].
      * apply (IH _ Hx); [exact Hwe|apply (Hi _ Hx)|exact Hnv].
    + rewrite forallb_forall in Hn |- *. intros m Hm. specialize (Hn m Hm). apply andb_true_iff in Hn. tauto.
    + apply (deep_exists m_val (y :: r) (zlen below) (c_md c) Hlt). exact Hd.
Qed.

(* ---------------------------------------------------------------- the whole call *)
Theorem parse_depth D strictf s lead trail t :
  wf_stx s -> all_ws lead = true -> all_ws trail = true ->
  ints_in_range s = true -> names_nul_free s = true ->
  D <= Z.of_nat (nest s) ->
  tok_new D strictf false false = Some t ->
  exists t', parse_ex_cstr sb t (render_doc lead s trail) = PR t' None /\ err t' = TE_depth.
Proof.
  intros Hw Hl Htr Hi Hn Hd Hnew.
  unfold tok_new in Hnew. destruct (D <? 1) eqn:ED; [discriminate|]. inversion Hnew; subst t; clear Hnew.
  unfold parse_ex_cstr, render_doc. rewrite upto_nul_nonul.
  2:{ rewrite !nonul_app, (render_nonul s Hw), (nonul_ws _ Hl), (nonul_ws _ Htr). reflexivity. }
  unfold parse_ex.
  change (set_err (set_off (mktok [fresh_level] D [] false 0 0 0 0 strictf false false 0 TE_success) 0) TE_success)
    with (T (mkcf D strictf false) [fresh_level] (mkgb [] false 0 0 0) 0 0).
  rewrite run_run_f. rewrite <- !app_assoc.
  pose proof (deep_ok (mkcf D strictf false) s Hw Hi Hn) as HD. unfold val_deep, fresh_level in *.
  destruct (run_ws sb (mkcf D strictf false) lead REDO_FUEL S_start JNull None [] (mkgb [] false 0 0 0) 0 0 1 0 JNull None
              (render s ++ trail ++ [0])) as (f1 & x1 & Hf1 & ->); [unfold REDO_FUEL; lia|exact Hl|].
  destruct (HD f1 [] (mkgb [] false 0 0 0) (0 + zlen lead) x1 0 JNull (trail ++ [0])) as (t' & l' & -> & Hfin & He).
  { lia. } { cbn [zlen c_md]. lia. } { cbn [zlen c_md]. lia. }
  exists t'. split; [exact Hfin|exact He].
Qed.

End S.

(* non-vacuity: the example tree of TokValid.v has nesting 2; with depth 2 it is refused *)
Definition parse_depth_example_ok : bool :=
  wf_stxb ex_tree && (2 <=? Z.of_nat (nest ex_tree)) && ints_in_range ex_tree && names_nul_free ex_tree &&
  match tok_new 2 false false false with
  | Some t => match parse_ex_cstr (fun _ => 7) t (render_doc [32] ex_tree [10]) with
              | PR t' None => match err t' with TE_depth => true | _ => false end
              | _ => false end
  | None => false end.
Lemma parse_depth_example : parse_depth_example_ok = true.
Proof. vm_compute. reflexivity. Qed.
