(* Properties_C12.v — statements only.  C12: JSON Pointer get/set resolve exactly per RFC 6901.

   Model  PtrModel.v  json_pointer.c as written;   Spec  PtrSpec.v  RFC 6901 from the RFC.
   Node identity = location (list of steps from the root; inl member-name | inr index).

   Three of the property's claims do NOT hold for the current code at full strength.  Their
   full statements are kept below as [C12_*_full_strength_REFUTED] (the negation is what is
   proved, each with computed witnesses), next to the [_partial] theorem that holds for all
   trees and all pointer strings inside a decidable guard.  The guards name exactly the
   recorded defect sites:
     get_guard   no step of the walk is: an array and the empty token while element 0 exists and
                 is not null | an array whose element at the (valid) last token is JSON null | an
                 object, a token with a '~' not followed by 0/1, and a member of that name;
                 plus the representation bound: arrays on the way are no longer than SIZE_MAX
     set_guard   the same for the tokens before the last (null elements there are harmless);
                 the last token is not empty when the parent is an array and contains no '~'
                 when the parent is an object
     stg_guard   the value is not JSON null when the parent is an array; the last token is its
                 own unescaping when the parent is an object *)
From Coq Require Import String.    (* only for the literals of the witnesses: bs "…" *)
From JC Require Import Base Value PtrSpec PtrModel PtrProofs.
Local Open Scope Z_scope.

(* ---- unescaping: the code's two in-place passes = the RFC's single pass, all byte strings *)
Theorem C12_unescape_two_pass_eq_single : forall s : list byte, unescape_in_place s = unescape s.
Proof. exact unescape_two_pass_eq_single. Qed.
Print Assumptions C12_unescape_two_pass_eq_single.

(* ---- lookup *)
(* full strength: for every tree (not the NULL pointer: json_pointer_get's documented domain)
   and every pointer string, lookup = RFC 6901 evaluation, else ENOENT / EINVAL *)
Theorem C12_get_conforms_full_strength_REFUTED :
  ~ (forall t p, t <> JNull ->
     match ptr_get t p with
     | GOk path n => spec_get t p = Some (path, n)
     | GErr e => spec_get t p = None /\ (e = ENOENT \/ e = EINVAL)
     end).
Proof. exact get_conforms_refuted. Qed.
Print Assumptions C12_get_conforms_full_strength_REFUTED.

Theorem C12_get_conforms_partial : forall t p,
  t <> JNull -> get_guard t p = true ->
  match ptr_get t p with
  | GOk path n => spec_get t p = Some (path, n)
  | GErr e => spec_get t p = None /\ (e = ENOENT \/ e = EINVAL)
  end.
Proof. exact get_conforms_partial. Qed.
Print Assumptions C12_get_conforms_partial.

Theorem C12_get_null_elem_refuted :
  exists t p, t <> JNull /\ get_guard t p = false /\
    spec_get t p = Some ([inl (bs "a"); inr 0], JNull) /\ ptr_get t p = GErr ENOENT.
Proof. exact get_null_elem_refuted. Qed.
Print Assumptions C12_get_null_elem_refuted.

Theorem C12_get_empty_index_refuted :
  exists t p, t <> JNull /\ get_guard t p = false /\
    spec_get t p = None /\ ptr_get t p = GOk [inl (bs "a"); inr 0] (JInt 7).
Proof. exact get_empty_index_refuted. Qed.
Print Assumptions C12_get_empty_index_refuted.

Theorem C12_get_invalid_escape_refuted :
  exists t p, t <> JNull /\ get_guard t p = false /\
    spec_get t p = None /\ ptr_get t p = GOk [inl (bs "~2")] (JInt 1).
Proof. exact get_invalid_escape_refuted. Qed.
Print Assumptions C12_get_invalid_escape_refuted.

(* unguarded: the node returned is the node at the reported location; errors are
   not-found / invalid-argument; a lookup (and a failed set) leaves the tree as it was *)
Theorem C12_get_returns_node_at_path : forall t p path n,
  ptr_get t p = GOk path n -> node_at t path = Some n.
Proof. exact get_returns_node_at_path. Qed.
Print Assumptions C12_get_returns_node_at_path.

Theorem C12_get_fails_enoent_einval : forall t p e, ptr_get t p = GErr e -> e = ENOENT \/ e = EINVAL.
Proof. exact get_fails_enoent_einval. Qed.
Print Assumptions C12_get_fails_enoent_einval.

Theorem C12_get_no_side_effect : forall al t o t' obs,
  ptr_step al t o = (t', obs) ->
  match o, obs with
  | OGet _, _ | OGetf _, _ => t' = t
  | _, ObsSet (Some _) => t' = t
  | _, _ => True
  end.
Proof. exact get_no_side_effect. Qed.
Print Assumptions C12_get_no_side_effect.

(* ---- set *)
(* full strength: set = RFC placement (member named by the unescaped last token, array index,
   append for "-"); besides that it may only fail for lack of room in an array *)
Theorem C12_set_places_exactly_full_strength_REFUTED :
  ~ (forall al t p v,
     match ptr_set al t p v with
     | SOk t' => spec_set t p v = Some t'
     | SErr e => (spec_set t p v = None /\ (e = ENOENT \/ e = EINVAL)) \/ no_room al e
     end).
Proof. exact set_places_exactly_refuted. Qed.
Print Assumptions C12_set_places_exactly_full_strength_REFUTED.

Theorem C12_set_places_exactly_partial : forall al t p v,
  set_guard t p = true ->
  match ptr_set al t p v with
  | SOk t' => spec_set t p v = Some t'
  | SErr e => (spec_set t p v = None /\ (e = ENOENT \/ e = EINVAL)) \/ no_room al e
  end.
Proof. exact set_places_exactly_partial. Qed.
Print Assumptions C12_set_places_exactly_partial.

Theorem C12_set_escaped_last_refuted :
  exists t p v t', set_guard t p = false /\ stg_guard t p v = false /\
    ptr_set room t p v = SOk t' /\ t' = JObj [(bs "x~1y", v)] /\
    spec_set t p v = Some (JObj [(bs "x/y", v)]) /\
    ptr_get t' p = GErr ENOENT.
Proof. exact set_escaped_last_refuted. Qed.
Print Assumptions C12_set_escaped_last_refuted.

Theorem C12_set_empty_index_refuted :
  exists t p v t', set_guard t p = false /\
    ptr_set room t p v = SOk t' /\ t' = JObj [(bs "a", JArr [v])] /\ spec_set t p v = None.
Proof. exact set_empty_index_refuted. Qed.
Print Assumptions C12_set_empty_index_refuted.

Theorem C12_set_invalid_escape_refuted :
  exists t p v t', set_guard t p = false /\
    ptr_set room t p v = SOk t' /\ t' = JObj [(bs "b~", v)] /\ spec_set t p v = None.
Proof. exact set_invalid_escape_refuted. Qed.
Print Assumptions C12_set_invalid_escape_refuted.

(* set changes nothing else — full strength, no guard: the value sits at the location the code
   computed, and every location neither above nor below it holds what it held before; the
   only new locations are the JSON null padding of an array extended up to the index *)
Theorem C12_set_frame : forall al t p v t',
  ptr_set al t p v = SOk t' ->
  exists site, set_loc t p = Some site /\ node_at t' site = Some v /\
    forall q, incomparable q site -> forall n,
      (node_at t q = Some n -> node_at t' q = Some n) /\
      (node_at t' q = Some n -> node_at t q = Some n \/ pad_slot t site q n).
Proof. exact set_frame. Qed.
Print Assumptions C12_set_frame.

(* a following lookup of the same pointer returns the value just set.  Full strength (the
   "-" token appends and is by RFC 6901 never a lookup target; the tree handed to get must not
   be the NULL pointer): *)
Theorem C12_set_then_get_full_strength_REFUTED :
  ~ (forall al t p v t',
     ptr_set al t p v = SOk t' -> t' <> JNull -> is_append_site t p = false ->
     exists path, ptr_get t' p = GOk path v).
Proof. exact set_then_get_refuted. Qed.
Print Assumptions C12_set_then_get_full_strength_REFUTED.

Theorem C12_set_then_get_partial : forall al t p v t',
  ptr_set al t p v = SOk t' -> t' <> JNull -> is_append_site t p = false -> stg_guard t p v = true ->
  exists path, ptr_get t' p = GOk path v /\ node_at t' path = Some v.
Proof. exact set_then_get_partial. Qed.
Print Assumptions C12_set_then_get_partial.

Theorem C12_set_then_get_null_refuted :
  exists t p v t', stg_guard t p v = false /\ is_append_site t p = false /\
    ptr_set room t p v = SOk t' /\ t' = JArr [JNull] /\ ptr_get t' p = GErr ENOENT.
Proof. exact set_then_get_null_refuted. Qed.
Print Assumptions C12_set_then_get_null_refuted.

(* ---- printf-style variants: the plain functions on the formatted string, for every
   formatting oracle *)
Theorem C12_getf_as_plain : forall (fmt args : Type) (vasprintf : fmt -> args -> option (list byte)) t f a out,
  vasprintf f a = Some out -> ptr_getf t (vasprintf f a) = ptr_get t out.
Proof. exact getf_as_plain. Qed.
Print Assumptions C12_getf_as_plain.

Theorem C12_setf_as_plain : forall (fmt args : Type) (vasprintf : fmt -> args -> option (list byte)) al t f a out v,
  vasprintf f a = Some out -> ptr_setf al t (vasprintf f a) v = ptr_set al t out v.
Proof. exact setf_as_plain. Qed.
Print Assumptions C12_setf_as_plain.

(* ---- non-vacuity: the RFC's own example document and pointers lie inside every guard and
   resolve; a guarded set with an escaped inner token and an index beyond the end; the index
   edge cases (saturation / ERANGE, leading zero, "-", index = length, no leading '/') *)
Theorem C12_nonvacuous_rfc_examples : forallb rfc_case_ok rfc_cases = true.
Proof. exact rfc_examples_hold. Qed.
Print Assumptions C12_nonvacuous_rfc_examples.

Theorem C12_nonvacuous_set :
  let t := JObj [(bs "a/b", JObj [(bs "l", JArr [JInt 0])])] in
  let p := bs "/a~1b/l/3" in
  set_guard t p = true /\ stg_guard t p (JInt 7) = true /\ is_append_site t p = false /\
  ptr_set room t p (JInt 7) = SOk (JObj [(bs "a/b", JObj [(bs "l", JArr [JInt 0; JNull; JNull; JInt 7])])]) /\
  spec_set t p (JInt 7) = Some (JObj [(bs "a/b", JObj [(bs "l", JArr [JInt 0; JNull; JNull; JInt 7])])]) /\
  set_loc t p = Some [inl (bs "a/b"); inl (bs "l"); inr 3].
Proof. exact set_example. Qed.
Print Assumptions C12_nonvacuous_set.

Theorem C12_nonvacuous_index_edges :
  ptr_set room (JArr [JInt 0]) (bs "/99999999999999999999999") (JInt 1) = SErr ERANGE /\
  ptr_get (JArr [JInt 0]) (bs "/99999999999999999999999") = GErr ENOENT /\
  ptr_get (JArr [JInt 0]) (bs "/01") = GErr EINVAL /\
  ptr_get (JArr [JInt 0]) (bs "/-") = GErr EINVAL /\
  ptr_get (JArr [JInt 0]) (bs "/1") = GErr ENOENT /\
  ptr_get (JArr [JInt 0]) (bs "0") = GErr EINVAL.
Proof. exact set_saturated_index_example. Qed.
Print Assumptions C12_nonvacuous_index_edges.
