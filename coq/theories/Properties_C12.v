(* Properties_C12.v — statements only.  C12: JSON Pointer get/set resolve exactly per RFC 6901.

   Model  PtrModel.v  json_pointer.c as written;   Spec  PtrSpec.v  RFC 6901 from the RFC.
   Node identity = location (list of steps from the root; inl member-name | inr index).

   All statements are at full strength.  The four deviations of the original code (JSON null
   array element not a target; empty token taken for index 0; last token of set not
   unescaped; '~' escapes unchecked) were repaired in /repo (known_findings.json, status
   fixed); their former witnesses are kept below as examples of the repaired behaviour.

   The only side condition is the representation bound of the C array ([get_repr] /
   [set_repr]: the arrays the walk passes are no longer than SIZE_MAX, which every json-c
   array satisfies — its length is a size_t, and an index token is saturated there). *)
From Coq Require Import String.    (* only for the literals of the examples: bs "…" *)
From JC Require Import Base Value PtrSpec PtrModel PtrProofs.
Local Open Scope Z_scope.

(* ---- unescaping: the code's two in-place passes = the RFC's single pass, all byte strings *)
Theorem C12_unescape_two_pass_eq_single : forall s : list byte, unescape_in_place s = unescape s.
Proof. exact unescape_two_pass_eq_single. Qed.
Print Assumptions C12_unescape_two_pass_eq_single.

(* is_valid_escaping (one byte at a time) = the RFC's reference-token syntax *)
Theorem C12_is_valid_escaping_ok : forall s : list byte, is_valid_escaping s = escapes_ok s.
Proof. exact is_valid_escaping_ok. Qed.
Print Assumptions C12_is_valid_escaping_ok.

(* ---- lookup: for every tree (not the NULL pointer: json_pointer_get's documented domain) and
   every pointer string, lookup = RFC 6901 evaluation (same location, same node), else
   ENOENT / EINVAL *)
Theorem C12_get_conforms : forall t p,
  t <> JNull -> get_repr t p = true ->
  match ptr_get t p with
  | GOk path n => spec_get t p = Some (path, n)
  | GErr e => spec_get t p = None /\ (e = ENOENT \/ e = EINVAL)
  end.
Proof. exact get_conforms. Qed.
Print Assumptions C12_get_conforms.

Theorem C12_get_returns_node_at_path : forall t p path n,
  ptr_get t p = GOk path n -> node_at t path = Some n.
Proof. exact get_returns_node_at_path. Qed.
Print Assumptions C12_get_returns_node_at_path.

Theorem C12_get_fails_enoent_einval : forall t p e, ptr_get t p = GErr e -> e = ENOENT \/ e = EINVAL.
Proof. exact get_fails_enoent_einval. Qed.
Print Assumptions C12_get_fails_enoent_einval.

(* json_pointer_get is json_pointer_get_internal (used by json_patch.c) without the parent part *)
Theorem C12_get_internal_get : forall t p,
  match ptr_get_internal t p with
  | GIOk r => ptr_get t p = GOk (r_path r) (r_obj r)
  | GIErr e => ptr_get t p = GErr e
  end.
Proof. exact get_internal_get. Qed.
Print Assumptions C12_get_internal_get.

(* ---- a failed call changes nothing the caller can see *)
(* a lookup, and a failed set, leave the tree as it was; a failed set leaves the root handle *)
Theorem C12_get_no_side_effect : forall al t o t' obs,
  ptr_step al t o = (t', obs) ->
  match o, obs with
  | OGet _ _, _ | OGetf _ _, _ => t' = t
  | _, ObsSet (Some _) root_new => t' = t /\ root_new = false
  | _, _ => True
  end.
Proof. exact get_no_side_effect. Qed.
Print Assumptions C12_get_no_side_effect.

(* the out-parameter `res` of get / getf ([ptr_get_out] / [ptr_getf_out]: the result and the
   caller's variable afterwards; None = res == NULL): a failing lookup leaves it exactly as
   it was, a successful one stores the node found *)
Theorem C12_get_failure_keeps_res : forall t p res e res',
  ptr_get_out t p res = (GErr e, res') -> res' = res.
Proof. exact get_failure_keeps_res. Qed.
Print Assumptions C12_get_failure_keeps_res.

Theorem C12_getf_failure_keeps_res : forall t out res e res',
  ptr_getf_out t out res = (GErr e, res') -> res' = res.
Proof. exact getf_failure_keeps_res. Qed.
Print Assumptions C12_getf_failure_keeps_res.

Theorem C12_get_success_stores_node : forall t p res path n res',
  ptr_get_out t p res = (GOk path n, res') ->
  res' = match res with Some _ => Some (RNode path n) | None => None end /\ node_at t path = Some n.
Proof. exact get_success_stores_node. Qed.
Print Assumptions C12_get_success_stores_node.

Theorem C12_getf_success_stores_node : forall t out res path n res',
  ptr_getf_out t out res = (GOk path n, res') ->
  res' = match res with Some _ => Some (RNode path n) | None => None end.
Proof. exact getf_success_stores_node. Qed.
Print Assumptions C12_getf_success_stores_node.

(* return code, errno and node of the calls with an out-parameter are those of ptr_get / ptr_getf *)
Theorem C12_get_out_result : forall t p res, fst (ptr_get_out t p res) = ptr_get t p.
Proof. exact get_out_result. Qed.
Print Assumptions C12_get_out_result.

Theorem C12_getf_out_result : forall t out res, fst (ptr_getf_out t out res) = ptr_getf t out.
Proof. exact getf_out_result. Qed.
Print Assumptions C12_getf_out_result.

(* the root handle `*obj` of set changes only through the pointer "", which cannot fail *)
Theorem C12_set_root_handle : forall al t p v,
  match ptr_set al t p v with
  | SErr _ => True
  | SOk t' => if root_replaced t p v then p = [] /\ t' = v else (p = [] -> t' = t)
  end.
Proof. exact set_root_handle. Qed.
Print Assumptions C12_set_root_handle.

(* ---- set = RFC placement (member named by the unescaped last token, array index, append for
   "-"); besides the RFC's own failures it may only fail for lack of room in an array *)
Theorem C12_set_places_exactly : forall al t p v,
  set_repr t p = true ->
  match ptr_set al t p v with
  | SOk t' => spec_set t p v = Some t'
  | SErr e => (spec_set t p v = None /\ (e = ENOENT \/ e = EINVAL)) \/ no_room al e
  end.
Proof. exact set_places_exactly. Qed.
Print Assumptions C12_set_places_exactly.

(* set changes nothing else: the value sits at the location the code computed, and every
   location neither above nor below it holds what it held before; the only new locations are
   the JSON null padding of an array extended up to the index *)
Theorem C12_set_frame : forall al t p v t',
  ptr_set al t p v = SOk t' ->
  exists site, set_loc t p = Some site /\ node_at t' site = Some v /\
    forall q, incomparable q site -> forall n,
      (node_at t q = Some n -> node_at t' q = Some n) /\
      (node_at t' q = Some n -> node_at t q = Some n \/ pad_slot t site q n).
Proof. exact set_frame. Qed.
Print Assumptions C12_set_frame.

(* a following lookup of the same pointer returns the value just set (the "-" token appends
   and is by RFC 6901 never a lookup target; the tree handed to get must not be the NULL
   pointer, which only set("", null) produces) *)
Theorem C12_set_then_get : forall al t p v t',
  ptr_set al t p v = SOk t' -> t' <> JNull -> is_append_site t p = false ->
  exists path, ptr_get t' p = GOk path v /\ node_at t' path = Some v.
Proof. exact set_then_get. Qed.
Print Assumptions C12_set_then_get.

(* ---- printf-style variants: the plain functions on the formatted string, for every
   formatting oracle *)
Theorem C12_getf_as_plain : forall (fmt args : Type) (vasprintf : fmt -> args -> option (list byte)) t f a out,
  vasprintf f a = Some out -> ptr_getf t (vasprintf f a) = ptr_get t out.
Proof. exact getf_as_plain. Qed.
Print Assumptions C12_getf_as_plain.

Theorem C12_setf_as_plain : forall (fmt args : Type) (vasprintf : fmt -> args -> option (list byte)) al t f a out v,
  vasprintf f a = Some out -> ptr_setf al t (vasprintf f a) v = ptr_set al t out v.
Proof. exact setf_as_plain. Qed.
Print Assumptions C12_setf_as_plain.

(* ---- non-vacuity.  First the four former defect witnesses, now conforming. *)
Theorem C12_example_null_element_is_target :
  let t := JObj [(bs "a", JArr [JNull])] in
  get_repr t (bs "/a/0") = true /\
  ptr_get t (bs "/a/0") = GOk [inl (bs "a"); inr 0] JNull /\
  spec_get t (bs "/a/0") = Some ([inl (bs "a"); inr 0], JNull) /\
  ptr_set room (JArr [JInt 1]) (bs "/0") JNull = SOk (JArr [JNull]) /\
  ptr_get (JArr [JNull]) (bs "/0") = GOk [inr 0] JNull.
Proof. exact null_element_is_target. Qed.
Print Assumptions C12_example_null_element_is_target.

Theorem C12_example_empty_token_is_no_index :
  let t := JObj [(bs "a", JArr [JInt 7])] in
  ptr_get t (bs "/a/") = GErr EINVAL /\ spec_get t (bs "/a/") = None /\
  ptr_set room t (bs "/a/") (JInt 9) = SErr EINVAL /\ spec_set t (bs "/a/") (JInt 9) = None /\
  ptr_set room (JObj []) (bs "/") (JInt 9) = SOk (JObj [(bs "", JInt 9)]).
Proof. exact empty_token_is_no_index. Qed.
Print Assumptions C12_example_empty_token_is_no_index.

Theorem C12_example_set_unescapes_last_token :
  ptr_set room (JObj []) (bs "/x~1y") (JInt 1) = SOk (JObj [(bs "x/y", JInt 1)]) /\
  spec_set (JObj []) (bs "/x~1y") (JInt 1) = Some (JObj [(bs "x/y", JInt 1)]) /\
  ptr_get (JObj [(bs "x/y", JInt 1)]) (bs "/x~1y") = GOk [inl (bs "x/y")] (JInt 1) /\
  ptr_set room (JObj [(bs "m~n", JInt 8)]) (bs "/m~0n") (JInt 9) = SOk (JObj [(bs "m~n", JInt 9)]).
Proof. exact set_unescapes_last_token. Qed.
Print Assumptions C12_example_set_unescapes_last_token.

Theorem C12_example_invalid_escape_is_rejected :
  let t := JObj [(bs "~2", JInt 1)] in
  ptr_get t (bs "/~2") = GErr EINVAL /\ spec_get t (bs "/~2") = None /\
  ptr_get t (bs "/~02") = GOk [inl (bs "~2")] (JInt 1) /\
  ptr_set room (JObj []) (bs "/b~") (JInt 5) = SErr EINVAL /\ spec_set (JObj []) (bs "/b~") (JInt 5) = None.
Proof. exact invalid_escape_is_rejected. Qed.
Print Assumptions C12_example_invalid_escape_is_rejected.

(* the RFC's own example document and its twelve pointers resolve, model = spec; a set with an
   escaped inner token and an index beyond the end; the index edge cases (saturation /
   ERANGE, leading zero, "-", index = length, no leading '/') *)
Theorem C12_nonvacuous_rfc_examples : forallb rfc_case_ok rfc_cases = true.
Proof. exact rfc_examples_hold. Qed.
Print Assumptions C12_nonvacuous_rfc_examples.

Theorem C12_nonvacuous_set :
  let t := JObj [(bs "a/b", JObj [(bs "l", JArr [JInt 0])])] in
  let p := bs "/a~1b/l/3" in
  set_repr t p = true /\ is_append_site t p = false /\
  ptr_set room t p (JInt 7) = SOk (JObj [(bs "a/b", JObj [(bs "l", JArr [JInt 0; JNull; JNull; JInt 7])])]) /\
  spec_set t p (JInt 7) = Some (JObj [(bs "a/b", JObj [(bs "l", JArr [JInt 0; JNull; JNull; JInt 7])])]) /\
  set_loc t p = Some [inl (bs "a/b"); inl (bs "l"); inr 3].
Proof. exact set_example. Qed.
Print Assumptions C12_nonvacuous_set.

Theorem C12_nonvacuous_index_edges :
  ptr_set room (JArr [JInt 0]) (bs "/99999999999999999999999") (JInt 1) = SErr ERANGE /\
  ptr_get (JArr [JInt 0]) (bs "/99999999999999999999999") = GErr ENOENT /\
  ptr_get (JArr [JInt 0]) (bs "/01") = GErr EINVAL /\
  ptr_get (JArr [JInt 0]) (bs "/-") = GErr EINVAL /\
  ptr_get (JArr [JInt 0]) (bs "/1") = GErr ENOENT /\
  ptr_get (JArr [JInt 0]) (bs "0") = GErr EINVAL.
Proof. exact set_saturated_index_example. Qed.
Print Assumptions C12_nonvacuous_index_edges.
