(* TokStrictPos.v — C16: positions inside a valid RFC 8259 document and the configuration the
   parser (either mode) is in when it gets there.  A position is described by the valid
   text to its left; nothing is assumed about the text to its right. *)
From JC Require Import Base BaseLemmas Value TokModel TokProofs TokSyntax
  TokValidBase TokValidLit TokValidNum TokValidStr TokValidObj TokValid TokDepth.
Local Open Scope Z_scope.

(* ---------------------------------------------------------------- value positions *)
(* where a value may start: the top level after leading blanks; inside an array after the
   complete elements [pre] (each followed by its comma) and blanks; inside an object after
   complete members, blanks, a name, blanks, the colon, blanks *)
Inductive vpos :=
| VTop (lead : ws)
| VArr (p : vpos) (pre : list (ws * stx * ws)) (a : ws)
| VObj (p : vpos) (pre : list mem) (a : ws) (k : list schar) (b cw : ws).

Definition pre_elems (pre : list (ws * stx * ws)) : list byte := flat_map (fun x => render_el x ++ [44]) pre.
Definition pre_mems (pre : list mem) : list byte := flat_map (fun m => render_mem m ++ [44]) pre.

Fixpoint render_vpos (p : vpos) : list byte :=
  match p with
  | VTop lead => lead
  | VArr p pre a => render_vpos p ++ 91 :: pre_elems pre ++ a
  | VObj p pre a k b cw => render_vpos p ++ 123 :: pre_mems pre ++ a ++ render_str k ++ b ++ 58 :: cw
  end.
Fixpoint vdepth (p : vpos) : nat :=
  match p with VTop _ => 0%nat | VArr p _ _ => S (vdepth p) | VObj p _ _ _ _ _ => S (vdepth p) end.

Definition good_stx (s : stx) : bool := wf_stxb s && ints_in_range s && names_nul_free s.
Definition good_el (x : ws * stx * ws) : bool := el_ok x && good_stx (el_val x).
Definition good_mem (m : mem) : bool := mem_ok m && good_stx (m_val m) && negb (has_byte 0 (decode (m_name m))).

Fixpoint vgood (p : vpos) : bool :=
  match p with
  | VTop lead => all_ws lead
  | VArr p pre a => vgood p && forallb good_el pre && all_ws a
  | VObj p pre a k b cw =>
      vgood p && forallb good_mem pre && all_ws a && wf_chars k && all_ws b && all_ws cw && negb (has_byte 0 (decode k))
  end.
(* every level on the way exists and every complete element to the left fits *)
Fixpoint vfit (md : Z) (p : vpos) : bool :=
  match p with
  | VTop _ => true
  | VArr p pre _ =>
      vfit md p && (Z.of_nat (vdepth p) + 1 <? md) &&
      forallb (fun x => Z.of_nat (vdepth p) + 1 + Z.of_nat (nest (el_val x)) <? md) pre
  | VObj p pre _ _ _ _ =>
      vfit md p && (Z.of_nat (vdepth p) + 1 <? md) &&
      forallb (fun m => Z.of_nat (vdepth p) + 1 + Z.of_nat (nest (m_val m)) <? md) pre
  end.

(* the levels below the one in which the value at the position will be read *)
Inductive pframe := PA (svs : tstate) (acc : list jv) | PO (acc : list (list byte * jv)) (key : list byte).
Definition frame_rec (fr : pframe) : srec :=
  match fr with
  | PA svs acc => mksrec S_array_add svs (JArr acc) None
  | PO acc key => mksrec S_object_value_add S_object_value (JObj acc) (Some key)
  end.
Definition frames_ok (frs : list pframe) : Prop :=
  Forall (fun fr => match fr with PA svs _ => svs = S_array \/ svs = S_array_after_sep | PO _ _ => True end) frs.

(* the configuration just before the first byte of the value is dispatched *)
Definition vp_shape (p : vpos) (stk : list srec) : Prop :=
  match p with
  | VTop _ => stk = [fresh_level]
  | VArr p pre _ =>
      exists acc frs, stk = mksrec S_eatws (if is_nil pre then S_array else S_array_after_sep) (JArr acc) None :: map frame_rec frs /\
                      zlen frs = Z.of_nat (vdepth p) /\ frames_ok frs
  | VObj p _ _ k _ _ =>
      exists acc frs, stk = mksrec S_eatws S_object_value (JObj acc) (Some (decode k)) :: map frame_rec frs /\
                      zlen frs = Z.of_nat (vdepth p) /\ frames_ok frs
  end.

Lemma good_stx_facts s : good_stx s = true -> wf_stx s /\ ints_in_range s = true /\ names_nul_free s = true.
Proof. unfold good_stx, wf_stx. intros H. apply andb_true_iff in H. destruct H as [H H3]. apply andb_true_iff in H. tauto. Qed.

Section S.
Variable sb : list byte -> Z.
Variable c : cf.

Lemma good_val_ok s : good_stx s = true -> val_ok sb c s.
Proof. intros H. destruct (good_stx_facts s H) as (H1 & H2 & H3). apply value_ok; auto. apply covered_all. Qed.

(* ---------------------------------------------------------------- complete elements to the left *)
Lemma arr_pre_run pre : forall f svs acc below g off x nb lo more,
  forallb good_el pre = true ->
  forallb (fun x => zlen below + 1 + Z.of_nat (nest (el_val x)) <? c_md c) pre = true ->
  (svs = S_array \/ svs = S_array_after_sep) -> (8 <= f)%nat ->
  exists acc' f' g' off' x' lo', (8 <= f')%nat /\
  run_f sb f (pre_elems pre ++ more) (T c (mksrec S_eatws svs (JArr acc) None :: below) g 0 off) (mkloc x nb lo None) =
  run_f sb f' more (T c (mksrec S_eatws (if is_nil pre then svs else S_array_after_sep) (JArr acc') None :: below) g' 0 off') (mkloc x' nb lo' None).
Proof.
  induction pre as [|[[a e] b] r IH]; intros f svs acc below g off x nb lo more Hg Hd Hs Hf.
  - exists acc, f, g, off, x, lo. split; [exact Hf|]. reflexivity.
  - cbn [forallb] in Hg, Hd. apply andb_true_iff in Hg. destruct Hg as [Hge Hgr]. apply andb_true_iff in Hd. destruct Hd as [Hde Hdr].
    unfold good_el in Hge. apply andb_true_iff in Hge. destruct Hge as [Hok Hgood]. unfold el_val in Hgood, Hde. cbn [fst snd] in Hgood, Hde.
    cbn [el_ok] in Hok. apply andb_true_iff in Hok. destruct Hok as [Hok Hwb]. apply andb_true_iff in Hok. destruct Hok as [Hwa Hwe].
    change (pre_elems ((a, e, b) :: r)) with ((render_el (a, e, b) ++ [44]) ++ pre_elems r). rewrite <- !app_assoc. cbn [app].
    destruct (arr_elem_comma sb c a e b svs acc below g off x nb lo f (pre_elems r ++ more) (good_val_ok e Hgood) Hwa Hwe Hwb Hs Hf ltac:(lia))
      as (g1 & off1 & lo1 & ->).
    destruct (IH REDO_FUEL S_array_after_sep (acc ++ [value sb e]) below g1 off1 44 nb lo1 more Hgr Hdr ltac:(auto) ltac:(unfold REDO_FUEL; lia))
      as (acc' & f' & g' & off' & x' & lo' & Hf' & ->).
    exists acc', f', g', off', x', lo'. split; [exact Hf'|]. cbn [is_nil]. destruct (is_nil r); reflexivity.
Qed.

Lemma obj_pre_run pre : forall f svs acc below g off x nb lo more,
  forallb good_mem pre = true ->
  forallb (fun m => zlen below + 1 + Z.of_nat (nest (m_val m)) <? c_md c) pre = true ->
  (svs = S_object_field_start \/ svs = S_object_field_start_after_sep) -> (8 <= f)%nat ->
  exists acc' f' g' off' x' lo', (8 <= f')%nat /\
  run_f sb f (pre_mems pre ++ more) (T c (mksrec S_eatws svs (JObj acc) None :: below) g 0 off) (mkloc x nb lo None) =
  run_f sb f' more (T c (mksrec S_eatws (if is_nil pre then svs else S_object_field_start_after_sep) (JObj acc') None :: below) g' 0 off') (mkloc x' nb lo' None).
Proof.
  induction pre as [|[[[[[a k] b] cw] v] d] r IH]; intros f svs acc below g off x nb lo more Hg Hd Hs Hf.
  - exists acc, f, g, off, x, lo. split; [exact Hf|]. reflexivity.
  - cbn [forallb] in Hg, Hd. apply andb_true_iff in Hg. destruct Hg as [Hge Hgr]. apply andb_true_iff in Hd. destruct Hd as [Hde Hdr].
    unfold good_mem in Hge. apply andb_true_iff in Hge. destruct Hge as [Hge Hnk]. apply andb_true_iff in Hge. destruct Hge as [Hok Hgood].
    unfold m_val, m_name in Hgood, Hde, Hnk. cbn [fst snd] in Hgood, Hde, Hnk.
    assert (Hnk' : has_byte 0 (decode k) = false) by (destruct (has_byte 0 (decode k)); [discriminate|reflexivity]).
    change (pre_mems ((a, k, b, cw, v, d) :: r)) with ((render_mem (a, k, b, cw, v, d) ++ [44]) ++ pre_mems r). rewrite <- !app_assoc. cbn [app].
    destruct (obj_mem_comma sb c a k b cw v d svs acc below g off x nb lo f (pre_mems r ++ more) (good_val_ok v Hgood) Hok Hnk' Hs Hf ltac:(lia))
      as (acc1 & g1 & off1 & lo1 & ->).
    destruct (IH REDO_FUEL S_object_field_start_after_sep acc1 below g1 off1 44 nb lo1 more Hgr Hdr ltac:(auto) ltac:(unfold REDO_FUEL; lia))
      as (acc' & f' & g' & off' & x' & lo' & Hf' & ->).
    exists acc', f', g', off', x', lo'. split; [exact Hf'|]. cbn [is_nil]. destruct (is_nil r); reflexivity.
Qed.

(* ---------------------------------------------------------------- entering the level of the value *)
Lemma vp_enter p stk : vp_shape p stk -> Z.of_nat (vdepth p) < c_md c ->
  forall f g off x nb lo x0 more, (8 <= f)%nat -> vfirst x0 = true ->
  exists frs f' x', (4 <= f')%nat /\ zlen frs = Z.of_nat (vdepth p) /\ frames_ok frs /\
    run_f sb f (x0 :: more) (T c stk g 0 off) (mkloc x nb lo None) =
    run_f sb f' (x0 :: more) (T c (fresh_level :: map frame_rec frs) g 0 off) (mkloc x' nb lo None).
Proof.
  intros Hsh Hd f g off x nb lo x0 more Hf Hx0. destruct p as [lead|p pre a|p pre a k b cw]; cbn [vp_shape vdepth] in *.
  - subst stk. exists [], f, x. split; [lia|]. split; [reflexivity|]. split; [constructor|]. reflexivity.
  - destruct Hsh as (acc & frs & -> & Hz & Hok). fuel f.
    exists (PA (if is_nil pre then S_array else S_array_after_sep) acc :: frs), (S (S (S (S (S (S f)))))), x0.
    split; [lia|]. split; [cbn [zlen]; lia|]. split; [constructor; [destruct (is_nil pre); auto|exact Hok]|].
    rewrite push_step; [|destruct (is_nil pre); auto|exact Hx0|rewrite zlen_map; lia].
    cbn [map frame_rec]. destruct (is_nil pre); reflexivity.
  - destruct Hsh as (acc & frs & -> & Hz & Hok). fuel f.
    exists (PO acc (decode k) :: frs), (S (S (S (S (S (S f)))))), x0.
    split; [lia|]. split; [cbn [zlen]; lia|]. split; [constructor; [exact I|exact Hok]|].
    rewrite push_step; [|auto|exact Hx0|rewrite zlen_map; lia]. reflexivity.
Qed.

(* ---------------------------------------------------------------- reaching a value position *)
Lemma vpos_pre p : vgood p = true -> vfit (c_md c) p = true -> 1 <= c_md c ->
  forall f g x nb lo more, (8 <= f)%nat ->
  exists stk f' g' off' x' lo', (8 <= f')%nat /\ vp_shape p stk /\
    run_f sb f (render_vpos p ++ more) (T c [fresh_level] g 0 0) (mkloc x nb lo None) =
    run_f sb f' more (T c stk g' 0 off') (mkloc x' nb lo' None).
Proof.
  intros Hg Hfit Hmd. induction p as [lead|p IH pre a|p IH pre a k b cw]; intros f g x nb lo more Hf.
  - cbn [vgood render_vpos] in *.
    destruct (run_ws sb c lead f S_start JNull None [] g 0 0 x nb lo None more Hf Hg) as (f' & x' & Hf' & E).
    exists [fresh_level], f', g, (0 + zlen lead), x', lo. split; [exact Hf'|]. split; [reflexivity|]. exact E.
  - cbn [vgood vfit render_vpos] in *.
    apply andb_true_iff in Hg. destruct Hg as [Hg Hwa]. apply andb_true_iff in Hg. destruct Hg as [Hgp Hgpre].
    apply andb_true_iff in Hfit. destruct Hfit as [Hfit Hfpre]. apply andb_true_iff in Hfit. destruct Hfit as [Hfp Hroom].
    rewrite <- app_assoc. cbn [app].
    destruct (IH Hgp Hfp f g x nb lo (91 :: (pre_elems pre ++ a) ++ more) Hf) as (stk & f1 & g1 & off1 & x1 & lo1 & Hf1 & Hsh & ->).
    destruct (vp_enter p stk Hsh ltac:(lia) f1 g1 off1 x1 nb lo1 91 ((pre_elems pre ++ a) ++ more) Hf1 eq_refl)
      as (frs & f2 & x2 & Hf2 & Hz & Hok & ->).
    assert (E1 : exists g3, run_f sb f2 (91 :: (pre_elems pre ++ a) ++ more) (T c (fresh_level :: map frame_rec frs) g1 0 off1) (mkloc x2 nb lo1 None) =
                 run_f sb REDO_FUEL ((pre_elems pre ++ a) ++ more) (T c (mksrec S_eatws S_array (JArr []) None :: map frame_rec frs) g3 0 (off1 + 1)) (mkloc 91 nb lo1 None)).
    { clear - Hf2. fuel f2. destruct c as [md sf al]. destruct g1 as [p0 d0 s0 u0 q0]. eexists (mkgb _ _ _ _ _).
      destruct sf; stepC; reflexivity. }
    destruct E1 as (g3 & ->). rewrite <- app_assoc.
    destruct (arr_pre_run pre REDO_FUEL S_array [] (map frame_rec frs) g3 (off1 + 1) 91 nb lo1 (a ++ more) Hgpre)
      as (acc' & f4 & g4 & off4 & x4 & lo4 & Hf4 & ->); [rewrite zlen_map, Hz; exact Hfpre|auto|unfold REDO_FUEL; lia|].
    destruct (run_ws sb c a f4 (if is_nil pre then S_array else S_array_after_sep) (JArr acc') None (map frame_rec frs) g4 0 off4 x4 nb lo4 None more Hf4 Hwa)
      as (f5 & x5 & Hf5 & ->).
    eexists _, f5, g4, _, x5, lo4. split; [exact Hf5|]. split; [|reflexivity].
    exists acc', frs. split; [reflexivity|]. split; [exact Hz|exact Hok].
  - cbn [vgood vfit render_vpos] in *.
    apply andb_true_iff in Hg. destruct Hg as [Hg Hnk]. apply andb_true_iff in Hg. destruct Hg as [Hg Hwc].
    apply andb_true_iff in Hg. destruct Hg as [Hg Hwb]. apply andb_true_iff in Hg. destruct Hg as [Hg Hwk].
    apply andb_true_iff in Hg. destruct Hg as [Hg Hwa]. apply andb_true_iff in Hg. destruct Hg as [Hgp Hgpre].
    apply andb_true_iff in Hfit. destruct Hfit as [Hfit Hfpre]. apply andb_true_iff in Hfit. destruct Hfit as [Hfp Hroom].
    assert (Hnk' : has_byte 0 (decode k) = false) by (destruct (has_byte 0 (decode k)); [discriminate|reflexivity]).
    rewrite <- app_assoc. cbn [app].
    set (tailm := (pre_mems pre ++ a ++ render_str k ++ b ++ 58 :: cw) ++ more).
    destruct (IH Hgp Hfp f g x nb lo (123 :: tailm) Hf) as (stk & f1 & g1 & off1 & x1 & lo1 & Hf1 & Hsh & ->).
    destruct (vp_enter p stk Hsh ltac:(lia) f1 g1 off1 x1 nb lo1 123 tailm Hf1 eq_refl)
      as (frs & f2 & x2 & Hf2 & Hz & Hok & ->).
    assert (E1 : exists g3, run_f sb f2 (123 :: tailm) (T c (fresh_level :: map frame_rec frs) g1 0 off1) (mkloc x2 nb lo1 None) =
                 run_f sb REDO_FUEL tailm (T c (mksrec S_eatws S_object_field_start (JObj []) None :: map frame_rec frs) g3 0 (off1 + 1)) (mkloc 123 nb lo1 None)).
    { clear - Hf2. fuel f2. destruct c as [md sf al]. destruct g1 as [p0 d0 s0 u0 q0]. eexists (mkgb _ _ _ _ _).
      destruct sf; stepC; reflexivity. }
    destruct E1 as (g3 & ->). subst tailm. rewrite <- app_assoc.
    destruct (obj_pre_run pre REDO_FUEL S_object_field_start [] (map frame_rec frs) g3 (off1 + 1) 123 nb lo1 ((a ++ render_str k ++ b ++ 58 :: cw) ++ more) Hgpre)
      as (acc' & f4 & g4 & off4 & x4 & lo4 & Hf4 & ->); [rewrite zlen_map, Hz; exact Hfpre|auto|unfold REDO_FUEL; lia|].
    replace ((a ++ render_str k ++ b ++ 58 :: cw) ++ more) with (a ++ render_str k ++ b ++ 58 :: cw ++ more)
      by (repeat (rewrite <- ?app_assoc; cbn [app]; rewrite <- ?app_comm_cons); reflexivity).
    destruct (obj_mem_prefix sb c a k b cw acc' (if is_nil pre then S_object_field_start else S_object_field_start_after_sep)
                (map frame_rec frs) g4 off4 x4 nb lo4 f4 more Hwa Hwk Hwb Hwc Hnk' ltac:(destruct (is_nil pre); auto) Hf4)
      as (f5 & g5 & off5 & x5 & Hf5 & ->).
    eexists _, f5, g5, off5, x5, lo4. split; [exact Hf5|]. split; [|reflexivity].
    exists acc', frs. split; [reflexivity|]. split; [exact Hz|exact Hok].
Qed.

(* ... and the level in which the value is read *)
Lemma vpos_enter p : vgood p = true -> vfit (c_md c) p = true -> Z.of_nat (vdepth p) < c_md c ->
  forall f g x nb lo x0 more, (8 <= f)%nat -> vfirst x0 = true ->
  exists frs f' g' off' x' lo', (4 <= f')%nat /\ zlen frs = Z.of_nat (vdepth p) /\ frames_ok frs /\
    run_f sb f (render_vpos p ++ x0 :: more) (T c [fresh_level] g 0 0) (mkloc x nb lo None) =
    run_f sb f' (x0 :: more) (T c (fresh_level :: map frame_rec frs) g' 0 off') (mkloc x' nb lo' None).
Proof.
  intros Hg Hfit Hd f g x nb lo x0 more Hf Hx0.
  destruct (vpos_pre p Hg Hfit ltac:(lia) f g x nb lo (x0 :: more) Hf) as (stk & f1 & g1 & off1 & x1 & lo1 & Hf1 & Hsh & ->).
  destruct (vp_enter p stk Hsh Hd f1 g1 off1 x1 nb lo1 x0 more Hf1 Hx0) as (frs & f2 & x2 & Hf2 & Hz & Hok & ->).
  exists frs, f2, g1, off1, x2, lo1. auto.
Qed.

End S.
