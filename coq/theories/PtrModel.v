(* PtrModel.v — json_pointer.c as written (C12), on [jv] trees and byte-string pointers.
   No proofs here.

   Node identity.  A json-c node is a heap address; in a tree every node other than JSON
   null (the NULL pointer) has exactly one location, so the model names a node by its
   location: the list of steps from the root ([inl key] = object member, [inr i] = array
   element).  [ptr_get] returns the location together with the node found there.

   Pointer strings are C strings: byte lists without 0 (the drivers never send a 0).

   The four defects recorded in DESIGN.md section 5 (C12) were repaired in json_pointer.c
   (a JSON null array element is a valid target; the empty token is not an index; set
   unescapes the last token; '~' must be followed by '0' or '1' — is_valid_escaping); this
   file follows the repaired code. *)
From JC Require Import Base Value.
Local Open Scope Z_scope.

Definition step := (list byte + Z)%type.
Definition loc := list step.

(* ---------------------------------------------------------------- strings *)

(* string_replace_all_occurrences_with_char(s, occur, repl) for a two-byte [occur] = o1 o2
   (the only use).  strstr finds the leftmost occurrence at or after p; its first byte is
   overwritten with [repl], the tail is moved down by one, and the scan resumes after the
   replacement byte (which is therefore never rescanned). *)
Fixpoint replace_all2 (o1 o2 repl : byte) (s : list byte) : list byte :=
  match s with
  | [] => []
  | x :: t =>
      match t with
      | y :: u => if (x =? o1) && (y =? o2) then repl :: replace_all2 o1 o2 repl u
                  else x :: replace_all2 o1 o2 repl t
      | [] => [x]
      end
  end.

(* "RFC states that we first must eval all ~1 then all ~0": '~' = 126, '0' = 48, '1' = 49, '/' = 47 *)
Definition unescape_in_place (tok : list byte) : list byte :=
  replace_all2 126 48 126 (replace_all2 126 49 47 tok).

(* the recursion of json_pointer_result_get_recursive cuts the string at each '/' (strchr);
   [split_slash s] are the reference tokens of "/" ++ s, never an empty list *)
Fixpoint split_slash (s : list byte) : list (list byte) :=
  match s with
  | [] => [[]]
  | c :: t =>
      if c =? 47 then [] :: split_slash t
      else match split_slash t with
           | tok :: r => (c :: tok) :: r
           | [] => [[c]]
           end
  end.

(* ---------------------------------------------------------------- is_valid_index *)

Definition is_plain_digit (c : byte) : bool := (48 <=? c) && (c <=? 57).

Fixpoint dec_acc (acc : Z) (s : list byte) : Z :=
  match s with [] => acc | c :: t => dec_acc (acc * 10 + (c - 48)) t end.

(* strtoull(s, NULL, 10) on a string of digits (or the empty string): the value, saturated
   at ULLONG_MAX; the flag says that errno was set to ERANGE *)
Definition strtoull10 (s : list byte) : Z * bool :=
  let v := dec_acc 0 s in
  if v >? UINT64_MAX then (UINT64_MAX, true) else (v, false).

Inductive ires :=
| IOk (idx : Z) (erange : bool)     (* returns 1, *idx = idx; erange: errno = ERANGE was set on the way *)
| IErr (e : errno).                 (* returns 0, errno = e *)

Definition is_valid_index (tok : list byte) : ires :=
  if zlen tok =? 1 then
    match tok with
    | c :: _ => if is_plain_digit c then IOk (c - 48) false else IErr EINVAL
    | [] => IErr EINVAL
    end
  else if zlen tok =? 0 then IErr EINVAL             (* the empty token is not an array index *)
  else if hd 0 tok =? 48 then IErr EINVAL            (* path[0] == '0' *)
  else if negb (forallb is_plain_digit tok) then IErr EINVAL
  else let '(v, sat) := strtoull10 tok in IOk v sat.

(* ---------------------------------------------------------------- containers *)

(* json_object_object_get_ex: Some = found (the value may be JNull) *)
Fixpoint object_get (ms : list (list byte * jv)) (k : list byte) : option jv :=
  match ms with
  | [] => None
  | (k', v) :: r => if bytes_eqb k' k then Some v else object_get r k
  end.

(* json_object_object_add: an existing member keeps its place and gets the new value, a new
   one goes last.  (Key copy / table growth failures belong to C08, not modelled here.) *)
Fixpoint object_add (ms : list (list byte * jv)) (k : list byte) (v : jv) : list (list byte * jv) :=
  match ms with
  | [] => [(k, v)]
  | (k', v') :: r => if bytes_eqb k' k then (k', v) :: r else (k', v') :: object_add r k v
  end.

Fixpoint list_set {A} (l : list A) (n : nat) (x : A) : list A :=
  match l, n with
  | [], _ => []
  | _ :: t, O => x :: t
  | h :: t, S m => h :: list_set t m x
  end.

(* array_list_put_idx on the contents: replace, or extend with NULL slots up to idx *)
Definition array_put (l : list jv) (idx : Z) (v : jv) : list jv :=
  if idx <? zlen l then list_set l (Z.to_nat idx) v
  else l ++ zrepeat JNull (idx - zlen l) ++ [v].

(* allocator oracle: can an array be made to hold [n] slots? *)
Definition alloc := Z -> bool.

Inductive ares :=
| AOk (l : list jv)
| AFail (e : option errno).          (* returns -1; None: errno is left as it was *)

(* the array callback of json_pointer_set_with_array_cb (json_patch.c passes an inserting one) *)
Definition array_cb := alloc -> list jv -> Z -> jv -> ares.

(* json_object_array_put_idx_cb -> array_list_put_idx.  The capacity is not part of [jv]:
   growth is needed (and may be refused) only beyond the current length. *)
Definition array_put_idx_cb : array_cb := fun al l idx v =>
  if idx >? SIZE_MAX - 1 then AFail None
  else if idx <? zlen l then AOk (array_put l idx v)
  else if idx + 1 >? SIZE_MAX / 8 then AFail None           (* new_size > SIZE_MAX / sizeof(void * ) *)
  else if al (idx + 1) then AOk (array_put l idx v)
  else AFail (Some ENOMEM).

(* json_object_array_add -> array_list_add *)
Definition array_add (al : alloc) (l : list jv) (v : jv) : ares :=
  if al (zlen l + 1) then AOk (l ++ [v]) else AFail (Some ENOMEM).

(* ---------------------------------------------------------------- get *)

(* is_valid_escaping(path): every '~' is followed by '0' or '1'; the loop advances one byte
   at a time, path[1] of the last byte is the terminator *)
Fixpoint is_valid_escaping (tok : list byte) : bool :=
  match tok with
  | [] => true
  | c :: t =>
      if (c =? 126) && negb (match t with d :: _ => (d =? 48) || (d =? 49) | [] => false end)
      then false
      else is_valid_escaping t
  end.

Inductive spres :=
| SPOk (st : step) (child : jv)
| SPErr (e : errno).

(* json_pointer_get_single_path(obj, path, &obj, &idx) *)
Definition get_single_path (obj : jv) (tok : list byte) : spres :=
  match obj with
  | JArr l =>
      match is_valid_index tok with
      | IErr e => SPErr e
      | IOk idx _ =>
          if idx >=? zlen l then SPErr ENOENT
          else match znth l idx with      (* in range: the element, JSON null (NULL) included *)
               | Some v => SPOk (inr idx) v
               | None => SPErr ENOENT
               end
      end
  | _ =>
      if negb (is_valid_escaping tok) then SPErr EINVAL else
      let name := unescape_in_place tok in
      match obj with
      | JObj ms => match object_get ms name with
                   | Some v => SPOk (inl name) v
                   | None => SPErr ENOENT
                   end
      | _ => SPErr ENOENT       (* NULL and non-container nodes: json_object_object_get_ex fails *)
      end
  end.

Inductive gres :=
| GOk (path : loc) (node : jv)
| GErr (e : errno).

(* the recursion below the leading-slash test, over the tokens *)
Fixpoint get_walk (obj : jv) (toks : list (list byte)) : gres :=
  match toks with
  | [] => GOk [] obj
  | tok :: rest =>
      match get_single_path obj tok with
      | SPErr e => GErr e
      | SPOk st child =>
          match get_walk child rest with
          | GOk p n => GOk (st :: p) n
          | GErr e => GErr e
          end
      end
  end.

(* json_pointer_result_get_recursive / json_pointer_object_get_recursive on a non-empty copy *)
Definition get_recursive (obj : jv) (path : list byte) : gres :=
  match path with
  | c :: s => if c =? 47 then get_walk obj (split_slash s) else GErr EINVAL
  | [] => GErr EINVAL
  end.

Definition is_null (t : jv) : bool := match t with JNull => true | _ => false end.

(* json_pointer_get (through json_pointer_get_internal) *)
Definition ptr_get (t : jv) (p : list byte) : gres :=
  if is_null t then GErr EINVAL              (* !obj *)
  else match p with
       | [] => GOk [] t
       | _ => get_recursive t p
       end.

(* json_pointer_getf; [out] = what vasprintf produced (None: it failed, rc < 0, errno is libc's) *)
Definition ptr_getf (t : jv) (out : option (list byte)) : gres :=
  if is_null t then GErr EINVAL
  else match out with
       | None => GErr EOTHER
       | Some [] => GOk [] t
       | Some s => get_recursive t s
       end.

(* json_pointer_get_internal, for json_patch.c: parent, key_in_parent (a pointer into the
   caller's string: the last token as written, escapes included; only when the parent is an
   object), index_in_parent (uint32_t; only when the parent is an array) *)
Record get_result := mk_get_result {
  r_path : loc; r_obj : jv;
  r_parent : option (loc * jv);
  r_key_in_parent : option (list byte);
  r_index_in_parent : Z }.

Inductive gires := GIOk (r : get_result) | GIErr (e : errno).

Definition is_array (t : jv) : bool := match t with JArr _ => true | _ => false end.
Definition is_object (t : jv) : bool := match t with JObj _ => true | _ => false end.

Definition ptr_get_internal (t : jv) (p : list byte) : gires :=
  if is_null t then GIErr EINVAL
  else match p with
       | [] => GIOk (mk_get_result [] t None None UINT32_MAX)
       | c :: s =>
           if c =? 47 then
             let toks := split_slash s in
             match get_walk t (removelast toks), get_walk t toks with
             | GOk ppath parent, GOk path n =>
                 GIOk (mk_get_result path n (Some (ppath, parent))
                         (if is_object parent then Some (last toks []) else None)
                         (if is_array parent
                          then match last path (inr 0) with inr i => i mod 4294967296 | inl _ => 0 end
                          else 0))
             | _, GErr e => GIErr e
             | GErr e, _ => GIErr e
             end
           else GIErr EINVAL
       end.

(* ---------------------------------------------------------------- set *)

Inductive sres :=
| SOk (t : jv)                 (* returns 0 (or vasprintf's 0); the new tree *)
| SErr (e : errno).            (* returns -1; the tree is unchanged, the value still the caller's *)

Definition is_dash (tok : list byte) : bool :=
  match tok with [c] => c =? 45 | _ => false end.

(* errno after a failing callback: its own, else what is_valid_index left behind *)
Definition fail_errno (erange : bool) (e : option errno) : errno :=
  match e with Some e => e | None => if erange then ERANGE else E_NONE end.

(* json_pointer_set_single_path(parent, path, value, array_set_cb, priv); the result is the
   new content of [parent] *)
Definition set_single_path (cb : array_cb) (al : alloc) (parent : jv) (tok : list byte) (v : jv) : sres :=
  match parent with
  | JArr l =>
      if is_dash tok then
        match array_add al l v with AOk l' => SOk (JArr l') | AFail e => SErr (fail_errno false e) end
      else
        match is_valid_index tok with
        | IErr e => SErr e
        | IOk idx sat =>
            match cb al l idx v with AOk l' => SOk (JArr l') | AFail e => SErr (fail_errno sat e) end
        end
  | JObj ms =>
      (* the last token has not been through get_single_path: checked and unescaped on a copy
         (strdup; its failure belongs to C08) *)
      if negb (is_valid_escaping tok) then SErr EINVAL
      else SOk (JObj (object_add ms (unescape_in_place tok) v))
  | _ => SErr ENOENT
  end.

(* the node at [p] replaced by [new] (in C: the parent node is mutated in place) *)
Fixpoint map_member (k : list byte) (f : jv -> jv) (ms : list (list byte * jv)) : list (list byte * jv) :=
  match ms with
  | [] => []
  | (k', v) :: r => if bytes_eqb k' k then (k', f v) :: r else (k', v) :: map_member k f r
  end.

Fixpoint map_nth (n : nat) (f : jv -> jv) (l : list jv) : list jv :=
  match l, n with
  | [], _ => []
  | x :: t, O => f x :: t
  | x :: t, S m => x :: map_nth m f t
  end.

Fixpoint subst_at (p : loc) (new : jv) (t : jv) : jv :=
  match p with
  | [] => new
  | st :: r =>
      match st, t with
      | inl k, JObj ms => JObj (map_member k (subst_at r new) ms)
      | inr i, JArr l => if i <? 0 then t else JArr (map_nth (Z.to_nat i) (subst_at r new) l)
      | _, _ => t
      end
  end.

(* json_pointer_set_with_array_cb(&obj, path, value, array_set_cb, priv) *)
Definition ptr_set_with_array_cb (cb : array_cb) (al : alloc) (t : jv) (p : list byte) (v : jv) : sres :=
  match p with
  | [] => SOk v                                    (* json_object_put( *obj); *obj = value *)
  | c :: s =>
      if negb (c =? 47) then SErr EINVAL else
      let toks := split_slash s in
      let tok := last toks [] in
      match removelast toks with
      | [] => set_single_path cb al t tok v          (* strrchr(path, '/') == path *)
      | ptoks =>
          match get_walk t ptoks with                (* the copy cut at the last '/' *)
          | GErr e => SErr e
          | GOk ppath parent =>
              match set_single_path cb al parent tok v with
              | SErr e => SErr e
              | SOk parent' => SOk (subst_at ppath parent' t)
              end
          end
      end
  end.

Definition ptr_set (al : alloc) (t : jv) (p : list byte) (v : jv) : sres :=
  ptr_set_with_array_cb array_put_idx_cb al t p v.

(* json_pointer_setf, written out as the C function is (it does not share code with set) *)
Definition ptr_setf (al : alloc) (t : jv) (out : option (list byte)) (v : jv) : sres :=
  match out with
  | None => SErr EOTHER
  | Some [] => SOk v
  | Some (c :: s) =>
      if negb (c =? 47) then SErr EINVAL else
      let toks := split_slash s in
      let tok := last toks [] in
      match removelast toks with
      | [] => set_single_path array_put_idx_cb al t tok v
      | ptoks =>
          match get_walk t ptoks with
          | GErr e => SErr e
          | GOk ppath parent =>
              match set_single_path array_put_idx_cb al parent tok v with
              | SErr e => SErr e
              | SOk parent' => SOk (subst_at ppath parent' t)
              end
          end
      end
  end.

(* ---------------------------------------------------------------- the caller's variables *)

(* The out-parameter `struct json_object **res` of get / getf.  The caller's variable holds
   either what the caller put there before the call ([RPreset]) or the node a lookup stored;
   [None] is res == NULL (documented: the call then only tests for existence). *)
Inductive rvar :=
| RPreset
| RNode (path : loc) (node : jv).

(* `if (res) *res = obj;` *)
Definition store_res (res : option rvar) (path : loc) (n : jv) : option rvar :=
  match res with Some _ => Some (RNode path n) | None => None end.

(* json_pointer_get: rc = json_pointer_get_internal(obj, path, &jpres); if (rc) return rc;
   if (res) *res = jpres.obj; return 0; *)
Definition ptr_get_out (t : jv) (p : list byte) (res : option rvar) : gres * option rvar :=
  match ptr_get t p with
  | GErr e => (GErr e, res)
  | GOk path n => (GOk path n, store_res res path n)
  end.

(* json_pointer_getf: the early returns (!obj, vasprintf < 0) touch nothing; "" stores obj;
   otherwise json_pointer_object_get_recursive(obj, path_copy, res): `if (rc) return rc;
   if (value) *value = res.obj;` *)
Definition ptr_getf_out (t : jv) (out : option (list byte)) (res : option rvar) : gres * option rvar :=
  if is_null t then (GErr EINVAL, res)
  else match out with
       | None => (GErr EOTHER, res)
       | Some [] => (GOk [] t, store_res res [] t)
       | Some s =>
           match get_recursive t s with
           | GErr e => (GErr e, res)
           | GOk path n => (GOk path n, store_res res path n)
           end
       end.

(* The root handle `*obj` of set / setf: it is assigned only by the "" case
   (json_object_put( *obj); *obj = value), which cannot fail; everything else works inside the
   tree.  [true] = the handle now holds a different pointer (NULL for JSON null). *)
Definition root_replaced (t : jv) (p : list byte) (v : jv) : bool :=
  match p with [] => negb (is_null t && is_null v) | _ => false end.

(* ---------------------------------------------------------------- histories (the drivers) *)

Inductive ptr_op :=
| OGet (p : list byte) (with_res : bool)                 (* with_res = false: res == NULL *)
| OGetf (out : option (list byte)) (with_res : bool)
| OSet (p : list byte) (v : jv)
| OSetf (out : option (list byte)) (v : jv).

Inductive ptr_obs :=
| ObsGet (r : gres) (res' : option rvar)      (* the caller's result variable after the call (preset before it) *)
| ObsSet (r : option errno) (root_new : bool). (* None = success; did the root handle change *)

Definition res_arg (with_res : bool) : option rvar := if with_res then Some RPreset else None.

(* one operation: the tree afterwards and what the caller sees *)
Definition ptr_step (al : alloc) (t : jv) (o : ptr_op) : jv * ptr_obs :=
  match o with
  | OGet p w => let '(r, res') := ptr_get_out t p (res_arg w) in (t, ObsGet r res')
  | OGetf out w => let '(r, res') := ptr_getf_out t out (res_arg w) in (t, ObsGet r res')
  | OSet p v =>
      match ptr_set al t p v with
      | SOk t' => (t', ObsSet None (root_replaced t p v))
      | SErr e => (t, ObsSet (Some e) false)
      end
  | OSetf out v =>
      match ptr_setf al t out v with
      | SOk t' => (t', ObsSet None (match out with Some p => root_replaced t p v | None => false end))
      | SErr e => (t, ObsSet (Some e) false)
      end
  end.
