(* LhModel.v — the open-addressing table of linkhash.c as written, and the object
   operations of json_object.c that sit on it (C06).  No proofs here.

   Memory is concrete: one [entry] per element of t->table with the key sentinel
   (LH_EMPTY / LH_FREED / a real key), the value, k_is_constant and the two links;
   pointers into t->table are slot indices, NULL is -1.  The hash function is a
   Section variable, so everything below (and every theorem of LhProofs.v) is about
   EVERY hash function, seed and collision pattern at once.  Keys are an arbitrary
   type with a boolean equality (strcmp()==0 for objects, pointer equality for the
   test tables).  Allocation is an oracle argument [al : Z -> bool] ("may a table of
   n slots be allocated?").

   Where the C code would not return (unbounded probe loop on a full table, walk of a
   cyclic chain), would dereference NULL, or where this model declines to follow it (a
   resize nested inside a resize) the result is an explicit [IOut]/[DUB] value;
   LhProofs.v shows that none of them is reachable from lh_table_new through the
   modelled operations. *)
From JC Require Import Base.
Local Open Scope Z_scope.

(* ---- t->count >= t->size * LH_LOAD_FACTOR, as the C double comparison ----
   LH_LOAD_FACTOR is the binary64 constant nearest to 0.66, i.e. LF_NUM / 2^53.
   [t->size * 0.66] converts size exactly (|int| < 2^53) and rounds the exact product
   size * LF_NUM / 2^53 to 53 significant bits, ties to even; [t->count] converts
   exactly; the comparison is exact.  No overflow/subnormal is in reach for
   1 <= size <= INT_MAX.  [LhProofs.load_test_int] proves that for every such size
   this is the integer test 66 * size <= 100 * count. *)
Definition LF_NUM : Z := 5944751508129055.      (* 0x1.51eb851eb851fp-1 * 2^53 *)

Definition rne_shift (x s : Z) : Z :=            (* x / 2^s rounded to nearest, ties to even *)
  let d := 2 ^ s in
  let q := x / d in
  let r := x mod d in
  if 2 * r <? d then q else if 2 * r >? d then q + 1 else if Z.even q then q else q + 1.

(* (double)size * 0.66 = m * 2^s / 2^53 *)
Definition dbl_size_times_lf (size : Z) : Z * Z :=
  let x := size * LF_NUM in
  let s := Z.log2 x - 52 in
  (rne_shift x s, s).

Definition load_test (count size : Z) : bool :=
  let '(m, s) := dbl_size_times_lf size in
  m * 2 ^ s <=? count * 2 ^ 53.

Section Lh.
Variables key val : Type.
Variable keq : key -> key -> bool.      (* t->equal_fn *)
Variable hash : key -> Z.               (* t->hash_fn; only [hash k mod size] is used *)

Inductive slot := Empty | Freed | Live (k : key) (v : val) (c : bool).   (* c = k_is_constant *)
Record entry := mkent { st : slot; nx : Z; pv : Z }.
Record table := mktab { slots : list entry; tsize : Z; tcount : Z; thead : Z; ttail : Z }.

Definition NULL : Z := -1.
Definition ent0 : entry := mkent Empty NULL NULL.       (* calloc + k = LH_EMPTY *)

(* t->table[i]; an index outside the array reads as [ent0] and writes nowhere (such
   accesses are undefined in C: the proofs show they do not occur) *)
Definition sget (sl : list entry) (i : Z) : entry :=
  if i <? 0 then ent0 else nth (Z.to_nat i) sl ent0.

Fixpoint supd_nat (sl : list entry) (n : nat) (f : entry -> entry) : list entry :=
  match sl, n with
  | [], _ => []
  | e :: r, O => f e :: r
  | e :: r, S m => e :: supd_nat r m f
  end.
Definition supd (sl : list entry) (i : Z) (f : entry -> entry) : list entry :=
  if i <? 0 then sl else supd_nat sl (Z.to_nat i) f.

Definition set_st sl i s := supd sl i (fun e => mkent s (nx e) (pv e)).
Definition set_nx sl i p := supd sl i (fun e => mkent (st e) p (pv e)).
Definition set_pv sl i p := supd sl i (fun e => mkent (st e) (nx e) p).

Definition alloc := Z -> bool.

(* outcomes outside the modelled behaviour *)
Inductive reason :=
| RAssert      (* assert(size > 0) fails *)
| RNested      (* a resize inside a resize: this model declines *)
| RStuck       (* the unbounded probe loop of insert would not terminate *)
| RBroken.     (* the chain leads through a slot that holds no key *)

Inductive ires :=
| IOk (t : table)       (* returns 0 *)
| IFail                 (* returns -1, the table is unchanged *)
| IOut (r : reason).

(* lh_table_new (the table proper; hash_fn/equal_fn/free_fn are the Section variables) *)
Definition table_new (size : Z) : table :=
  mktab (zrepeat ent0 size) size 0 NULL NULL.

Definition lh_table_new (al : alloc) (size : Z) : ires :=
  if size <=? 0 then IOut RAssert
  else if al size then IOk (table_new size) else IFail.

(* if ((int)++n == t->size) n = 0; *)
Definition nxt (size n : Z) : Z := if n + 1 =? size then 0 else n + 1.

(* the probe loop of lh_table_insert_w_hash: stops at the first LH_EMPTY *or* LH_FREED
   slot.  The C loop is while(1); [fuel] = size probes cover every slot once. *)
Fixpoint find_free (fuel : nat) (sl : list entry) (size n : Z) : option Z :=
  match fuel with
  | O => None
  | S f => match st (sget sl n) with
           | Live _ _ _ => find_free f sl size (nxt size n)
           | _ => Some n
           end
  end.

(* the stores after the loop, in program order *)
Definition link_tail (t : table) (n : Z) (k : key) (v : val) (c : bool) : table :=
  let sl0 := set_st (slots t) n (Live k v c) in
  if thead t =? NULL then
    mktab (set_pv (set_nx sl0 n NULL) n NULL) (tsize t) (tcount t + 1) n n
  else
    let sl1 := set_nx sl0 (ttail t) n in           (* t->tail->next = &t->table[n] *)
    let sl2 := set_pv sl1 n (ttail t) in           (* t->table[n].prev = t->tail   *)
    let sl3 := set_nx sl2 n NULL in                (* t->table[n].next = NULL      *)
    mktab sl3 (tsize t) (tcount t + 1) (thead t) n.

(* lh_table_insert_w_hash below the load-factor test *)
Definition insert_noresize (t : table) (k : key) (v : val) (c : bool) : ires :=
  match find_free (Z.to_nat (tsize t)) (slots t) (tsize t) (hash k mod tsize t) with
  | Some n => IOk (link_tail t n k v c)
  | None => IOut RStuck
  end.

(* for (ent = t->head; ent != NULL; ent = ent->next): the slot indices visited.  The C
   loop has no bound; a NULL-terminated chain has at most |table| entries. *)
Fixpoint walk (fuel : nat) (sl : list entry) (p : Z) : list Z :=
  match fuel with
  | O => []
  | S f => if p <? 0 then [] else p :: walk f sl (nx (sget sl p))
  end.
Fixpoint walk_back (fuel : nat) (sl : list entry) (p : Z) : list Z :=
  match fuel with
  | O => []
  | S f => if p <? 0 then [] else p :: walk_back f sl (pv (sget sl p))
  end.

Definition lh_walk (t : table) : list Z := walk (length (slots t)) (slots t) (thead t).
Definition lh_walk_back (t : table) : list Z := walk_back (length (slots t)) (slots t) (ttail t).

(* lh_table_insert_w_hash as called by lh_table_resize on the fresh table *)
Definition insert_inner (nt : table) (k : key) (v : val) (c : bool) : ires :=
  if load_test (tcount nt) (tsize nt) then
    (if tsize nt =? INT_MAX then IFail else IOut RNested)
  else insert_noresize nt k v c.

Fixpoint refill (es : list Z) (old : list entry) (nt : table) : ires :=
  match es with
  | [] => IOk nt
  | n :: r => match st (sget old n) with
              | Live k v c => match insert_inner nt k v c with
                              | IOk nt' => refill r old nt'
                              | x => x
                              end
              | _ => IOut RBroken
              end
  end.

(* lh_table_resize: t->table, t->size, t->head, t->tail are replaced, t->count stays *)
Definition lh_table_resize (al : alloc) (t : table) (new_size : Z) : ires :=
  if new_size <=? 0 then IOut RAssert
  else if al new_size then
    match refill (lh_walk t) (slots t) (table_new new_size) with
    | IOk nt => IOk (mktab (slots nt) new_size (tcount t) (thead nt) (ttail nt))
    | x => x
    end
  else IFail.

Definition lh_table_insert_w_hash (al : alloc) (t : table) (k : key) (v : val) (c : bool) : ires :=
  if load_test (tcount t) (tsize t) then
    let new_size := if tsize t >? INT_MAX / 2 then INT_MAX else tsize t * 2 in
    if tsize t =? INT_MAX then IFail
    else match lh_table_resize al t new_size with
         | IOk t' => insert_noresize t' k v c
         | x => x
         end
  else insert_noresize t k v c.

(* lh_table_lookup_entry_w_hash: at most [size] probes; LH_EMPTY ends the search,
   LH_FREED does not *)
Fixpoint lookup_probe (fuel : nat) (sl : list entry) (size : Z) (k : key) (n : Z) : option Z :=
  match fuel with
  | O => None
  | S f => match st (sget sl n) with
           | Empty => None
           | Freed => lookup_probe f sl size k (nxt size n)
           | Live k' _ _ => if keq k' k then Some n else lookup_probe f sl size k (nxt size n)
           end
  end.

Definition lh_table_lookup_entry (t : table) (k : key) : option Z :=
  lookup_probe (Z.to_nat (tsize t)) (slots t) (tsize t) k (hash k mod tsize t).

(* lh_table_delete_entry *)
Inductive dres :=
| DOk (t : table)      (* returns 0 *)
| DNone                (* returns -1 / -2, nothing changed *)
| DUB.                 (* a NULL link would be dereferenced *)

Definition lh_table_delete_entry (t : table) (n : Z) : dres :=
  if n <? 0 then DNone else
  match st (sget (slots t) n) with
  | Live _ _ _ =>
      let sl1 := set_st (slots t) n Freed in
      let fin sl h tl := DOk (mktab (set_pv (set_nx sl n NULL) n NULL) (tsize t) (tcount t - 1) h tl) in
      if (ttail t =? n) && (thead t =? n) then fin sl1 NULL NULL
      else if thead t =? n then
        let hn := nx (sget sl1 (thead t)) in            (* t->head->next *)
        if hn <? 0 then DUB else fin (set_pv sl1 hn NULL) hn (ttail t)
      else if ttail t =? n then
        let tp := pv (sget sl1 (ttail t)) in            (* t->tail->prev *)
        if tp <? 0 then DUB else fin (set_nx sl1 tp NULL) (thead t) tp
      else
        let p := pv (sget sl1 n) in
        if p <? 0 then DUB else
        let sl2 := set_nx sl1 p (nx (sget sl1 n)) in    (* table[n].prev->next = table[n].next *)
        let x := nx (sget sl2 n) in
        if x <? 0 then DUB else
        fin (set_pv sl2 x (pv (sget sl2 n))) (thead t) (ttail t)
  | _ => DNone
  end.

Definition lh_table_delete (t : table) (k : key) : dres :=
  match lh_table_lookup_entry t k with
  | Some n => lh_table_delete_entry t n
  | None => DNone
  end.

(* ---------------- json_object.c on top ---------------- *)

(* lh_entry_set_val *)
Definition set_val (t : table) (n : Z) (v : val) : table :=
  mktab (supd (slots t) n (fun e => match st e with
                                    | Live k _ c => mkent (Live k v c) (nx e) (pv e)
                                    | _ => e end))
        (tsize t) (tcount t) (thead t) (ttail t).

(* json_object_object_add_ex(jso, key, val, opts) for val != jso.
   is_new = JSON_C_OBJECT_ADD_KEY_IS_NEW, cst = JSON_C_OBJECT_ADD_CONSTANT_KEY.
   [fail1]: the first allocation requested inside the call is refused (strdup of the
   key when it is copied, else the first calloc of a resize). *)
Definition obj_add_ex (al : alloc) (fail1 : bool) (t : table) (k : key) (v : val)
           (is_new cst : bool) : ires :=
  match (if is_new then None else lh_table_lookup_entry t k) with
  | Some n => IOk (set_val t n v)          (* the existing key and position are kept *)
  | None =>
      if cst then lh_table_insert_w_hash (if fail1 then (fun _ => false) else al) t k v cst
      else if fail1 then IFail              (* strdup(key) == NULL *)
      else lh_table_insert_w_hash al t k v cst
  end.

(* json_object_object_add_ex(jso, key, jso, opts): the lookup has been done (it changes
   nothing), then `if (jso == val) return -1;` before anything is stored, released or
   allocated - whether or not the key is present, whatever the flags and the fill level *)
Definition obj_add_self (t : table) (k : key) (is_new cst : bool) : ires :=
  match (if is_new then None else lh_table_lookup_entry t k) with
  | Some _ => IFail
  | None => IFail
  end.

(* json_object_object_del ignores the result of lh_table_delete *)
Definition obj_del (t : table) (k : key) : option table :=
  match lh_table_delete t k with
  | DOk t' => Some t'
  | DNone => Some t
  | DUB => None
  end.

(* json_object_object_get_ex: found flag and value *)
Definition obj_get_ex (t : table) (k : key) : option val :=
  match lh_table_lookup_entry t k with
  | Some n => match st (sget (slots t) n) with Live _ v _ => Some v | _ => None end
  | None => None
  end.

Definition obj_length (t : table) : Z := tcount t.

(* what an iteration sees at slot n *)
Definition ent_kv (sl : list entry) (n : Z) : list (key * val) :=
  match st (sget sl n) with Live k v _ => [(k, v)] | _ => [] end.
Definition entries (sl : list entry) (l : list Z) : list (key * val) := flat_map (ent_kv sl) l.

(* lh_foreach / json_object_object_foreach / iterator / serializer / visitor all follow
   head, next, next, ... *)
Definition obj_iter (t : table) : list (key * val) := entries (slots t) (lh_walk t).

(* lh_foreach_safe(t, e, tmp) { if (p(e->k)) lh_table_delete_entry(t, e); }  and
   json_object_object_foreach(o, k, v) { if (p(k)) json_object_object_del(o, k); }  (bykey):
   the next link is fetched before the body runs.  json_object.h defines the object macro
   twice (GNU statement-expression form; portable form for strict ISO C / MSVC): both are
   this walk, and the correspondence drives both (ops x and y, harness/drv_lh_ansi.c).  Result: the entries seen, and the
   table afterwards; None when the walk reaches a slot without key or deletes through
   a NULL link. *)
Fixpoint foreach_del (fuel : nat) (bykey : bool) (p : key -> bool) (t : table) (cur : Z)
  : option (list (key * val) * table) :=
  match fuel with
  | O => Some ([], t)
  | S f =>
      if cur <? 0 then Some ([], t) else
      let tmp := nx (sget (slots t) cur) in
      match st (sget (slots t) cur) with
      | Live k v _ =>
          let r := if p k then (if bykey then lh_table_delete t k else lh_table_delete_entry t cur)
                   else DNone in
          match r with
          | DUB => None
          | _ =>
            let t' := match r with DOk t' => t' | _ => t end in
            match foreach_del f bykey p t' tmp with
            | Some (vis, t'') => Some ((k, v) :: vis, t'')
            | None => None
            end
          end
      | _ => None
      end
  end.

Definition obj_foreach_del (bykey : bool) (p : key -> bool) (t : table) :=
  foreach_del (S (length (slots t))) bykey p t (thead t).

(* ---------------- the abstract specification: an insertion-ordered association list ---- *)
Definition amap := list (key * val).

Fixpoint a_lookup (m : amap) (k : key) : option val :=
  match m with
  | [] => None
  | (k', v) :: r => if keq k' k then Some v else a_lookup r k
  end.
Definition a_mem (m : amap) (k : key) : bool :=
  match a_lookup m k with Some _ => true | None => false end.
(* add: in-place replacement keeping the position, else append *)
Definition a_add (m : amap) (k : key) (v : val) : amap :=
  if a_mem m k then map (fun kv => if keq (fst kv) k then (fst kv, v) else kv) m
  else m ++ [(k, v)].
Definition a_del (m : amap) (k : key) : amap :=
  filter (fun kv => negb (keq (fst kv) k)) m.
Definition a_filter_out (p : key -> bool) (m : amap) : amap :=
  filter (fun kv => negb (p (fst kv))) m.

(* ---------------- operation histories ---------------- *)
Inductive op :=
| OAdd (k : key) (v : val) (is_new cst : bool) (fail1 : bool)
| OAddSelf (k : key) (is_new cst : bool)      (* add(obj, k, obj): refused *)
| ODel (k : key)
| OGet (k : key)
| OForeachDel (bykey : bool) (p : key -> bool).

(* one step; None = outside the modelled behaviour; the bool says whether an add succeeded *)
Definition obj_step (al : alloc) (t : table) (o : op) : option (table * bool) :=
  match o with
  | OAdd k v is_new cst fail1 =>
      match obj_add_ex al fail1 t k v is_new cst with
      | IOk t' => Some (t', true)
      | IFail => Some (t, false)
      | IOut _ => None
      end
  | OAddSelf k is_new cst =>
      match obj_add_self t k is_new cst with
      | IOk t' => Some (t', true)
      | IFail => Some (t, false)
      | IOut _ => None
      end
  | ODel k => match obj_del t k with Some t' => Some (t', true) | None => None end
  | OGet _ => Some (t, true)
  | OForeachDel bykey p =>
      match obj_foreach_del bykey p t with Some (_, t') => Some (t', true) | None => None end
  end.

Fixpoint obj_run (al : alloc) (t : table) (ops : list op) : option (table * list bool) :=
  match ops with
  | [] => Some (t, [])
  | o :: os => match obj_step al t o with
               | Some (t', b) => match obj_run al t' os with
                                 | Some (q, bs) => Some (q, b :: bs)
                                 | None => None
                                 end
               | None => None
               end
  end.

Definition spec_step (m : amap) (o : op) (ok : bool) : amap :=
  match o with
  | OAdd k v _ _ _ => if ok then a_add m k v else m
  | OAddSelf _ _ _ => m
  | ODel k => a_del m k
  | OGet _ => m
  | OForeachDel _ p => a_filter_out p m
  end.

Fixpoint spec_run (m : amap) (ops : list op) (oks : list bool) : amap :=
  match ops, oks with
  | o :: os, b :: bs => spec_run (spec_step m o b) os bs
  | _, _ => m
  end.

(* JSON_C_OBJECT_ADD_KEY_IS_NEW is admissible only for a key that is absent at that
   moment (its documented precondition); stated on the abstract content *)
Definition op_pre (m : amap) (o : op) : Prop :=
  match o with OAdd k _ true _ _ => a_mem m k = false | _ => True end.

Fixpoint adm_run (al : alloc) (t : table) (ops : list op) : Prop :=
  match ops with
  | [] => True
  | o :: os => and (op_pre (obj_iter t) o)
               (match obj_step al t o with
                | Some (t', _) => adm_run al t' os
                | None => True
                end)
  end.

End Lh.

Arguments Empty {key val}.
Arguments Freed {key val}.
Arguments Live {key val}.
Arguments mkent {key val}.
Arguments st {key val}.
Arguments nx {key val}.
Arguments pv {key val}.
Arguments mktab {key val}.
Arguments slots {key val}.
Arguments tsize {key val}.
Arguments tcount {key val}.
Arguments thead {key val}.
Arguments ttail {key val}.
Arguments IOk {key val}.
Arguments IFail {key val}.
Arguments IOut {key val}.
Arguments DOk {key val}.
Arguments DNone {key val}.
Arguments DUB {key val}.
Arguments OAdd {key val}.
Arguments OAddSelf {key val}.
Arguments ODel {key val}.
Arguments OGet {key val}.
Arguments OForeachDel {key val}.
Arguments sget {key val}.
Arguments supd_nat {key val}.
Arguments supd {key val}.
Arguments set_st {key val}.
Arguments set_nx {key val}.
Arguments set_pv {key val}.
Arguments find_free {key val}.
Arguments link_tail {key val}.
Arguments insert_noresize {key val}.
Arguments walk {key val}.
Arguments walk_back {key val}.
Arguments lh_walk {key val}.
Arguments lh_walk_back {key val}.
Arguments insert_inner {key val}.
Arguments refill {key val}.
Arguments lh_table_resize {key val}.
Arguments lh_table_insert_w_hash {key val}.
Arguments lookup_probe {key val}.
Arguments lh_table_lookup_entry {key val}.
Arguments lh_table_delete_entry {key val}.
Arguments lh_table_delete {key val}.
Arguments set_val {key val}.
Arguments obj_add_ex {key val}.
Arguments obj_add_self {key val}.
Arguments obj_del {key val}.
Arguments obj_get_ex {key val}.
Arguments obj_length {key val}.
Arguments ent_kv {key val}.
Arguments entries {key val}.
Arguments obj_iter {key val}.
Arguments foreach_del {key val}.
Arguments obj_foreach_del {key val}.
Arguments a_lookup {key val}.
Arguments a_mem {key val}.
Arguments a_add {key val}.
Arguments a_del {key val}.
Arguments a_filter_out {key val}.
Arguments obj_step {key val}.
Arguments obj_run {key val}.
Arguments spec_step {key val}.
Arguments spec_run {key val}.
Arguments op_pre {key val}.
Arguments adm_run {key val}.

(* ---------------- several objects and the global string-hash selection ----------------
   json_global_set_string_hash(h) sets the file-static char_hash_fn of linkhash.c;
   lh_kchar_table_new (json_object_new_object) copies the CURRENT selection into
   t->hash_fn, and nothing else ever reads it: a table keeps the hash function it was
   created with.  [hashes s] is the string hash selected by s (0 = lh_char_hash with
   whatever seed, 1 = perl-like); like [hash] above it is an arbitrary Section variable. *)
Section LhWorld.
Variables key val : Type.
Variable keq : key -> key -> bool.
Variable hashes : Z -> key -> Z.

Record gobj := mkgobj { o_sel : Z; o_tab : table key val }.     (* o_sel: what t->hash_fn is *)
Record world := mkworld { g_sel : Z; objs : list gobj }.        (* g_sel: char_hash_fn *)

Definition world0 : world := mkworld 0 [].                     (* char_hash_fn = lh_char_hash *)

(* json_global_set_string_hash: new selection and return value *)
Definition set_string_hash (g h : Z) : Z * Z :=
  if (h =? 0) || (h =? 1) then (h, 0) else (g, -1).

Inductive gop :=
| GSetHash (h : Z)                    (* json_global_set_string_hash(h) *)
| GNew (size : Z)                     (* json_object_new_object (size 16 there) *)
| GOp (i : nat) (o : op key val).     (* an operation on the i-th object *)

Fixpoint lupd {A} (l : list A) (i : nat) (x : A) : list A :=
  match l, i with
  | [], _ => []
  | _ :: r, O => x :: r
  | a :: r, S j => a :: lupd r j x
  end.

Definition gstep (al : alloc) (w : world) (g : gop) : option (world * bool) :=
  match g with
  | GSetHash h => let '(g', r) := set_string_hash (g_sel w) h in
                  Some (mkworld g' (objs w), r =? 0)
  | GNew size => Some (mkworld (g_sel w) (objs w ++ [mkgobj (g_sel w) (table_new key val size)]), true)
  | GOp i o =>
      match nth_error (objs w) i with
      | None => None
      | Some ob =>
          match obj_step keq (hashes (o_sel ob)) al (o_tab ob) o with
          | Some (t', b) => Some (mkworld (g_sel w) (lupd (objs w) i (mkgobj (o_sel ob) t')), b)
          | None => None
          end
      end
  end.

Fixpoint grun (al : alloc) (w : world) (gs : list gop) : option (world * list bool) :=
  match gs with
  | [] => Some (w, [])
  | g :: r => match gstep al w g with
              | Some (w', b) => match grun al w' r with
                                | Some (q, bs) => Some (q, b :: bs)
                                | None => None
                                end
              | None => None
              end
  end.

(* specification: a list of association lists; the selection is invisible *)
Definition gspec_step (ms : list (amap key val)) (g : gop) (ok : bool) : list (amap key val) :=
  match g with
  | GSetHash _ => ms
  | GNew _ => ms ++ [[]]
  | GOp i o => match nth_error ms i with
               | Some m => lupd ms i (spec_step keq m o ok)
               | None => ms
               end
  end.

Fixpoint gspec_run (ms : list (amap key val)) (gs : list gop) (oks : list bool) : list (amap key val) :=
  match gs, oks with
  | g :: r, b :: bs => gspec_run (gspec_step ms g b) r bs
  | _, _ => ms
  end.

Definition world_abs (w : world) : list (amap key val) := map (fun ob => obj_iter (o_tab ob)) (objs w).

Definition gop_pre (w : world) (g : gop) : Prop :=
  match g with
  | GSetHash _ => True
  | GNew size => 0 < size <= INT_MAX
  | GOp i o => exists ob, nth_error (objs w) i = Some ob /\ op_pre keq (obj_iter (o_tab ob)) o
  end.

Fixpoint gadm_run (al : alloc) (w : world) (gs : list gop) : Prop :=
  match gs with
  | [] => True
  | g :: r => and (gop_pre w g)
                  (match gstep al w g with
                   | Some (w', _) => gadm_run al w' r
                   | None => True
                   end)
  end.

End LhWorld.

Arguments mkgobj {key val}.
Arguments o_sel {key val}.
Arguments o_tab {key val}.
Arguments mkworld {key val}.
Arguments g_sel {key val}.
Arguments objs {key val}.
Arguments GSetHash {key val}.
Arguments GNew {key val}.
Arguments GOp {key val}.
Arguments gstep {key val}.
Arguments grun {key val}.
Arguments gspec_step {key val}.
Arguments gspec_run {key val}.
Arguments world_abs {key val}.
Arguments gop_pre {key val}.
Arguments gadm_run {key val}.
