(* TokValidExt.v — C16, default mode: every document written with the documented extension
   spellings (TokSyntaxExt.v) is accepted with the value [xvalue]; the value-neutral forms
   keep the value of the erased RFC 8259 document. *)
From JC Require Import Base BaseLemmas Value TokModel TokProofs TokSyntax
  TokValidBase TokValidLit TokValidNum TokValidStr TokValidObj TokValid
  TokSyntaxExt TokValidExtWs TokValidExtStr TokValidExtNum.
Local Open Scope Z_scope.

(* x1 , x2 , ... , xn tl   in the order the loop reads it *)
Fixpoint seq_tl {A} (f : A -> list byte) (tl : list byte) (l : list A) : list byte :=
  match l with
  | [] => []
  | x :: r => f x ++ match r with [] => tl | _ => 44 :: seq_tl f tl r end
  end.
Lemma join_seq_tl {A} (f g : A -> list byte) tl x r :
  (forall y, f y = g y) -> join 44 (map f (x :: r)) ++ tl = seq_tl g tl (x :: r).
Proof.
  intros Hf. revert x. induction r as [|y r IH]; intros x.
  - cbn. rewrite Hf. reflexivity.
  - change (join 44 (map f (x :: y :: r))) with (f x ++ 44 :: join 44 (map f (y :: r))).
    change (seq_tl g tl (x :: y :: r)) with (g x ++ 44 :: seq_tl g tl (y :: r)).
    rewrite Hf, <- app_assoc. cbn [app]. rewrite IH. reflexivity.
Qed.

Definition render_xel (x : xws * xstx * xws) : list byte :=
  let '(a, e, b) := x in render_xws a ++ xrender e ++ render_xws b.
Definition render_xmem (m : xmem xstx) : list byte :=
  let '(a, (q, k), b, c, v, d) := m in
  render_xws a ++ render_xstr q k ++ render_xws b ++ 58 :: render_xws c ++ xrender v ++ render_xws d.

Lemma xrender_arr_cons w x r tc :
  xrender (XArr w (x :: r) tc) = 91 :: seq_tl render_xel (render_tc tc ++ [93]) (x :: r).
Proof.
  cbn [xrender]. f_equal. rewrite <- app_assoc. apply join_seq_tl. intros [[a e] b]. reflexivity.
Qed.
Lemma xrender_obj_cons w x r tc :
  xrender (XObj w (x :: r) tc) = 123 :: seq_tl render_xmem (render_tc tc ++ [125]) (x :: r).
Proof.
  cbn [xrender]. f_equal. rewrite <- app_assoc. apply join_seq_tl. intros [[[[[a [q k]] b] cw] v] d]. reflexivity.
Qed.

Lemma qok_of q : wf_quote q = true -> qok q.
Proof. unfold wf_quote, qok. lia. Qed.

Lemma xrender_first s : wf_xstx s -> exists x0 tl, xrender s = x0 :: tl /\ vfirst x0 = true.
Proof.
  unfold wf_xstx. destruct s as [l ups|n|q cs|w es tc|w ms tc]; intros H.
  - cbn [wf_xstxb] in H. destruct l; destruct ups as [|[|] ups]; try discriminate; eexists _, _; split; reflexivity.
  - cbn [wf_xstxb] in H. unfold wf_xnum in H. apply andb_true_iff in H. destruct H as [H _].
    apply andb_true_iff in H. destruct H as [H _].
    cbn [xrender]. unfold render_num. destruct (n_neg n); [eexists _, _; split; reflexivity|].
    destruct (wf_xint_facts _ H) as [Hne Hd]. destruct (n_int n) as [|d r]; [congruence|].
    cbn [all_digits forallb] in Hd. apply andb_true_iff in Hd. destruct Hd as [Hd _].
    eexists _, _. split; [reflexivity|]. unfold is_digit in Hd. unfold vfirst, is_ws. lia.
  - cbn [wf_xstxb] in H. apply andb_true_iff in H. destruct H as [H _].
    destruct (qok_of q H) as [->| ->]; eexists _, _; split; reflexivity.
  - eexists _, _; split; reflexivity.
  - eexists _, _; split; reflexivity.
Qed.

(* a run of blanks keeps the follower condition *)
Lemma render_wsitem_first i : wf_wsitem i = true ->
  exists b tl, render_wsitem i = b :: tl /\ (is_ws b = true \/ b = 47).
Proof.
  destruct i as [b|body|body]; cbn [wf_wsitem render_wsitem]; intros H; eexists _, _; (split; [reflexivity|]); auto.
Qed.
Lemma xfol_rest_ws below w more :
  below <> [] -> wf_xws w = true -> xfol_rest below more = true -> xfol_rest below (render_xws w ++ more) = true.
Proof.
  intros Hb Hw Hm. destruct w as [|i w]; [exact Hm|]. cbn [wf_xws forallb] in Hw. apply andb_true_iff in Hw. destruct Hw as [Hi _].
  destruct (render_wsitem_first i Hi) as (b & tl & E & Hbb).
  change (render_xws (i :: w)) with (render_wsitem i ++ render_xws w). rewrite E. cbn [app xfol_rest].
  unfold xfol_ok. destruct below; [congruence|]. cbn [is_nil]. destruct Hbb as [Hbb| ->]; [rewrite Hbb; reflexivity|reflexivity].
Qed.
Lemma xfol_rest_ws_top w more :
  wf_xws w = true -> xfol_rest [] more = true -> xfol_rest [] (render_xws w ++ more) = true.
Proof.
  intros Hw Hm. destruct w as [|i w]; [exact Hm|]. cbn [wf_xws forallb] in Hw. apply andb_true_iff in Hw. destruct Hw as [Hi _].
  destruct (render_wsitem_first i Hi) as (b & tl & E & Hbb).
  change (render_xws (i :: w)) with (render_wsitem i ++ render_xws w). rewrite E. cbn [app xfol_rest].
  unfold xfol_ok, xstop. cbn [is_nil]. destruct Hbb as [Hbb| ->]; [unfold is_ws, is_digit in *; lia|reflexivity].
Qed.

Ltac xws_step sb Hw f' x' g' Hf' :=
  match goal with
  | |- context [run_f sb ?f (render_xws ?w ++ ?more) (T (mkcf ?md false ?al) (mksrec S_eatws ?sv ?cur ?nm :: ?below) ?g ?hi ?off) (mkloc ?x ?nb ?lo ?ln)] =>
      destruct (run_xws sb md al w Hw f sv cur nm below g hi off x nb lo ln more) as (f' & x' & g' & Hf' & ->);
      [ first [assumption | unfold REDO_FUEL; lia] | ]
  end.

Section S.
Variable sb : list byte -> Z.
Variables (md : Z) (al : bool).
Local Notation DC := (mkcf md false al).

(* ---------------------------------------------------------------- literals in any case *)
Lemma xlit_ok l ups : Nat.eqb (length ups) (length (render_lit l)) = true -> xval_ok sb md al (XLit l ups).
Proof.
  intros Hl f below g off x nb lo rest Hf _ Hr. fuel f.
  destruct rest as [|fc rest]; [discriminate|]. destruct g as [p0 d0 s0 u0 q0].
  destruct l.
  - destruct ups as [|u1 [|u2 [|u3 [|u4 [|? ?]]]]]; try discriminate.
    cbn [xrender render_xlit render_lit recase app zlen xvalue lit_value].
    replace (off + (1 + (1 + (1 + (1 + 0))))) with (off + 1 + 1 + 1 + 1) by lia.
    destruct u1, u2, u3, u4; (exists 15%nat; eexists (mkgb _ _ _ _ _), _, _; split; [lia|]);
      do 4 stepC; unfold REDO_FUEL; stepR; reflexivity.
  - destruct ups as [|u1 [|u2 [|u3 [|u4 [|? ?]]]]]; try discriminate.
    cbn [xrender render_xlit render_lit recase app zlen xvalue lit_value].
    replace (off + (1 + (1 + (1 + (1 + 0))))) with (off + 1 + 1 + 1 + 1) by lia.
    destruct u1, u2, u3, u4; (exists 15%nat; eexists (mkgb _ _ _ _ _), _, _; split; [lia|]);
      do 4 stepC; unfold REDO_FUEL; stepR; reflexivity.
  - destruct ups as [|u1 [|u2 [|u3 [|u4 [|u5 [|? ?]]]]]]; try discriminate.
    cbn [xrender render_xlit render_lit recase app zlen xvalue lit_value].
    replace (off + (1 + (1 + (1 + (1 + (1 + 0)))))) with (off + 1 + 1 + 1 + 1 + 1) by lia.
    destruct u1, u2, u3, u4, u5; (exists 15%nat; eexists (mkgb _ _ _ _ _), _, _; split; [lia|]);
      do 5 stepC; unfold REDO_FUEL; stepR; reflexivity.
Qed.

(* ---------------------------------------------------------------- strings in either quote *)
Lemma xstr_ok q cs : wf_quote q = true -> wf_xchars q cs = true -> xval_ok sb md al (XStr q cs).
Proof.
  intros Hq0 Hw f below g off x nb lo rest Hf _ _. pose proof (qok_of q Hq0) as Hq.
  cbn [xrender xvalue]. unfold render_xstr. cbn [app]. rewrite <- app_assoc. cbn [app].
  destruct g as [p0 d0 s0 u0 q0].
  assert (E1 : run_f sb f (q :: render_chars cs ++ q :: rest) (T DC (fresh_level :: below) (mkgb p0 d0 s0 u0 q0) 0 off) (mkloc x nb lo None) =
               run_f sb REDO_FUEL (render_chars cs ++ q :: rest) (SSq q DC S_string below JNull None 0 [] S_start d0 s0 u0 (off + 1)) (mkloc q nb lo None)).
  { fuel f. unfold SSq. cbn [Z.eqb]. destruct Hq as [->| ->]; stepC; reflexivity. }
  rewrite E1.
  destruct (str_body_q sb q DC S_string cs Hq (or_introl eq_refl) eq_refl Hw REDO_FUEL 0 [] S_start d0 s0 u0 below JNull None (off + 1) q nb lo (q :: rest))
    as (f2 & x2 & hi2 & pend & svx2 & sp2 & uc2 & Hf2 & Hhi2 & Hp & ->); [unfold REDO_FUEL; lia|left; reflexivity|].
  destruct (str_close_q sb q DC S_string Hq (or_introl eq_refl) f2 hi2 pend svx2 d0 sp2 uc2 below JNull None (off + 1 + zlen (render_chars cs)) x2 nb lo rest Hf2 Hhi2)
    as (g3 & ->).
  exists REDO_FUEL, g3, q, lo. split; [unfold REDO_FUEL; lia|].
  cbn [close_top]. rewrite <- Hp. cbn [app]. rewrite dec_decode. f_equal. f_equal.
  cbn [zlen]. rewrite zlen_app. cbn [zlen]. lia.
Qed.


(* ---------------------------------------------------------------- arrays *)
Definition xel_ok (x : xws * xstx * xws) : bool := let '(a, e, b) := x in wf_xws a && wf_xstxb e && wf_xws b.

Lemma arr_tc_close f acc below g off x nb lo rest :
  (3 <= f)%nat ->
  exists g',
  run_f sb f (93 :: rest) (T DC (mksrec S_eatws S_array_after_sep (JArr acc) None :: below) g 0 off) (mkloc x nb lo None) =
  run_f sb REDO_FUEL rest (T DC (mksrec S_eatws S_finish (JArr acc) None :: below) g' 0 (off + 1)) (mkloc 93 nb lo None).
Proof.
  intros Hf. fuel f. destruct g as [p d s u q]. eexists (mkgb _ _ _ _ _). stepC. reflexivity.
Qed.

Lemma xarr_loop tc : forall es,
  es <> [] -> Forall (fun x => xval_ok sb md al (xel_val x)) es -> forallb xel_ok es = true ->
  match tc with Some w => wf_xws w = true | None => True end ->
  forall f svs acc below g off x nb lo rest,
    (svs = S_array \/ svs = S_array_after_sep) ->
    (8 <= f)%nat ->
    Forall (fun x => zlen below + 1 + Z.of_nat (xnest (xel_val x)) < md) es ->
    exists f' g' x' lo', (8 <= f')%nat /\
    run_f sb f (seq_tl render_xel (render_tc tc ++ [93]) es ++ rest) (T DC (mksrec S_eatws svs (JArr acc) None :: below) g 0 off) (mkloc x nb lo None) =
    run_f sb f' rest (T DC (mksrec S_eatws S_finish (JArr (acc ++ map (fun x => xvalue sb (xel_val x)) es)) None :: below) g' 0
                        (off + zlen (seq_tl render_xel (render_tc tc ++ [93]) es))) (mkloc x' nb lo' None).
Proof.
  induction es as [|[[a e] b] r IH]; [congruence|].
  intros _ HV Hwf Htc f svs acc below g off x nb lo rest Hs Hf Hd.
  inversion HV as [|? ? HVe HVr]; subst. inversion Hd as [|? ? Hde Hdr]; subst.
  cbn [forallb xel_ok] in Hwf. apply andb_true_iff in Hwf. destruct Hwf as [Hwe Hwr].
  apply andb_true_iff in Hwe. destruct Hwe as [Hwe Hwb]. apply andb_true_iff in Hwe. destruct Hwe as [Hwa Hwe].
  unfold xel_val in HVe, Hde. cbn [fst snd] in HVe, Hde.
  set (tl_ := match r with [] => render_tc tc ++ [93] | _ :: _ => 44 :: seq_tl render_xel (render_tc tc ++ [93]) r end).
  assert (ER : seq_tl render_xel (render_tc tc ++ [93]) ((a, e, b) :: r) ++ rest =
               render_xws a ++ xrender e ++ render_xws b ++ tl_ ++ rest).
  { cbn [seq_tl render_xel]. fold tl_. rewrite <- !app_assoc. reflexivity. }
  rewrite ER.
  assert (F16 : (8 <= REDO_FUEL)%nat) by (unfold REDO_FUEL; lia).
  xws_step sb Hwa f1 x1 g1 Hf1.
  destruct (xrender_first e Hwe) as (x0 & tl0 & Ex0 & Hx0).
  set (tailb := render_xws b ++ tl_ ++ rest).
  assert (Hpush : exists f2, (4 <= f2)%nat /\
            run_f sb f1 (xrender e ++ tailb) (T DC (mksrec S_eatws svs (JArr acc) None :: below) g1 0 (off + zlen (render_xws a))) (mkloc x1 nb lo None) =
            run_f sb f2 (xrender e ++ tailb) (T DC (fresh_level :: mksrec S_array_add svs (JArr acc) None :: below) g1 0 (off + zlen (render_xws a))) (mkloc x0 nb lo None)).
  { rewrite Ex0. cbn [app]. fuel f1. exists (S (S (S (S (S (S f1)))))). split; [lia|].
    rewrite push_step; [|destruct Hs as [->| ->]; auto|exact Hx0|cbn [c_md]; pose proof (Nat2Z.is_nonneg (xnest e)); lia].
    destruct Hs as [->| ->]; reflexivity. }
  destruct Hpush as (f2 & Hf2 & ->).
  assert (Htl : xfol_rest (mksrec S_array_add svs (JArr acc) None :: below) (tl_ ++ rest) = true).
  { subst tl_. destruct r; [destruct tc; reflexivity|reflexivity]. }
  destruct (HVe f2 (mksrec S_array_add svs (JArr acc) None :: below) g1 (off + zlen (render_xws a)) x0 nb lo tailb Hf2)
    as (f3 & g3 & x3 & lo3 & Hf3 & ->).
  { cbn [zlen]. lia. }
  { subst tailb. apply xfol_rest_ws; [discriminate|exact Hwb|exact Htl]. }
  subst tailb. xws_step sb Hwb f4 x4 g4 Hf4.
  subst tl_. destruct r as [|y r].
  - destruct tc as [w'|].
    + (* trailing comma *)
      cbn [render_tc app]. rewrite <- app_assoc. cbn [app].
      match goal with |- context [run_f sb f4 _ (T DC _ ?gg 0 ?oo) (mkloc ?xx nb ?ll None)] =>
        destruct (arr_pop_comma sb DC f4 (render_xws w' ++ 93 :: rest) (xvalue sb e) None svs acc None below gg oo xx nb ll) as (g5 & ->); [lia|] end.
      xws_step sb Htc f6 x6 g6 Hf6.
      match goal with |- context [run_f sb f6 _ (T DC _ ?gg 0 ?oo) (mkloc ?xx nb ?ll None)] =>
        destruct (arr_tc_close f6 (acc ++ [xvalue sb e]) below gg oo xx nb ll rest) as (g7 & ->); [lia|] end.
      exists REDO_FUEL, g7, 93, (xvalue sb e). split; [exact F16|].
      cbn [map xel_val fst snd]. f_equal. f_equal.
      cbn [seq_tl render_xel render_tc]. repeat (progress (rewrite ?zlen_app; cbn [zlen])). lia.
    + cbn [render_tc app].
      match goal with |- context [run_f sb f4 _ (T DC _ ?gg 0 ?oo) (mkloc ?xx nb ?ll None)] =>
        destruct (arr_pop_close sb DC f4 rest (xvalue sb e) None svs acc None below gg oo xx nb ll) as (g5 & ->); [lia|] end.
      exists REDO_FUEL, g5, 93, (xvalue sb e). split; [exact F16|].
      cbn [map xel_val fst snd]. f_equal. f_equal.
      cbn [seq_tl render_xel render_tc]. repeat (progress (rewrite ?zlen_app; cbn [zlen])). lia.
  - cbn [app].
    match goal with |- context [run_f sb f4 _ (T DC _ ?gg 0 ?oo) (mkloc ?xx nb ?ll None)] =>
      destruct (arr_pop_comma sb DC f4 (seq_tl render_xel (render_tc tc ++ [93]) (y :: r) ++ rest) (xvalue sb e) None svs acc None below gg oo xx nb ll) as (g5 & ->); [lia|] end.
    match goal with |- context [run_f sb REDO_FUEL _ (T DC _ ?gg 0 ?oo) (mkloc ?xx nb ?ll None)] =>
      destruct (IH ltac:(discriminate) HVr Hwr Htc REDO_FUEL S_array_after_sep (acc ++ [xvalue sb e]) below gg oo xx nb ll rest)
        as (f6 & g6 & x6 & lo6 & Hf6 & ->); [auto|exact F16|exact Hdr|] end.
    exists f6, g6, x6, lo6. split; [exact Hf6|].
    cbn [map]. rewrite <- app_assoc. cbn [app xel_val fst snd]. f_equal. f_equal.
    change (seq_tl render_xel (render_tc tc ++ [93]) ((a, e, b) :: y :: r))
      with (render_xel (a, e, b) ++ 44 :: seq_tl render_xel (render_tc tc ++ [93]) (y :: r)).
    cbn [render_xel]. repeat (progress (rewrite ?zlen_app; cbn [zlen])). lia.
Qed.

Lemma xnest_arr_elems w es tc :
  Forall (fun x => (S (xnest (xel_val x)) <= xnest (XArr w es tc))%nat) es.
Proof.
  cbn [xnest]. induction es as [|x r IH]; constructor.
  - cbn [map list_max fold_right]. apply Nat.le_max_l.
  - eapply Forall_impl; [|exact IH]. cbn beta. intros y Hy. cbn [map list_max fold_right].
    etransitivity; [exact Hy|]. apply Nat.le_max_r.
Qed.

Lemma xarr_ok w es tc :
  wf_xstx (XArr w es tc) -> Forall (fun x => xval_ok sb md al (xel_val x)) es -> xval_ok sb md al (XArr w es tc).
Proof.
  intros Hwf HV f below g off x nb lo rest Hf Hd Hr.
  unfold wf_xstx in Hwf. cbn [wf_xstxb] in Hwf. apply andb_true_iff in Hwf. destruct Hwf as [Hw Hes].
  apply andb_true_iff in Hw. destruct Hw as [Hw Htc].
  assert (E1 : forall more, exists g1, run_f sb f (91 :: more) (T DC (fresh_level :: below) g 0 off) (mkloc x nb lo None) =
               run_f sb REDO_FUEL more (T DC (mksrec S_eatws S_array (JArr []) None :: below) g1 0 (off + 1)) (mkloc 91 nb lo None)).
  { intros more. fuel f. destruct g as [p d s u q]. eexists (mkgb _ _ _ _ _). stepC. reflexivity. }
  destruct es as [|y r].
  - cbn [xrender xvalue map app]. rewrite <- app_assoc. cbn [app].
    destruct (E1 (render_xws w ++ 93 :: rest)) as (g1 & ->).
    xws_step sb Hw f2 x2 g2 Hf2.
    assert (E3 : exists g3, run_f sb f2 (93 :: rest) (T DC (mksrec S_eatws S_array (JArr []) None :: below) g2 0 (off + 1 + zlen (render_xws w))) (mkloc x2 nb lo None) =
                 run_f sb REDO_FUEL rest (T DC (mksrec S_eatws S_finish (JArr []) None :: below) g3 0 (off + 1 + zlen (render_xws w) + 1)) (mkloc 93 nb lo None)).
    { fuel f2. destruct g2 as [p d s u q]. eexists (mkgb _ _ _ _ _). stepC. reflexivity. }
    destruct E3 as (g3 & ->).
    exists REDO_FUEL, g3, 93, lo. split; [unfold REDO_FUEL; lia|]. f_equal. f_equal.
    cbn [zlen]. rewrite zlen_app. cbn [zlen]. lia.
  - rewrite xrender_arr_cons. cbn [app xvalue].
    destruct (E1 (seq_tl render_xel (render_tc tc ++ [93]) (y :: r) ++ rest)) as (g1 & ->).
    destruct (xarr_loop tc (y :: r) ltac:(discriminate) HV Hes) with (f := REDO_FUEL) (svs := S_array) (acc := @nil jv)
      (below := below) (g := g1) (off := off + 1) (x := 91) (nb := nb) (lo := lo) (rest := rest)
      as (f2 & g2 & x2 & lo2 & Hf2 & ->).
    + unfold wf_tc in Htc. destruct tc; [apply andb_true_iff in Htc; tauto|exact I].
    + auto.
    + unfold REDO_FUEL; lia.
    + pose proof (xnest_arr_elems w (y :: r) tc) as HN. eapply Forall_impl; [|exact HN]. cbn beta. intros z Hz. lia.
    + exists f2, g2, x2, lo2. split; [exact Hf2|]. cbn [app zlen]. f_equal. f_equal. lia.
Qed.


(* ---------------------------------------------------------------- objects *)
Definition xmem_ok (m : xmem xstx) : bool :=
  let '(a, (q, k), b, c, v, d) := m in
  wf_xws a && (wf_quote q && wf_xchars q k) && wf_xws b && wf_xws c && wf_xstxb v && wf_xws d.
Definition xmem_kv (m : xmem xstx) : list byte * jv := (decode (xm_name m), xvalue sb (xm_val m)).

Lemma xobj_name_open q f svs acc rest below g off x nb lo :
  qok q -> (svs = S_object_field_start \/ svs = S_object_field_start_after_sep) -> (2 <= f)%nat ->
  run_f sb f (q :: rest) (T DC (mksrec S_eatws svs (JObj acc) None :: below) g 0 off) (mkloc x nb lo None) =
  run_f sb REDO_FUEL rest (SSq q DC S_object_field below (JObj acc) None 0 [] svs (g_dbl g) (g_sp g) (g_ucs g) (off + 1)) (mkloc q nb lo None).
Proof.
  intros Hq Hs Hf. fuel f. destruct g as [p d s u q0]. unfold SSq. cbn [Z.eqb g_dbl g_sp g_ucs].
  destruct Hq as [->| ->]; destruct Hs as [->| ->]; stepC; reflexivity.
Qed.

Lemma obj_tc_close f acc below g off x nb lo rest :
  (3 <= f)%nat ->
  exists g',
  run_f sb f (125 :: rest) (T DC (mksrec S_eatws S_object_field_start_after_sep (JObj acc) None :: below) g 0 off) (mkloc x nb lo None) =
  run_f sb REDO_FUEL rest (T DC (mksrec S_eatws S_finish (JObj acc) None :: below) g' 0 (off + 1)) (mkloc 125 nb lo None).
Proof.
  intros Hf. fuel f. destruct g as [p d s u q]. eexists (mkgb _ _ _ _ _). stepC. reflexivity.
Qed.

Lemma xobj_loop tc : forall ms,
  ms <> [] -> Forall (fun m => xval_ok sb md al (xm_val m)) ms -> forallb xmem_ok ms = true ->
  forallb (fun m : xmem xstx => negb (has_byte 0 (decode (xm_name m)))) ms = true ->
  match tc with Some w => wf_xws w = true | None => True end ->
  forall f svs acc below g off x nb lo rest,
    (svs = S_object_field_start \/ svs = S_object_field_start_after_sep) ->
    (8 <= f)%nat ->
    Forall (fun m => zlen below + 1 + Z.of_nat (xnest (xm_val m)) < md) ms ->
    exists f' g' x' lo', (8 <= f')%nat /\
    run_f sb f (seq_tl render_xmem (render_tc tc ++ [125]) ms ++ rest) (T DC (mksrec S_eatws svs (JObj acc) None :: below) g 0 off) (mkloc x nb lo None) =
    run_f sb f' rest (T DC (mksrec S_eatws S_finish (JObj (fold_left add_kv (map xmem_kv ms) acc)) None :: below) g' 0
                        (off + zlen (seq_tl render_xmem (render_tc tc ++ [125]) ms))) (mkloc x' nb lo' None).
Proof.
  induction ms as [|[[[[[a [q k]] b] cw] v] d] r IH]; [congruence|].
  intros _ HV Hwf Hnn Htc f svs acc below g off x nb lo rest Hs Hf Hd.
  inversion HV as [|? ? HVe HVr]; subst. inversion Hd as [|? ? Hde Hdr]; subst.
  cbn [forallb xmem_ok] in Hwf. apply andb_true_iff in Hwf. destruct Hwf as [Hwm Hwr].
  apply andb_true_iff in Hwm. destruct Hwm as [Hwm Hwd]. apply andb_true_iff in Hwm. destruct Hwm as [Hwm Hwv].
  apply andb_true_iff in Hwm. destruct Hwm as [Hwm Hwc]. apply andb_true_iff in Hwm. destruct Hwm as [Hwm Hwb].
  apply andb_true_iff in Hwm. destruct Hwm as [Hwa Hwk]. apply andb_true_iff in Hwk. destruct Hwk as [Hwq Hwk].
  pose proof (qok_of q Hwq) as Hq.
  cbn [forallb] in Hnn. apply andb_true_iff in Hnn. destruct Hnn as [Hnk Hnr].
  unfold xm_val, xm_name in HVe, Hde, Hnk. cbn [fst snd] in HVe, Hde, Hnk.
  assert (Hkey : cstr (decode k) = decode k) by (apply cstr_nonul; destruct (has_byte 0 (decode k)); [discriminate|reflexivity]).
  set (tl_ := match r with [] => render_tc tc ++ [125] | _ :: _ => 44 :: seq_tl render_xmem (render_tc tc ++ [125]) r end).
  match goal with |- context [seq_tl render_xmem ?tl0 ?l0 ++ rest] =>
  assert (ER : seq_tl render_xmem tl0 l0 ++ rest =
               render_xws a ++ q :: render_chars k ++ q :: render_xws b ++ 58 :: render_xws cw ++ xrender v ++ render_xws d ++ tl_ ++ rest) end.
  { cbn [seq_tl render_xmem]. unfold render_xstr. fold tl_.
    repeat (rewrite <- ?app_assoc; cbn [app]; rewrite <- ?app_comm_cons). reflexivity. }
  rewrite ER.
  assert (F16 : (8 <= REDO_FUEL)%nat) by (unfold REDO_FUEL; lia).
  xws_step sb Hwa f1 x1 g1 Hf1.
  rewrite xobj_name_open; [|exact Hq|exact Hs|lia].
  match goal with |- context [run_f sb REDO_FUEL (render_chars k ++ ?more) (SSq q DC _ _ _ _ _ _ _ ?dd ?ss ?uu ?oo) (mkloc ?xx nb ?ll None)] =>
    destruct (str_body_q sb q DC S_object_field k Hq (or_intror eq_refl) eq_refl Hwk REDO_FUEL 0 [] svs dd ss uu below (JObj acc) None
                oo xx nb ll more F16 (or_introl eq_refl))
      as (f2 & x2 & hi2 & pend & svx2 & sp2 & uc2 & Hf2 & Hhi2 & Hp & ->) end.
  match goal with |- context [run_f sb f2 (q :: ?more) (SSq q DC _ _ _ _ _ _ _ ?dd ?ss ?uu ?oo) (mkloc ?xx nb ?ll None)] =>
    destruct (str_close_q sb q DC S_object_field Hq (or_intror eq_refl) f2 hi2 pend svx2 dd ss uu below (JObj acc) None
                oo xx nb ll more Hf2 Hhi2) as (g3 & ->) end.
  cbn [close_top]. rewrite <- Hp. cbn [app]. rewrite dec_decode, Hkey.
  xws_step sb Hwb f4 x4 g4 Hf4.
  rewrite obj_colon by lia.
  xws_step sb Hwc f5 x5 g5 Hf5.
  destruct (xrender_first v Hwv) as (x0 & tl0 & Ex0 & Hx0).
  set (tailb := render_xws d ++ tl_ ++ rest).
  assert (Hpush : forall gg oo xx ll, exists f6, (4 <= f6)%nat /\
            run_f sb f5 (xrender v ++ tailb) (T DC (mksrec S_eatws S_object_value (JObj acc) (Some (decode k)) :: below) gg 0 oo) (mkloc xx nb ll None) =
            run_f sb f6 (xrender v ++ tailb) (T DC (fresh_level :: mksrec S_object_value_add S_object_value (JObj acc) (Some (decode k)) :: below) gg 0 oo) (mkloc x0 nb ll None)).
  { intros gg oo xx ll. rewrite Ex0. cbn [app]. fuel f5. exists (S (S (S (S (S (S f5)))))). split; [lia|].
    rewrite push_step; [|auto|exact Hx0|cbn [c_md]; pose proof (Nat2Z.is_nonneg (xnest v)); lia]. reflexivity. }
  match goal with |- context [run_f sb f5 _ (T DC _ ?gg 0 ?oo) (mkloc ?xx nb ?ll None)] =>
    destruct (Hpush gg oo xx ll) as (f6 & Hf6 & ->) end. clear Hpush.
  assert (Htl : xfol_rest (mksrec S_object_value_add S_object_value (JObj acc) (Some (decode k)) :: below) (tl_ ++ rest) = true).
  { subst tl_. destruct r; [destruct tc; reflexivity|reflexivity]. }
  match goal with |- context [run_f sb f6 _ (T DC _ ?gg 0 ?oo) (mkloc ?xx nb ?ll None)] =>
    destruct (HVe f6 (mksrec S_object_value_add S_object_value (JObj acc) (Some (decode k)) :: below) gg oo xx nb ll tailb Hf6)
      as (f7 & g7 & x7 & lo7 & Hf7 & ->) end.
  { cbn [zlen]. lia. }
  { subst tailb. apply xfol_rest_ws; [discriminate|exact Hwd|exact Htl]. }
  subst tailb. xws_step sb Hwd f8 x8 g8 Hf8.
  subst tl_. destruct r as [|y r].
  - destruct tc as [w'|].
    + cbn [render_tc app]. rewrite <- app_assoc. cbn [app].
      match goal with |- context [run_f sb f8 _ (T DC _ ?gg 0 ?oo) (mkloc ?xx nb ?ll None)] =>
        destruct (obj_pop_comma sb DC f8 (render_xws w' ++ 125 :: rest) (xvalue sb v) None (decode k) acc below gg oo xx nb ll) as (g9 & ->); [lia|] end.
      xws_step sb Htc f10 x10 g10 Hf10.
      match goal with |- context [run_f sb f10 _ (T DC _ ?gg 0 ?oo) (mkloc ?xx nb ?ll None)] =>
        destruct (obj_tc_close f10 (obj_add acc (decode k) (xvalue sb v)) below gg oo xx nb ll rest) as (g11 & ->); [lia|] end.
      exists REDO_FUEL, g11, 125, (xvalue sb v). split; [exact F16|].
      cbn [map fold_left]. unfold add_kv at 1, xmem_kv at 1, xm_name, xm_val. cbn [fst snd]. f_equal. f_equal.
      cbn [seq_tl render_xmem render_tc]. unfold render_xstr. repeat (progress (rewrite ?zlen_app; cbn [zlen])). lia.
    + cbn [render_tc app].
      match goal with |- context [run_f sb f8 _ (T DC _ ?gg 0 ?oo) (mkloc ?xx nb ?ll None)] =>
        destruct (obj_pop_close sb DC f8 rest (xvalue sb v) None (decode k) acc below gg oo xx nb ll) as (g9 & ->); [lia|] end.
      exists REDO_FUEL, g9, 125, (xvalue sb v). split; [exact F16|].
      cbn [map fold_left]. unfold add_kv at 1, xmem_kv at 1, xm_name, xm_val. cbn [fst snd]. f_equal. f_equal.
      cbn [seq_tl render_xmem render_tc]. unfold render_xstr. repeat (progress (rewrite ?zlen_app; cbn [zlen])). lia.
  - cbn [app].
    match goal with |- context [run_f sb f8 _ (T DC _ ?gg 0 ?oo) (mkloc ?xx nb ?ll None)] =>
      destruct (obj_pop_comma sb DC f8 (seq_tl render_xmem (render_tc tc ++ [125]) (y :: r) ++ rest) (xvalue sb v) None (decode k) acc below gg oo xx nb ll) as (g9 & ->); [lia|] end.
    match goal with |- context [run_f sb REDO_FUEL _ (T DC _ ?gg 0 ?oo) (mkloc ?xx nb ?ll None)] =>
      destruct (IH ltac:(discriminate) HVr Hwr Hnr Htc REDO_FUEL S_object_field_start_after_sep (obj_add acc (decode k) (xvalue sb v)) below gg oo xx nb ll rest)
        as (f10 & g10 & x10 & lo10 & Hf10 & ->); [auto|exact F16|exact Hdr|] end.
    exists f10, g10, x10, lo10. split; [exact Hf10|].
    cbn [map fold_left]. unfold add_kv at 2, xmem_kv at 2, xm_name, xm_val. cbn [fst snd]. f_equal. f_equal.
    change (seq_tl render_xmem (render_tc tc ++ [125]) ((a, (q, k), b, cw, v, d) :: y :: r))
      with (render_xmem (a, (q, k), b, cw, v, d) ++ 44 :: seq_tl render_xmem (render_tc tc ++ [125]) (y :: r)).
    cbn [render_xmem]. unfold render_xstr. repeat (progress (rewrite ?zlen_app; cbn [zlen])). lia.
Qed.

Lemma xnest_obj_mems w ms tc : Forall (fun m => (S (xnest (xm_val m)) <= xnest (XObj w ms tc))%nat) ms.
Proof.
  cbn [xnest]. induction ms as [|x r IH]; constructor.
  - cbn [map list_max fold_right]. apply Nat.le_max_l.
  - eapply Forall_impl; [|exact IH]. cbn beta. intros y Hy. cbn [map list_max fold_right].
    etransitivity; [exact Hy|]. apply Nat.le_max_r.
Qed.

Lemma xobj_ok w ms tc :
  wf_xstx (XObj w ms tc) -> xnames_nul_free (XObj w ms tc) = true ->
  Forall (fun m => xval_ok sb md al (xm_val m)) ms -> xval_ok sb md al (XObj w ms tc).
Proof.
  intros Hwf Hnn HV f below g off x nb lo rest Hf Hd Hr.
  unfold wf_xstx in Hwf. cbn [wf_xstxb] in Hwf. apply andb_true_iff in Hwf. destruct Hwf as [Hw Hms].
  apply andb_true_iff in Hw. destruct Hw as [Hw Htc].
  assert (E1 : forall more, exists g1, run_f sb f (123 :: more) (T DC (fresh_level :: below) g 0 off) (mkloc x nb lo None) =
               run_f sb REDO_FUEL more (T DC (mksrec S_eatws S_object_field_start (JObj []) None :: below) g1 0 (off + 1)) (mkloc 123 nb lo None)).
  { intros more. fuel f. destruct g as [p d s u q]. eexists (mkgb _ _ _ _ _). stepC. reflexivity. }
  destruct ms as [|y r].
  - cbn [xrender xvalue map fold_left app]. rewrite <- app_assoc. cbn [app].
    destruct (E1 (render_xws w ++ 125 :: rest)) as (g1 & ->).
    xws_step sb Hw f2 x2 g2 Hf2.
    assert (E3 : exists g3, run_f sb f2 (125 :: rest) (T DC (mksrec S_eatws S_object_field_start (JObj []) None :: below) g2 0 (off + 1 + zlen (render_xws w))) (mkloc x2 nb lo None) =
                 run_f sb REDO_FUEL rest (T DC (mksrec S_eatws S_finish (JObj []) None :: below) g3 0 (off + 1 + zlen (render_xws w) + 1)) (mkloc 125 nb lo None)).
    { fuel f2. destruct g2 as [p d s u q]. eexists (mkgb _ _ _ _ _). stepC. reflexivity. }
    destruct E3 as (g3 & ->).
    exists REDO_FUEL, g3, 125, lo. split; [unfold REDO_FUEL; lia|]. f_equal. f_equal.
    cbn [zlen]. rewrite zlen_app. cbn [zlen]. lia.
  - rewrite xrender_obj_cons. cbn [app xvalue].
    destruct (E1 (seq_tl render_xmem (render_tc tc ++ [125]) (y :: r) ++ rest)) as (g1 & ->).
    destruct (xobj_loop tc (y :: r) ltac:(discriminate) HV Hms) with (f := REDO_FUEL) (svs := S_object_field_start) (acc := @nil (list byte * jv))
      (below := below) (g := g1) (off := off + 1) (x := 123) (nb := nb) (lo := lo) (rest := rest)
      as (f2 & g2 & x2 & lo2 & Hf2 & ->).
    + cbn [xnames_nul_free] in Hnn. rewrite forallb_forall in Hnn |- *. intros m Hm. specialize (Hnn m Hm).
      apply andb_true_iff in Hnn. tauto.
    + unfold wf_tc in Htc. destruct tc; [apply andb_true_iff in Htc; tauto|exact I].
    + auto.
    + unfold REDO_FUEL; lia.
    + pose proof (xnest_obj_mems w (y :: r) tc) as HN. eapply Forall_impl; [|exact HN]. cbn beta. intros z Hz. lia.
    + exists f2, g2, x2, lo2. split; [exact Hf2|]. cbn [app zlen]. f_equal. f_equal. lia.
Qed.

End S.
