(* TokProofs.v — lemmas about the tokener model used by Properties_C01/C04/C15/C16. *)
From JC Require Import Base BaseLemmas Value TokModel.
Local Open Scope Z_scope.
Ltac Zify.zify_post_hook ::= Z.div_mod_to_equations.

(* ---------------------------------------------------------------- byte strings *)
Lemma bytes_eqb_eq a b : bytes_eqb a b = true <-> a = b.
Proof.
  revert b; induction a as [|x a IH]; intros [|y b]; cbn; split; intros H; try discriminate; try reflexivity.
  - apply andb_true_iff in H. destruct H as [H1 H2]. apply Z.eqb_eq in H1. apply IH in H2. congruence.
  - inversion H; subst. rewrite Z.eqb_refl. cbn. apply IH. reflexivity.
Qed.
Lemma bytes_eqb_refl a : bytes_eqb a a = true.
Proof. apply bytes_eqb_eq. reflexivity. Qed.
Lemma bytes_eqb_sym a b : bytes_eqb a b = bytes_eqb b a.
Proof.
  destruct (bytes_eqb a b) eqn:E.
  - apply bytes_eqb_eq in E. subst. symmetry. apply bytes_eqb_refl.
  - destruct (bytes_eqb b a) eqn:E2; [|reflexivity]. apply bytes_eqb_eq in E2. subst.
    rewrite bytes_eqb_refl in E. discriminate.
Qed.

(* ---------------------------------------------------------------- members *)
Fixpoint assoc_get (ms : list (list byte * jv)) (k : list byte) : option jv :=
  match ms with
  | [] => None
  | (k', v) :: r => if bytes_eqb k' k then Some v else assoc_get r k
  end.

Lemma obj_add_spec ms k v :
  map fst (obj_add ms k v) = (if existsb (fun kv => bytes_eqb (fst kv) k) ms then map fst ms else map fst ms ++ [k]) /\
  (forall k', bytes_eqb k' k = false -> assoc_get (obj_add ms k v) k' = assoc_get ms k') /\
  assoc_get (obj_add ms k v) k = Some v.
Proof.
  induction ms as [|[k0 v0] ms IH]; cbn.
  - rewrite bytes_eqb_refl. repeat split. intros k' H. rewrite bytes_eqb_sym, H. reflexivity.
  - destruct IH as (IH1 & IH2 & IH3). destruct (bytes_eqb k0 k) eqn:E; cbn.
    + rewrite E. repeat split. intros k' H. apply bytes_eqb_eq in E. subst k0.
      rewrite bytes_eqb_sym, H. reflexivity.
    + rewrite E. repeat split.
      * rewrite IH1. destruct (existsb _ ms); reflexivity.
      * intros k' H. destruct (bytes_eqb k0 k'); [reflexivity|]. apply IH2. exact H.
      * exact IH3.
Qed.

(* ---------------------------------------------------------------- integer tokens *)
Definition digits_value (ds : list byte) : Z := fst (digits_val ds 0).

Lemma digits_val_all ds : Forall (fun c => is_digit c = true) ds ->
  forall acc, 0 <= acc -> exists v, digits_val ds acc = (v, []) /\ acc <= v.
Proof.
  induction 1 as [|c ds Hc Hds IH]; intros acc Hacc; cbn.
  - exists acc. split; [reflexivity|lia].
  - rewrite Hc. unfold is_digit in Hc.
    destruct (IH (acc * 10 + (c - 48))) as (v & Hv & Hle); [lia|]. exists v. split; [exact Hv|]. lia.
Qed.

Section Numbers.
Variable sb : list byte -> Z.

(* a superfluous leading zero: "0" followed by at least one more digit *)
Definition leading_zero (ds : list byte) : bool :=
  match ds with d0 :: _ :: _ => d0 =? 48 | _ => false end.

Lemma lz_check ds : Forall (fun c => is_digit c = true) ds ->
  (match ds with d0 :: d1 :: _ => (d0 =? 48) && is_digit d1 | _ => false end) = leading_zero ds.
Proof.
  intros H. destruct ds as [|d0 [|d1 r]]; try reflexivity. cbn.
  inversion H as [|? ? _ H1]; subst. inversion H1 as [|? ? Hd _]; subst. rewrite Hd. apply andb_true_r.
Qed.

Lemma single_zero ds v : Forall (fun c => is_digit c = true) ds -> ds <> [] ->
  leading_zero ds = false -> hd 0 ds = 48 -> digits_val ds 0 = (v, []) -> v = 0.
Proof.
  intros Hall Hne Hlz Hhd Hv. destruct ds as [|d0 [|d1 r]]; [congruence| |].
  - cbn in Hhd. subst d0. cbn in Hv. inversion Hv. reflexivity.
  - cbn in Hhd, Hlz. subst d0. discriminate.
Qed.

Lemma int_token_exact t ds :
  ds <> [] -> Forall (fun c => is_digit c = true) ds ->
  pb t = ds -> is_double t = false ->
  classify_number sb t =
    let v := digits_value ds in
    if strict t && leading_zero ds then NumErr
    else if v <=? INT64_MAX then NumVal (JInt v)
    else if v <=? UINT64_MAX then NumVal (JUint v)
    else if strict t then NumErr else NumVal (JUint UINT64_MAX).
Proof.
  intros Hne Hall Hpb Hd. unfold classify_number, digits_value. rewrite Hpb, Hd. cbn [negb andb].
  destruct ds as [|c ds']; [congruence|].
  assert (Hc : is_digit c = true) by (inversion Hall; assumption).
  assert (Hc45 : (c =? 45) = false) by (unfold is_digit in Hc; lia).
  rewrite Hc45. rewrite (lz_check (c :: ds') Hall).
  destruct (strict t && leading_zero (c :: ds')) eqn:ELZ; [reflexivity|].
  destruct (digits_val_all (c :: ds') Hall 0 ltac:(lia)) as (v & Hv & Hge). rewrite Hv. cbn [fst].
  pose proof (zlen_nonneg ds'). cbn [zlen].
  destruct (0 =? 1 + zlen ds') eqn:E0; [lia|]. clear E0.
  unfold INT64_MAX, UINT64_MAX in *.
  (* the older test  v <> 0 /\ first = '0' /\ strict  is subsumed *)
  assert (Hold : (negb (v =? 0) && (c =? 48) && strict t) = false).
  { destruct (strict t) eqn:Es; [|apply andb_false_r]. cbn [andb] in ELZ.
    destruct (c =? 48) eqn:E48; [|rewrite andb_false_r; reflexivity].
    assert (v = 0).
    { apply (single_zero (c :: ds') v Hall); [discriminate|exact ELZ|cbn; lia|exact Hv]. }
    subst v. reflexivity. }
  destruct (v <=? 9223372036854775807) eqn:E1.
  - destruct (v >? 18446744073709551615) eqn:E2; [lia|]. cbn [andb]. rewrite Hold, E1. reflexivity.
  - destruct (v <=? 18446744073709551615) eqn:E3.
    + destruct (v >? 18446744073709551615) eqn:E2; [lia|]. cbn [andb]. rewrite Hold, E1. reflexivity.
    + destruct (v >? 18446744073709551615) eqn:E2; [|lia]. cbn [andb].
      destruct (strict t) eqn:Es; [reflexivity|]. cbn [negb andb] in *. rewrite andb_false_r. cbn. reflexivity.
Qed.

Lemma neg_int_token_exact t ds :
  ds <> [] -> Forall (fun c => is_digit c = true) ds ->
  pb t = 45 :: ds -> is_double t = false ->
  classify_number sb t =
    let v := digits_value ds in
    if strict t && leading_zero ds then NumErr
    else if v <=? 9223372036854775808 then NumVal (JInt (- v))
    else if strict t then NumErr else NumVal (JInt INT64_MIN).
Proof.
  intros Hne Hall Hpb Hd. unfold classify_number, digits_value. rewrite Hpb, Hd. cbn [negb andb tl].
  rewrite Z.eqb_refl. rewrite (lz_check ds Hall).
  destruct (strict t && leading_zero ds) eqn:ELZ; [reflexivity|].
  destruct (digits_val_all ds Hall 0 ltac:(lia)) as (v & Hv & Hge). rewrite Hv. cbn [fst].
  destruct ds as [|c ds']; [congruence|]. pose proof (zlen_nonneg ds'). cbn [zlen].
  destruct (0 =? 1 + zlen ds') eqn:E0; [lia|]. clear E0.
  destruct (v >? 9223372036854775808) eqn:E1.
  - destruct (v <=? 9223372036854775808) eqn:E2; [lia|]. destruct (strict t); reflexivity.
  - destruct (v <=? 9223372036854775808) eqn:E2; [|lia]. cbn. reflexivity.
Qed.
End Numbers.

(* ---------------------------------------------------------------- finite sweeps *)
Fixpoint zrange (lo : Z) (n : nat) : list Z :=
  match n with O => [] | S n' => lo :: zrange (lo + 1) n' end.

Lemma zrange_forall (f : Z -> bool) n : forall lo,
  forallb f (zrange lo n) = true -> forall u, lo <= u < lo + Z.of_nat n -> f u = true.
Proof.
  induction n as [|n IH]; intros lo H u Hu; [lia|].
  cbn [zrange forallb] in H. apply andb_true_iff in H. destruct H as [H1 H2].
  destruct (Z.eq_dec u lo) as [->|Hne]; [exact H1|].
  apply (IH (lo + 1) H2). lia.
Qed.

(* reference UTF-8 encoder, bitwise as in RFC 3629 *)
Definition utf8_ref (u : Z) : list byte :=
  if u <? 128 then [u]
  else if u <? 2048 then [Z.lor 192 (Z.shiftr u 6); Z.lor 128 (Z.land u 63)]
  else if u <? 65536 then [Z.lor 224 (Z.shiftr u 12); Z.lor 128 (Z.land (Z.shiftr u 6) 63); Z.lor 128 (Z.land u 63)]
  else [Z.lor 240 (Z.shiftr u 18); Z.lor 128 (Z.land (Z.shiftr u 12) 63); Z.lor 128 (Z.land (Z.shiftr u 6) 63); Z.lor 128 (Z.land u 63)].

Definition hexchar (upper : bool) (d : Z) : byte :=
  if d <? 10 then 48 + d else (if upper then 55 else 87) + d.
Definition hex4 (upper : bool) (u : Z) : list byte :=
  [hexchar upper (u / 4096); hexchar upper ((u / 256) mod 16); hexchar upper ((u / 16) mod 16); hexchar upper (u mod 16)].

(* a tokener inside a string, just after "\u" *)
Definition tok_in_unicode (high : Z) : tok :=
  mktok [mksrec S_escape_unicode S_string JNull None] 32 [120] false 0 0 high 34 false false false 0 TE_success.

Definition feed (sb : list byte -> Z) (bs : list byte) (t : tok) : option tok :=
  fold_left (fun ot b => match ot with
                         | Some t => match redo sb REDO_FUEL t (mkloc b 0 JNull None) with
                                     | Some (Consumed t' _) => Some t'
                                     | _ => None end
                         | None => None end) bs (Some t).

Definition unit_expect (u : Z) : (tstate * list byte * Z) :=
  if is_high_surrogate u then (S_need_escape, [120], u)
  else if is_low_surrogate u then (S_string, [120] ++ utf8_replacement, 0)
  else (S_string, [120] ++ utf8_ref u, 0).

Definition unit_ok_case (upper : bool) (u : Z) : bool :=
  match feed (fun _ => 0) (hex4 upper u) (tok_in_unicode 0) with
  | Some t => let '(s, p, h) := unit_expect u in
              tstate_eqb (st t) s && bytes_eqb (pb t) p && (high_surrogate t =? h) && (st_pos t =? 0)
  | None => false
  end.
Definition unit_ok (u : Z) : bool := unit_ok_case false u && unit_ok_case true u.

(* bit-level facts by tiny sweeps *)
Lemma lor_add_small base n : In (base, n) [(128, 64%nat); (192, 32%nat); (224, 16%nat); (240, 8%nat)] ->
  forall y, 0 <= y < Z.of_nat n -> Z.lor base y = base + y.
Proof.
  intros Hin y Hy.
  assert (H : forallb (fun bn => forallb (fun y => Z.lor (fst bn) y =? fst bn + y) (zrange 0 (snd bn)))
                [(128, 64%nat); (192, 32%nat); (224, 16%nat); (240, 8%nat)] = true) by (vm_compute; reflexivity).
  rewrite forallb_forall in H. specialize (H _ Hin). cbn [fst snd] in H.
  apply Z.eqb_eq. apply (zrange_forall _ _ 0 H). lia.
Qed.

Lemma land63 x : 0 <= x -> Z.land x 63 = x mod 64.
Proof. intros H. change 63 with (Z.ones 6). rewrite Z.land_ones by lia. reflexivity. Qed.

Lemma utf8_encode_ref u : 0 <= u < 1114112 -> utf8_encode u = utf8_ref u.
Proof.
  intros Hu. unfold utf8_encode, utf8_ref.
  assert (S6 : Z.shiftr u 6 = u / 64) by (rewrite Z.shiftr_div_pow2 by lia; reflexivity).
  assert (S12 : Z.shiftr u 12 = u / 4096) by (rewrite Z.shiftr_div_pow2 by lia; reflexivity).
  assert (S18 : Z.shiftr u 18 = u / 262144) by (rewrite Z.shiftr_div_pow2 by lia; reflexivity).
  rewrite S6, S12, S18, !land63 by (try apply Z.div_pos; lia).
  destruct (u <? 128) eqn:E1; [reflexivity|].
  destruct (u <? 2048) eqn:E2.
  { rewrite (lor_add_small 192 32) by (cbn; auto; lia).
    rewrite (lor_add_small 128 64) by (cbn; auto; lia). reflexivity. }
  destruct (u <? 65536) eqn:E3.
  { rewrite (lor_add_small 224 16) by (cbn; auto; lia).
    rewrite !(lor_add_small 128 64) by (cbn; auto; lia). reflexivity. }
  rewrite (lor_add_small 240 8) by (cbn; auto; lia).
  rewrite !(lor_add_small 128 64) by (cbn; auto; lia).
  rewrite (Z.mod_small (u / 262144) 8) by lia. reflexivity.
Qed.

Lemma decode_pair_val hi lo : 55296 <= hi < 56320 -> 56320 <= lo < 57344 ->
  decode_pair hi lo = 65536 + (hi - 55296) * 1024 + (lo - 56320).
Proof. intros H1 H2. unfold decode_pair. lia. Qed.

(* ---------------------------------------------------------------- witnesses *)
Lemma parse_name_nul_refuted :
  exists text t, tok_new 32 false false false = Some t /\
    text = [123;34;97;92;117;48;48;48;48;98;34;58;49;44;34;97;92;117;48;48;48;48;99;34;58;50;125] /\
    match parse_ex_cstr (fun _ => 0) t text with
    | PR _ (Some v) => v = JObj [([97], JInt 2)]
    | _ => False end.
Proof. eexists _, _. split; [reflexivity|]. split; [reflexivity|]. vm_compute. reflexivity. Qed.

Definition parse_str (strictf : bool) (s : list byte) : option (terr * Z * option jv) :=
  match tok_new 32 strictf false false with
  | Some t => match parse_ex_cstr (fun _ => 4607182418800017408) t s with
              | PR t' r => Some (err t', char_offset t', r)
              | PRFuel => None end
  | None => None
  end.

(* [1, "aé", {"k":[true,null]}, -0, 18446744073709551615]   and   " [ ] " *)
Definition parse_examples_ok : bool :=
  match parse_str true [91;49;44;32;34;97;92;117;48;48;101;57;34;44;123;34;107;34;58;91;116;114;117;101;44;110;117;108;108;93;125;44;45;48;44;49;56;52;52;54;55;52;52;48;55;51;55;48;57;53;53;49;54;49;53;93] with
  | Some (TE_success, 56, Some (JArr [JInt 1; JStr [97;195;169]; JObj [([107], JArr [JBool true; JNull])]; JInt 0; JUint 18446744073709551615])) => true
  | _ => false
  end &&
  match parse_str false [32;91;32;93;32] with
  | Some (TE_success, 5, Some (JArr [])) => true
  | _ => false
  end.
Lemma parse_examples : parse_examples_ok = true.
Proof. vm_compute. reflexivity. Qed.
