(* HeapProofs.v — C05: invariant of the reference-counted heap, preserved by every
   admissible operation; destroyed-once, survival, failure and emptiness theorems. *)
From JC Require Import Base BaseLemmas HeapModel.
Local Open Scope Z_scope.

(* ------------------------------------------------------------------ association list *)
Definition hkeys (h : heap) : list id := map fst h.

Lemma hfind_hdel : forall h i j, hfind (hdel h i) j = if i =? j then None else hfind h j.
Proof.
  induction h as [|[k n] t IH]; intros i j; simpl.
  - destruct (i =? j); reflexivity.
  - destruct (k =? i) eqn:E; simpl.
    + rewrite IH. apply Z.eqb_eq in E. subst k.
      destruct (i =? j) eqn:E2; reflexivity.
    + rewrite IH. destruct (k =? j) eqn:E2; [|reflexivity].
      apply Z.eqb_eq in E2. subst k. rewrite Z.eqb_sym, E. reflexivity.
Qed.

Lemma hfind_hset : forall h i n j, hfind (hset h i n) j = if i =? j then Some n else hfind h j.
Proof.
  intros. unfold hset. simpl. destruct (i =? j) eqn:E; [reflexivity|].
  rewrite hfind_hdel, E. reflexivity.
Qed.

Lemma hfind_in_keys : forall h i, hfind h i <> None <-> In i (hkeys h).
Proof.
  induction h as [|[k n] t IH]; intros i; simpl.
  - split; [congruence|tauto].
  - destruct (k =? i) eqn:E.
    + apply Z.eqb_eq in E. split; [auto|congruence].
    + apply Z.eqb_neq in E. rewrite IH. split; [auto|intros [?|?]; [congruence|auto]].
Qed.

Lemma hfind_none_keys : forall h i, hfind h i = None <-> ~ In i (hkeys h).
Proof.
  intros. rewrite <- hfind_in_keys. destruct (hfind h i); split; intros; try congruence; try tauto.
  exfalso. apply H. congruence.
Qed.

Lemma hkeys_hdel : forall h i j, In j (hkeys (hdel h i)) <-> In j (hkeys h) /\ j <> i.
Proof.
  intros. rewrite <- !hfind_in_keys, hfind_hdel.
  destruct (i =? j) eqn:E.
  - apply Z.eqb_eq in E. split; [congruence|intros [_ ?]; congruence].
  - apply Z.eqb_neq in E. split; [intros; split; auto|tauto].
Qed.

Lemma nodup_hdel : forall h i, NoDup (hkeys h) -> NoDup (hkeys (hdel h i)).
Proof.
  induction h as [|[k n] t IH]; intros i H; simpl; [constructor|].
  inversion H; subst. destruct (k =? i) eqn:E; simpl; [auto|].
  constructor; [|auto]. intro X. apply hkeys_hdel in X. tauto.
Qed.

Lemma nodup_hset : forall h i n, NoDup (hkeys h) -> NoDup (hkeys (hset h i n)).
Proof.
  intros. unfold hset. simpl. constructor; [|apply nodup_hdel; auto].
  intro X. apply hkeys_hdel in X. tauto.
Qed.

Lemma hdel_absent : forall h i, hfind h i = None -> hdel h i = h.
Proof.
  induction h as [|[k n] t IH]; intros i H; simpl in *; [reflexivity|].
  destruct (k =? i) eqn:E; [congruence|]. simpl. rewrite IH; auto.
Qed.

Lemma length_hdel_le : forall h i, (length (hdel h i) <= length h)%nat.
Proof.
  induction h as [|[k n] t IH]; intros i; simpl; [lia|].
  destruct (k =? i); simpl; specialize (IH i); lia.
Qed.

Lemma length_hdel_lt : forall h i, hfind h i <> None -> (length (hdel h i) < length h)%nat.
Proof.
  induction h as [|[k n] t IH]; intros i H; simpl in *; [congruence|].
  destruct (k =? i) eqn:E; simpl.
  - pose proof (length_hdel_le t i). lia.
  - specialize (IH i H). lia.
Qed.

Lemma length_hset_le : forall h i n, hfind h i <> None -> (length (hset h i n) <= length h)%nat.
Proof. intros. unfold hset. simpl. pose proof (length_hdel_lt h i H). lia. Qed.

(* ------------------------------------------------------------------ counting *)
Fixpoint cnt (l : list id) (j : id) : Z :=
  match l with [] => 0 | x :: t => (if x =? j then 1 else 0) + cnt t j end.
Definition cntk (cs : list (key * option id)) (j : id) : Z := cnt (kid_ids cs) j.

Lemma cnt_nonneg : forall l j, 0 <= cnt l j.
Proof. induction l; intros; simpl; [lia|]. specialize (IHl j). destruct (a =? j); lia. Qed.

Lemma cnt_app : forall a b j, cnt (a ++ b) j = cnt a j + cnt b j.
Proof. induction a; intros; simpl; [lia|]. rewrite IHa. lia. Qed.

Lemma cnt_pos_in : forall l j, cnt l j > 0 <-> In j l.
Proof.
  induction l; intros; simpl; [split; [lia|tauto]|].
  pose proof (cnt_nonneg l j). destruct (a =? j) eqn:E.
  - apply Z.eqb_eq in E. split; [auto|lia].
  - apply Z.eqb_neq in E. rewrite <- IHl. split; [intros; right; lia|intros [?|?]; [congruence|lia]].
Qed.

Lemma cnt_zero_notin : forall l j, cnt l j = 0 <-> ~ In j l.
Proof. intros. rewrite <- cnt_pos_in. pose proof (cnt_nonneg l j). lia. Qed.

Lemma kid_ids_app : forall a b, kid_ids (a ++ b) = kid_ids a ++ kid_ids b.
Proof.
  induction a as [|[k [c|]] t IH]; intros; simpl; [reflexivity| |]; rewrite IH; reflexivity.
Qed.

Lemma kid_ids_cons : forall k v t, kid_ids ((k, v) :: t) = opt_ids v ++ kid_ids t.
Proof. intros. destruct v; reflexivity. Qed.

Lemma cntk_app : forall a b j, cntk (a ++ b) j = cntk a j + cntk b j.
Proof. intros. unfold cntk. rewrite kid_ids_app. apply cnt_app. Qed.

Lemma cntk_cons : forall k v t j, cntk ((k, v) :: t) j = cnt (opt_ids v) j + cntk t j.
Proof. intros. unfold cntk. rewrite kid_ids_cons. apply cnt_app. Qed.

Lemma cntk_nonneg : forall cs j, 0 <= cntk cs j.
Proof. intros. apply cnt_nonneg. Qed.

Definition indeg (h : heap) (j : id) : Z :=
  fold_right (fun p acc => cntk (children (snd p)) j + acc) 0 h.

Lemma indeg_nonneg : forall h j, 0 <= indeg h j.
Proof. induction h; intros; simpl; [lia|]. specialize (IHh j). pose proof (cntk_nonneg (children (snd a)) j). lia. Qed.

Lemma indeg_hdel : forall h i n j, NoDup (hkeys h) -> hfind h i = Some n ->
  indeg (hdel h i) j = indeg h j - cntk (children n) j.
Proof.
  induction h as [|[k m] t IH]; intros i n j ND H; simpl in *; [congruence|].
  inversion ND; subst. destruct (k =? i) eqn:E; simpl.
  - inversion H; subst. apply Z.eqb_eq in E. subst k.
    rewrite hdel_absent; [lia|]. apply hfind_none_keys. auto.
  - rewrite (IH i n j); auto. lia.
Qed.

Lemma indeg_hset : forall h i n n' j, NoDup (hkeys h) -> hfind h i = Some n ->
  indeg (hset h i n') j = indeg h j - cntk (children n) j + cntk (children n') j.
Proof. intros. unfold hset. simpl. rewrite (indeg_hdel h i n j); auto. lia. Qed.

Lemma indeg_ge_edge : forall h i n j, NoDup (hkeys h) -> hfind h i = Some n ->
  cntk (children n) j <= indeg h j.
Proof.
  intros. pose proof (indeg_hdel h i n j H H0). pose proof (indeg_nonneg (hdel h i) j). lia.
Qed.

Lemma indeg_pos_edge : forall h j, indeg h j > 0 ->
  exists i n, In (i, n) h /\ In j (kid_ids (children n)).
Proof.
  induction h as [|[k m] t IH]; intros j H; simpl in *; [lia|].
  destruct (Z_gt_le_dec (cntk m.(children) j) 0).
  - exists k, m. split; [auto|]. apply cnt_pos_in. exact g.
  - destruct (IH j) as (i & n & A & B); [lia|]. exists i, n. auto.
Qed.

Lemma in_nodup_hfind : forall h i n, NoDup (hkeys h) -> In (i, n) h -> hfind h i = Some n.
Proof.
  induction h as [|[k m] t IH]; intros i n ND H; simpl in *; [tauto|].
  inversion ND; subst. destruct H as [H|H].
  - inversion H; subst. rewrite Z.eqb_refl. reflexivity.
  - destruct (k =? i) eqn:E.
    + apply Z.eqb_eq in E. subst k. exfalso. apply H2. change i with (fst (i, n)). apply in_map. exact H.
    + apply IH; auto.
Qed.

Lemma hfind_in : forall h i n, hfind h i = Some n -> In (i, n) h.
Proof.
  induction h as [|[k m] t IH]; intros i n H; simpl in *; [congruence|].
  destruct (k =? i) eqn:E; [apply Z.eqb_eq in E; inversion H; subst; auto|auto].
Qed.

(* ------------------------------------------------------------------ the invariant (DESIGN A.2) *)
Record Inv (h : heap) (L : ledger) : Prop := mkInv {
  inv_nodup : NoDup (hkeys h);
  inv_kids : forall i n c, hfind h i = Some n -> In c (kid_ids (children n)) -> live h c;
  inv_rc : forall i n, hfind h i = Some n -> rc n = L i + indeg h i /\ rc n > 0;
  inv_L : forall i, L i >= 0;
  inv_Ldead : forall i, hfind h i = None -> L i = 0;
  inv_rank : exists rk : id -> nat,
      forall i n c, hfind h i = Some n -> In c (kid_ids (children n)) -> (rk c < rk i)%nat
}.

Lemma Inv_ext : forall h L L', (forall i, L i = L' i) -> Inv h L -> Inv h L'.
Proof.
  intros h L L' E [A B C D F G]. constructor; auto.
  - intros. rewrite <- E. auto.
  - intros. rewrite <- E. auto.
  - intros. rewrite <- E. auto.
Qed.

Lemma indeg_dead : forall h L j, Inv h L -> hfind h j = None -> indeg h j = 0.
Proof.
  intros h L j I H. pose proof (indeg_nonneg h j).
  destruct (Z_gt_le_dec (indeg h j) 0); [|lia].
  destruct (indeg_pos_edge h j g) as (i & n & A & B).
  apply in_nodup_hfind in A; [|apply (inv_nodup _ _ I)].
  exfalso. apply (inv_kids _ _ I i n j A B). exact H.
Qed.

Lemma inv_owned_live : forall h L i, Inv h L -> L i >= 1 -> exists n, hfind h i = Some n.
Proof.
  intros. destruct (hfind h i) eqn:E; [eauto|].
  pose proof (inv_Ldead _ _ H i E). lia.
Qed.

Lemma inv_no_self : forall h L i n, Inv h L -> hfind h i = Some n -> cntk (children n) i = 0.
Proof.
  intros h L i n I H. apply cnt_zero_notin. intro X.
  destruct (inv_rank _ _ I) as [rk R]. specialize (R i n i H X). lia.
Qed.

(* ------------------------------------------------------------------ elementary transformations *)
Lemma upd_same : forall L i d, upd L i d i = L i + d.
Proof. intros. unfold upd. rewrite Z.eqb_refl. reflexivity. Qed.
Lemma upd_other : forall L i d j, j <> i -> upd L i d j = L j.
Proof. intros. unfold upd. destruct (j =? i) eqn:E; [apply Z.eqb_eq in E; congruence|reflexivity]. Qed.

Lemma live_hset : forall h i n' j, live h i -> (live (hset h i n') j <-> live h j).
Proof.
  unfold live. intros. rewrite hfind_hset. destruct (i =? j) eqn:E; [|tauto].
  apply Z.eqb_eq in E. subst. split; [auto|congruence].
Qed.

Lemma inv_alloc : forall h L i k c u,
  Inv h L -> hfind h i = None -> Inv ((i, mkNode 1 k [] c u) :: h) (upd L i 1).
Proof.
  intros h L i k c u I F. pose proof (inv_Ldead _ _ I i F) as L0.
  pose proof (indeg_dead _ _ _ I F) as D0.
  constructor.
  - simpl. constructor; [apply hfind_none_keys; auto|apply (inv_nodup _ _ I)].
  - intros j n x H X. simpl in H. unfold live. simpl.
    destruct (i =? j) eqn:E.
    + inversion H; subst. simpl in X. tauto.
    + destruct (i =? x); [congruence|]. apply (inv_kids _ _ I j n x H X).
  - intros j n H. simpl in H.
    change (indeg ((i, mkNode 1 k [] c u) :: h) j) with (cntk [] j + indeg h j).
    change (cntk [] j) with 0.
    destruct (i =? j) eqn:E.
    + apply Z.eqb_eq in E. subst j. inversion H; subst. simpl. rewrite upd_same. lia.
    + apply Z.eqb_neq in E. rewrite upd_other by congruence. apply (inv_rc _ _ I j n H).
  - intros j. pose proof (inv_L _ _ I j). unfold upd. destruct (j =? i); lia.
  - intros j H. simpl in H. destruct (i =? j) eqn:E; [congruence|].
    apply Z.eqb_neq in E. rewrite upd_other by congruence. apply (inv_Ldead _ _ I j H).
  - destruct (inv_rank _ _ I) as [rk R]. exists rk. intros j n x H X. simpl in H.
    destruct (i =? j); [inversion H; subst; simpl in X; tauto|]. apply (R j n x H X).
Qed.

(* change of rc / callback only *)
Lemma inv_same_children : forall h L i n n' d,
  Inv h L -> hfind h i = Some n -> children n' = children n -> rc n' = rc n + d -> rc n' > 0 ->
  L i + d >= 0 ->
  Inv (hset h i n') (upd L i d).
Proof.
  intros h L i n n' d I F CH RC POS LD.
  assert (LV : live h i) by (unfold live; congruence).
  assert (IND : forall x, indeg (hset h i n') x = indeg h x).
  { intros. rewrite (indeg_hset h i n n' x (inv_nodup _ _ I) F), CH. lia. }
  constructor.
  - apply nodup_hset. apply (inv_nodup _ _ I).
  - intros j m x H X. apply live_hset; auto. rewrite hfind_hset in H.
    destruct (i =? j) eqn:E.
    + inversion H; subst. rewrite CH in X. apply (inv_kids _ _ I i n x F X).
    + apply (inv_kids _ _ I j m x H X).
  - intros j m H. rewrite IND. rewrite hfind_hset in H. destruct (i =? j) eqn:E.
    + apply Z.eqb_eq in E. subst j. inversion H; subst. rewrite upd_same.
      destruct (inv_rc _ _ I i n F). lia.
    + apply Z.eqb_neq in E. rewrite upd_other by congruence. apply (inv_rc _ _ I j m H).
  - intros j. pose proof (inv_L _ _ I j). unfold upd. destruct (j =? i) eqn:E; [apply Z.eqb_eq in E; subst; lia|lia].
  - intros j H. rewrite hfind_hset in H. destruct (i =? j) eqn:E; [congruence|].
    apply Z.eqb_neq in E. rewrite upd_other by congruence. apply (inv_Ldead _ _ I j H).
  - destruct (inv_rank _ _ I) as [rk R]. exists rk. intros j m x H X. rewrite hfind_hset in H.
    destruct (i =? j) eqn:E.
    + apply Z.eqb_eq in E. subst j. inversion H; subst. rewrite CH in X. apply (R i n x F X).
    + apply (R j m x H X).
Qed.

(* ------------------------------------------------------------------ detaching a node that dies *)
Definition Ladd (L : ledger) (l : list id) : ledger := fun j => L j + cnt l j.
Definition Lsub (L : ledger) (l : list id) : ledger := fun j => L j - cnt l j.

(* node i holds the client's last reference and nothing else refers to it: remove it; its
   references to the children become transient owned references *)
Lemma inv_detach : forall h L i n,
  Inv h L -> hfind h i = Some n -> rc n = 1 -> L i >= 1 ->
  Inv (hdel h i) (Ladd (upd L i (-1)) (kid_ids (children n))).
Proof.
  intros h L i n I F R1 LI.
  pose proof (inv_nodup _ _ I) as ND.
  destruct (inv_rc _ _ I i n F) as [RC _].
  pose proof (indeg_nonneg h i) as IN0.
  assert (LI1 : L i = 1) by lia. assert (IN : indeg h i = 0) by lia.
  assert (NK : forall j m, hfind h j = Some m -> cntk (children m) i = 0).
  { intros. pose proof (indeg_ge_edge h j m i ND H). pose proof (cntk_nonneg (children m) i). lia. }
  constructor.
  - apply nodup_hdel; auto.
  - intros j m x H X. rewrite hfind_hdel in H. destruct (i =? j) eqn:E; [congruence|].
    unfold live. rewrite hfind_hdel. destruct (i =? x) eqn:E2.
    + apply Z.eqb_eq in E2. subst x. specialize (NK j m H).
      apply cnt_zero_notin in NK. tauto.
    + apply (inv_kids _ _ I j m x H X).
  - intros j m H. rewrite hfind_hdel in H. destruct (i =? j) eqn:E; [congruence|].
    apply Z.eqb_neq in E. rewrite (indeg_hdel h i n j ND F). unfold Ladd.
    rewrite upd_other by congruence. fold (cntk (children n) j).
    destruct (inv_rc _ _ I j m H). lia.
  - intros j. unfold Ladd. pose proof (cnt_nonneg (kid_ids (children n)) j). pose proof (inv_L _ _ I j).
    unfold upd. destruct (j =? i) eqn:E; [apply Z.eqb_eq in E; subst; lia|lia].
  - intros j H. rewrite hfind_hdel in H. unfold Ladd. destruct (i =? j) eqn:E.
    + apply Z.eqb_eq in E. subst j. rewrite upd_same. specialize (NK i n F). unfold cntk in NK. lia.
    + apply Z.eqb_neq in E. rewrite upd_other by congruence. rewrite (inv_Ldead _ _ I j H).
      assert (cnt (kid_ids (children n)) j = 0); [|lia].
      apply cnt_zero_notin. intro X. apply (inv_kids _ _ I i n j F X). exact H.
  - destruct (inv_rank _ _ I) as [rk R]. exists rk. intros j m x H X.
    rewrite hfind_hdel in H. destruct (i =? j); [congruence|]. apply (R j m x H X).
Qed.

(* ------------------------------------------------------------------ json_object_put: the cascade *)
Definition put_ok (P : heap -> id -> pres) (bound : heap -> Prop) : Prop :=
  forall h L i, Inv h L -> L i >= 1 -> bound h ->
    exists h' evs b, P h i = POk h' evs b /\ Inv h' (upd L i (-1)) /\ (length h' <= length h)%nat.

Lemma put_list_ok : forall P bound, put_ok P bound ->
  (forall h h', bound h -> (length h' <= length h)%nat -> bound h') ->
  forall l h L, Inv h L -> (forall j, cnt l j <= L j) -> bound h ->
    exists h' evs, put_list P l h = LOk h' evs /\ Inv h' (Lsub L l) /\ (length h' <= length h)%nat.
Proof.
  intros P bound OK MONO. induction l as [|c t IH]; intros h L I C B; simpl.
  - exists h, []. split; [reflexivity|]. split; [|lia].
    eapply Inv_ext; [|exact I]. intros. unfold Lsub. simpl. lia.
  - assert (LC : L c >= 1).
    { specialize (C c). simpl in C. rewrite Z.eqb_refl in C. pose proof (cnt_nonneg t c). lia. }
    destruct (OK h L c I LC B) as (h1 & e1 & b1 & E1 & I1 & Len1). rewrite E1.
    destruct (IH h1 (upd L c (-1)) I1) as (h2 & e2 & E2 & I2 & Len2).
    + intros j. specialize (C j). simpl in C. unfold upd. rewrite (Z.eqb_sym j c).
      destruct (c =? j); lia.
    + eapply MONO; eauto.
    + rewrite E2. exists h2, (e1 ++ e2). split; [reflexivity|]. split; [|lia].
      eapply Inv_ext; [|exact I2]. intros j. unfold Lsub, upd. simpl. rewrite (Z.eqb_sym j c).
      destruct (c =? j); lia.
Qed.

Lemma put_f_ok : forall f, put_ok (put_f f) (fun h => (length h < f)%nat).
Proof.
  induction f as [|f IH]; intros h L i I LI B; [lia|].
  destruct (inv_owned_live _ _ _ I LI) as [n F]. simpl. rewrite F.
  destruct (inv_rc _ _ I i n F) as [RC POS].
  replace (rc n <=? 0) with false by lia.
  destruct (1 <? rc n) eqn:E1.
  - exists (hset h i (set_rc n (rc n - 1))), [], false. split; [reflexivity|]. split.
    + apply (inv_same_children h L i n); auto; simpl; lia.
    + apply length_hset_le. congruence.
  - assert (R1 : rc n = 1) by lia.
    pose proof (inv_detach h L i n I F R1 LI) as I1.
    destruct (put_list_ok (put_f f) (fun h => (length h < f)%nat) IH) with
        (l := kid_ids (children n)) (h := hdel h i)
        (L := Ladd (upd L i (-1)) (kid_ids (children n))) as (h' & evs & E & I' & Len); auto.
    + intros; lia.
    + intros j. unfold Ladd. pose proof (inv_L _ _ I j). unfold upd.
      destruct (j =? i) eqn:EJ; [apply Z.eqb_eq in EJ; subst; lia|lia].
    + assert (hfind h i <> None) by congruence. pose proof (length_hdel_lt h i H). lia.
    + rewrite E. exists h', (EDestroy i (cb n) :: evs), true. split; [reflexivity|]. split.
      * eapply Inv_ext; [|exact I']. intros j. unfold Lsub, Ladd. lia.
      * pose proof (length_hdel_le h i). lia.
Qed.

Lemma put_h_ok : put_ok put_h (fun _ => True).
Proof.
  intros h L i I LI _. unfold put_h. apply (put_f_ok (S (length h)) h L i I LI). lia.
Qed.

(* fuel-sufficiency on heaps that satisfy the invariant: never PFuel, never PUB *)
Theorem put_fuel_sufficient : forall h L i, Inv h L -> L i >= 1 ->
  exists h' evs b, put_h h i = POk h' evs b.
Proof.
  intros. destruct (put_h_ok h L i H H0 I) as (h' & evs & b & E & _). eauto.
Qed.

Lemma release_list_ok : forall l h L, Inv h L -> (forall j, cnt l j <= L j) ->
  exists h' evs, release_list h l = LOk h' evs /\ Inv h' (Lsub L l) /\ (length h' <= length h)%nat.
Proof.
  intros. unfold release_list.
  apply (put_list_ok (fun h i => put_h h i) (fun _ => True)); auto. exact put_h_ok.
Qed.

(* ------------------------------------------------------------------ what a release does to the heap
   (structural facts; no invariant needed) *)
Fixpoint dids (evs : list ev) : list id :=
  match evs with
  | [] => []
  | EDestroy i _ :: t => i :: dids t
  | EUser _ _ :: t => dids t
  end.

Lemma dids_app : forall a b, dids (a ++ b) = dids a ++ dids b.
Proof. induction a as [|[i c|i t] a IH]; intros; simpl; [reflexivity| |]; rewrite IH; reflexivity. Qed.

Lemma nodup_app : forall {A} (a b : list A), NoDup a -> NoDup b -> (forall x, In x a -> ~ In x b) -> NoDup (a ++ b).
Proof.
  induction a; intros; simpl; [auto|]. inversion H; subst. constructor.
  - intro X. apply in_app_or in X. destruct X; [auto|]. apply (H1 a); simpl; auto.
  - apply IHa; auto. intros. apply H1. simpl. auto.
Qed.

Definition same_but_rc (n n' : node) : Prop :=
  nkind n' = nkind n /\ children n' = children n /\ cb n' = cb n /\ ud n' = ud n /\ rc n' <= rc n.

Record PStruct (h h' : heap) (evs : list ev) : Prop := mkPS {
  ps_dead : forall j, hfind h j = None -> hfind h' j = None;
  ps_keep : forall j n', hfind h' j = Some n' -> exists n, hfind h j = Some n /\ same_but_rc n n';
  ps_log : forall j, In j (dids evs) <-> (hfind h j <> None /\ hfind h' j = None);
  ps_nodup : NoDup (dids evs);
  ps_cb : forall j c, In (EDestroy j c) evs -> exists n, hfind h j = Some n /\ cb n = c;
  ps_nouser : forall j t, ~ In (EUser j t) evs
}.

Lemma same_but_rc_refl : forall n, same_but_rc n n.
Proof. intros. unfold same_but_rc. repeat split; lia. Qed.

Lemma ps_refl : forall h, PStruct h h [].
Proof.
  intros. constructor; simpl; auto.
  - intros. exists n'. split; [auto|apply same_but_rc_refl].
  - intros. split; [tauto|intros [A B]; congruence].
  - constructor.
  - intros; tauto.
Qed.

Lemma ps_trans : forall h h1 h2 e1 e2, PStruct h h1 e1 -> PStruct h1 h2 e2 -> PStruct h h2 (e1 ++ e2).
Proof.
  intros h h1 h2 e1 e2 A B. constructor.
  - intros. apply (ps_dead _ _ _ B). apply (ps_dead _ _ _ A). auto.
  - intros j n2 H. destruct (ps_keep _ _ _ B j n2 H) as (n1 & H1 & S1).
    destruct (ps_keep _ _ _ A j n1 H1) as (n & H0 & S0). exists n. split; [auto|].
    unfold same_but_rc in *. intuition (try congruence; try lia).
  - intros j. rewrite dids_app, in_app_iff, (ps_log _ _ _ A j), (ps_log _ _ _ B j). split.
    + intros [[X Y]|[X Y]]; split; auto.
      * apply (ps_dead _ _ _ B). auto.
      * intro Z. apply X. apply (ps_dead _ _ _ A). auto.
    + intros [X Y]. destruct (hfind h1 j) eqn:E; [right; split; congruence|left; auto].
  - rewrite dids_app. apply nodup_app; [apply (ps_nodup _ _ _ A)|apply (ps_nodup _ _ _ B)|].
    intros x X Y. apply (ps_log _ _ _ A) in X. apply (ps_log _ _ _ B) in Y. tauto.
  - intros j c X. apply in_app_or in X. destruct X as [X|X]; [apply (ps_cb _ _ _ A j c X)|].
    destruct (ps_cb _ _ _ B j c X) as (n1 & H1 & C1).
    destruct (ps_keep _ _ _ A j n1 H1) as (n & H0 & S0). exists n. split; [auto|].
    unfold same_but_rc in S0. intuition congruence.
  - intros j t X. apply in_app_or in X. destruct X; [eapply (ps_nouser _ _ _ A)|eapply (ps_nouser _ _ _ B)]; eauto.
Qed.

Lemma ps_dec : forall h i n r, hfind h i = Some n -> r <= rc n -> PStruct h (hset h i (set_rc n r)) [].
Proof.
  intros h i n r F R. constructor.
  - intros j H. rewrite hfind_hset. destruct (i =? j) eqn:E; [apply Z.eqb_eq in E; congruence|auto].
  - intros j n' H. rewrite hfind_hset in H. destruct (i =? j) eqn:E.
    + apply Z.eqb_eq in E. subst j. inversion H; subst. exists n. split; [auto|].
      unfold same_but_rc. simpl. repeat split; auto.
    + exists n'. split; [auto|apply same_but_rc_refl].
  - intros j. rewrite hfind_hset. simpl. split; [tauto|]. intros [A B].
    destruct (i =? j); congruence.
  - constructor.
  - intros j c X. simpl in X. tauto.
  - intros j t X. simpl in X. tauto.
Qed.

Lemma ps_destroy : forall h i n, hfind h i = Some n -> PStruct h (hdel h i) [EDestroy i (cb n)].
Proof.
  intros h i n F. constructor.
  - intros j H. rewrite hfind_hdel. destruct (i =? j); auto.
  - intros j n' H. rewrite hfind_hdel in H. destruct (i =? j); [congruence|].
    exists n'. split; [auto|apply same_but_rc_refl].
  - intros j. rewrite hfind_hdel. simpl. split.
    + intros [X|X]; [subst j; rewrite Z.eqb_refl; split; congruence|tauto].
    + intros [A B]. destruct (i =? j) eqn:E; [apply Z.eqb_eq in E; auto|congruence].
  - simpl. constructor; [simpl; tauto|constructor].
  - intros j c [X|X]; [inversion X; subst; eauto|simpl in X; tauto].
  - intros j t [X|X]; [congruence|simpl in X; tauto].
Qed.

Definition put_struct (P : heap -> id -> pres) : Prop :=
  forall h i h' evs b, P h i = POk h' evs b ->
    PStruct h h' evs /\ (b = true <-> hfind h' i = None) /\ hfind h i <> None.

Lemma put_list_struct : forall P, put_struct P ->
  forall l h h' evs, put_list P l h = LOk h' evs -> PStruct h h' evs.
Proof.
  intros P SP. induction l as [|c t IH]; intros h h' evs H; simpl in H.
  - inversion H; subst. apply ps_refl.
  - destruct (P h c) as [h1 e1 b1| |] eqn:E1; try discriminate.
    destruct (put_list P t h1) as [h2 e2| |] eqn:E2; try discriminate.
    inversion H; subst. destruct (SP _ _ _ _ _ E1) as (S1 & _).
    eapply ps_trans; eauto.
Qed.

Lemma put_f_struct : forall f, put_struct (put_f f).
Proof.
  induction f as [|f IH]; intros h i h' evs b H; simpl in H; [discriminate|].
  destruct (hfind h i) as [n|] eqn:F; [|discriminate].
  destruct (rc n <=? 0); [discriminate|].
  destruct (1 <? rc n) eqn:E1.
  - inversion H; subst. split; [apply ps_dec; auto; lia|]. split; [|congruence].
    rewrite hfind_hset, Z.eqb_refl. split; congruence.
  - destruct (put_list (put_f f) (kid_ids (children n)) (hdel h i)) as [h2 e2| |] eqn:E2; try discriminate.
    inversion H; subst. pose proof (put_list_struct _ IH _ _ _ _ E2) as S2.
    split; [|split; [|congruence]].
    + change (EDestroy i (cb n) :: e2) with ([EDestroy i (cb n)] ++ e2).
      eapply ps_trans; [apply ps_destroy; eauto|exact S2].
    + split; [intros _|auto]. apply (ps_dead _ _ _ S2). rewrite hfind_hdel, Z.eqb_refl. reflexivity.
Qed.

Lemma put_h_struct : put_struct put_h.
Proof. intros h i h' evs b H. unfold put_h in H. eapply put_f_struct; eauto. Qed.

Lemma release_list_struct : forall l h h' evs, release_list h l = LOk h' evs -> PStruct h h' evs.
Proof. intros. unfold release_list in H. eapply (put_list_struct _ put_h_struct); eauto. Qed.

(* ------------------------------------------------------------------ rewriting the slots of a container *)
Lemma inv_relink : forall h L p n cs' L',
  Inv h L -> hfind h p = Some n ->
  (forall j, L' j = L j + cntk (children n) j - cntk cs' j) ->
  (forall j, L' j >= 0) ->
  (forall c, In c (kid_ids cs') -> live h c) ->
  (exists rk : id -> nat, forall i m c, hfind (hset h p (set_children n cs')) i = Some m ->
       In c (kid_ids (children m)) -> (rk c < rk i)%nat) ->
  Inv (hset h p (set_children n cs')) L'.
Proof.
  intros h L p n cs' L' I F LE LP LV RK.
  assert (PL : live h p) by (unfold live; congruence).
  pose proof (inv_nodup _ _ I) as ND.
  constructor; auto.
  - apply nodup_hset; auto.
  - intros j m x H X. apply live_hset; auto. rewrite hfind_hset in H.
    destruct (p =? j) eqn:E.
    + inversion H; subst. simpl in X. auto.
    + apply (inv_kids _ _ I j m x H X).
  - intros j m H. rewrite (indeg_hset h p n _ j ND F). simpl. rewrite LE.
    rewrite hfind_hset in H. destruct (p =? j) eqn:E.
    + apply Z.eqb_eq in E. subst j. inversion H; subst. simpl.
      destruct (inv_rc _ _ I p n F). lia.
    + destruct (inv_rc _ _ I j m H). lia.
  - intros j H. rewrite hfind_hset in H. destruct (p =? j) eqn:E; [congruence|].
    rewrite LE, (inv_Ldead _ _ I j H).
    assert (cntk (children n) j = 0).
    { apply cnt_zero_notin. intro X. apply (inv_kids _ _ I p n j F X). exact H. }
    assert (cntk cs' j = 0).
    { apply cnt_zero_notin. intro X. apply (LV j X). exact H. }
    lia.
Qed.

Lemma rank_sub : forall h L p n cs',
  Inv h L -> hfind h p = Some n ->
  (forall c, In c (kid_ids cs') -> In c (kid_ids (children n))) ->
  exists rk : id -> nat, forall i m c, hfind (hset h p (set_children n cs')) i = Some m ->
       In c (kid_ids (children m)) -> (rk c < rk i)%nat.
Proof.
  intros h L p n cs' I F SUB. destruct (inv_rank _ _ I) as [rk R]. exists rk.
  intros i m c H X. rewrite hfind_hset in H. destruct (p =? i) eqn:E.
  - apply Z.eqb_eq in E. subst i. inversion H; subst. simpl in X. apply (R p n c F (SUB c X)).
  - apply (R i m c H X).
Qed.

Fixpoint reachb (f : nat) (h : heap) (a b : id) : bool :=
  (a =? b) ||
  match f with
  | O => false
  | S f' => match hfind h a with
            | None => false
            | Some n => existsb (fun m => reachb f' h m b) (kid_ids (children n))
            end
  end.

Lemma reachb_refl : forall f h a, reachb f h a a = true.
Proof. intros. destruct f; simpl; rewrite Z.eqb_refl; reflexivity. Qed.

Lemma reachb_sound : forall f h a b, reachb f h a b = true -> reach h a b.
Proof.
  induction f as [|f IH]; intros h a b H; simpl in H.
  - rewrite orb_false_r in H. apply Z.eqb_eq in H. subst. constructor.
  - apply orb_true_iff in H. destruct H as [H|H]; [apply Z.eqb_eq in H; subst; constructor|].
    destruct (hfind h a) as [n|] eqn:F; [|discriminate].
    apply existsb_exists in H. destruct H as (m & M1 & M2).
    apply (reach_step h a m b); [exists n; auto|apply IH; auto].
Qed.

Lemma reachb_closed : forall (rk : id -> nat) h,
  (forall i n c, hfind h i = Some n -> In c (kid_ids (children n)) -> (rk c < rk i)%nat) ->
  forall f a x y, (rk a < f)%nat -> reachb f h a x = true -> edge h x y -> reachb f h a y = true.
Proof.
  intros rk h R. induction f as [|f IH]; intros a x y B H E; [lia|].
  simpl in H. simpl. apply orb_true_iff. right.
  apply orb_true_iff in H. destruct H as [H|H].
  - apply Z.eqb_eq in H. subst x. destruct E as (n & F & X). rewrite F.
    apply existsb_exists. exists y. split; [auto|apply reachb_refl].
  - destruct (hfind h a) as [n|] eqn:F; [|discriminate].
    apply existsb_exists in H. destruct H as (m & M1 & M2).
    apply existsb_exists. exists m. split; [auto|].
    apply (IH m x y); auto. specialize (R a n m F M1). lia.
Qed.

Lemma rank_link : forall h L p n cs' c,
  Inv h L -> hfind h p = Some n ->
  (forall x, In x (kid_ids cs') -> In x (kid_ids (children n)) \/ x = c) ->
  ~ reach h c p ->
  exists rk : id -> nat, forall i m x, hfind (hset h p (set_children n cs')) i = Some m ->
       In x (kid_ids (children m)) -> (rk x < rk i)%nat.
Proof.
  intros h L p n cs' c I F SUB NR. destruct (inv_rank _ _ I) as [rk R].
  set (D := fun x => reachb (S (rk c)) h c x).
  exists (fun x => if D x then rk x else (rk x + S (rk c))%nat).
  assert (DP : D p = false).
  { destruct (D p) eqn:E; [|reflexivity]. exfalso. apply NR. eapply reachb_sound; eauto. }
  assert (DC : D c = true) by apply reachb_refl.
  intros i m x H X. rewrite hfind_hset in H. destruct (p =? i) eqn:E.
  - apply Z.eqb_eq in E. subst i. inversion H; subst. simpl in X. rewrite DP.
    destruct (SUB x X) as [O|O].
    + specialize (R p n x F O). destruct (D x); lia.
    + subst x. rewrite DC. lia.
  - specialize (R i m x H X) as RX. destruct (D i) eqn:Di.
    + assert (D x = true).
      { unfold D in *. eapply (reachb_closed rk h R); eauto. exists m. auto. }
      rewrite H0. lia.
    + destruct (D x); lia.
Qed.

(* ------------------------------------------------------------------ the container operation pattern:
   rewrite the slots (new value [v] in, [rel] out), then release [rel] in order *)
Lemma cnt_opt_le : forall v j, 0 <= cnt (opt_ids v) j <= 1.
Proof. intros [c|] j; simpl; [destruct (c =? j); lia|lia]. Qed.

Lemma inv_container_op : forall h L p n cs' v rel,
  Inv h L -> hfind h p = Some n ->
  (forall j, cntk cs' j = cntk (children n) j - cnt rel j + cnt (opt_ids v) j) ->
  transfer_ok h L p v ->
  exists h' evs, release_list (hset h p (set_children n cs')) rel = LOk h' evs /\
                 Inv h' (upd_opt L v (-1)) /\
                 PStruct (hset h p (set_children n cs')) h' evs.
Proof.
  intros h L p n cs' v rel I F CE TR.
  set (L1 := fun j => L j + cnt rel j - cnt (opt_ids v) j).
  assert (LV : forall j, L j >= cnt (opt_ids v) j).
  { intros j. pose proof (inv_L _ _ I j). destruct v as [c|]; simpl in *; [|lia].
    destruct TR as [O _]. destruct (c =? j) eqn:E; [apply Z.eqb_eq in E; subst; lia|lia]. }
  assert (I1 : Inv (hset h p (set_children n cs')) L1).
  { apply (inv_relink h L); auto.
    - intros j. unfold L1. rewrite CE. lia.
    - intros j. unfold L1. specialize (LV j). pose proof (cnt_nonneg rel j). lia.
    - intros x X. apply cnt_pos_in in X. fold (cntk cs' x) in X. rewrite CE in X.
      pose proof (cnt_nonneg rel x).
      destruct (Z_gt_le_dec (cnt (opt_ids v) x) 0) as [G|G].
      + destruct v as [c|]; simpl in G; [|lia]. destruct (c =? x) eqn:E; [|lia].
        apply Z.eqb_eq in E. subst x. destruct TR as [O _].
        destruct (inv_owned_live _ _ _ I O) as [m M]. unfold live. congruence.
      + apply (inv_kids _ _ I p n x F). apply cnt_pos_in. unfold cntk in X. lia.
    - destruct v as [c|].
      + destruct TR as [O NR]. apply (rank_link h L p n cs' c); auto.
        intros x X. apply cnt_pos_in in X. fold (cntk cs' x) in X. rewrite CE in X.
        pose proof (cnt_nonneg rel x). simpl in X.
        destruct (c =? x) eqn:E; [apply Z.eqb_eq in E; auto|].
        left. apply cnt_pos_in. unfold cntk in X. lia.
      + apply (rank_sub h L p n cs'); auto.
        intros x X. apply cnt_pos_in in X. fold (cntk cs' x) in X. rewrite CE in X.
        pose proof (cnt_nonneg rel x). simpl in X. apply cnt_pos_in. unfold cntk in X. lia. }
  destruct (release_list_ok rel _ L1 I1) as (h' & evs & E & I' & _).
  { intros j. unfold L1. specialize (LV j). lia. }
  exists h', evs. split; [auto|]. split; [|eapply release_list_struct; eauto].
  eapply Inv_ext; [|exact I']. intros j. unfold Lsub, L1.
  destruct v as [c|]; simpl; unfold upd; [rewrite (Z.eqb_sym j c); destruct (c =? j); lia|lia].
Qed.

(* list surgery *)
Lemma skipn_nth : forall {A} (l : list A) n x, nth_error l n = Some x -> skipn n l = x :: skipn (S n) l.
Proof.
  induction l; intros n x H; destruct n; simpl in *; try discriminate.
  - inversion H; reflexivity.
  - apply IHl; auto.
Qed.

Lemma zskipn_znth : forall {A} (l : list A) i x, 0 <= i -> znth l i = Some x ->
  zskipn i l = x :: zskipn (i + 1) l.
Proof.
  intros A l i x P H. unfold znth in H. replace (i <? 0) with false in H by lia.
  unfold zskipn. replace (Z.to_nat (i + 1)) with (S (Z.to_nat i)) by lia.
  apply skipn_nth; auto.
Qed.

Lemma skipn_add : forall {A} (l : list A) a b, skipn (a + b) l = skipn b (skipn a l).
Proof.
  induction l; intros a0 b; destruct a0; simpl; auto.
  - destruct b; reflexivity.
Qed.

Lemma zskipn_add : forall {A} (l : list A) a b, 0 <= a -> 0 <= b -> zskipn (a + b) l = zskipn b (zskipn a l).
Proof. intros. unfold zskipn. rewrite Z2Nat.inj_add by lia. apply skipn_add. Qed.

Lemma cntk_split : forall cs i j, cntk cs j = cntk (zfirstn i cs) j + cntk (zskipn i cs) j.
Proof. intros. rewrite <- cntk_app, zfirstn_zskipn. reflexivity. Qed.

Lemma cntk_zrepeat_null : forall k j, cntk (zrepeat (slot None) k) j = 0.
Proof.
  intros. unfold zrepeat. induction (Z.to_nat k); simpl; [reflexivity|].
  unfold cntk in *. simpl. auto.
Qed.

Lemma cntk_assoc_set : forall k v cs old j, assoc_find k cs = Some old ->
  cntk (assoc_set k v cs) j = cntk cs j - cnt (opt_ids old) j + cnt (opt_ids v) j.
Proof.
  induction cs as [|[k' v'] t IH]; intros old j H; simpl in *; [discriminate|].
  destruct (keq (kstrip k') k).
  - inversion H; subst. rewrite !cntk_cons. lia.
  - rewrite !cntk_cons, (IH old j H). lia.
Qed.

Lemma cntk_assoc_del : forall k cs old j, assoc_find k cs = Some old ->
  cntk (assoc_del k cs) j = cntk cs j - cnt (opt_ids old) j.
Proof.
  induction cs as [|[k' v'] t IH]; intros old j H; simpl in *; [discriminate|].
  destruct (keq (kstrip k') k).
  - inversion H; subst. rewrite !cntk_cons. lia.
  - rewrite !cntk_cons, (IH old j H). lia.
Qed.

(* ------------------------------------------------------------------ per-operation results *)
Record HStruct (h h' : heap) (evs : list ev) : Prop := mkHS {
  hs_dead : forall j, hfind h j = None -> hfind h' j = None;
  hs_log : forall j, In j (dids evs) <-> (hfind h j <> None /\ hfind h' j = None);
  hs_nodup : NoDup (dids evs);
  hs_cb : forall j c, In (EDestroy j c) evs -> exists n, hfind h j = Some n /\ cb n = c;
  hs_keepcb : forall j n', hfind h' j = Some n' -> exists n, hfind h j = Some n /\ cb n' = cb n;
  hs_nouser : forall j t, ~ In (EUser j t) evs
}.

Lemma hstruct_of_ps : forall h h' evs, PStruct h h' evs -> HStruct h h' evs.
Proof.
  intros h h' evs [A B C D E F]. constructor; auto.
  intros j n' H. destruct (B j n' H) as (n & Hn & S). exists n. split; [auto|]. unfold same_but_rc in S. tauto.
Qed.

Lemma hstruct_refl : forall h, HStruct h h [].
Proof. intros. apply hstruct_of_ps. apply ps_refl. Qed.

Lemma hstruct_relink : forall h p n cs' h' evs,
  hfind h p = Some n -> PStruct (hset h p (set_children n cs')) h' evs -> HStruct h h' evs.
Proof.
  intros h p n cs' h' evs F [A B C D E G].
  assert (NN : forall j, hfind (hset h p (set_children n cs')) j = None <-> hfind h j = None).
  { intros. rewrite hfind_hset. destruct (p =? j) eqn:X; [|tauto]. apply Z.eqb_eq in X. subst. split; congruence. }
  constructor; auto.
  - intros j H. apply A. apply NN. auto.
  - intros j. rewrite (C j). rewrite <- NN. tauto.
  - intros j c X. destruct (E j c X) as (m & M1 & M2). rewrite hfind_hset in M1.
    destruct (p =? j) eqn:Y.
    + apply Z.eqb_eq in Y. subst j. inversion M1; subst. exists n. auto.
    + exists m. auto.
  - intros j n' H. destruct (B j n' H) as (m & M1 & S). unfold same_but_rc in S.
    rewrite hfind_hset in M1. destruct (p =? j) eqn:Y.
    + apply Z.eqb_eq in Y. subst j. inversion M1; subst. exists n. split; [auto|]. simpl in S. tauto.
    + exists m. split; [auto|tauto].
Qed.

Definition res_ok (s : state) (L' : Z -> ledger) (r : res) : Prop :=
  exists s' ret evs, r = ROk s' ret evs /\ Inv (heap_of s') (L' ret) /\ nxt s' = nxt s /\
                     HStruct (heap_of s) (heap_of s') evs /\ (ret <> 0 -> s' = s /\ evs = []).

Definition Ltransfer (L : ledger) (v : option id) : Z -> ledger :=
  fun ret => if ret =? 0 then upd_opt L v (-1) else L.

Lemma res_ok_fail : forall s L v, Inv (heap_of s) L -> res_ok s (Ltransfer L v) (ROk s (-1) []).
Proof.
  intros. exists s, (-1), []. split; [reflexivity|]. split; [exact H|]. split; [reflexivity|].
  split; [apply hstruct_refl|auto].
Qed.

Lemma res_ok_container : forall s L p n cs' v rel,
  Inv (heap_of s) L -> hfind (heap_of s) p = Some n ->
  (forall j, cntk cs' j = cntk (children n) j - cnt rel j + cnt (opt_ids v) j) ->
  transfer_ok (heap_of s) L p v ->
  res_ok s (Ltransfer L v)
    (lift_l (nxt s) 0 (release_list (hset (heap_of s) p (set_children n cs')) rel)).
Proof.
  intros s L p n cs' v rel I F CE TR.
  destruct (inv_container_op _ L p n cs' v rel I F CE TR) as (h' & evs & E & I' & PS).
  rewrite E. exists (mkSt h' (nxt s)), 0, evs. split; [reflexivity|]. split; [exact I'|].
  split; [reflexivity|]. split; [eapply hstruct_relink; eauto|]. intros X. congruence.
Qed.

Lemma live_kind_find : forall h p k, live_kind h p k -> exists n, hfind h p = Some n /\ is_kind n k = true.
Proof. intros. exact H. Qed.

Lemma transfer_not_self : forall h L p v, transfer_ok h L p v -> opt_is v p = false.
Proof.
  intros h L p [c|] H; simpl in *; [|reflexivity]. destruct H as [_ NR].
  destruct (c =? p) eqn:E; [|reflexivity]. apply Z.eqb_eq in E. subst. exfalso. apply NR. constructor.
Qed.

Lemma obj_add_ex_ok : forall s L p k v nw cst,
  Inv (heap_of s) L -> live_kind (heap_of s) p KObject ->
  (v = Some p \/ transfer_ok (heap_of s) L p v) ->
  res_ok s (Ltransfer L v) (obj_add_ex s p k v nw cst).
Proof.
  intros s L p k v nw cst I (n & F & K) A. unfold obj_add_ex. rewrite F, K. simpl.
  destruct (opt_is v p) eqn:S.
  - apply res_ok_fail; auto.
  - assert (TR : transfer_ok (heap_of s) L p v).
    { destruct A as [A|A]; [|auto]. subst v. simpl in S. rewrite Z.eqb_refl in S. discriminate. }
    destruct (if nw then None else assoc_find k (children n)) as [old|] eqn:AF.
    + destruct nw; [discriminate|].
      apply res_ok_container; auto. intros j. apply cntk_assoc_set; auto.
    + match goal with |- res_ok _ _ (ROk (mkSt ?h1 _) 0 []) =>
        change (ROk (mkSt h1 (nxt s)) 0 []) with (lift_l (nxt s) 0 (release_list h1 [])) end.
      apply res_ok_container; auto. intros j. rewrite cntk_app, cntk_cons. simpl.
      change (cntk [] j) with 0. lia.
Qed.

Lemma obj_add_ok : forall s L p k v,
  Inv (heap_of s) L -> live_kind (heap_of s) p KObject ->
  (v = Some p \/ transfer_ok (heap_of s) L p v) ->
  res_ok s (Ltransfer L v) (obj_add s p k v).
Proof. intros. unfold obj_add. apply obj_add_ex_ok; auto. Qed.

Lemma obj_del_ok : forall s L p k,
  Inv (heap_of s) L -> live_kind (heap_of s) p KObject ->
  res_ok s (fun _ => L) (obj_del s p k).
Proof.
  intros s L p k I (n & F & K). unfold obj_del. rewrite F, K. simpl.
  destruct (assoc_find k (children n)) as [old|] eqn:AF.
  - destruct (res_ok_container s L p n (assoc_del k (children n)) None (opt_ids old) I F) as (s' & ret & evs & E & R).
    + intros j. rewrite (cntk_assoc_del k _ old j AF). simpl. lia.
    + simpl. auto.
    + exists s', ret, evs. split; [auto|].
      destruct R as (R1 & R2). unfold Ltransfer in R1. simpl in R1. destruct (ret =? 0); auto.
  - exists s, 0, []. split; [reflexivity|]. split; [auto|]. split; [auto|]. split; [apply hstruct_refl|auto].
Qed.

Lemma znth_some : forall {A} (l : list A) i, 0 <= i < zlen l -> exists x, znth l i = Some x.
Proof.
  intros A l i H. unfold znth. replace (i <? 0) with false by lia.
  destruct (nth_error l (Z.to_nat i)) eqn:E; [eauto|].
  apply nth_error_None in E. rewrite zlen_length in H. lia.
Qed.

Lemma arr_add_ok : forall s L p v,
  Inv (heap_of s) L -> live_kind (heap_of s) p KArray -> transfer_ok (heap_of s) L p v ->
  res_ok s (Ltransfer L v) (arr_add s p v).
Proof.
  intros s L p v I (n & F & K) TR. unfold arr_add. rewrite F, K. simpl.
  change (ROk (mkSt (hset (heap_of s) p (set_children n (children n ++ [slot v]))) (nxt s)) 0 [])
    with (lift_l (nxt s) 0 (release_list (hset (heap_of s) p (set_children n (children n ++ [slot v]))) [])).
  apply res_ok_container; auto. intros j. unfold slot. rewrite cntk_app, cntk_cons. simpl.
  change (cntk [] j) with 0. lia.
Qed.

Lemma arr_put_on_ok : forall s L p n idx v,
  Inv (heap_of s) L -> hfind (heap_of s) p = Some n -> size_t idx -> transfer_ok (heap_of s) L p v ->
  res_ok s (Ltransfer L v) (arr_put_on s p n idx v).
Proof.
  intros s L p n idx v I F [I0 I1] TR. unfold arr_put_on.
  replace ((idx <? 0) || (SIZE_MAX <? idx)) with false by lia.
  destruct (SIZE_MAX - 1 <? idx); [apply res_ok_fail; auto|].
  destruct (SIZE_MAX / 8 <? idx + 1); [apply res_ok_fail; auto|].
  destruct (idx <? zlen (children n)) eqn:LT.
  - destruct (znth_some (children n) idx) as [[k0 old] ZN]; [lia|]. rewrite ZN.
    apply res_ok_container; auto. intros j.
    rewrite (cntk_split (children n) idx j), (zskipn_znth _ _ _ I0 ZN).
    rewrite cntk_app. unfold slot. rewrite !cntk_cons. lia.
  - match goal with |- res_ok _ _ (ROk (mkSt ?h1 _) 0 []) =>
      change (ROk (mkSt h1 (nxt s)) 0 []) with (lift_l (nxt s) 0 (release_list h1 [])) end.
    apply res_ok_container; auto. intros j.
    rewrite !cntk_app, cntk_zrepeat_null. unfold slot. rewrite cntk_cons. simpl.
    change (cntk [] j) with 0. lia.
Qed.

Lemma arr_put_ok : forall s L p idx v,
  Inv (heap_of s) L -> live_kind (heap_of s) p KArray -> size_t idx -> transfer_ok (heap_of s) L p v ->
  res_ok s (Ltransfer L v) (arr_put s p idx v).
Proof.
  intros s L p idx v I (n & F & K) SZ TR. unfold arr_put. rewrite F, K. simpl.
  apply arr_put_on_ok; auto.
Qed.

Lemma arr_ins_ok : forall s L p idx v,
  Inv (heap_of s) L -> live_kind (heap_of s) p KArray -> size_t idx -> transfer_ok (heap_of s) L p v ->
  res_ok s (Ltransfer L v) (arr_ins s p idx v).
Proof.
  intros s L p idx v I (n & F & K) SZ TR. unfold arr_ins. rewrite F, K. simpl.
  destruct SZ as [I0 I1].
  replace ((idx <? 0) || (SIZE_MAX <? idx)) with false by lia.
  destruct (zlen (children n) <=? idx); [apply arr_put_on_ok; auto; split; auto|].
  match goal with |- res_ok _ _ (ROk (mkSt ?h1 _) 0 []) =>
    change (ROk (mkSt h1 (nxt s)) 0 []) with (lift_l (nxt s) 0 (release_list h1 [])) end.
  apply res_ok_container; auto. intros j.
  rewrite (cntk_split (children n) idx j), cntk_app. unfold slot. rewrite cntk_cons. simpl. lia.
Qed.

Lemma arr_del_ok : forall s L p idx count,
  Inv (heap_of s) L -> live_kind (heap_of s) p KArray -> size_t idx -> size_t count ->
  res_ok s (fun _ => L) (arr_del s p idx count).
Proof.
  intros s L p idx count I (n & F & K) [I0 I1] [C0 C1]. unfold arr_del. rewrite F, K.
  cbv beta iota zeta. change (negb true) with false. cbv beta iota.
  replace ((idx <? 0) || (SIZE_MAX <? idx) || (count <? 0) || (SIZE_MAX <? count)) with false by lia.
  assert (FAIL : res_ok s (fun _ => L) (ROk s (-1) [])).
  { exists s, (-1), []. split; [reflexivity|]. split; [auto|]. split; [auto|]. split; [apply hstruct_refl|auto]. }
  destruct (SIZE_MAX - count <? idx); [exact FAIL|].
  destruct ((zlen (children n) <=? idx) || (zlen (children n) <? idx + count)); [exact FAIL|].
  destruct (res_ok_container s L p n (zfirstn idx (children n) ++ zskipn (idx + count) (children n)) None
              (kid_ids (zfirstn count (zskipn idx (children n)))) I F) as (s' & ret & evs & E & R).
  - intros j. rewrite cntk_app, (zskipn_add _ idx count I0 C0).
    rewrite (cntk_split (children n) idx j), (cntk_split (zskipn idx (children n)) count j).
    unfold cntk. simpl. lia.
  - simpl. auto.
  - exists s', ret, evs. split; [auto|]. destruct R as (R1 & R2).
    unfold Ltransfer in R1. simpl in R1. destruct (ret =? 0); auto.
Qed.

(* ------------------------------------------------------------------ state invariant *)
Definition SInv (s : state) (L : ledger) : Prop :=
  Inv (heap_of s) L /\ (forall i, live (heap_of s) i -> i < nxt s) /\ 0 < nxt s.

Definition grows (s s' : state) (keep : id -> Prop) : Prop :=
  nxt s <= nxt s' /\
  (forall j n, keep j -> hfind (heap_of s) j = Some n -> hfind (heap_of s') j = Some n) /\
  (forall j, hfind (heap_of s) j = None -> hfind (heap_of s') j <> None -> nxt s <= j < nxt s').

Lemma grows_refl : forall s keep, grows s s keep.
Proof. intros. split; [lia|]. split; [auto|]. intros. congruence. Qed.

Lemma grows_trans : forall s s1 s2 keep, grows s s1 keep -> grows s1 s2 keep -> grows s s2 keep.
Proof.
  intros s s1 s2 keep (A1 & A2 & A3) (B1 & B2 & B3). split; [lia|]. split; [auto|].
  intros j H H2. destruct (hfind (heap_of s1) j) eqn:E.
  - assert (nxt s <= j < nxt s1) by (apply A3; congruence). lia.
  - assert (nxt s1 <= j < nxt s2) by (apply B3; auto). lia.
Qed.

Lemma grows_weaken : forall s s' (k1 k2 : id -> Prop), (forall j, k2 j -> k1 j) -> grows s s' k1 -> grows s s' k2.
Proof. intros s s' k1 k2 W (A & B & C). split; [auto|]. split; [|auto]. intros. apply B; auto. Qed.

Lemma no_inedge_no_reach : forall h c p, (forall a, ~ edge h a p) -> reach h c p -> c = p.
Proof.
  intros h c p NE R. induction R; [reflexivity|].
  specialize (IHR NE). subst m. exfalso. apply (NE a H).
Qed.

Lemma sole_owner_no_inedge : forall h L p m, Inv h L -> hfind h p = Some m -> rc m = 1 -> L p >= 1 ->
  forall a, ~ edge h a p.
Proof.
  intros h L p m I F R1 LP a (n & FA & X).
  pose proof (indeg_ge_edge h a n p (inv_nodup _ _ I) FA).
  apply cnt_pos_in in X. fold (cntk (children n) p) in X.
  destruct (inv_rc _ _ I p m F). lia.
Qed.

Lemma attach_ok : forall s L me m k v,
  Inv (heap_of s) L -> hfind (heap_of s) me = Some m -> transfer_ok (heap_of s) L me v ->
  Inv (heap_of (attach s me k v)) (upd_opt L v (-1)) /\ nxt (attach s me k v) = nxt s /\
  hfind (heap_of (attach s me k v)) me = Some (set_children m (children m ++ [(k, v)])) /\
  (forall j, j <> me -> hfind (heap_of (attach s me k v)) j = hfind (heap_of s) j).
Proof.
  intros s L me m k v I F TR. unfold attach. rewrite F. cbn [heap_of nxt].
  destruct (inv_container_op _ L me m (children m ++ [(k, v)]) v [] I F) as (h' & evs & E & I' & _); auto.
  - intros j. rewrite cntk_app, cntk_cons. simpl. change (cntk [] j) with 0. lia.
  - unfold release_list in E. simpl in E. inversion E; subst. split; [auto|]. split; [auto|].
    split; [rewrite hfind_hset, Z.eqb_refl; reflexivity|].
    intros j NE. rewrite hfind_hset. destruct (me =? j) eqn:X; [apply Z.eqb_eq in X; congruence|reflexivity].
Qed.

(* ------------------------------------------------------------------ deep copy *)
Section Copy.
  Variable h0 : heap.
  Variable rk : id -> nat.
  Variable custom : bool.
  Hypothesis R0 : forall i n c, hfind h0 i = Some n -> In c (kid_ids (children n)) -> (rk c < rk i)%nat.
  Hypothesis K0 : forall i n c, hfind h0 i = Some n -> In c (kid_ids (children n)) -> live h0 c.

  Definition hs_ok (hs : heap) (b : nat) : Prop :=
    (forall i n, hfind hs i = Some n -> hfind h0 i = Some n) /\
    (forall x n, hfind h0 x = Some n -> (rk x < b)%nat -> hfind hs x = Some n).

  Definition base_ok (s : state) : Prop := forall i n, hfind h0 i = Some n -> hfind (heap_of s) i = Some n.

  Definition copy_spec (C : state -> id -> cres) (b : nat) : Prop :=
    forall s L c, SInv s L -> base_ok s -> live h0 c -> (rk c < b)%nat ->
      match C s c with
      | COk s' r => SInv s' (upd L r 1) /\ nxt s <= r < nxt s' /\ grows s s' (fun _ => True)
      | CFail => True
      | CUB => False
      | CFuel => False
      end.

  Lemma copy_kids_ok : forall C b me, copy_spec C b ->
    forall cs s L, SInv s L -> base_ok s -> L me = 1 ->
      (exists m, hfind (heap_of s) me = Some m /\ rc m = 1) -> hfind h0 me = None ->
      (forall x, In x (kid_ids cs) -> live h0 x /\ (rk x < b)%nat) ->
      match copy_kids C me cs s with
      | KOk s' => SInv s' L /\ (exists m, hfind (heap_of s') me = Some m /\ rc m = 1) /\
                  grows s s' (fun j => j <> me)
      | KFail => True
      | KUB => False
      | KFuel => False
      end.
  Proof.
    intros C b me CS. induction cs as [|[k [c|]] t IH]; intros s L SI BO LM (m & FM & RM) H0M KS; simpl.
    - split; [auto|]. split; [eauto|apply grows_refl].
    - destruct SI as (I & IDS & NP).
      assert (KC : live h0 c /\ (rk c < b)%nat) by (apply KS; simpl; auto).
      pose proof (CS s L c (conj I (conj IDS NP)) BO (proj1 KC) (proj2 KC)) as SP.
      destruct (C s c) as [s1 r| | |]; auto.
      destruct SP as ((I1 & IDS1 & NP1) & RR & (G1 & G2 & G3)).
      assert (MEL : me < nxt s) by (apply IDS; unfold live; congruence).
      assert (RNE : r <> me) by lia.
      assert (FM1 : hfind (heap_of s1) me = Some m) by (apply G2; auto).
      assert (TR : transfer_ok (heap_of s1) (upd L r 1) me (Some r)).
      { simpl. split.
        - rewrite upd_same. pose proof (inv_L _ _ I r). lia.
        - intro X. apply RNE. apply (no_inedge_no_reach (heap_of s1) r me); auto.
          apply (sole_owner_no_inedge _ (upd L r 1) me m); auto.
          rewrite upd_other by auto. lia. }
      destruct (attach_ok s1 (upd L r 1) me m (kstrip k) (Some r) I1 FM1 TR) as (I2 & N2 & F2 & O2).
      set (s2 := attach s1 me (kstrip k) (Some r)) in *.
      assert (SI2 : SInv s2 L).
      { split; [|split].
        - eapply Inv_ext; [|exact I2]. intros j. simpl. unfold upd. destruct (j =? r); lia.
        - intros j LJ. rewrite N2. apply IDS1. unfold live in *.
          destruct (Z.eq_dec j me); [subst; congruence|]. rewrite <- O2; auto.
        - lia. }
      assert (BO2 : base_ok s2).
      { intros i n Hi. destruct (Z.eq_dec i me); [subst; congruence|].
        rewrite O2 by auto. apply G2; auto. }
      specialize (IH s2 L SI2 BO2 LM).
      destruct (copy_kids C me t s2) as [s3| | |]; auto.
      + destruct IH as (SI3 & M3 & GR3); auto.
        * exists (set_children m (children m ++ [(kstrip k, Some r)])). split; [auto|simpl; auto].
        * intros x X. apply KS. simpl. auto.
        * split; [auto|]. split; [auto|].
          eapply grows_trans; [|exact GR3].
          split; [lia|]. split.
          -- intros j n NJ Hj. rewrite O2 by auto. apply G2; auto.
          -- intros j Hj Hj2. destruct (Z.eq_dec j me); [subst; congruence|].
             rewrite O2 in Hj2 by auto. rewrite N2. apply G3; auto.
      + apply IH; auto.
        * exists (set_children m (children m ++ [(kstrip k, Some r)])). split; [auto|simpl; auto].
        * intros x X. apply KS. simpl. auto.
      + apply IH; auto.
        * exists (set_children m (children m ++ [(kstrip k, Some r)])). split; [auto|simpl; auto].
        * intros x X. apply KS. simpl. auto.
    - destruct SI as (I & IDS & NP).
      destruct (attach_ok s L me m (kstrip k) None I FM Logic.I) as (I2 & N2 & F2 & O2).
      set (s2 := attach s me (kstrip k) None) in *.
      assert (SI2 : SInv s2 L).
      { split; [exact I2|split].
        - intros j LJ. rewrite N2. apply IDS. unfold live in *.
          destruct (Z.eq_dec j me); [subst; congruence|]. rewrite <- O2; auto.
        - lia. }
      assert (BO2 : base_ok s2).
      { intros i n Hi. destruct (Z.eq_dec i me); [subst; congruence|]. rewrite O2 by auto. apply BO; auto. }
      specialize (IH s2 L SI2 BO2 LM).
      assert (M2 : exists m0, hfind (heap_of s2) me = Some m0 /\ rc m0 = 1).
      { exists (set_children m (children m ++ [(kstrip k, None)])). split; [auto|simpl; auto]. }
      specialize (IH M2 H0M KS).
      destruct (copy_kids C me t s2) as [s3| | |]; auto.
      destruct IH as (SI3 & M3 & GR3). split; [auto|]. split; [auto|].
      eapply grows_trans; [|exact GR3]. split; [lia|]. split.
      + intros j n NJ Hj. rewrite O2; auto.
      + intros j Hj Hj2. destruct (Z.eq_dec j me); [subst; congruence|]. rewrite O2 in Hj2 by auto. congruence.
  Qed.
End Copy.

Lemma copy_f_spec : forall h0 rk custom,
  (forall i n c, hfind h0 i = Some n -> In c (kid_ids (children n)) -> (rk c < rk i)%nat) ->
  (forall i n c, hfind h0 i = Some n -> In c (kid_ids (children n)) -> live h0 c) ->
  forall f hs b, hs_ok h0 rk hs b -> (length hs < f)%nat -> copy_spec h0 rk (copy_f f custom hs) b.
Proof.
  intros h0 rk custom R0 K0. induction f as [|f IH]; intros hs b HS LEN; [lia|].
  intros s L c SI BO LV RC. simpl.
  destruct HS as (HS1 & HS2).
  destruct (hfind h0 c) as [n|] eqn:F0; [|exfalso; apply LV; auto].
  rewrite (HS2 c n F0 RC).
  destruct (copy_refused custom n); [exact Logic.I|].
  destruct SI as (I & IDS & NP).
  set (me := nxt s).
  assert (FME : hfind (heap_of s) me = None).
  { destruct (hfind (heap_of s) me) eqn:E; [|reflexivity].
    assert (me < nxt s) by (apply IDS; unfold live; congruence). unfold me in *. lia. }
  assert (H0ME : hfind h0 me = None).
  { destruct (hfind h0 me) eqn:E; [|reflexivity]. rewrite (BO me _ E) in FME. discriminate. }
  set (nd := mkNode 1 (nkind n) [] (copy_cb custom n) (copy_ud custom n)).
  set (s1 := mkSt ((me, nd) :: heap_of s) (me + 1)).
  assert (SI1 : SInv s1 (upd L me 1)).
  { split; [apply inv_alloc; auto|]. split; [|simpl; unfold me; lia].
    intros j LJ. unfold live in LJ. simpl in LJ. simpl. destruct (me =? j) eqn:E.
    - apply Z.eqb_eq in E. lia.
    - assert (j < nxt s) by (apply IDS; auto). unfold me. lia. }
  assert (BO1 : base_ok h0 s1).
  { intros i m Hi. simpl. destruct (me =? i) eqn:E; [apply Z.eqb_eq in E; subst; congruence|apply BO; auto]. }
  assert (HS' : hs_ok h0 rk (hdel hs c) (rk c)).
  { split.
    - intros i m Hi. rewrite hfind_hdel in Hi. destruct (c =? i); [discriminate|auto].
    - intros x m Hx RX. rewrite hfind_hdel. destruct (c =? x) eqn:E; [apply Z.eqb_eq in E; subst; lia|].
      apply HS2; auto. lia. }
  assert (LEN' : (length (hdel hs c) < f)%nat).
  { assert (hfind hs c <> None) by (rewrite (HS2 c n F0 RC); congruence).
    pose proof (length_hdel_lt hs c H). lia. }
  pose proof (copy_kids_ok h0 rk (copy_f f custom (hdel hs c)) (rk c) me (IH _ _ HS' LEN')
                (children n) s1 (upd L me 1) SI1 BO1) as KO.
  destruct (copy_kids (copy_f f custom (hdel hs c)) me (children n) s1) as [s'| | |] eqn:CK.
  - destruct KO as (SI' & _ & (G1 & G2 & G3)).
    + rewrite upd_same. rewrite (inv_Ldead _ _ I me FME). lia.
    + exists nd. split; [simpl; rewrite Z.eqb_refl; reflexivity|reflexivity].
    + exact H0ME.
    + intros x X. split; [apply (K0 c n x F0 X)|apply (R0 c n x F0 X)].
    + split; [auto|]. simpl in G1. split; [unfold me in *; lia|].
      split; [unfold me in *; lia|]. split.
      * intros j m _ Hj. apply G2.
        -- intro; subst j. congruence.
        -- simpl. destruct (me =? j) eqn:E; [apply Z.eqb_eq in E; subst; congruence|auto].
      * intros j Hj Hj2. destruct (Z.eq_dec j me); [subst; unfold me in *; lia|].
        assert (nxt s1 <= j < nxt s').
        { apply G3; auto. simpl. destruct (me =? j) eqn:E; [apply Z.eqb_eq in E; congruence|auto]. }
        simpl in H. unfold me in *. lia.
  - exact Logic.I.
  - apply KO; auto.
    + rewrite upd_same. rewrite (inv_Ldead _ _ I me FME). lia.
    + exists nd. split; [simpl; rewrite Z.eqb_refl; reflexivity|reflexivity].
    + intros x X. split; [apply (K0 c n x F0 X)|apply (R0 c n x F0 X)].
  - apply KO; auto.
    + rewrite upd_same. rewrite (inv_Ldead _ _ I me FME). lia.
    + exists nd. split; [simpl; rewrite Z.eqb_refl; reflexivity|reflexivity].
    + intros x X. split; [apply (K0 c n x F0 X)|apply (R0 c n x F0 X)].
Qed.

(* ------------------------------------------------------------------ one step *)
(* the registrations released by a list of events: (node, registration number) *)
Fixpoint rels (evs : list ev) : list (id * Z) :=
  match evs with
  | [] => []
  | EDestroy i (Some t) :: r => (i, t) :: rels r
  | EDestroy _ None :: r => rels r
  | EUser i t :: r => (i, t) :: rels r
  end.

Lemma rels_app : forall a b, rels (a ++ b) = rels a ++ rels b.
Proof. induction a as [|[i [t|]|i t] a IH]; intros; simpl; try rewrite IH; reflexivity. Qed.

Lemma rels_dids : forall evs i t, (forall j u, ~ In (EUser j u) evs) -> In (i, t) (rels evs) -> In i (dids evs).
Proof.
  induction evs as [|[j [c|]|j u] r IH]; intros i t NU H; simpl in *; [tauto| | |].
  - destruct H as [H|H]; [inversion H; auto|]. right. apply (IH i t); auto. intros a b X. apply (NU a b). auto.
  - right. apply (IH i t); auto. intros a b X. apply (NU a b). auto.
  - exfalso. apply (NU j u). auto.
Qed.

Lemma rels_nodup : forall evs, (forall j u, ~ In (EUser j u) evs) -> NoDup (dids evs) -> NoDup (rels evs).
Proof.
  induction evs as [|[j [c|]|j u] r IH]; intros NU ND; simpl in *; [constructor| | |].
  - inversion ND; subst. constructor.
    + intro X. apply H1. apply (rels_dids r j c); auto. intros a b Y. apply (NU a b). auto.
    + apply IH; auto. intros a b Y. apply (NU a b). auto.
  - inversion ND; subst. apply IH; auto. intros a b Y. apply (NU a b). auto.
  - exfalso. apply (NU j u). auto.
Qed.

Lemma rels_destroy : forall evs i t, In (i, t) (rels evs) -> In (EDestroy i (Some t)) evs \/ In (EUser i t) evs.
Proof.
  induction evs as [|[j [c|]|j u] r IH]; intros i t H; simpl in *; [tauto| | |].
  - destruct H as [H|H]; [inversion H; auto|]. destruct (IH i t H); auto.
  - destruct (IH i t H); auto.
  - destruct H as [H|H]; [inversion H; auto|]. destruct (IH i t H); auto.
Qed.

(* what may have happened to the registration of a node that exists after the step *)
Definition cb_after (s s' : state) (evs : list ev) (i : id) (n' : node) : Prop :=
  (exists n, hfind (heap_of s) i = Some n /\ cb n' = cb n /\ forall t, ~ In (i, t) (rels evs)) \/
  cb n' = None \/
  ((exists t, cb n' = Some t /\ t <= 0) /\ hfind (heap_of s) i = None) \/
  (cb n' = Some (nxt s) /\ nxt s < nxt s').

Record SFacts (s s' : state) (evs : list ev) : Prop := mkSF {
  sf_nxt : nxt s <= nxt s';
  sf_fresh : forall j, hfind (heap_of s) j = None -> hfind (heap_of s') j <> None -> nxt s <= j < nxt s';
  sf_log : forall j, In j (dids evs) <-> (hfind (heap_of s) j <> None /\ hfind (heap_of s') j = None);
  sf_nodup : NoDup (dids evs);
  sf_cb : forall j c, In (EDestroy j c) evs -> exists n, hfind (heap_of s) j = Some n /\ cb n = c;
  sf_rel : forall i t, In (i, t) (rels evs) -> exists n, hfind (heap_of s) i = Some n /\ cb n = Some t;
  sf_relnodup : NoDup (rels evs);
  sf_after : forall i n', hfind (heap_of s') i = Some n' -> cb_after s s' evs i n'
}.

Definition step_good (s : state) (L : ledger) (o : op) : Prop :=
  exists s' ret evs, step s o = ROk s' ret evs /\
                     SInv s' (ledger_step (heap_of s) L o ret) /\ SFacts s s' evs.

Lemma sfacts_of_hstruct : forall s s' evs,
  nxt s' = nxt s -> HStruct (heap_of s) (heap_of s') evs -> SFacts s s' evs.
Proof.
  intros s s' evs N [A B C D K U]. constructor; auto; try lia.
  - intros j H H2. exfalso. apply H2. auto.
  - intros i t X. destruct (rels_destroy _ _ _ X) as [Y|Y]; [apply (D i (Some t) Y)|exfalso; apply (U i t Y)].
  - apply rels_nodup; auto.
  - intros i n' H. left. destruct (K i n' H) as (n & Hn & E). exists n. split; [auto|]. split; [auto|].
    intros t X. apply (rels_dids _ _ _ U) in X. apply B in X. destruct X as [_ X]. congruence.
Qed.

Lemma sinv_of_hstruct : forall s L s' L' evs,
  SInv s L -> Inv (heap_of s') L' -> nxt s' = nxt s -> HStruct (heap_of s) (heap_of s') evs -> SInv s' L'.
Proof.
  intros s L s' L' evs (I & IDS & NP) I' N HS. split; [auto|]. split; [|lia].
  intros j LJ. rewrite N. apply IDS. intro X. apply LJ. apply (hs_dead _ _ _ HS). auto.
Qed.

(* new nodes come with the registration made at creation (number 0), with the library's own
   retained-text registration (number -1), or with none *)
Definition newcb (s s' : state) : Prop :=
  forall j n', hfind (heap_of s') j = Some n' -> hfind (heap_of s) j = None ->
    (exists t, cb n' = Some t /\ t <= 0) \/ cb n' = None.

Lemma sfacts_of_grows : forall s s', grows s s' (fun _ => True) -> newcb s s' -> SFacts s s' [].
Proof.
  intros s s' (A & B & C) NC. constructor; auto.
  - intros j. simpl. split; [tauto|]. intros [X Y]. destruct (hfind (heap_of s) j) eqn:E; [|congruence].
    rewrite (B j n Logic.I E) in Y. discriminate.
  - constructor.
  - intros j c X. simpl in X. tauto.
  - intros i t X. simpl in X. tauto.
  - constructor.
  - intros i n' H. destruct (hfind (heap_of s) i) as [n|] eqn:E.
    + left. exists n. rewrite (B i n Logic.I E) in H. inversion H; subst. split; [auto|]. split; [auto|].
      intros t X. simpl in X. tauto.
    + destruct (NC i n' H E) as [X|X]; [right; right; left; auto|right; left; auto].
Qed.

Lemma res_ok_good : forall s L L' r, SInv s L -> res_ok s L' r ->
  exists s' ret evs, r = ROk s' ret evs /\ SInv s' (L' ret) /\ SFacts s s' evs.
Proof.
  intros s L L' r SI (s' & ret & evs & E & I' & N & HS & _).
  exists s', ret, evs. split; [auto|]. split; [eapply sinv_of_hstruct; eauto|apply sfacts_of_hstruct; auto].
Qed.

Lemma hstruct_hset : forall h i n n', hfind h i = Some n -> cb n' = cb n -> HStruct h (hset h i n') [].
Proof.
  intros h i n n' F CB. constructor.
  - intros j H. rewrite hfind_hset. destruct (i =? j) eqn:E; [apply Z.eqb_eq in E; congruence|auto].
  - intros j. rewrite hfind_hset. simpl. split; [tauto|]. intros [A B]. destruct (i =? j); congruence.
  - constructor.
  - intros j c X. simpl in X. tauto.
  - intros j m H. rewrite hfind_hset in H. destruct (i =? j) eqn:E.
    + apply Z.eqb_eq in E. subst j. inversion H; subst. eauto.
    + eauto.
  - intros j t X. simpl in X. tauto.
Qed.

Lemma dec_val_nonneg : forall l acc, forallb is_digit l = true -> 0 <= acc -> 0 <= dec_val acc l.
Proof.
  induction l; intros acc H A; simpl in *; [auto|].
  apply andb_true_iff in H. destruct H as [D R]. apply IHl; auto. unfold is_digit in D.
  apply andb_true_iff in D. destruct D as [D1 D2]. apply Z.leb_le in D1. lia.
Qed.

Lemma valid_index_range : forall t idx, valid_index t = Some idx -> size_t idx.
Proof.
  intros t idx H. unfold size_t. unfold valid_index in H.
  destruct t as [|b [|b2 r]]; [discriminate| |].
  - destruct (is_digit b) eqn:D; [|discriminate]. inversion H. subst idx. unfold is_digit in D.
    apply andb_true_iff in D. destruct D as [D1 D2]. apply Z.leb_le in D1. apply Z.leb_le in D2.
    unfold SIZE_MAX. lia.
  - destruct (b =? 48); [discriminate|].
    destruct (forallb is_digit (b :: b2 :: r)) eqn:D; [|discriminate].
    pose proof (dec_val_nonneg (b :: b2 :: r) 0 D ltac:(lia)) as NN.
    remember (dec_val 0 (b :: b2 :: r)) as d. clear Heqd.
    assert (E : idx = Z.min d UINT64_MAX) by congruence.
    subst idx. unfold SIZE_MAX, UINT64_MAX. lia.
Qed.

Lemma ptr_target_kinds : forall h r path,
  match ptr_target h r path with
  | PTObj p _ => live_kind h p KObject
  | PTArrAdd p => live_kind h p KArray
  | PTArrPut p idx => live_kind h p KArray /\ size_t idx
  | _ => True
  end.
Proof.
  intros h r path. unfold ptr_target. destruct path as [[|t toks]|]; auto.
  generalize (removelast (t :: toks)) (last (t :: toks) []). intros pre lastt.
  destruct (ptr_walk h (Some r) pre) as [[p|]|]; auto.
  destruct (hfind h p) as [n|] eqn:F; auto.
  destruct (nkind n) eqn:K; auto.
  - destruct (keq lastt [45]).
    + exists n. split; [auto|]. unfold is_kind. rewrite K. reflexivity.
    + destruct (valid_index lastt) eqn:V; auto. split.
      * exists n. split; [auto|]. unfold is_kind. rewrite K. reflexivity.
      * eapply valid_index_range; eauto.
  - destruct (valid_escaping lastt); auto.
    exists n. split; [auto|]. unfold is_kind. rewrite K. reflexivity.
Qed.

Lemma good_of_res_ok : forall s L o L',
  SInv s L -> res_ok s L' (step s o) ->
  (forall ret, ledger_step (heap_of s) L o ret = L' ret) -> step_good s L o.
Proof.
  intros s L o L' SI R EQ. destruct (res_ok_good s L L' _ SI R) as (s' & ret & evs & E & SI' & SF).
  exists s', ret, evs. rewrite EQ. auto.
Qed.

Lemma new_good : forall s L k, SInv s L -> step_good s L (ONew k).
Proof.
  intros s L k (I & IDS & NP).
  assert (F : hfind (heap_of s) (nxt s) = None).
  { destruct (hfind (heap_of s) (nxt s)) eqn:E; [|reflexivity].
    assert (nxt s < nxt s) by (apply IDS; unfold live; congruence). lia. }
  exists (mkSt ((nxt s, mkNode 1 k [] (Some 0) true) :: heap_of s) (nxt s + 1)), (nxt s), [].
  split; [reflexivity|]. split.
  - split; [apply inv_alloc; auto|]. split; [|simpl; lia].
    intros j LJ. unfold live in LJ. simpl in *. destruct (nxt s =? j) eqn:E.
    + apply Z.eqb_eq in E. lia.
    + assert (j < nxt s) by (apply IDS; auto). lia.
  - apply sfacts_of_grows.
    + split; [simpl; lia|]. split.
      * intros j n _ H. simpl. destruct (nxt s =? j) eqn:E; [apply Z.eqb_eq in E; subst; congruence|auto].
      * intros j H H2. simpl in *. destruct (nxt s =? j) eqn:E; [apply Z.eqb_eq in E; lia|congruence].
    + intros j n' H H2. simpl in H. destruct (nxt s =? j); [inversion H; subst; simpl|congruence].
      left. exists 0. split; [reflexivity|lia].
Qed.

Lemma get_good : forall s L i, SInv s L -> live (heap_of s) i -> step_good s L (OGet i).
Proof.
  intros s L i SI LV. pose proof SI as (I & IDS & NP).
  destruct (hfind (heap_of s) i) as [n|] eqn:F; [|exfalso; apply LV; auto].
  assert (HS : HStruct (heap_of s) (hset (heap_of s) i (set_rc n (rc n + 1))) []).
  { apply (hstruct_hset _ i n); auto. }
  exists (mkSt (hset (heap_of s) i (set_rc n (rc n + 1))) (nxt s)), i, [].
  split; [simpl; unfold get_node; rewrite F; reflexivity|]. split.
  - eapply sinv_of_hstruct; eauto. simpl.
    destruct (inv_rc _ _ I i n F). pose proof (inv_L _ _ I i).
    apply (inv_same_children _ L i n); auto; simpl; lia.
  - apply sfacts_of_hstruct; auto.
Qed.

Lemma put_good : forall s L i, SInv s L -> L i >= 1 -> step_good s L (OPut i).
Proof.
  intros s L i SI LI. pose proof SI as (I & IDS & NP).
  destruct (put_h_ok (heap_of s) L i I LI Logic.I) as (h' & evs & b & E & I' & _).
  destruct (put_h_struct _ _ _ _ _ E) as (PS & _).
  exists (mkSt h' (nxt s)), (if b then 1 else 0), evs.
  split; [simpl; unfold put_node; rewrite E; reflexivity|].
  assert (HS : HStruct (heap_of s) h' evs) by (apply hstruct_of_ps; auto).
  split; [eapply sinv_of_hstruct; eauto|apply sfacts_of_hstruct; auto].
Qed.

Lemma setud_good : forall s L i u d, SInv s L -> live (heap_of s) i -> step_good s L (OSetUd i u d).
Proof.
  intros s L i u d SI LV. pose proof SI as (I & IDS & NP).
  destruct (hfind (heap_of s) i) as [n|] eqn:F; [|exfalso; apply LV; auto].
  set (evs := match cb n with Some t => [EUser i t] | None => [] end).
  set (n' := set_cb n (if d then Some (nxt s) else None) u).
  assert (DE : dids evs = []) by (unfold evs; destruct (cb n); reflexivity).
  assert (NN : forall j, hfind (hset (heap_of s) i n') j = None <-> hfind (heap_of s) j = None).
  { intros. rewrite hfind_hset. destruct (i =? j) eqn:X; [|tauto]. apply Z.eqb_eq in X. subst. split; congruence. }
  exists (mkSt (hset (heap_of s) i n') (nxt s + 1)), 0, evs.
  split; [simpl; unfold set_ud; rewrite F; reflexivity|]. split.
  - split; [|split; [|simpl; lia]].
    + simpl. destruct (inv_rc _ _ I i n F). pose proof (inv_L _ _ I i).
      eapply Inv_ext; [|apply (inv_same_children _ L i n n' 0); auto; unfold n'; simpl; lia].
      intros j. unfold upd. destruct (j =? i); lia.
    + intros j LJ. simpl in *. assert (j < nxt s); [|lia].
      apply IDS. intro X. apply LJ. apply NN. auto.
  - apply mkSF.
    + simpl. lia.
    + intros j H H2. exfalso. apply H2. simpl. apply NN. exact H.
    + intros j. rewrite DE. simpl. split; [tauto|]. intros [A B]. apply NN in B. congruence.
    + rewrite DE. constructor.
    + intros j c X. unfold evs in X. destruct (cb n); simpl in X; [destruct X; [discriminate|tauto]|tauto].
    + intros j t X. unfold evs in X. destruct (cb n) as [t0|] eqn:CB; simpl in X; [|tauto].
      destruct X as [X|X]; [|tauto]. inversion X; subst. exists n. auto.
    + unfold evs. destruct (cb n); simpl; [constructor; [simpl; tauto|constructor]|constructor].
    + intros j m H. cbn [heap_of] in H. rewrite hfind_hset in H. destruct (i =? j) eqn:E.
      * apply Z.eqb_eq in E. subst j. inversion H; subst m. unfold n'. simpl.
        destruct d; [right; right; right; split; [reflexivity|simpl; lia]|right; left; reflexivity].
      * left. exists m. split; [auto|]. split; [auto|]. intros t X.
        unfold evs in X. destruct (cb n); simpl in X; [|tauto].
        destruct X as [X|X]; [|tauto]. inversion X; subst. rewrite Z.eqb_refl in E. discriminate.
Qed.

Lemma use_good : forall s L i, SInv s L -> live (heap_of s) i -> step_good s L (OUse i).
Proof.
  intros s L i SI LV. destruct (hfind (heap_of s) i) as [n|] eqn:F; [|exfalso; apply LV; auto].
  exists s, 0, []. split; [simpl; unfold use_node; rewrite F; reflexivity|]. split; [auto|].
  apply sfacts_of_hstruct; [auto|apply hstruct_refl].
Qed.

(* registrations under a deep copy (structural, no invariant needed): old nodes keep theirs,
   the copies come with number 0 or none *)
Definition cbext (s s' : state) : Prop :=
  (forall j n, hfind (heap_of s) j = Some n -> exists n', hfind (heap_of s') j = Some n' /\ cb n' = cb n) /\
  newcb s s'.

Lemma cbext_refl : forall s, cbext s s.
Proof. intros. split; [eauto|]. intros j n' H H2. congruence. Qed.

Lemma cbext_trans : forall s s1 s2, cbext s s1 -> cbext s1 s2 -> cbext s s2.
Proof.
  intros s s1 s2 (A1 & B1) (A2 & B2). split.
  - intros j n H. destruct (A1 j n H) as (n1 & H1 & C1). destruct (A2 j n1 H1) as (n2 & H2 & C2).
    exists n2. split; [auto|congruence].
  - intros j n2 H2 H. destruct (hfind (heap_of s1) j) as [n1|] eqn:E.
    + destruct (A2 j n1 E) as (m & M1 & M2). rewrite H2 in M1. inversion M1; subst m.
      rewrite M2. apply (B1 j n1 E H).
    + apply (B2 j n2 H2 E).
Qed.

Lemma cbext_attach : forall s me k v, cbext s (attach s me k v).
Proof.
  intros. unfold attach. destruct (hfind (heap_of s) me) as [m|] eqn:F; [|apply cbext_refl].
  split.
  - intros j n H. cbn [heap_of]. rewrite hfind_hset. destruct (me =? j) eqn:E.
    + apply Z.eqb_eq in E. subst j. rewrite F in H. inversion H; subst. eexists. split; [reflexivity|reflexivity].
    + eauto.
  - intros j n' H H2. cbn [heap_of] in H. rewrite hfind_hset in H. destruct (me =? j) eqn:E; [|congruence].
    apply Z.eqb_eq in E. subst j. congruence.
Qed.

Definition WF (s : state) : Prop := forall j, hfind (heap_of s) j <> None -> j < nxt s.

Lemma wf_attach : forall s me k v, WF s -> WF (attach s me k v).
Proof.
  intros s me k v W. unfold attach. destruct (hfind (heap_of s) me) as [m|] eqn:F; [|auto].
  intros j H. cbn [heap_of nxt] in *. rewrite hfind_hset in H. destruct (me =? j) eqn:E; [|auto].
  apply Z.eqb_eq in E. subst j. apply W. congruence.
Qed.

Lemma copy_kids_cbext : forall C me,
  (forall s c s' r, WF s -> C s c = COk s' r -> WF s' /\ cbext s s') ->
  forall cs s s', WF s -> copy_kids C me cs s = KOk s' -> WF s' /\ cbext s s'.
Proof.
  intros C me HC. induction cs as [|[k [c|]] t IH]; intros s s' W H; simpl in H.
  - inversion H; subst. split; [auto|apply cbext_refl].
  - destruct (C s c) as [s1 r| | |] eqn:E; try discriminate.
    destruct (HC _ _ _ _ W E) as (W1 & X1).
    destruct (IH _ _ (wf_attach s1 me (kstrip k) (Some r) W1) H) as (W2 & X2).
    split; [auto|]. eapply cbext_trans; [exact X1|]. eapply cbext_trans; [apply cbext_attach|exact X2].
  - destruct (IH _ _ (wf_attach s me (kstrip k) None W) H) as (W2 & X2).
    split; [auto|]. eapply cbext_trans; [apply cbext_attach|exact X2].
Qed.

Lemma copy_f_cbext : forall f cu hs s src s' r, WF s -> copy_f f cu hs s src = COk s' r -> WF s' /\ cbext s s'.
Proof.
  induction f as [|f IH]; intros cu hs s src s' r W H; simpl in H; [discriminate|].
  destruct (hfind hs src) as [n|]; [|discriminate].
  destruct (copy_refused cu n); [discriminate|].
  destruct (copy_kids _ _ _ _) as [s2| | |] eqn:CK; try discriminate. inversion H; subst.
  set (s1 := mkSt ((nxt s, mkNode 1 (nkind n) [] (copy_cb cu n) (copy_ud cu n)) :: heap_of s) (nxt s + 1)) in *.
  assert (W1 : WF s1).
  { intros j Hj. simpl in *. destruct (nxt s =? j) eqn:E; [apply Z.eqb_eq in E; lia|].
    specialize (W j Hj). lia. }
  assert (X1 : cbext s s1).
  { split.
    - intros j m Hj. simpl. destruct (nxt s =? j) eqn:E; [|eauto].
      apply Z.eqb_eq in E. subst j. assert (nxt s < nxt s) by (apply W; congruence). lia.
    - intros j n' Hj H2. simpl in Hj. destruct (nxt s =? j); [|congruence].
      inversion Hj; subst. simpl. unfold copy_cb, lib_reg.
      destruct cu; [left; exists 0; split; [reflexivity|lia]|].
      destruct (has_lib_reg n); [left; exists (-1); split; [reflexivity|lia]|right; reflexivity]. }
  destruct (copy_kids_cbext _ (nxt s) (fun s0 c s0' r0 W0 E0 => IH cu (hdel hs src) s0 c s0' r0 W0 E0)
              _ _ _ W1 CK) as (W2 & X2).
  split; [auto|eapply cbext_trans; eauto].
Qed.

Lemma copy_good : forall s L src cu, SInv s L -> live (heap_of s) src -> step_good s L (OCopy src cu).
Proof.
  intros s L src cu SI LV. pose proof SI as (I & IDS & NP).
  destruct (inv_rank _ _ I) as [rk R].
  assert (HS : hs_ok (heap_of s) rk (heap_of s) (S (rk src))) by (split; auto).
  pose proof (copy_f_spec (heap_of s) rk cu R (inv_kids _ _ I) (S (length (heap_of s))) (heap_of s)
                (S (rk src)) HS ltac:(lia) s L src SI ltac:(intros i n H; exact H) LV ltac:(lia)) as SP.
  unfold step_good. simpl. unfold deep_copy.
  destruct (copy_f (S (length (heap_of s))) cu (heap_of s) s src) as [s' r| | |] eqn:CF; try contradiction.
  - destruct SP as (SI' & RR & G). exists s', r, []. split; [reflexivity|].
    replace (0 <=? r) with true by lia. split; [auto|apply sfacts_of_grows; auto].
    assert (W : WF s) by (intros j Hj; apply IDS; exact Hj).
    destruct (copy_f_cbext _ _ _ _ _ _ _ W CF) as (_ & (_ & NC)). exact NC.
  - exists s, (-1), []. split; [reflexivity|]. simpl. split; [auto|].
    apply sfacts_of_hstruct; [auto|apply hstruct_refl].
Qed.

Lemma ptrset_good : forall s L r path v,
  SInv s L -> admissible s L (OPtrSet r path v) -> step_good s L (OPtrSet r path v).
Proof.
  intros s L r path v SI (LV & A). pose proof SI as (I & IDS & NP).
  destruct (hfind (heap_of s) r) as [n|] eqn:F; [|exfalso; apply LV; auto].
  pose proof (ptr_target_kinds (heap_of s) r path) as K.
  unfold step_good. simpl. unfold ptr_set. rewrite F.
  destruct (ptr_target (heap_of s) r path) as [| |p k|p|p idx] eqn:T.
  - exists s, (-1), []. split; [reflexivity|]. simpl. split; [auto|].
    apply sfacts_of_hstruct; [auto|apply hstruct_refl].
  - destruct (put_good s L r SI A) as (s' & ret & evs & E & SI' & SF). simpl in E. rewrite E.
    exists s', 0, evs. split; [reflexivity|]. simpl. simpl in SI'. auto.
  - destruct (res_ok_good s L _ _ SI (obj_add_ok s L p k v I K A)) as (s' & ret & evs & E & SI' & SF).
    exists s', ret, evs. split; [auto|]. split; [|auto]. unfold Ltransfer in SI'. destruct (ret =? 0); auto.
  - destruct (res_ok_good s L _ _ SI (arr_add_ok s L p v I K A)) as (s' & ret & evs & E & SI' & SF).
    exists s', ret, evs. split; [auto|]. split; [|auto]. unfold Ltransfer in SI'. destruct (ret =? 0); auto.
  - destruct K as (K1 & K2).
    destruct (res_ok_good s L _ _ SI (arr_put_ok s L p idx v I K1 K2 A)) as (s' & ret & evs & E & SI' & SF).
    exists s', ret, evs. split; [auto|]. split; [|auto]. unfold Ltransfer in SI'. destruct (ret =? 0); auto.
Qed.

Lemma newdbl_good : forall s L, SInv s L -> step_good s L ONewDoubleS.
Proof.
  intros s L (I & IDS & NP).
  assert (F : hfind (heap_of s) (nxt s) = None).
  { destruct (hfind (heap_of s) (nxt s)) eqn:E; [|reflexivity].
    assert (nxt s < nxt s) by (apply IDS; unfold live; congruence). lia. }
  exists (mkSt ((nxt s, mkNode 1 (KScalar TDouble) [] (Some lib_reg) true) :: heap_of s) (nxt s + 1)), (nxt s), [].
  split; [reflexivity|]. split.
  - split; [apply inv_alloc; auto|]. split; [|simpl; lia].
    intros j LJ. unfold live in LJ. simpl in *. destruct (nxt s =? j) eqn:E.
    + apply Z.eqb_eq in E. lia.
    + assert (j < nxt s) by (apply IDS; auto). lia.
  - apply sfacts_of_grows.
    + split; [simpl; lia|]. split.
      * intros j n _ H. simpl. destruct (nxt s =? j) eqn:E; [apply Z.eqb_eq in E; subst; congruence|auto].
      * intros j H H2. simpl in *. destruct (nxt s =? j) eqn:E; [apply Z.eqb_eq in E; lia|congruence].
    + intros j n' H H2. simpl in H. destruct (nxt s =? j); [inversion H; subst; simpl|congruence].
      left. exists (-1). split; [reflexivity|lia].
Qed.

Lemma setval_good : forall s L i w, SInv s L -> live (heap_of s) i -> step_good s L (OSetVal i w).
Proof.
  intros s L i w SI LV.
  assert (SAME : forall ret, exists s' r evs, ROk s ret [] = ROk s' r evs /\ SInv s' L /\ SFacts s s' evs).
  { intros. exists s, ret, []. split; [reflexivity|]. split; [auto|].
    apply sfacts_of_hstruct; [auto|apply hstruct_refl]. }
  destruct (hfind (heap_of s) i) as [n|] eqn:F; [|exfalso; apply LV; auto].
  unfold step_good. simpl. unfold set_value. rewrite F.
  destruct (nkind n); try apply SAME.
  destruct (styp_eqb t (setter_type w)); [|apply SAME].
  destruct w; try apply SAME.
  destruct (has_lib_reg n); [|apply SAME].
  destruct (setud_good s L i false false SI LV) as (s' & ret & evs & E & SI' & SF).
  simpl in E. rewrite E. exists s', 1, evs. split; [reflexivity|]. simpl in SI'. auto.
Qed.

(* every admissible operation succeeds (no undefined behaviour, fuel suffices), keeps the
   invariant with the documented change of the client's ledger *)
Theorem step_preserves : forall s L o, SInv s L -> admissible s L o -> step_good s L o.
Proof.
  intros s L o SI A. pose proof SI as (I & IDS & NP). destruct o; simpl in A.
  - apply new_good; auto.
  - apply newdbl_good; auto.
  - apply setval_good; auto.
  - apply get_good; auto.
  - apply put_good; auto.
  - destruct A as (K & T). apply (good_of_res_ok s L _ (Ltransfer L v)); auto.
    apply obj_add_ok; auto.
  - destruct A as (K & T & _). apply (good_of_res_ok s L _ (Ltransfer L v)); auto.
    apply obj_add_ex_ok; auto.
  - apply (good_of_res_ok s L _ (fun _ => L)); auto. apply obj_del_ok; auto.
  - destruct A as (K & T). apply (good_of_res_ok s L _ (Ltransfer L v)); auto. apply arr_add_ok; auto.
  - destruct A as (K & Z & T). apply (good_of_res_ok s L _ (Ltransfer L v)); auto. apply arr_put_ok; auto.
  - destruct A as (K & Z & T). apply (good_of_res_ok s L _ (Ltransfer L v)); auto. apply arr_ins_ok; auto.
  - destruct A as (K & Z & C). apply (good_of_res_ok s L _ (fun _ => L)); auto. apply arr_del_ok; auto.
  - apply setud_good; auto.
  - apply copy_good; auto.
  - apply ptrset_good; auto.
  - apply use_good; auto.
Qed.

(* ------------------------------------------------------------------ histories *)
Definition trace := list (op * Z * list ev).

Fixpoint run (s : state) (L : ledger) (ops : list op) : option (state * ledger * trace) :=
  match ops with
  | [] => Some (s, L, [])
  | o :: t =>
      match step s o with
      | ROk s' ret evs =>
          match run s' (ledger_step (heap_of s) L o ret) t with
          | Some (s2, L2, tr) => Some (s2, L2, (o, ret, evs) :: tr)
          | None => None
          end
      | _ => None
      end
  end.

(* every operation is admissible in the state in which it is issued *)
Fixpoint adm_hist (s : state) (L : ledger) (ops : list op) : Prop :=
  match ops with
  | [] => True
  | o :: t =>
      admissible s L o /\
      match step s o with
      | ROk s' ret _ => adm_hist s' (ledger_step (heap_of s) L o ret) t
      | _ => True
      end
  end.

Fixpoint all_evs (tr : trace) : list ev :=
  match tr with [] => [] | (_, _, evs) :: t => evs ++ all_evs t end.

Definition L0 : ledger := fun _ => 0.

Lemma sinv_init : SInv init_state L0.
Proof.
  split; [|split; [|simpl; lia]].
  - constructor.
    + simpl. constructor.
    + intros i n c H. simpl in H. discriminate.
    + intros i n H. simpl in H. discriminate.
    + intros. unfold L0. lia.
    + intros. reflexivity.
    + exists (fun _ => O). intros i n c H. simpl in H. discriminate.
  - intros i H. exfalso. apply H. reflexivity.
Qed.

Definition LogInv (s : state) (log : list ev) : Prop :=
  NoDup (dids log) /\ forall j, In j (dids log) -> hfind (heap_of s) j = None /\ j < nxt s.

Lemma loginv_step : forall s L s' log evs,
  SInv s L -> LogInv s log -> SFacts s s' evs -> LogInv s' (log ++ evs).
Proof.
  intros s L s' log evs (I & IDS & NP) (ND & LG) SF. split.
  - rewrite dids_app. apply nodup_app; [auto|apply (sf_nodup _ _ _ SF)|].
    intros x X Y. apply (sf_log _ _ _ SF) in Y. destruct (LG x X). tauto.
  - intros j X. rewrite dids_app in X. apply in_app_or in X. pose proof (sf_nxt _ _ _ SF).
    destruct X as [X|X].
    + destruct (LG j X) as (D & B). split; [|lia].
      destruct (hfind (heap_of s') j) eqn:E; [|reflexivity].
      assert (nxt s <= j < nxt s') by (apply (sf_fresh _ _ _ SF); congruence). lia.
    + apply (sf_log _ _ _ SF) in X. destruct X as (A & B). split; [auto|].
      assert (j < nxt s) by (apply IDS; exact A). lia.
Qed.

(* registrations: everything released so far is released once, belongs to a node that is
   gone or carries a different registration now, and registration numbers are below the counter *)
Definition RegInv (s : state) (log : list ev) : Prop :=
  NoDup (rels log) /\
  (forall i t, In (i, t) (rels log) ->
     t < nxt s /\ i < nxt s /\ forall n, hfind (heap_of s) i = Some n -> cb n <> Some t) /\
  (forall i n t, hfind (heap_of s) i = Some n -> cb n = Some t -> t < nxt s).

Lemma reginv_step : forall s L s' log evs,
  SInv s L -> 0 < nxt s' -> RegInv s log -> SFacts s s' evs -> RegInv s' (log ++ evs).
Proof.
  intros s L s' log evs (I & IDS & NP) NP' (ND & LG & CUR) SF.
  pose proof (sf_nxt _ _ _ SF) as NX.
  assert (AFTER : forall i t n', hfind (heap_of s') i = Some n' -> cb n' = Some t ->
            (exists n, hfind (heap_of s) i = Some n /\ cb n = Some t /\ forall u, ~ In (i, u) (rels evs)) \/
            (t <= 0 /\ hfind (heap_of s) i = None) \/ (t = nxt s /\ nxt s < nxt s')).
  { intros i t n' H C. destruct (sf_after _ _ _ SF i n' H) as [(n & Hn & E & NR)|[E|[((t0 & E & T0) & D)|(E & D)]]].
    - left. exists n. split; [auto|]. split; [congruence|auto].
    - congruence.
    - right. left. split; [|auto]. assert (t = t0) by congruence. lia.
    - right. right. split; [congruence|auto]. }
  split; [|split].
  - rewrite rels_app. apply nodup_app; [auto|apply (sf_relnodup _ _ _ SF)|].
    intros [i t] X Y. destruct (sf_rel _ _ _ SF i t Y) as (n & Hn & C).
    destruct (LG i t X) as (_ & _ & Z). apply (Z n Hn C).
  - intros i t X. rewrite rels_app in X. apply in_app_or in X. destruct X as [X|X].
    + destruct (LG i t X) as (T & II & Z). split; [lia|]. split; [lia|].
      intros n' H C. destruct (AFTER i t n' H C) as [(n & Hn & Cn & _)|[(T0 & D)|(T0 & _)]].
      * apply (Z n Hn Cn).
      * assert (nxt s <= i < nxt s') by (apply (sf_fresh _ _ _ SF); congruence). lia.
      * lia.
    + destruct (sf_rel _ _ _ SF i t X) as (n & Hn & C).
      assert (T : t < nxt s) by (apply (CUR i n t Hn C)).
      assert (II : i < nxt s) by (apply IDS; unfold live; congruence).
      split; [lia|]. split; [lia|].
      intros n' H C'. destruct (AFTER i t n' H C') as [(m & Hm & Cm & NR)|[(T0 & D)|(T0 & _)]].
      * apply (NR t X).
      * congruence.
      * lia.
  - intros i n' t H C. destruct (AFTER i t n' H C) as [(n & Hn & Cn & _)|[(T0 & D)|(T0 & D)]].
    + specialize (CUR i n t Hn Cn). lia.
    + lia.
    + lia.
Qed.

Theorem run_invariant : forall ops s L log,
  SInv s L -> LogInv s log -> RegInv s log -> adm_hist s L ops ->
  exists s' L' tr, run s L ops = Some (s', L', tr) /\ SInv s' L' /\ LogInv s' (log ++ all_evs tr) /\
                   RegInv s' (log ++ all_evs tr).
Proof.
  induction ops as [|o t IH]; intros s L log SI LI RI AH; simpl in *.
  - exists s, L, []. rewrite app_nil_r. auto.
  - destruct AH as (A & AH).
    destruct (step_preserves s L o SI A) as (s1 & ret & evs & E & SI1 & SF). rewrite E in *.
    assert (RI1 : RegInv s1 (log ++ evs)).
    { apply (reginv_step s L); auto. destruct SI1 as (_ & _ & NP1). exact NP1. }
    destruct (IH s1 _ (log ++ evs) SI1 (loginv_step _ _ _ _ _ SI LI SF) RI1 AH) as (s2 & L2 & tr & R & SI2 & LI2 & RI2).
    rewrite R. exists s2, L2, ((o, ret, evs) :: tr). split; [reflexivity|]. split; [auto|].
    simpl. rewrite app_assoc. auto.
Qed.

Lemma loginv_init : LogInv init_state [].
Proof. split; [constructor|]. simpl. tauto. Qed.

Lemma reginv_init : RegInv init_state [].
Proof.
  split; [constructor|]. split; [simpl; tauto|]. intros i n t H. simpl in H. discriminate.
Qed.

(* rc_invariant: after any admissible history every live node has rc = ledger + in-degree > 0,
   its children are live, the heap is acyclic *)
Theorem rc_invariant : forall ops,
  adm_hist init_state L0 ops ->
  exists s' L' tr, run init_state L0 ops = Some (s', L', tr) /\ Inv (heap_of s') L' /\
    forall i n, hfind (heap_of s') i = Some n -> rc n = L' i + indeg (heap_of s') i /\ rc n > 0.
Proof.
  intros ops AH.
  destruct (run_invariant ops init_state L0 [] sinv_init loginv_init reginv_init AH)
    as (s' & L' & tr & R & (I & _) & _).
  exists s', L', tr. split; [auto|]. split; [auto|]. intros. apply (inv_rc _ _ I i n H).
Qed.

(* destroyed_once, history part: over a whole admissible history no node is logged twice *)
Theorem destroyed_once_history : forall ops,
  adm_hist init_state L0 ops ->
  exists s' L' tr, run init_state L0 ops = Some (s', L', tr) /\ NoDup (dids (all_evs tr)) /\
    forall j, In j (dids (all_evs tr)) -> hfind (heap_of s') j = None.
Proof.
  intros ops AH.
  destruct (run_invariant ops init_state L0 [] sinv_init loginv_init reginv_init AH)
    as (s' & L' & tr & R & _ & (ND & LG) & _).
  exists s', L', tr. simpl in *. split; [auto|]. split; [auto|]. intros. apply LG. auto.
Qed.

(* registrations (userdata + delete callback): over a whole admissible history no registration's
   callback runs twice, and the registration a live node carries at the end has not run yet *)
Theorem registration_released_once : forall ops,
  adm_hist init_state L0 ops ->
  exists s' L' tr, run init_state L0 ops = Some (s', L', tr) /\ NoDup (rels (all_evs tr)) /\
    forall i n t, hfind (heap_of s') i = Some n -> cb n = Some t -> ~ In (i, t) (rels (all_evs tr)).
Proof.
  intros ops AH.
  destruct (run_invariant ops init_state L0 [] sinv_init loginv_init reginv_init AH)
    as (s' & L' & tr & R & _ & _ & (ND & LG & _)).
  exists s', L', tr. simpl in *. split; [auto|]. split; [auto|].
  intros i n t H C X. destruct (LG i t X) as (_ & _ & Z). apply (Z n H C).
Qed.

(* ... and it runs exactly when the registration ends: set_userdata / set_serializer invoke the
   callback registered before — whatever the old userdata was — exactly once, install the new
   pair under a fresh number and change nothing else; (the other end, destruction, is
   [destroyed_exactly]: the EDestroy event carries the callback installed at that time) *)
Theorem set_userdata_releases_old : forall s i u d n,
  hfind (heap_of s) i = Some n ->
  step s (OSetUd i u d) =
    ROk (mkSt (hset (heap_of s) i (mkNode (rc n) (nkind n) (children n) (if d then Some (nxt s) else None) u))
              (nxt s + 1))
        0 (match cb n with Some t => [EUser i t] | None => [] end).
Proof. intros. simpl. unfold set_ud. rewrite H. reflexivity. Qed.

(* who keeps a node alive *)
Lemma live_iff_owned : forall h L j, Inv h L ->
  (live h j <-> (L j > 0 \/ exists i n, hfind h i = Some n /\ In j (kid_ids (children n)))).
Proof.
  intros h L j I. split.
  - intros LV. destruct (hfind h j) as [n|] eqn:F; [|exfalso; apply LV; auto].
    destruct (inv_rc _ _ I j n F). destruct (Z_gt_le_dec (L j) 0); [auto|right].
    destruct (indeg_pos_edge h j) as (i & m & A & B); [lia|].
    exists i, m. split; [apply in_nodup_hfind; auto; apply (inv_nodup _ _ I)|auto].
  - intros [O|(i & n & F & X)].
    + assert (O1 : L j >= 1) by lia. destruct (inv_owned_live _ _ _ I O1) as [n F]. unfold live. congruence.
    + apply (inv_kids _ _ I i n j F X).
Qed.

(* destroyed_once, step part: in the step of an admissible operation a node's destruction is
   logged iff it existed before and after the step neither the client nor a live container
   holds a reference to it; the log of the step has no duplicates; the callback recorded is
   the one installed when the step began *)
Theorem destroyed_exactly : forall s L o,
  SInv s L -> admissible s L o ->
  exists s' ret evs, step s o = ROk s' ret evs /\
    let L' := ledger_step (heap_of s) L o ret in
    NoDup (dids evs) /\
    (forall j, In j (dids evs) <->
       (live (heap_of s) j /\
        ~ (L' j > 0 \/ exists i n, hfind (heap_of s') i = Some n /\ In j (kid_ids (children n))))) /\
    (forall j c, In (EDestroy j c) evs -> exists n, hfind (heap_of s) j = Some n /\ cb n = c).
Proof.
  intros s L o SI A. destruct (step_preserves s L o SI A) as (s' & ret & evs & E & (I' & _) & SF).
  exists s', ret, evs. split; [auto|]. simpl. split; [apply (sf_nodup _ _ _ SF)|]. split; [|apply (sf_cb _ _ _ SF)].
  intros j. rewrite (sf_log _ _ _ SF j), <- (live_iff_owned _ _ j I'). unfold live.
  destruct (hfind (heap_of s') j); split; intros [X Y]; split; auto; try congruence.
  exfalso. apply Y. congruence.
Qed.

(* put reports 'freed' exactly when its argument is destroyed by this call *)
Theorem put_returns_freed : forall s L i,
  SInv s L -> admissible s L (OPut i) ->
  exists s' ret evs, step s (OPut i) = ROk s' ret evs /\ (ret = 0 \/ ret = 1) /\
    (ret = 1 <-> In i (dids evs)) /\ (ret = 1 <-> hfind (heap_of s') i = None) /\
    (ret = 1 <-> exists n, hfind (heap_of s) i = Some n /\ rc n = 1).
Proof.
  intros s L i SI A. simpl in A. pose proof SI as (I & _).
  destruct (put_h_ok (heap_of s) L i I A Logic.I) as (h' & evs & b & E & I' & _).
  destruct (put_h_struct _ _ _ _ _ E) as (PS & B & LV).
  exists (mkSt h' (nxt s)), (if b then 1 else 0), evs.
  split; [simpl; unfold put_node; rewrite E; reflexivity|].
  split; [destruct b; auto|]. simpl.
  assert (R1 : (if b then 1 else 0) = 1 <-> b = true) by (destruct b; split; intros; try reflexivity; try discriminate).
  split; [|split].
  - rewrite R1, B, (ps_log _ _ _ PS i). tauto.
  - rewrite R1. exact B.
  - rewrite R1, B. destruct (hfind (heap_of s) i) as [n|] eqn:F; [|congruence].
    destruct (inv_rc _ _ I i n F) as [RC POS]. split.
    + intros D. exists n. split; [auto|].
      destruct (Z.eq_dec (rc n) 1); [auto|exfalso].
      (* rc >= 2: the node survives *)
      unfold put_h in E. simpl in E. rewrite F in E.
      replace (rc n <=? 0) with false in E by lia. replace (1 <? rc n) with true in E by lia.
      inversion E; subst. rewrite hfind_hset, Z.eqb_refl in D. discriminate.
    + intros (n' & F' & R). inversion F'; subst n'.
      unfold put_h in E. simpl in E. rewrite F in E.
      replace (rc n <=? 0) with false in E by lia. replace (1 <? rc n) with false in E by lia.
      destruct (put_list _ _ _) in E; try discriminate. inversion E; subst. apply B. reflexivity.
Qed.

(* survives_parent: whatever a put destroys, a node the client still owns afterwards is live,
   has the same kind, members and callback as before, a correct count, and live members *)
Theorem survives_parent : forall s L p,
  SInv s L -> admissible s L (OPut p) ->
  exists s' ret evs, step s (OPut p) = ROk s' ret evs /\
    forall c, upd L p (-1) c > 0 ->
      exists n n', hfind (heap_of s) c = Some n /\ hfind (heap_of s') c = Some n' /\
        nkind n' = nkind n /\ children n' = children n /\ cb n' = cb n /\ ud n' = ud n /\
        rc n' = upd L p (-1) c + indeg (heap_of s') c /\
        (forall x, In x (kid_ids (children n')) -> live (heap_of s') x).
Proof.
  intros s L p SI A. simpl in A. pose proof SI as (I & _).
  destruct (put_h_ok (heap_of s) L p I A Logic.I) as (h' & evs & b & E & I' & _).
  destruct (put_h_struct _ _ _ _ _ E) as (PS & _ & _).
  exists (mkSt h' (nxt s)), (if b then 1 else 0), evs.
  split; [simpl; unfold put_node; rewrite E; reflexivity|]. simpl.
  intros c OC.
  assert (O1 : upd L p (-1) c >= 1) by lia.
  destruct (inv_owned_live _ _ _ I' O1) as [n' F'].
  destruct (ps_keep _ _ _ PS c n' F') as (n & F & (S1 & S2 & S3 & S3u & S4)).
  exists n, n'. repeat split; auto.
  - apply (inv_rc _ _ I' c n' F').
  - intros x X. apply (inv_kids _ _ I' c n' x F' X).
Qed.

(* the same for every operation, as far as liveness goes: what the client owns after an
   admissible step exists *)
Theorem owned_is_live : forall s L o,
  SInv s L -> admissible s L o ->
  exists s' ret evs, step s o = ROk s' ret evs /\
    forall c, ledger_step (heap_of s) L o ret c > 0 -> live (heap_of s') c.
Proof.
  intros s L o SI A. destruct (step_preserves s L o SI A) as (s' & ret & evs & E & (I' & _) & _).
  exists s', ret, evs. split; [auto|]. intros c OC. apply (live_iff_owned _ _ c I'). auto.
Qed.

(* ------------------------------------------------------------------ failed operations *)
(* the C API reports failure by a non-zero int (deep copy: a negative one; the model returns
   the id of the copy on success) *)
Definition failed (o : op) (ret : Z) : bool :=
  match o with
  | OObjAdd _ _ _ | OObjAddEx _ _ _ _ _ | OArrAdd _ _ | OArrPut _ _ _ | OArrIns _ _ _ | OArrDel _ _ _ | OPtrSet _ _ _ => negb (ret =? 0)
  | OCopy _ _ => ret <? 0
  | _ => false
  end.

Ltac crush_fail :=
  repeat (match goal with
          | H : ROk _ _ _ = ROk _ _ _ |- _ => inversion H; clear H; subst
          | H : lift_l _ 0 ?r = ROk _ _ _ |- _ =>
              destruct r; cbn [lift_l] in H; [inversion H; clear H; subst|discriminate|discriminate]
          | H : context[match ?x with _ => _ end] |- _ => destruct x eqn:?; try discriminate
          end).

Lemma obj_add_ex_fail : forall s p k v nw cst s' ret evs,
  obj_add_ex s p k v nw cst = ROk s' ret evs -> ret <> 0 -> s' = s /\ evs = [].
Proof. intros s p k v nw cst s' ret evs H NZ. unfold obj_add_ex in H. crush_fail; try lia; auto. Qed.

Lemma obj_add_fail : forall s p k v s' ret evs,
  obj_add s p k v = ROk s' ret evs -> ret <> 0 -> s' = s /\ evs = [].
Proof. intros. eapply obj_add_ex_fail; eauto. Qed.

Lemma arr_add_fail : forall s p v s' ret evs,
  arr_add s p v = ROk s' ret evs -> ret <> 0 -> s' = s /\ evs = [].
Proof. intros s p v s' ret evs H NZ. unfold arr_add in H. crush_fail; try lia; auto. Qed.

Lemma arr_put_on_fail : forall s p n idx v s' ret evs,
  arr_put_on s p n idx v = ROk s' ret evs -> ret <> 0 -> s' = s /\ evs = [].
Proof. intros s p n idx v s' ret evs H NZ. unfold arr_put_on in H. crush_fail; try lia; auto. Qed.

Lemma arr_put_fail : forall s p idx v s' ret evs,
  arr_put s p idx v = ROk s' ret evs -> ret <> 0 -> s' = s /\ evs = [].
Proof.
  intros s p idx v s' ret evs H NZ. unfold arr_put in H.
  destruct (hfind (heap_of s) p); [|discriminate]. destruct (negb _); [discriminate|].
  eapply arr_put_on_fail; eauto.
Qed.

Lemma arr_ins_fail : forall s p idx v s' ret evs,
  arr_ins s p idx v = ROk s' ret evs -> ret <> 0 -> s' = s /\ evs = [].
Proof.
  intros s p idx v s' ret evs H NZ. unfold arr_ins in H.
  destruct (hfind (heap_of s) p); [|discriminate]. destruct (negb _); [discriminate|].
  destruct (_ || _); [discriminate|]. destruct (_ <=? _); [eapply arr_put_on_fail; eauto|].
  inversion H; subst. lia.
Qed.

Lemma arr_del_fail : forall s p idx c s' ret evs,
  arr_del s p idx c = ROk s' ret evs -> ret <> 0 -> s' = s /\ evs = [].
Proof.
  intros s p idx c s' ret evs H NZ. unfold arr_del in H.
  destruct (hfind (heap_of s) p); [|discriminate]. cbv zeta in H.
  destruct (negb _); [discriminate|].
  destruct (_ || _ || _ || _); [discriminate|].
  destruct (_ <? idx); [inversion H; auto|].
  destruct (_ || _); [inversion H; auto|].
  destruct (release_list _ _); cbn [lift_l] in H; try discriminate. inversion H; subst. lia.
Qed.

Lemma copy_f_root : forall f cu hs s src s1 r, copy_f f cu hs s src = COk s1 r -> r = nxt s.
Proof.
  intros f cu hs s src s1 r H. destruct f; simpl in H; [discriminate|].
  destruct (hfind hs src); [|discriminate].
  destruct (copy_refused cu n); [discriminate|].
  destruct (copy_kids _ _ _ _); try discriminate. inversion H; reflexivity.
Qed.

(* a failed operation changes nothing and the caller keeps every reference it had *)
Theorem failure_keeps_ownership : forall s o s' ret evs,
  0 < nxt s -> step s o = ROk s' ret evs -> failed o ret = true ->
  s' = s /\ evs = [] /\ forall L, ledger_step (heap_of s) L o ret = L.
Proof.
  intros s o s' ret evs NP H F.
  destruct o; simpl in F; try discriminate; simpl in H.
  - assert (NZ : ret <> 0) by lia. destruct (obj_add_fail _ _ _ _ _ _ _ H NZ). repeat split; auto.
    intros. simpl. replace (ret =? 0) with false by lia. reflexivity.
  - assert (NZ : ret <> 0) by lia. destruct (obj_add_ex_fail _ _ _ _ _ _ _ _ _ H NZ). repeat split; auto.
    intros. simpl. replace (ret =? 0) with false by lia. reflexivity.
  - assert (NZ : ret <> 0) by lia. destruct (arr_add_fail _ _ _ _ _ _ H NZ). repeat split; auto.
    intros. simpl. replace (ret =? 0) with false by lia. reflexivity.
  - assert (NZ : ret <> 0) by lia. destruct (arr_put_fail _ _ _ _ _ _ _ H NZ). repeat split; auto.
    intros. simpl. replace (ret =? 0) with false by lia. reflexivity.
  - assert (NZ : ret <> 0) by lia. destruct (arr_ins_fail _ _ _ _ _ _ _ H NZ). repeat split; auto.
    intros. simpl. replace (ret =? 0) with false by lia. reflexivity.
  - assert (NZ : ret <> 0) by lia. destruct (arr_del_fail _ _ _ _ _ _ _ H NZ). repeat split; auto.
  - unfold deep_copy in H. destruct (copy_f _ _ _ _ _) as [s1 r| | |] eqn:C; try discriminate.
    + inversion H; subst. apply copy_f_root in C. lia.
    + inversion H; subst. repeat split; auto.
  - assert (NZ : ret <> 0) by lia. unfold ptr_set in H.
    destruct (hfind (heap_of s) root); [|discriminate].
    assert (LS : forall L, ledger_step (heap_of s) L (OPtrSet root path v) ret = L).
    { intros. simpl. replace (ret =? 0) with false by lia. reflexivity. }
    destruct (ptr_target (heap_of s) root path).
    + inversion H; subst. auto.
    + destruct (put_node s root); try discriminate. inversion H; subst. lia.
    + destruct (obj_add_fail _ _ _ _ _ _ _ H NZ). auto.
    + destruct (arr_add_fail _ _ _ _ _ _ H NZ). auto.
    + destruct (arr_put_fail _ _ _ _ _ _ _ H NZ). auto.
Qed.

(* ------------------------------------------------------------------ everything released => nothing left *)
Lemma max_rank : forall (rk : id -> nat) (h : heap), h <> [] ->
  exists i n, In (i, n) h /\ forall j m, In (j, m) h -> (rk j <= rk i)%nat.
Proof.
  intros rk. induction h as [|[k n] t IH]; intros NE; [congruence|].
  destruct t as [|p t'].
  - exists k, n. split; [simpl; auto|]. intros j m [X|X]; [inversion X; subst; lia|simpl in X; tauto].
  - destruct IH as (i & ni & A & B); [congruence|].
    destruct (le_lt_dec (rk k) (rk i)).
    + exists i, ni. split; [simpl; auto|]. intros j m [X|X]; [inversion X; subst; lia|apply (B j m X)].
    + exists k, n. split; [simpl; auto|]. intros j m [X|X]; [inversion X; subst; lia|].
      specialize (B j m X). lia.
Qed.

Theorem all_released_empty : forall h L, Inv h L -> (forall i, L i = 0) -> h = [].
Proof.
  intros h L I Z. destruct h as [|p t] eqn:EH; [reflexivity|]. rewrite <- EH in *. exfalso.
  destruct (inv_rank _ _ I) as [rk R].
  destruct (max_rank rk h) as (i & n & A & B); [rewrite EH; congruence|].
  pose proof (inv_nodup _ _ I) as ND.
  pose proof (in_nodup_hfind h i n ND A) as F.
  destruct (inv_rc _ _ I i n F) as [RC POS]. rewrite Z in RC.
  destruct (indeg_pos_edge h i) as (a & m & A2 & X); [lia|].
  pose proof (in_nodup_hfind h a m ND A2) as FA.
  specialize (R a m i FA X). specialize (B a m A2). lia.
Qed.

Corollary all_released_empty_history : forall ops s' L' tr,
  adm_hist init_state L0 ops -> run init_state L0 ops = Some (s', L', tr) ->
  (forall i, L' i = 0) -> heap_of s' = [].
Proof.
  intros ops s' L' tr AH R Z.
  destruct (run_invariant ops init_state L0 [] sinv_init loginv_init reginv_init AH)
    as (s2 & L2 & tr2 & R2 & (I & _) & _).
  rewrite R in R2. inversion R2; subst. eapply all_released_empty; eauto.
Qed.

(* ------------------------------------------------------------------ non-vacuity *)
(* h1 = {} ; h2 = scalar ; add h1 "k" h2 ; get h2 ; put h1 (destroys 1 only) ; use h2 ; put h2 *)
Definition ex_ops : list op :=
  [ONew KObject; ONew (KScalar TInt); OObjAdd 1 [107] (Some 2); OGet 2; OPut 1; OUse 2; OPut 2].

Lemma ex_scalar_no_reach : forall h a b n, hfind h a = Some n -> children n = [] -> a <> b -> ~ reach h a b.
Proof.
  intros h a b n F C NE R. inversion R as [|a1 m1 b1 E1 R1]; subst; [congruence|].
  destruct E1 as (m & F2 & X). rewrite F in F2. inversion F2; subst. rewrite C in X. simpl in X. tauto.
Qed.

Lemma ex_admissible : adm_hist init_state L0 ex_ops.
Proof.
  unfold ex_ops. simpl. repeat split; auto; try (unfold live; simpl; congruence); try (unfold L0, upd; simpl; lia).
  - exists (mkNode 1 KObject [] (Some 0) true). split; reflexivity.
  - right. simpl. split; [unfold L0, upd; simpl; lia|].
    eapply ex_scalar_no_reach; [reflexivity|reflexivity|lia].
Qed.

Lemma ex_runs : exists s' L' tr,
  run init_state L0 ex_ops = Some (s', L', tr) /\ heap_of s' = [] /\
  map (fun t => (snd (fst t), dids (snd t))) tr =
    [(1, []); (2, []); (0, []); (2, []); (1, [1]); (0, []); (1, [2])] /\
  (forall i, L' i = 0).
Proof.
  eexists. eexists. eexists. split; [cbv -[upd upd_opt L0]; reflexivity|].
  split; [reflexivity|]. split; [reflexivity|].
  intros i. cbv [L0 upd upd_opt].
  destruct (i =? 1), (i =? 2); lia.
Qed.

(* a failing operation in an admissible history: adding an object to itself *)
Lemma ex_self_add : step (mkSt [(1, mkNode 1 KObject [] (Some 0) true)] 2) (OObjAdd 1 [107] (Some 1))
                    = ROk (mkSt [(1, mkNode 1 KObject [] (Some 0) true)] 2) (-1) [].
Proof. reflexivity. Qed.

(* ------------------------------------------------------------------ ownership of member names *)
Definition heap_key_copies (h : heap) : Z :=
  fold_right (fun p acc => key_copies (children (snd p)) + acc) 0 h.

Lemma kstrip_kmark : forall k, kstrip (kmark k) = k.
Proof. reflexivity. Qed.

(* replacing the value of an existing member keeps the entry's name and its flag *)
Lemma replace_keeps_keys : forall k v cs, map fst (assoc_set k v cs) = map fst cs.
Proof.
  induction cs as [|[k' v'] t IH]; simpl; [reflexivity|].
  destruct (keq (kstrip k') k); simpl; [reflexivity|]. rewrite IH. reflexivity.
Qed.

Lemma key_copies_fst : forall a b, map fst a = map fst b -> key_copies a = key_copies b.
Proof.
  induction a as [|[k v] t IH]; intros [|[k2 v2] t2] H; simpl in *; try discriminate; [reflexivity|].
  inversion H; subst. rewrite (IH t2); auto.
Qed.

Theorem replace_keeps_key_copies : forall k v cs, key_copies (assoc_set k v cs) = key_copies cs.
Proof. intros. apply key_copies_fst. apply replace_keeps_keys. Qed.

Lemma key_copies_app : forall a b, key_copies (a ++ b) = key_copies a + key_copies b.
Proof. induction a as [|[k v] t IH]; intros; simpl; [lia|]. rewrite IH. lia. Qed.

(* a new member costs one key copy unless the caller lends a constant key *)
Theorem insert_key_copies : forall cs k v (cst : bool), kconst k = false ->
  key_copies (cs ++ [(if cst then kmark k else k, v)]) = key_copies cs + (if cst then 0 else 1).
Proof.
  intros. rewrite key_copies_app. destruct cst; simpl; [lia|]. rewrite H. lia.
Qed.

(* deleting a member never creates a key copy and removes at most one *)
Theorem delete_key_copies : forall k cs,
  key_copies cs - 1 <= key_copies (assoc_del k cs) <= key_copies cs.
Proof.
  induction cs as [|[k' v'] t IH]; simpl; [lia|].
  destruct (keq (kstrip k') k); simpl; destruct (kconst k'); lia.
Qed.

(* with everything released there is no member list left that could hold a key copy *)
Theorem all_released_no_key_copies : forall h L, Inv h L -> (forall i, L i = 0) -> heap_key_copies h = 0.
Proof. intros. rewrite (all_released_empty h L H H0). reflexivity. Qed.

(* non-vacuity: constant and copied keys in one object, replace keeps the flag *)
Lemma ex_keys :
  exists s1 s2 s3,
    step (mkSt [(1, mkNode 1 KObject [] (Some 0) true)] 2) (OObjAddEx 1 [97] None true true) = ROk s1 0 [] /\
    step s1 (OObjAddEx 1 [98] None false false) = ROk s2 0 [] /\
    step s2 (OObjAddEx 1 [97] None false false) = ROk s3 0 [] /\
    heap_key_copies (heap_of s3) = 1 /\
    option_map children (hfind (heap_of s3) 1) = Some [(kmark [97], None); ([98], None)].
Proof. repeat eexists; reflexivity. Qed.

(* non-vacuity: a registration with NULL userdata is released when it is replaced, the reset
   releases the next one, the destruction then has nothing left to call *)
Definition ex_reg_ops : list op := [ONew (KScalar TInt); OSetUd 1 false true; OSetUd 1 false false; OPut 1].

Lemma ex_regs :
  adm_hist init_state L0 ex_reg_ops /\
  exists s' L' tr, run init_state L0 ex_reg_ops = Some (s', L', tr) /\
    rels (all_evs tr) = [(1, 0); (1, 2)] /\ all_evs tr = [EUser 1 0; EUser 1 2; EDestroy 1 None].
Proof.
  split.
  - unfold ex_reg_ops. simpl. repeat split; auto; try (unfold live; simpl; congruence).
    unfold L0, upd. simpl. lia.
  - eexists. eexists. eexists. split; [cbv -[upd upd_opt L0]; reflexivity|]. split; reflexivity.
Qed.

(* ------------------------------------------------------------------ which calls may end a registration *)
(* A value setter never ends a caller's registration, whatever serializer function, userdata
   and callback it was made with: the only registration such a call can release is the
   library's own retained-text one (number -1, json_object_new_double_s), and every node that
   does not carry that one — in particular every node with a caller's registration — is left
   exactly as it was (same callback, same userdata flag, same everything). *)
Theorem value_setter_keeps_registrations : forall s i w s' ret evs,
  step s (OSetVal i w) = ROk s' ret evs ->
  (forall j t, In (j, t) (rels evs) -> j = i /\ t = lib_reg /\ w = SDouble) /\
  (forall j n, hfind (heap_of s) j = Some n -> cb n <> Some lib_reg -> hfind (heap_of s') j = Some n) /\
  (ret = 0 \/ ret = 1).
Proof.
  intros s i w s' ret evs H. simpl in H. unfold set_value in H.
  destruct (hfind (heap_of s) i) as [n|] eqn:F; [|discriminate].
  assert (SAME : forall r, ROk s r [] = ROk s' ret evs -> (r = 0 \/ r = 1) ->
            (forall j t, In (j, t) (rels evs) -> j = i /\ t = lib_reg /\ w = SDouble) /\
            (forall j n, hfind (heap_of s) j = Some n -> cb n <> Some lib_reg -> hfind (heap_of s') j = Some n) /\
            (ret = 0 \/ ret = 1)).
  { intros r E R. inversion E; subst. split; [simpl; tauto|]. split; auto. }
  destruct (nkind n); try (apply (SAME 0); auto; fail).
  destruct (styp_eqb t (setter_type w)); [|apply (SAME 0); auto].
  destruct w; try (apply (SAME 1); auto; fail).
  destruct (has_lib_reg n) eqn:LR; [|apply (SAME 1); auto].
  unfold set_ud in H. rewrite F in H. inversion H; subst. clear H.
  unfold has_lib_reg in LR. destruct (cb n) as [t0|] eqn:CB; [|discriminate].
  apply Z.eqb_eq in LR. subst t0.
  split; [|split; [|auto]].
  - intros j u X. simpl in X. destruct X as [X|X]; [inversion X; subst; auto|tauto].
  - intros j m Hj NL. cbn [heap_of]. rewrite hfind_hset. destruct (i =? j) eqn:E; [|auto].
    apply Z.eqb_eq in E. subst j. rewrite F in Hj. inversion Hj; subst. congruence.
Qed.

(* the documented exception is real: set_double on a node made by json_object_new_double_s
   drops the retained text (and calls no callback of the caller: the event carries number -1) *)
Lemma ex_set_double_drops_text :
  exists s1 s2, step init_state ONewDoubleS = ROk s1 1 [] /\
    step s1 (OSetVal 1 SDouble) = ROk s2 1 [EUser 1 lib_reg] /\
    option_map cb (hfind (heap_of s2) 1) = Some None /\
    step s2 (OSetVal 1 SDouble) = ROk s2 1 [] /\ step s2 (OSetVal 1 SInt) = ROk s2 0 [].
Proof. repeat eexists; reflexivity. Qed.
