(* TokDead2.v — a reset parser behaves exactly like a new one (C04), for all inputs. *)
From JC Require Import Base BaseLemmas Value TokModel TokFrame TokStack TokTotal TokReset TokOff TokSim TokChunk TokSim2 TokChunk2 TokChunk3 TokDead.
Local Open Scope Z_scope.

Definition ldres (r1 r2 : loopres) : Prop :=
  match r1, r2 with
  | LOut a x, LOut b y => x = y /\ exists p d s u q, b = dv a p d s u q
  | LFuel, LFuel => True
  | _, _ => False
  end.

Lemma dead_ok_set_off a k p d s u q : dead_ok a p d s u q -> dead_ok (set_off a k) p d s u q.
Proof. intros H; exact H. Qed.
Lemma dv_set_off a k p d s u q : set_off (dv a p d s u q) k = dv (set_off a k) p d s u q.
Proof. reflexivity. Qed.

Section S.
Variable sb : list byte -> Z.

Lemma redo_dv fuel : forall t p d s u q l, wfs (stack t) = true -> dead_ok t p d s u q ->
  match redo sb fuel t l, redo sb fuel (dv t p d s u q) l with
  | Some r1, Some r2 => dres r1 r2
  | None, None => True
  | _, _ => False
  end.
Proof.
  induction fuel as [|f IH]; intros t p d s u q l Hw Hd; [exact I|]. cbn [redo].
  pose proof (step1_dv sb t p d s u q l Hw Hd) as R. pose proof (step1_res sb t l Hw) as W.
  destruct (step1 sb t l) as [a x|a x|a x], (step1 sb (dv t p d s u q) l) as [b y|b y|b y]; cbn [dres] in R; try contradiction.
  - exact R.
  - destruct R as (<- & p' & d' & s' & u' & q' & -> & Hd'). cbn [res_ok] in W. apply IH; [exact (proj1 W)|exact Hd'].
  - exact R.
Qed.

Lemma run_dv bytes : forall t p d s u q l, wfs (stack t) = true -> dead_ok t p d s u q ->
  ldres (run sb bytes t l) (run sb bytes (dv t p d s u q) l).
Proof.
  induction bytes as [|b rest IH]; intros t p d s u q l Hw Hd; cbn [run].
  - cbn. split; [reflexivity|]. exists p, d, s, u, q. reflexivity.
  - change (validate_utf8 (dv t p d s u q)) with (validate_utf8 t).
    destruct (if validate_utf8 t then validate_utf8_step b (nbytes l) else Some (nbytes l)) as [nb|].
    2:{ cbn. split; [reflexivity|]. exists p, d, s, u, q. reflexivity. }
    pose proof (redo_dv REDO_FUEL t p d s u q (mkloc b nb (lobj l) (lnum l)) Hw Hd) as R.
    destruct (redo sb REDO_FUEL t (mkloc b nb (lobj l) (lnum l))) as [r1|] eqn:E1,
             (redo sb REDO_FUEL (dv t p d s u q) (mkloc b nb (lobj l) (lnum l))) as [r2|] eqn:E2; try contradiction; [|exact I].
    destruct r1 as [a x|a x|a x], r2 as [c y|c y|c y]; cbn [dres] in R; try contradiction.
    + destruct R as (<- & p' & d' & s' & u' & q' & -> & Hd').
      change (char_offset (dv a p' d' s' u' q')) with (char_offset a). rewrite dv_set_off.
      destruct (b =? 0).
      * cbn. split; [reflexivity|]. eauto 10.
      * apply IH; [|apply dead_ok_set_off; exact Hd'].
        destruct (redo_total sb REDO_FUEL t (mkloc b nb (lobj l) (lnum l)) Hw) as (r & Hr & Hwr & _).
        { pose proof (mus_bound (stack t)). unfold REDO_FUEL. lia. }
        rewrite E1 in Hr. inversion Hr; subst. exact Hwr.
    + exact I.
    + destruct R as (<- & p' & d' & s' & u' & q' & -> & _). cbn. split; [reflexivity|]. eauto 10.
Qed.

(* one call on toks that differ only in dead fields: same value, same status, same end *)
Theorem parse_ex_dv t p d s u q bytes :
  wfs (stack t) = true -> dead_ok t p d s u q ->
  match parse_ex sb t bytes, parse_ex sb (dv t p d s u q) bytes with
  | PR t1 r1, PR t2 r2 => r1 = r2 /\ err t1 = err t2 /\ char_offset t1 = char_offset t2
  | PRFuel, PRFuel => True
  | _, _ => False
  end.
Proof.
  intros Hw Hd. unfold parse_ex.
  change (set_err (set_off (dv t p d s u q) 0) TE_success) with (dv (set_err (set_off t 0) TE_success) p d s u q).
  pose proof (run_dv bytes (set_err (set_off t 0) TE_success) p d s u q (mkloc 1 0 JNull None) Hw Hd) as R.
  destruct (run sb bytes (set_err (set_off t 0) TE_success) (mkloc 1 0 JNull None)) as [a x|],
           (run sb bytes (dv (set_err (set_off t 0) TE_success) p d s u q) (mkloc 1 0 JNull None)) as [b y|];
    cbn [ldres] in R; try contradiction; [|exact I].
  destruct R as (<- & p' & d' & s' & u' & q' & ->).
  pose proof (finish_call_view a (dv a p' d' s' u' q') x eq_refl eq_refl eq_refl eq_refl eq_refl) as V.
  destruct (finish_call_pr a x) as (t1 & r1 & F1). destruct (finish_call_pr (dv a p' d' s' u' q') x) as (t2 & r2 & F2).
  rewrite F1, F2 in *. cbn [pobs] in V. inversion V; subst.
  apply finish_call_shape in F1. apply finish_call_shape in F2.
  destruct F1 as (_ & O1 & _), F2 as (_ & O2 & _). repeat split; try reflexivity. rewrite O1, O2. reflexivity.
Qed.
End S.

(* C04: reset_is_new *)
Definition new_like (t : tok) : tok :=
  mktok [fresh_level] (max_depth t) [] false 0 0 0 0 (strict t) (allow_trailing t) (validate_utf8 t) (char_offset t) TE_success.

Lemma reset_as_dv t :
  tok_reset t = dv (new_like t) (pb t) (is_double t) (st_pos t) (ucs_char t) (quote_char t).
Proof. reflexivity. Qed.

Theorem reset_is_new sb t bytes :
  match parse_ex sb (new_like t) bytes, parse_ex sb (tok_reset t) bytes with
  | PR t1 r1, PR t2 r2 => r1 = r2 /\ err t1 = err t2 /\ char_offset t1 = char_offset t2
  | PRFuel, PRFuel => True
  | _, _ => False
  end.
Proof.
  rewrite reset_as_dv. apply parse_ex_dv; [reflexivity|].
  unfold dead_ok. repeat split; right; reflexivity.
Qed.

(* new_like t is the tokener json_tokener_new_ex(max_depth t) + set_flags would give *)
Lemma new_like_is_new t : 1 <= max_depth t ->
  exists tn, tok_new (max_depth t) (strict t) (allow_trailing t) (validate_utf8 t) = Some tn /\ new_like t = set_off tn (char_offset t).
Proof.
  intros H. unfold tok_new. destruct (max_depth t <? 1) eqn:E; [lia|]. eexists. split; reflexivity.
Qed.
