(* Properties_C06.v — statements only.  C06: a JSON object behaves as an
   insertion-ordered map under any operation history.

   Model: LhModel.v (linkhash.c + the object functions of json_object.c as written).
   [Inv hash t] is the invariant of DESIGN Appendix A.1 (LhProofs.InvL): slot array of
   [tsize] entries, 0 < tsize <= INT_MAX; the order chain head/next/prev/tail is a
   NULL-terminated doubly linked list over exactly the live slots, without repetition,
   of length [tcount]; live keys pairwise distinct; every live key sits at some offset
   d < tsize from its home slot [hash k mod tsize] with no LH_EMPTY slot at a smaller
   offset.  [abs t] = the (key, value) pairs along the chain from head.
   Every theorem quantifies over the key type, its equality, the value type and the
   HASH FUNCTION: colliding hashes, either string hash and every seed are instances.

   What the theorems assume of the hash is exactly its type, [hash : key -> Z]: the hash of
   a key is a FUNCTION OF THE KEY, i.e. (keys of objects being NUL-terminated byte strings
   compared by strcmp) of its byte sequence - never of the address, alignment or buffer the
   caller's copy of the text happens to live in, and the same for the caller's pointer
   and for the strdup'ed copy that is rehashed on growth.  Nothing else is assumed (no
   distribution, no injectivity).  For the C functions lh_char_hash (lookup3 hashlittle,
   whose read strategy depends on the pointer's alignment) and the perl-like hash this
   assumption is validated on every run: stream H evaluates the table's hash_fn on the
   same bytes at all 8 byte offsets of an 8-aligned base and on a heap duplicate, and in
   stream B every add / replace / get / delete / lookup passes its own copy of the key text
   at a scripted offset, key lengths sweeping 0..40 (every residue modulo lookup3's 12-byte
   block) with pairwise distinct bytes. *)
From JC Require Import Base LhModel LhProofs.
Local Open Scope Z_scope.

(* the C double comparison  count >= size * 0.66  (binary64, emulated bit-exactly by
   LhModel.load_test) is the integer test, for every int size *)
Theorem C06_load_test_exact : forall count size,
  1 <= size <= INT_MAX -> load_test count size = (66 * size <=? 100 * count).
Proof. exact load_test_int. Qed.
Print Assumptions C06_load_test_exact.

(* lh_table_new, every initial size *)
Theorem C06_inv_init : forall (key val : Type) (hash : key -> Z) (al : alloc) (size : Z),
  0 < size <= INT_MAX ->
  match lh_table_new key val al size with
  | IOk t => Inv hash t /\ abs t = [] /\ obj_length t = 0 /\ tsize t = size
  | IFail => al size = false
  | IOut _ => False
  end.
Proof. exact @inv_init. Qed.
Print Assumptions C06_inv_init.

(* json_object_object_get_ex / lh_table_lookup_*: found flag and value are those of the list *)
Theorem C06_lookup_refines : forall (key val : Type) (keq : key -> key -> bool) (hash : key -> Z),
  (forall a b, keq a b = true <-> a = b) ->
  forall (t : table key val) (k : key),
  Inv hash t -> obj_get_ex keq hash t k = a_lookup keq (abs t) k.
Proof. exact @lookup_refines. Qed.
Print Assumptions C06_lookup_refines.

(* json_object_object_length = number of live keys (<= size) *)
Theorem C06_length_refines : forall (key val : Type) (hash : key -> Z) (t : table key val),
  Inv hash t -> obj_length t = zlen (abs t) /\ 0 <= obj_length t <= tsize t.
Proof. exact @length_refines. Qed.
Print Assumptions C06_length_refines.

(* json_object_object_add / _add_ex, all flag combinations, every allocator behaviour:
   a present key is replaced in place (position and key kept), an absent key is appended,
   also across a growth of the table; the probe loop terminates, no nested resize
   happens; a failure leaves the map unchanged and happens only when the key is absent
   and an allocation was refused or the table cannot double below INT_MAX *)
Theorem C06_insert_refines : forall (key val : Type) (keq : key -> key -> bool) (hash : key -> Z),
  (forall a b, keq a b = true <-> a = b) ->
  forall (al : alloc) (fail1 : bool) (t : table key val) (k : key) (v : val) (is_new cst : bool),
  Inv hash t -> (is_new = true -> a_mem keq (abs t) k = false) ->
  match obj_add_ex keq hash al fail1 t k v is_new cst with
  | IOk t' => Inv hash t' /\ abs t' = a_add keq (abs t) k v
  | IFail => a_mem keq (abs t) k = false /\
             (fail1 = true \/ (66 * tsize t <= 100 * tcount t /\ (INT_MAX / 2 < tsize t \/ al (tsize t * 2) = false)))
  | IOut _ => False
  end.
Proof. exact @insert_refines. Qed.
Print Assumptions C06_insert_refines.

(* lh_table_insert_w_hash of an absent key *)
Theorem C06_raw_insert_refines : forall (key val : Type) (keq : key -> key -> bool) (hash : key -> Z),
  (forall a b, keq a b = true <-> a = b) ->
  forall (al : alloc) (t : table key val) (k : key) (v : val) (c : bool),
  Inv hash t -> a_mem keq (abs t) k = false ->
  match lh_table_insert_w_hash hash al t k v c with
  | IOk t' => Inv hash t' /\ abs t' = abs t ++ [(k, v)]
  | IFail => 66 * tsize t <= 100 * tcount t /\ (INT_MAX / 2 < tsize t \/ al (tsize t * 2) = false)
  | IOut _ => False
  end.
Proof. exact @raw_insert_refines. Qed.
Print Assumptions C06_raw_insert_refines.

(* lh_table_delete / json_object_object_del: tombstone + unlink; returns 0 exactly for a
   present key; never follows a NULL link *)
Theorem C06_delete_refines : forall (key val : Type) (keq : key -> key -> bool) (hash : key -> Z),
  (forall a b, keq a b = true <-> a = b) ->
  forall (t : table key val) (k : key),
  Inv hash t ->
  match lh_table_delete keq hash t k with
  | DOk t' => a_mem keq (abs t) k = true /\ Inv hash t' /\ abs t' = a_del keq (abs t) k
  | DNone => a_mem keq (abs t) k = false /\ a_del keq (abs t) k = abs t
  | DUB => False
  end.
Proof. exact @delete_refines. Qed.
Print Assumptions C06_delete_refines.

(* every traversal (foreach macros, iterator API, serializer, visitor: head, next, ...):
   terminates at NULL within any fuel >= count, visits exactly the live slots, each once;
   the keys are pairwise distinct; the pairs are exactly the live (key, value) pairs; the
   prev chain from tail is the mirror image *)
Theorem C06_iteration_order : forall (key val : Type) (hash : key -> Z) (t : table key val),
  Inv hash t ->
  obj_iter t = abs t /\
  NoDup (lh_walk t) /\
  (forall n, In n (lh_walk t) <-> is_live (slots t) n) /\
  (forall fuel, (length (lh_walk t) <= fuel)%nat -> walk fuel (slots t) (thead t) = lh_walk t) /\
  lh_walk_back t = rev (lh_walk t) /\
  NoDup (map fst (abs t)) /\
  (forall k v, In (k, v) (abs t) <-> exists n c, st (sget (slots t) n) = Live k v c) /\
  zlen (lh_walk t) = obj_length t.
Proof. exact @iteration_order. Qed.
Print Assumptions C06_iteration_order.

(* lh_table_resize to any size that cannot make the refill grow again (in particular the
   doubling of lh_table_insert_w_hash, and shrinking rehashes): same pairs, same order *)
Theorem C06_resize_preserves : forall (key val : Type) (hash : key -> Z)
  (al : alloc) (t : table key val) (new_size : Z),
  Inv hash t -> 0 < new_size <= INT_MAX ->
  (100 * (tcount t - 1) < 66 * new_size \/ new_size = INT_MAX) ->
  match lh_table_resize hash al t new_size with
  | IOk t' => Inv hash t' /\ abs t' = abs t /\ tsize t' = new_size /\ obj_length t' = obj_length t
  | IFail => al new_size = false \/ new_size = INT_MAX
  | IOut _ => False
  end.
Proof. exact @resize_preserves. Qed.
Print Assumptions C06_resize_preserves.

(* lh_foreach_safe + lh_table_delete_entry, and json_object_object_foreach +
   json_object_object_del of the current key: the walk (next link fetched before the
   body) sees every entry of the original map once, in order; afterwards exactly the
   entries not selected remain, in order *)
Theorem C06_foreach_delete_current : forall (key val : Type) (keq : key -> key -> bool) (hash : key -> Z),
  (forall a b, keq a b = true <-> a = b) ->
  forall (bykey : bool) (p : key -> bool) (t : table key val),
  Inv hash t ->
  exists t', obj_foreach_del keq hash bykey p t = Some (abs t, t') /\ Inv hash t' /\
             abs t' = a_filter_out p (abs t).
Proof. exact @foreach_delete_current. Qed.
Print Assumptions C06_foreach_delete_current.

(* one operation of a history *)
Theorem C06_step_refines : forall (key val : Type) (keq : key -> key -> bool) (hash : key -> Z),
  (forall a b, keq a b = true <-> a = b) ->
  forall (al : alloc) (t : table key val) (o : op key val),
  Inv hash t -> op_pre keq (abs t) o ->
  exists t' b, obj_step keq hash al t o = Some (t', b) /\ Inv hash t' /\
               abs t' = spec_step keq (abs t) o b.
Proof. exact @step_refines. Qed.
Print Assumptions C06_step_refines.

(* refused operations are refused in every state and change nothing: add(obj, k, obj) for a
   present or absent key, every flag word, every fill level (also when the next insertion
   would grow the table: nothing is allocated); deleting an absent key; lookups.  The
   table returned is the very same table. *)
Theorem C06_refused_unchanged : forall (key val : Type) (keq : key -> key -> bool) (hash : key -> Z),
  (forall a b, keq a b = true <-> a = b) ->
  forall (al : alloc) (t : table key val) (o : op key val),
  Inv hash t -> refused keq (abs t) o ->
  exists b, obj_step keq hash al t o = Some (t, b) /\
            match o with OAddSelf _ _ _ => b = false | _ => True end.
Proof. exact @refused_unchanged. Qed.
Print Assumptions C06_refused_unchanged.

(* all operation sequences *)
Theorem C06_history_refines : forall (key val : Type) (keq : key -> key -> bool) (hash : key -> Z),
  (forall a b, keq a b = true <-> a = b) ->
  forall (al : alloc) (ops : list (op key val)) (t : table key val),
  Inv hash t -> adm_run keq hash al t ops ->
  exists q oks, obj_run keq hash al t ops = Some (q, oks) /\ Inv hash q /\
                abs q = spec_run keq (abs t) ops oks /\ length oks = length ops.
Proof. exact @run_refines. Qed.
Print Assumptions C06_history_refines.

(* all initial sizes, all histories, all hash functions: lookup, length and iteration of
   the object are those of the insertion-ordered association list *)
Theorem C06_history_from_new : forall (key val : Type) (keq : key -> key -> bool) (hash : key -> Z),
  (forall a b, keq a b = true <-> a = b) ->
  forall (al : alloc) (size : Z) (ops : list (op key val)),
  0 < size <= INT_MAX -> adm_run keq hash al (table_new key val size) ops ->
  exists q oks, obj_run keq hash al (table_new key val size) ops = Some (q, oks) /\ Inv hash q /\
    let m := spec_run keq [] ops oks in
    abs q = m /\ obj_iter q = m /\ obj_length q = zlen m /\
    (forall k, obj_get_ex keq hash q k = a_lookup keq m k) /\
    NoDup (map fst m) /\ lh_walk_back q = rev (lh_walk q).
Proof. exact @history_from_new. Qed.
Print Assumptions C06_history_from_new.

(* several live objects and json_global_set_string_hash between any two operations:
   every object keeps the hash function it was created with (WInv: each table satisfies
   the invariant for hashes (o_sel ob)), so each object is the association list of its
   own operations and the selection is invisible; for every family of hash functions *)
Theorem C06_world_step_refines : forall (key val : Type) (keq : key -> key -> bool) (hashes : Z -> key -> Z),
  (forall a b, keq a b = true <-> a = b) ->
  forall (al : alloc) (w : world key val) (g : gop key val),
  WInv hashes w -> gop_pre keq w g ->
  exists w' b, gstep keq hashes al w g = Some (w', b) /\ WInv hashes w' /\
               world_abs w' = gspec_step keq (world_abs w) g b.
Proof. exact @gstep_refines. Qed.
Print Assumptions C06_world_step_refines.

Theorem C06_world_history_refines : forall (key val : Type) (keq : key -> key -> bool) (hashes : Z -> key -> Z),
  (forall a b, keq a b = true <-> a = b) ->
  forall (al : alloc) (gs : list (gop key val)) (w : world key val),
  WInv hashes w -> gadm_run keq hashes al w gs ->
  exists w' oks, grun keq hashes al w gs = Some (w', oks) /\ WInv hashes w' /\
                 world_abs w' = gspec_run keq (world_abs w) gs oks /\ length oks = length gs.
Proof. exact @grun_refines. Qed.
Print Assumptions C06_world_history_refines.

Theorem C06_world_nonvacuous :
  let hs := fun s k => if s =? 0 then k else 3 * k + 1 in
  exists w oks, grun Z.eqb hs (fun _ => true) (world0 Z Z) ex_gops = Some (w, oks) /\
    world_abs w = [[(1, 11); (3, 30)]; [(2, 7); (1, 6)]] /\ map o_sel (objs w) = [0; 1] /\ g_sel w = 0 /\
    oks = [true; true; true; true; true; true; true; false; true; true; true; true; true] /\
    gspec_run Z.eqb [] ex_gops oks = [[(1, 11); (3, 30)]; [(2, 7); (1, 6)]].
Proof. exact ex_world. Qed.
Print Assumptions C06_world_nonvacuous.

(* non-vacuity: a colliding-hash history from size 1 with growth, a refused growth, a
   refused key copy, replace, delete, delete-while-iterating *)
Theorem C06_nonvacuous :
  exists q oks, obj_run Z.eqb (fun _ => 7) (fun n => n <=? 4) (table_new Z Z 1) ex_ops = Some (q, oks) /\
    obj_iter q = [(2, 21); (1, 11); (4, 40)] /\ obj_length q = 3 /\ tsize q = 4 /\
    oks = [true; true; true; true; true; true; true; true; false; true; false] /\
    spec_run Z.eqb [] ex_ops oks = [(2, 21); (1, 11); (4, 40)].
Proof. exact ex_history. Qed.
Print Assumptions C06_nonvacuous.
