(* Properties_C11.v — statements only.  C11: a string node holds a length-counted byte
   sequence (embedded NUL and bytes >= 0x80 included) through any history of set_string /
   set_string_len calls; a failed set changes nothing; no buffer is leaked or used after
   release across inline <-> separate transitions; equality, copy and serialisation use all
   the bytes.
   Reading aid:  [InvC s bs]  = "the node s is well formed and holds exactly the bytes bs"
   (StrProofs.v);  [reach al s0 s] = "s is reached from s0 by some history of well-formed
   set operations under the allocator behaviour al";  a set operation takes its bytes either
   from memory outside the node (OpSetLen, OpSet) or from the node's own current buffer,
   json_object_get_string(o) + off (OpSetOwnLen, OpSetOwn: in-place truncation, suffix,
   substring, the contents with their terminator; the ranges may overlap);
   [op_wf c o] is the caller contract relative to the contents c at the call;  every result type has an explicit
   undefined-behaviour constructor (SUB / NUB / DUB), so "never undefined" is part of each
   statement. *)
From JC Require Import Base StrModel StrProofs.
Local Open Scope Z_scope.

(* creation by json_object_new_string_len: the node holds the first len bytes, inline *)
Theorem C11_new_len_holds : forall al src len,
  INT_MIN <= len <= INT_MAX -> (0 <= len -> len <= zlen src) ->
  match new_string_len al src len with
  | NOk s => InvC s (zfirstn len src) /\ 0 <= len /\ ilen0 s = len /\ slen s = len /\
             elog s = [EvMalloc 0 (objsize_of len)]
  | NNull _ => len < 0 \/ al 0 (objsize_of len) = false
  | NUB => False
  end.
Proof. exact new_len_spec. Qed.
Print Assumptions C11_new_len_holds.

(* creation by json_object_new_string: the bytes before the first NUL of the source *)
Theorem C11_new_str_holds : forall al src,
  In 0 src -> zlen (cstr src) <= SSIZE_T_MAX - HDR - 1 ->
  match new_string al src with
  | NOk s => InvC s (cstr src) /\ ilen0 s = zlen (cstr src) /\ ~ In 0 (cstr src)
  | NNull _ => al 0 (objsize_of (zlen (cstr src))) = false
  | NUB => False
  end.
Proof. exact new_str_spec. Qed.
Print Assumptions C11_new_str_holds.

(* what any reader sees of a node that holds bs: exactly bs, its count, a NUL after it that
   lies inside the (live) buffer read *)
Theorem C11_view : forall s bs, InvC s bs ->
  get_string s = Some (map Some bs) /\ slen_abs s = zlen bs /\ get_nul s = Some (Some 0) /\
  (zlen bs <= INT_MAX -> get_string_len s = zlen bs).
Proof. exact inv_view. Qed.
Print Assumptions C11_view.

(* one set operation, under every allocator behaviour: either it returns 1 and the node holds
   exactly the requested bytes, all writes inside live blocks of sufficient size, the inline
   capacity unchanged; or it returns 0, for a stated reason, and nothing changed; never UB *)
Theorem C11_step : forall al s bs0 o,
  InvC s bs0 -> op_wf bs0 o -> step_post al s bs0 o (str_step al s o).
Proof. exact step_spec. Qed.
Print Assumptions C11_step.

(* for all histories of set_string(_len), shorter, equal or longer, zero length included:
   bytes = those of the last successful set, length = their count, NUL follows in the buffer *)
Theorem C11_get_after_sets : forall al ops s bs0,
  InvC s bs0 -> zlen bs0 <= INT_MAX -> hist_ok al s ops ->
  exists s' rets, str_run al s ops = Some (s', rets) /\
    let bs := spec_run bs0 ops rets in
    get_string s' = Some (map Some bs) /\ get_string_len s' = zlen bs /\
    get_nul s' = Some (Some 0) /\ InvC s' bs.
Proof. exact get_after_sets. Qed.
Print Assumptions C11_get_after_sets.

(* histories whose sources all lie outside the node need no state-dependent contract *)
Theorem C11_ext_hist_ok : forall al ops s, Inv s -> Forall ext_wf ops -> hist_ok al s ops.
Proof. exact ext_hist_ok. Qed.
Print Assumptions C11_ext_hist_ok.

(* truncation in place, json_object_set_string_len(o, json_object_get_string(o), n), n <= the
   current length, in inline or separate storage, zero included: succeeds under every
   allocator behaviour without an allocation request, keeps exactly the first n bytes, never
   reads released storage (the copy precedes any release, and the zero-length branch, which
   releases first, copies nothing) *)
Theorem C11_truncate_in_place : forall al s bs0 n,
  InvC s bs0 -> 0 <= n <= zlen bs0 -> n < INT_MAX - 1 ->
  exists s' ws, str_step al s (OpSetOwnLen 0 n) = SOk s' 1 ws /\ InvC s' (zfirstn n bs0) /\
                reqs s' = reqs s /\ Forall (wr_ok (hp s')) ws.
Proof. exact truncate_in_place. Qed.
Print Assumptions C11_truncate_in_place.

(* a failed set (allocation failure or refused length) leaves contents, length, storage and
   the malloc/free log unchanged *)
Theorem C11_failed_set_keeps : forall al s bs0 o s' ws,
  InvC s bs0 -> op_wf bs0 o -> str_step al s o = SOk s' 0 ws ->
  ws = [] /\ same_store s s' /\ InvC s' bs0 /\
  get_string s' = get_string s /\ slen_abs s' = slen_abs s /\ is_sep s' = is_sep s /\
  (op_len bs0 o < 0 \/ INT_MAX - 1 <= op_len bs0 o \/
   (al (reqs s) (op_len bs0 o + 1) = false /\ slen_abs s < op_len bs0 o)).
Proof. exact failed_set_keeps. Qed.
Print Assumptions C11_failed_set_keeps.

(* failures are never spurious *)
Theorem C11_good_set_succeeds : forall s bs0 o,
  InvC s bs0 -> op_wf bs0 o -> 0 <= op_len bs0 o < INT_MAX - 1 ->
  exists s' ws, str_step (fun _ _ => true) s o = SOk s' 1 ws.
Proof. exact good_set_succeeds. Qed.
Print Assumptions C11_good_set_succeeds.

(* in every state reachable by any history: the malloc/free log is well formed (no double or
   foreign free), the live blocks are the object plus — iff len < 0 — the buffer pdata points
   to, the heap agrees with the log; the next set never reaches UB (no access to a freed,
   indeterminate or too small buffer) and each of its writes fits a live block *)
Theorem C11_no_leak_no_uaf : forall al s0 s o,
  Inv s0 -> reach al s0 s -> op_wf (contents s) o ->
  Safe s /\
  match str_step al s o with
  | SOk s' r ws => Forall (wr_ok (hp s')) ws /\ Safe s' /\ (r = 0 \/ r = 1)
  | SUB => False
  end.
Proof. exact no_leak_no_uaf. Qed.
Print Assumptions C11_no_leak_no_uaf.

(* ... and delete releases everything, whatever the history was *)
Theorem C11_life_no_leak : forall al s0 s, Inv s0 -> reach al s0 s ->
  exists s', str_delete s = DOk s' /\ live_of_log (elog s') = [] /\ log_ok (elog s') = true /\
             (forall j b, znth (hp s') j = Some b -> blive b = false).
Proof. exact life_no_leak. Qed.
Print Assumptions C11_life_no_leak.

(* equality, copy and serialisation read exactly the length-counted bytes; the escaping is
   injective on byte strings, so bytes after an embedded NUL always matter *)
Theorem C11_equal_copy_ser_use_all_bytes : forall al ns s1 b1 s2 b2,
  InvC s1 b1 -> InvC s2 b2 -> zlen b1 <= INT_MAX ->
  (exists r, str_equal s1 s2 = Some r /\ (r = true <-> b1 = b2)) /\
  match str_copy al s1 with
  | NOk c => InvC c b1 /\ elog c = [EvMalloc 0 (objsize_of (zlen b1))]
  | NNull _ => al 0 (objsize_of (zlen b1)) = false
  | NUB => False
  end /\
  str_ser ns s1 = Some (34 :: escape ns b1 ++ [34]) /\
  (is_bytes b1 -> is_bytes b2 -> str_ser ns s1 = str_ser ns s2 -> b1 = b2).
Proof. exact equal_copy_ser_use_all_bytes. Qed.
Print Assumptions C11_equal_copy_ser_use_all_bytes.

(* the guard zlen bs <= INT_MAX above is necessary: the accessor's return type is int *)
Theorem C11_len_int_guard : forall s, slen s = 2147483648 -> get_string_len s = -2147483648.
Proof. exact get_len_wraps. Qed.
Print Assumptions C11_len_int_guard.

(* non-vacuity: a concrete history through inline -> shorter inline -> strlen of the own buffer
   -> separate -> truncation in place -> substring of the own buffer -> allocation failure ->
   regrow -> in-place truncation to zero (inline) -> refused -> separate, then delete *)
Theorem C11_nonvacuous :
  match new_string_len (fun _ _ => true) [104; 101; 108; 108; 111] 5 with
  | NOk s0 =>
      hist_ok ex_al s0 ex_ops /\
      match str_run ex_al s0 ex_ops with
      | Some (s, rets) =>
          rets = [1; 1; 1; 1; 1; 0; 1; 1; 0; 1] /\
          get_string s = Some [Some 0; Some 200] /\ get_string_len s = 2 /\ get_nul s = Some (Some 0) /\
          is_sep s = true /\ live_of_log (elog s) = [3; 0] /\
          str_ser false s = Some [34; 92; 117; 48; 48; 48; 48; 200; 34] /\
          match str_delete s with
          | DOk s' => elog s' = [EvFree 0; EvFree 3; EvMalloc 3 3; EvFree 2; EvFree 1; EvMalloc 2 5;
                                 EvMalloc 1 13; EvMalloc 0 57]
          | DUB => False
          end
      | None => False
      end /\
      match str_run ex_al s0 (firstn 5 ex_ops) with
      | Some (s, _) => get_string s = Some [Some 103; Some 104; Some 105]
      | None => False
      end
  | _ => False
  end.
Proof. exact history_nontrivial. Qed.
Print Assumptions C11_nonvacuous.

Theorem C11_equal_uses_bytes_after_nul :
  match new_string_len (fun _ _ => true) [97; 0; 98] 3, new_string_len (fun _ _ => true) [97; 0; 99] 3,
        new_string_len (fun _ _ => true) [97] 1 with
  | NOk a, NOk b, NOk c =>
      str_equal a b = Some false /\ str_equal a a = Some true /\ str_equal a c = Some false /\
      str_ser false a <> str_ser false b
  | _, _, _ => False
  end.
Proof. exact equal_uses_bytes_after_nul. Qed.
Print Assumptions C11_equal_uses_bytes_after_nul.

(* the model is able to express what the theorems exclude *)
Theorem C11_model_detects_uaf_and_double_free :
  match new_string_len (fun _ _ => true) [1; 2; 3] 3 with
  | NOk s0 =>
      match set_string_len (fun _ _ => true) s0 (PExt [1; 2; 3; 4; 5]) 5 with
      | SOk s1 _ _ =>
          match pptr s1 with
          | Some p =>
              match hfree (hp s1) p with
              | Some h' =>
                  let bad := mkst (slen s1) (ilen0 s1) (pptr s1) h' (reqs s1) (EvFree p :: elog s1) in
                  get_string bad = None /\ str_delete bad = DUB /\
                  set_string_len (fun _ _ => true) bad (PExt [9]) 1 = SUB /\
                  log_ok (EvFree p :: EvFree p :: elog s1) = false
              | None => False
              end
          | None => False
          end
      | SUB => False
      end
  | _ => False
  end.
Proof. exact model_detects_uaf_and_double_free. Qed.
Print Assumptions C11_model_detects_uaf_and_double_free.

(* "copy, then release": with the release first, a source inside the node's own buffer is read
   after its release (UB in the model); an overlapping source is defined (memmove), and so is
   one that makes the string grow (contents plus terminator) *)
Theorem C11_copy_before_free_matters :
  match new_string_len (fun _ _ => true) [1; 2; 3] 3 with
  | NOk s0 =>
      match set_string_len (fun _ _ => true) s0 (PExt [65; 66; 67; 68; 69; 70; 71; 72; 73; 74]) 10 with
      | SOk s1 _ _ =>
          match pptr s1 with
          | Some p =>
              (match str_step (fun _ _ => true) s1 (OpSetOwnLen 0 5) with
               | SOk s2 r _ => r = 1 /\ get_string s2 = Some (map Some [65; 66; 67; 68; 69]) /\ is_sep s2 = true
               | SUB => False
               end) /\
              (match hfree (hp s1) p with
               | Some h' =>
                   set_finish (mkst 0 (ilen0 s1) (pptr s1) h' (reqs s1) (EvFree p :: elog s1))
                              0 (PHeap p 0) 5 5 = SUB
               | None => False
               end) /\
              (* overlapping source, json_object_set_string_len(o, json_object_get_string(o) + 1, 5):
                 defined, the bytes are those before the call *)
              (match str_step (fun _ _ => true) s1 (OpSetOwnLen 1 5) with
               | SOk s2 r _ => r = 1 /\ get_string s2 = Some (map Some [66; 67; 68; 69; 70])
               | SUB => False
               end) /\
              (* the contents together with their terminator: the grow branch, whose copy
                 precedes the release of the buffer the source points into *)
              (match str_step (fun _ _ => true) s1 (OpSetOwnLen 0 11) with
               | SOk s2 r _ => r = 1 /\ get_string_len s2 = 11 /\ live_of_log (elog s2) = [2; 0] /\
                               get_string s2 = Some (map Some [65; 66; 67; 68; 69; 70; 71; 72; 73; 74; 0])
               | SUB => False
               end)
          | None => False
          end
      | SUB => False
      end
  | _ => False
  end.
Proof. exact copy_before_free_matters. Qed.
Print Assumptions C11_copy_before_free_matters.
