(* LocaleProofs.v — proofs for property C14 over LocaleModel.v and the GENERATED LocaleExits.v. *)
From JC Require Import Base LocaleModel LocaleExits.
Local Open Scope Z_scope.

(* ===================================================================== Part 1: serializer *)

Definition lacks (c : byte) (l : list byte) : bool := forallb (fun b => negb (b =? c)) l.

Lemma strchr_none : forall c l, lacks c l = true -> strchr c l = None.
Proof.
  induction l as [|b t IH]; simpl; intros H; auto.
  apply andb_prop in H. destruct H as [Hb Ht].
  destruct (b =? c); simpl in Hb; try discriminate.
  rewrite (IH Ht). reflexivity.
Qed.

Lemma strchr_hit : forall c pre rest, lacks c pre = true -> strchr c (pre ++ c :: rest) = Some (length pre).
Proof.
  induction pre as [|b t IH]; simpl; intros rest H.
  - rewrite Z.eqb_refl. reflexivity.
  - apply andb_prop in H. destruct H as [Hb Ht].
    destruct (b =? c); simpl in Hb; try discriminate.
    rewrite (IH rest Ht). reflexivity.
Qed.

Lemma set_nth_app : forall pre x c rest, set_nth (length pre) c (pre ++ x :: rest) = pre ++ c :: rest.
Proof. induction pre as [|b t IH]; simpl; intros; auto. rewrite IH. reflexivity. Qed.

Lemma lacks_app : forall c a b, lacks c (a ++ b) = lacks c a && lacks c b.
Proof. intros. unfold lacks. apply forallb_app. Qed.

Lemma digits_lack : forall c l, (c <? 48) || (57 <? c) = true -> forallb is_digit l = true -> lacks c l = true.
Proof.
  induction l as [|b t IH]; simpl; intros Hc H; auto.
  apply andb_prop in H. destruct H as [Hb Ht].
  rewrite (IH Hc Ht), andb_true_r.
  unfold is_digit in Hb. destruct (b =? c) eqn:E; auto. simpl.
  apply Z.eqb_eq in E. subst. lia.
Qed.

Lemma exp_lacks : forall c e, c <> CH_e -> c <> CH_MINUS -> c <> CH_PLUS -> (c <? 48) || (57 <? c) = true ->
  match e with None => true | Some (_, ds) => match ds with [] => false | _ => true end && forallb is_digit ds end = true ->
  lacks c (render_exp e) = true.
Proof.
  intros c [[neg ds]|] Hce Hcm Hcp Hc H; [|reflexivity].
  apply andb_prop in H. destruct H as [_ Hd].
  change (lacks c (render_exp (Some (neg, ds))))
    with (negb (CH_e =? c) && (negb ((if neg then CH_MINUS else CH_PLUS) =? c) && lacks c ds)).
  rewrite (digits_lack c ds Hc Hd), andb_true_r.
  destruct (Z.eqb_spec CH_e c); [congruence|].
  destruct neg; [destruct (Z.eqb_spec CH_MINUS c)|destruct (Z.eqb_spec CH_PLUS c)]; try congruence; reflexivity.
Qed.

Definition g_pre (g : g17) : list byte := (if g_neg g then [CH_MINUS] else []) ++ g_int g.

Lemma render_split : forall sep g f fs, g_frac g = f :: fs ->
  render_with sep g = g_pre g ++ sep :: (g_frac g ++ render_exp (g_exp g)).
Proof. intros sep g f fs H. unfold render_with, g_pre. rewrite H. rewrite <- app_assoc. reflexivity. Qed.

Lemma render_nofrac : forall sep g, g_frac g = [] -> render_with sep g = g_pre g ++ render_exp (g_exp g).
Proof. intros sep g H. unfold render_with, g_pre. rewrite H. simpl. rewrite <- app_assoc. reflexivity. Qed.

Lemma wf_parts : forall g, g17_wf g = true ->
  forallb is_digit (g_int g) = true /\ forallb is_digit (g_frac g) = true /\
  match g_exp g with None => true | Some (_, ds) => match ds with [] => false | _ => true end && forallb is_digit ds end = true.
Proof.
  intros g H. unfold g17_wf in H.
  apply andb_prop in H. destruct H as [H H3]. apply andb_prop in H. destruct H as [H H2].
  apply andb_prop in H. destruct H as [_ H1]. auto.
Qed.

Lemma pre_lacks : forall c g, c <> CH_MINUS -> (c <? 48) || (57 <? c) = true -> forallb is_digit (g_int g) = true -> lacks c (g_pre g) = true.
Proof.
  intros c g Hm Hc Hd. unfold g_pre. rewrite lacks_app, (digits_lack c _ Hc Hd), andb_true_r.
  destruct (g_neg g); [|reflexivity].
  change (lacks c [CH_MINUS]) with (negb (CH_MINUS =? c) && true).
  destruct (Z.eqb_spec CH_MINUS c); [congruence|reflexivity].
Qed.

(* the ','->'.' fix-up maps the comma-locale text onto the C-locale text, and leaves `p`
   pointing at the same place in both *)
Theorem comma_fix_render : forall g sep, g17_wf g = true -> (sep = CH_COMMA \/ sep = CH_DOT) ->
  comma_fix (render_with sep g) = comma_fix (render_with CH_DOT g) /\
  fst (comma_fix (render_with sep g)) = render_with CH_DOT g.
Proof.
  intros g sep Hwf Hsep. destruct (wf_parts g Hwf) as (Hi & Hf & He).
  assert (Hpc : lacks CH_COMMA (g_pre g) = true) by (apply pre_lacks; auto; unfold CH_COMMA, CH_MINUS; lia).
  assert (Hpd : lacks CH_DOT (g_pre g) = true) by (apply pre_lacks; auto; unfold CH_DOT, CH_MINUS; lia).
  assert (Hec : lacks CH_COMMA (render_exp (g_exp g)) = true)
    by (apply exp_lacks; auto; unfold CH_COMMA, CH_e, CH_MINUS, CH_PLUS; lia).
  destruct (g_frac g) as [|f fs] eqn:Hfr.
  - (* no separator printed: the text does not depend on sep at all, and holds no comma *)
    rewrite (render_nofrac sep g Hfr), (render_nofrac CH_DOT g Hfr). split; auto.
    unfold comma_fix. rewrite (strchr_none CH_COMMA); [reflexivity|].
    rewrite lacks_app, Hpc, Hec. reflexivity.
  - rewrite (render_split sep g f fs Hfr), (render_split CH_DOT g f fs Hfr).
    assert (Hrest : lacks CH_COMMA (g_frac g ++ render_exp (g_exp g)) = true).
    { rewrite lacks_app, Hec, andb_true_r. apply digits_lack; [unfold CH_COMMA; lia|]. rewrite Hfr. exact Hf. }
    assert (Hdot : comma_fix (g_pre g ++ CH_DOT :: g_frac g ++ render_exp (g_exp g)) =
                   (g_pre g ++ CH_DOT :: g_frac g ++ render_exp (g_exp g), Some (length (g_pre g)))).
    { unfold comma_fix. rewrite (strchr_none CH_COMMA).
      - rewrite (strchr_hit CH_DOT _ _ Hpd). reflexivity.
      - rewrite lacks_app, Hpc. simpl. exact Hrest. }
    destruct Hsep as [-> | ->].
    + assert (Hcom : comma_fix (g_pre g ++ CH_COMMA :: g_frac g ++ render_exp (g_exp g)) =
                     (g_pre g ++ CH_DOT :: g_frac g ++ render_exp (g_exp g), Some (length (g_pre g)))).
      { unfold comma_fix. rewrite (strchr_hit CH_COMMA _ _ Hpc). rewrite set_nth_app. reflexivity. }
      rewrite Hcom, Hdot. split; reflexivity.
    + rewrite Hdot. split; reflexivity.
Qed.

Corollary fixup_render : forall g sep, g17_wf g = true -> (sep = CH_COMMA \/ sep = CH_DOT) ->
  fst (comma_fix (render_with sep g)) = render_with CH_DOT g.
Proof. intros. apply comma_fix_render; auto. Qed.

Theorem double_text_sep_indep : forall g sep nz, g17_wf g = true -> (sep = CH_COMMA \/ sep = CH_DOT) ->
  double_text nz (render_with sep g) = double_text nz (render_with CH_DOT g).
Proof.
  intros g sep nz Hwf Hsep. unfold double_text, double_text_fmt.
  destruct (comma_fix_render g sep Hwf Hsep) as [-> _]. reflexivity.
Qed.

(* ---- any format.  What matters is only the shape of what snprintf wrote: one separator
   between a prefix free of ',' and '.', and a suffix free of ','. *)
Theorem comma_fix_general : forall pre post sep,
  lacks CH_COMMA pre = true -> lacks CH_DOT pre = true -> lacks CH_COMMA post = true ->
  (sep = CH_COMMA \/ sep = CH_DOT) ->
  comma_fix (pre ++ sep :: post) = (pre ++ CH_DOT :: post, Some (length pre)).
Proof.
  intros pre post sep Hc Hd Hp [-> | ->]; unfold comma_fix.
  - rewrite (strchr_hit CH_COMMA _ _ Hc), set_nth_app. reflexivity.
  - rewrite (strchr_none CH_COMMA).
    + rewrite (strchr_hit CH_DOT _ _ Hd). reflexivity.
    + rewrite lacks_app, Hc. simpl. exact Hp.
Qed.

(* HYPOTHESIS on the oracle `txt` (what snprintf(buf, 128, format, d) writes under each numeric
   locale, for one format and one double): either the two texts are pre ++ sep :: post with the
   locale's separator as the only difference, pre free of ',' and '.', post free of ',' — the
   output of ONE floating conversion (%f %e %g with flags/width/precision) inside literal text
   that has no ',' and no '.' before the number and no ',' after it — or they do not depend on the
   locale at all (nothing after the point was printed: %.0f, integral %g). *)
Definition one_conversion (txt : numloc -> list byte) : Prop :=
  (exists pre post, lacks CH_COMMA pre = true /\ lacks CH_DOT pre = true /\ lacks CH_COMMA post = true /\
                    forall l, txt l = pre ++ sep_of l :: post)
  \/ (forall l, txt l = txt NumC).

Theorem ser_fmt_locale_indep : forall (txt : numloc -> list byte) fmt c nz,
  one_conversion txt ->
  forall l, ser_double_fmt fmt c nz (txt l) = ser_double_fmt fmt c nz (txt NumC).
Proof.
  intros txt fmt c nz H l. destruct c as [|neg|]; try reflexivity. simpl.
  destruct H as [(pre & post & Hc & Hd & Hp & Ht) | Hsame].
  - rewrite (Ht l), (Ht NumC). unfold double_text_fmt.
    rewrite (comma_fix_general pre post (sep_of l) Hc Hd Hp) by (destruct l; simpl; auto).
    rewrite (comma_fix_general pre post (sep_of NumC) Hc Hd Hp) by (simpl; auto).
    reflexivity.
  - rewrite (Hsame l). reflexivity.
Qed.

(* non-vacuity: "%.3f" of 1.5 and of 12345.5, "%10.2f", "%.0f" (no ".0" appended: format has ".0f"), "%e" *)
Definition txt_of (pre post : list byte) (l : numloc) : list byte := pre ++ sep_of l :: post.
Example ser_fmt_examples :
  one_conversion (txt_of [49] [53; 48; 48]) /\
  ser_double_fmt (Some [37; 46; 51; 102]) DFin false (txt_of [49] [53; 48; 48] NumComma) = [49; 46; 53; 48; 48] /\
  ser_double_fmt (Some [37; 46; 51; 102]) DFin true (txt_of [49] [53; 48; 48] NumComma) = [49; 46; 53] /\
  ser_double_fmt (Some [37; 49; 48; 46; 50; 102]) DFin false (txt_of [32; 32; 32; 49] [53; 48] NumComma) = [32; 32; 32; 49; 46; 53; 48] /\
  ser_double_fmt (Some [37; 46; 48; 102]) DFin false [50] = [50] /\
  ser_double_fmt (Some [37; 103]) DFin false [50] = [50; 46; 48] /\
  format_drops_decimals (Some [37; 46; 48; 102]) = false /\ format_drops_decimals (Some [37; 46; 51; 102]) = true /\
  format_drops_decimals None = true.
Proof.
  split.
  - left. exists [49], [53; 48; 48]. repeat split; reflexivity.
  - vm_compute. repeat split; reflexivity.
Qed.

(* the limit, as the code is written: with a custom format that has a literal comma of its own
   before the number ("x,%.2f") the fix-up replaces that FIRST comma in every locale, so the decimal
   comma of the comma locale survives: the text depends on the locale.  Such a format is outside
   `one_conversion` (and does not print a JSON number in any locale). *)
Example ser_fmt_literal_comma_dependent :
  let txt := fun l => [120; 44; 49] ++ sep_of l :: [53; 48] in
  ser_double_fmt (Some [120; 44; 37; 46; 50; 102]) DFin false (txt NumC) = [120; 46; 49; 46; 53; 48] /\
  ser_double_fmt (Some [120; 44; 37; 46; 50; 102]) DFin false (txt NumComma) = [120; 46; 49; 44; 53; 48].
Proof. vm_compute. split; reflexivity. Qed.

Section SnprintfOracle.
  (* the libc oracle: bits of a finite double |-> shape of its "%.17g" text; and what snprintf
     writes under a numeric locale.  HYPOTHESIS on the oracle: under the comma locale the text
     differs from the C-locale text only in the separator byte (no grouping: %g without the
     apostrophe flag never groups; the separator is the single byte ','). *)
  Variable shape : Z -> g17.
  Variable snprintf17 : numloc -> Z -> list byte.
  Hypothesis shape_wf : forall b, g17_wf (shape b) = true.
  Hypothesis snprintf_sep_only : forall l b, snprintf17 l b = render_with (sep_of l) (shape b).

  Theorem ser_locale_indep : forall l c nz b,
    ser_double c nz (snprintf17 l b) = ser_double c nz (snprintf17 NumC b).
  Proof.
    intros l c nz b. destruct c as [|neg|]; try reflexivity.
    simpl. rewrite !snprintf_sep_only.
    apply double_text_sep_indep; auto.
    destruct l; simpl; auto.
  Qed.

  (* and the text is the C-locale rendering pushed through the rest of the function *)
  Theorem ser_is_c_text : forall l nz b,
    ser_double DFin nz (snprintf17 l b) = double_text nz (render_with CH_DOT (shape b)).
  Proof.
    intros. simpl. rewrite snprintf_sep_only. apply double_text_sep_indep; auto. destruct l; simpl; auto.
  Qed.
End SnprintfOracle.

(* non-vacuity: 1.5, 3, 1e+20, -0.25 with NOZERO, under both separators *)
Definition g_1_5 := mk_g17 false [49] [53] None.
Definition g_3 := mk_g17 false [51] [] None.
Definition g_1e20 := mk_g17 false [49] [] (Some (false, [50; 48])).
Definition g_m0_2500 := mk_g17 true [48] [50; 53; 48; 48] None.

Example ser_examples :
  render_with CH_COMMA g_1_5 = [49; 44; 53] /\
  double_text false (render_with CH_COMMA g_1_5) = [49; 46; 53] /\
  double_text false (render_with CH_COMMA g_3) = [51; 46; 48] /\
  double_text false (render_with CH_COMMA g_1e20) = [49; 101; 43; 50; 48] /\
  double_text true (render_with CH_COMMA g_m0_2500) = [45; 48; 46; 50; 53] /\
  g17_wf g_1_5 && g17_wf g_3 && g17_wf g_1e20 && g17_wf g_m0_2500 = true.
Proof. vm_compute. repeat split; reflexivity. Qed.

(* the limit of the fix-up: it knows the comma only.  A locale whose separator is another byte
   (here 0xB7) is NOT covered — outside the quantifier of C14 ({C, comma-decimal}). *)
Example ser_fixup_limited_to_comma :
  double_text false (render_with 183 g_1_5) <> double_text false (render_with CH_DOT g_1_5).
Proof. vm_compute. discriminate. Qed.

(* ---- concurrency: every job's output is ser_spec of that job — whatever locales the threads
   run under, whatever the interleaving, whatever any thread does to the shared lconv cell *)
Definition jobs_one_conversion (sch : list sched_ev) : Prop := Forall (fun j => one_conversion (j_txt j)) (jobs_of sch).

Lemma conc_fold : forall tl sch cell outs,
  jobs_one_conversion sch ->
  snd (fold_left (conc_step tl) sch (cell, outs)) = outs ++ map ser_spec (jobs_of sch).
Proof.
  induction sch as [|e t IH]; intros cell outs H; simpl.
  - rewrite app_nil_r. reflexivity.
  - destruct e as [j|th]; simpl.
    + inversion H as [|? ? Hj Ht]; subst.
      rewrite (IH cell _ Ht). rewrite <- app_assoc. simpl.
      unfold ser_spec at 2. rewrite (ser_fmt_locale_indep (j_txt j) (j_fmt j) (j_class j) (j_nozero j) Hj (tl (j_thread j))).
      reflexivity.
    + apply IH. exact H.
Qed.

Theorem ser_concurrent_indep : forall (tl : nat -> numloc) (cell0 : byte) (sch : list sched_ev),
  jobs_one_conversion sch ->
  conc_run tl cell0 sch = map ser_spec (jobs_of sch).
Proof. intros. unfold conc_run. rewrite conc_fold; auto. Qed.

(* non-vacuity: thread 0 under the comma locale, thread 1 under C, clobbers in between *)
Definition job_1_5 (t : nat) := mk_job t None DFin false (txt_of [49] [53]).
Example ser_concurrent_example :
  let tl := fun t => match t with O => NumComma | _ => NumC end in
  conc_run tl 0 [SClobber 0; SJob (job_1_5 0); SClobber 1; SJob (job_1_5 0); SJob (job_1_5 1); SClobber 0; SJob (job_1_5 1)]
  = [[49; 46; 53]; [49; 46; 53]; [49; 46; 53]; [49; 46; 53]].
Proof. vm_compute. reflexivity. Qed.

(* the contrast, with its witness: a serializer that takes the separator from the shared cell is
   correct as long as the cell holds the caller's own separator (single-threaded use), and wrong
   as soon as another thread's localeconv() got in between: the comma thread then prints "1,5.0"
   and "3,14.0" (its comma survives, and ".0" is appended because no point was found) *)
Example cell_variant_interference :
  double_text_cell CH_COMMA true false [49; 44; 53] = [49; 46; 53] /\
  double_text_cell CH_DOT true false [49; 46; 53] = [49; 46; 53] /\
  double_text_cell CH_DOT true false [49; 44; 53] = [49; 44; 53; 46; 48] /\
  double_text_cell CH_COMMA true false [51; 46; 49; 52] = [51; 46; 49; 52] /\
  double_text_cell CH_DOT true false [51; 44; 49; 52] = [51; 44; 49; 52; 46; 48].
Proof. vm_compute. repeat split; reflexivity. Qed.

(* ===================================================================== Part 2: protocol *)

Lemma handle_eqb_eq : forall a b, handle_eqb a b = true -> a = b.
Proof.
  destruct a, b; simpl; intros H; try discriminate; auto.
  apply Nat.eqb_eq in H. subst. reflexivity.
Qed.

Lemma in_both_locales : forall en, In en both_locales.
Proof. destruct en; simpl; auto. Qed.

Lemma all_runs_spec : forall f p, all_runs f p = true ->
  forall en q, In q (expand p) -> f (run en q) = true.
Proof.
  intros f p H en q Hq. unfold all_runs in H.
  rewrite forallb_forall in H. specialize (H en (in_both_locales en)).
  rewrite forallb_forall in H. auto.
Qed.

(* the translator recognised the shape of the function *)
Theorem shape_ok : shape_recognised = true.
Proof. vm_compute. reflexivity. Qed.

(* no other library function touches the locale: the translator found no call of uselocale /
   setlocale / newlocale / duplocale / freelocale in any library source outside
   json_tokener_parse_ex.  In particular the serializer's locale protocol is the empty path:
   json_object_to_json_string_ext — succeeding or failing — leaves the thread's locale as it was *)
Theorem no_stray_locale_calls : stray_locale_calls = 0%nat.
Proof. vm_compute. reflexivity. Qed.

Theorem empty_path_leaves_locale : forall en,
  cur (run en []) = HEntry /\ cur_forced_c (run en []) = false /\ live (run en []) = [] /\ bad (run en []) = false.
Proof. intros. vm_compute. repeat split; reflexivity. Qed.

(* by computation over the regenerated, finite, complete list *)
Theorem exits_checked : forallb exit_ok exits = true.
Proof. vm_compute. reflexivity. Qed.

(* the booleans printed by the translator agree with the protocol model run on the paths *)
Theorem exits_consistent : forallb exit_consistent exits = true.
Proof. vm_compute. reflexivity. Qed.

Lemma forallb_Forall : forall {A} (f : A -> bool) (P : A -> Prop) l,
  (forall x, f x = true -> P x) -> forallb f l = true -> Forall P l.
Proof.
  intros A f P l HfP H. apply Forall_forall. intros x Hx.
  rewrite forallb_forall in H. auto.
Qed.

Theorem locale_restored_all_exits :
  Forall (fun e => after_switch e = true -> restores e = true /\ frees_created e = true) exits.
Proof.
  apply (forallb_Forall (fun e => implb (after_switch e) (restores e && frees_created e))).
  - intros e H Ha. rewrite Ha in H. simpl in H. apply andb_prop in H. exact H.
  - vm_compute. reflexivity.
Qed.

(* exits before the switch: nothing to restore, but what was created must be released
   (newlocale failing must free the duplicate) *)
Theorem created_freed_all_exits : Forall (fun e => frees_created e = true) exits.
Proof.
  apply (forallb_Forall frees_created); [auto | vm_compute; reflexivity].
Qed.

(* the protocol theorem: at every exit, for every entry locale and every outcome of the
   creating calls left open by the guards, the thread's locale is the entry locale and no
   locale object created by the call is left alive; nothing undefined was done on the way *)
Theorem protocol_all_exits : forall e en q, In e exits -> In q (expand (path e)) ->
  cur (run en q) = HEntry /\ cur_forced_c (run en q) = false /\ live (run en q) = [] /\ bad (run en q) = false.
Proof.
  intros e en q He Hq.
  pose proof exits_checked as H. rewrite forallb_forall in H. specialize (H e He).
  unfold exit_ok in H. pose proof (all_runs_spec _ _ H en q Hq) as R. cbv beta in R.
  apply andb_prop in R. destruct R as [R _]. apply andb_prop in R. destruct R as [R1 R2].
  unfold final_restored in R1. apply andb_prop in R1. destruct R1 as [Rc Rf].
  unfold final_clean in R2. apply andb_prop in R2. destruct R2 as [Rl Rb].
  repeat split.
  - apply handle_eqb_eq. exact Rc.
  - destruct (cur_forced_c (run en q)); simpl in Rf; congruence.
  - destruct (live (run en q)); auto; discriminate.
  - destruct (bad (run en q)); simpl in Rb; congruence.
Qed.

(* every time the body (and with it strtod) runs, the numeric locale in effect is "C",
   whatever the entry locale *)
Theorem parse_locale_indep : forall e en q, In e exits -> In q (expand (path e)) ->
  Forall (fun n => n = NumC) (body_log (run en q)).
Proof.
  intros e en q He Hq.
  pose proof exits_checked as H. rewrite forallb_forall in H. specialize (H e He).
  unfold exit_ok in H. pose proof (all_runs_spec _ _ H en q Hq) as R. cbv beta in R.
  apply andb_prop in R. destruct R as [_ R]. unfold body_under_c in R.
  apply (forallb_Forall _ _ _ (fun n => match n as n0 return (match n0 with NumC => true | NumComma => false end = true -> n0 = NumC)
                                         with NumC => fun _ => eq_refl | NumComma => fun H0 => False_ind _ (Bool.diff_false_true H0) end)).
  exact R.
Qed.

(* the entry sequence, independent of the generated list: after it the numeric locale is "C"
   for both entry locales, the other categories being those of the duplicate *)
Theorem entry_sequence_numeric_C : forall en,
  let s := run en [EvQuery; EvDup OSucc; EvNew OSucc; EvSwitch] in
  cur_num en s = Some NumC /\ bad s = false /\ length (live s) = 1%nat.
Proof. destruct en; vm_compute; repeat split; reflexivity. Qed.

(* ---- non-vacuity *)
Theorem exits_nonempty : exits <> [].
Proof. vm_compute. discriminate. Qed.

Theorem exits_both_kinds :
  (exists e, In e exits /\ after_switch e = true /\ restores e = true) /\
  (exists e, In e exits /\ after_switch e = false).
Proof.
  split.
  - assert (H : existsb (fun e => after_switch e && restores e) exits = true) by (vm_compute; reflexivity).
    apply existsb_exists in H. destruct H as (e & He & H). apply andb_prop in H. exists e. tauto.
  - assert (H : existsb (fun e => negb (after_switch e)) exits = true) by (vm_compute; reflexivity).
    apply existsb_exists in H. destruct H as (e & He & H). exists e. split; auto. destruct (after_switch e); auto; discriminate.
Qed.

Theorem exits_reach_body_and_failures :
  (exists e, In e exits /\ existsb is_body (path e) = true) /\
  (exists e, In e exits /\ existsb (fun x => match x with EvNew OFail | EvDup OFail => true | _ => false end) (path e) = true).
Proof.
  split.
  - assert (H : existsb (fun e => existsb is_body (path e)) exits = true) by (vm_compute; reflexivity).
    apply existsb_exists in H. destruct H as (e & He & H). exists e. auto.
  - assert (H : existsb (fun e => existsb (fun x => match x with EvNew OFail | EvDup OFail => true | _ => false end) (path e)) exits = true)
      by (vm_compute; reflexivity).
    apply existsb_exists in H. destruct H as (e & He & H). exists e. auto.
Qed.

(* the check discriminates: a return between switch and restore, a dropped freelocale(duploc)
   on the newlocale-failure path, a body before the switch, a restore without the free *)
Definition x_skip := mk_exit 0 KReturn true false false [EvQuery; EvDup OSucc; EvNew OSucc; EvSwitch; EvBody].
Definition x_leak := mk_exit 0 KReturn false true false [EvQuery; EvDup OSucc; EvNew OFail].
Definition x_noswitch := mk_exit 0 KReturn false true true [EvQuery; EvDup OSucc; EvNew OSucc; EvBody; EvRestore; EvFreeNew].
Definition x_nofree := mk_exit 0 KReturn true true false [EvQuery; EvDup OSucc; EvNew OSucc; EvSwitch; EvBody; EvRestore].
Definition x_freeinuse := mk_exit 0 KReturn true true true [EvQuery; EvDup OSucc; EvNew OSucc; EvSwitch; EvBody; EvFreeNew; EvRestore].

Theorem bad_exits_rejected :
  exit_ok x_skip = false /\ exit_ok x_leak = false /\ exit_ok x_noswitch = false /\ exit_ok x_nofree = false /\
  exit_ok x_freeinuse = false /\
  cur (run NumComma (path x_skip)) = HObj 1 /\ live (run NumComma (path x_leak)) = [(0%nat, NumComma)] /\
  body_log (run NumComma (path x_noswitch)) = [NumComma].
Proof. vm_compute. repeat split; reflexivity. Qed.
