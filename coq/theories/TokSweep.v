(* TokSweep.v — exhaustive sweeps evaluated inside Coq (kept apart: they take ~1 min). *)
From JC Require Import Base BaseLemmas Value TokModel TokProofs.
Local Open Scope Z_scope.

Lemma unicode_unit_all : forall u, 0 <= u < 65536 -> unit_ok u = true.
Proof.
  assert (H : forallb unit_ok (zrange 0 (Z.to_nat 65536)) = true) by (vm_compute; reflexivity).
  intros u Hu. apply (zrange_forall unit_ok _ 0 H). rewrite Z2Nat.id by lia. lia.
Qed.

