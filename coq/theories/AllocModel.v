(* AllocModel.v — allocation-aware models for C08 ("one allocation failure gives a clean
   failure").  No proofs here.

   The allocator is a ledger [ast]: the index of the next request and the multiset [live]
   of blocks handed out and not yet released (a block is named by the index of the request
   that produced it).  Whether request number i succeeds is decided by an ORACLE
   [nat -> bool] that the theorems quantify over: every single fault k ([single_fault k]),
   every double fault and every other pattern are instances.  Releasing a block that is not
   live (double free, free of a foreign pointer) is the explicit result [UB].

   Modelled here, each as the C code is written:
     - the constructors with roll-back: json_object_new_double_s, printbuf_new, lh_table_new,
       json_object_new_object, array_list_new2 / json_object_new_array, json_tokener_new_ex;
     - json_object_object_add_ex over a table with its two blocks (struct, slot array) and the
       key copies it owns: strdup(key), lh_table_insert_w_hash with the growth
       (lh_table_resize -> lh_table_new) that may fail, and the roll-back of the key copy.
       [object_add] is the code after commit f86b8ce, [object_add_orig] the code before it
       (negative control: the no-leak theorem fails for it, AllocProofs.object_add_key_leak_refuted);
     - array_list_add with the realloc of the slot array, and the tokener's attach step
       (states array_add / object_value_add of json_tokener_parse_ex): the finished child is
       held by the call-local [obj] only; [attach_*] is the code after commit 1c6a7b2,
       [attach_*_orig] the code before it;
     - the serializer (json_object_to_json_string_length and the emitters of json_object.c)
       as the sequence of print-buffer calls it makes, run over the fallible print buffer
       of PbModel.v (C19): [serialize_fallible] is the code after commit cfba3e0 (every append
       tested), [serialize_orig] the code before it (only the appends whose result the old
       emitters looked at are tested). *)
From JC Require Import Base Value PbModel SerModel.
From JC Require LhModel.
Local Open Scope Z_scope.

(* ------------------------------------------------------------------ the ledger *)
Definition oracle := nat -> bool.
Definition no_fault : oracle := fun _ => true.
Definition single_fault (k : nat) : oracle := fun i => negb (Nat.eqb i k).
Definition double_fault (k j : nat) : oracle := fun i => negb (Nat.eqb i k || Nat.eqb i j).

Record ast := mkast { nreq : nat; live : list nat }.

Inductive res (A : Type) :=
| Ok (a : A) (s : ast)        (* the call returns its normal result *)
| Fail (s : ast)              (* the call reports failure: NULL / -1 *)
| UB.                         (* a block is released that is not live *)
Arguments Ok {A}.
Arguments Fail {A}.
Arguments UB {A}.

(* malloc / calloc / strdup *)
Definition alloc (o : oracle) (s : ast) : res nat :=
  let i := nreq s in
  if o i then Ok i (mkast (S i) (i :: live s)) else Fail (mkast (S i) (live s)).

Fixpoint remove1 (x : nat) (l : list nat) : option (list nat) :=
  match l with
  | [] => None
  | y :: t => if Nat.eqb x y then Some t
              else match remove1 x t with Some t' => Some (y :: t') | None => None end
  end.

Definition free (b : nat) (s : ast) : res unit :=
  match remove1 b (live s) with
  | Some l => Ok tt (mkast (nreq s) l)
  | None => UB
  end.

(* realloc(b, n), n > 0: on success a new block replaces b; on failure b stays *)
Definition realloc (o : oracle) (b : nat) (s : ast) : res nat :=
  let i := nreq s in
  if o i then match remove1 b (live s) with
              | Some l => Ok i (mkast (S i) (i :: l))
              | None => UB
              end
  else Fail (mkast (S i) (live s)).

Fixpoint free_list (bs : list nat) (s : ast) : res unit :=
  match bs with
  | [] => Ok tt s
  | b :: r => match free b s with
              | Ok _ s' => free_list r s'
              | Fail s' => Fail s'
              | UB => UB
              end
  end.

(* clean up, then return the failure value *)
Definition fail_after {A} (r : res unit) : res A :=
  match r with Ok _ s => Fail s | Fail s => Fail s | UB => UB end.

(* ------------------------------------------------------------------ constructors with roll-back *)

(* json_object_new_double_s(d, ds) *)
Definition new_double_s (o : oracle) (s : ast) : res (nat * nat) :=
  match alloc o s with                         (* jso = json_object_new_double(d) *)
  | Ok jso s1 =>
      match alloc o s1 with                    (* new_ds = strdup(ds) *)
      | Ok ds s2 => Ok (jso, ds) s2            (* json_object_set_serializer(jso, ..., new_ds, free_userdata) *)
      | Fail s2 => fail_after (free jso s2)    (* json_object_generic_delete(jso); errno = ENOMEM; return NULL *)
      | UB => UB
      end
  | Fail s1 => Fail s1                         (* if (!jso) return NULL *)
  | UB => UB
  end.

(* printbuf_new: calloc(1, sizeof(struct printbuf)); malloc(32) *)
Definition printbuf_new (o : oracle) (s : ast) : res (nat * nat) :=
  match alloc o s with
  | Ok p s1 =>
      match alloc o s1 with
      | Ok buf s2 => Ok (p, buf) s2
      | Fail s2 => fail_after (free p s2)      (* free(p); return NULL *)
      | UB => UB
      end
  | Fail s1 => Fail s1
  | UB => UB
  end.

(* lh_table_new: calloc(1, sizeof(struct lh_table)); calloc(size, sizeof(struct lh_entry)) *)
Definition lh_table_new (o : oracle) (s : ast) : res (nat * nat) :=
  match alloc o s with
  | Ok t s1 =>
      match alloc o s1 with
      | Ok tab s2 => Ok (t, tab) s2
      | Fail s2 => fail_after (free t s2)      (* free(t); return NULL *)
      | UB => UB
      end
  | Fail s1 => Fail s1
  | UB => UB
  end.

(* json_object_new_object: the node, then lh_kchar_table_new *)
Definition new_object (o : oracle) (s : ast) : res (nat * nat * nat) :=
  match alloc o s with
  | Ok jso s1 =>
      match lh_table_new o s1 with
      | Ok (t, tab) s2 => Ok (jso, t, tab) s2
      | Fail s2 => fail_after (free jso s2)    (* json_object_generic_delete(&jso->base); errno = ENOMEM *)
      | UB => UB
      end
  | Fail s1 => Fail s1
  | UB => UB
  end.

(* array_list_new2: malloc(sizeof(struct array_list)); malloc(size * sizeof(void * )) *)
Definition array_list_new2 (o : oracle) (s : ast) : res (nat * nat) :=
  match alloc o s with
  | Ok a s1 =>
      match alloc o s1 with
      | Ok store s2 => Ok (a, store) s2
      | Fail s2 => fail_after (free a s2)      (* free(arr); return NULL *)
      | UB => UB
      end
  | Fail s1 => Fail s1
  | UB => UB
  end.

(* json_object_new_array_ext *)
Definition new_array (o : oracle) (s : ast) : res (nat * nat * nat) :=
  match alloc o s with
  | Ok jso s1 =>
      match array_list_new2 o s1 with
      | Ok (a, store) s2 => Ok (jso, a, store) s2
      | Fail s2 => fail_after (free jso s2)    (* free(jso); return NULL *)
      | UB => UB
      end
  | Fail s1 => Fail s1
  | UB => UB
  end.

(* json_tokener_new_ex: calloc tok; calloc stack; printbuf_new *)
Definition tokener_new (o : oracle) (s : ast) : res (list nat) :=
  match alloc o s with
  | Ok tok s1 =>
      match alloc o s1 with
      | Ok stack s2 =>
          match printbuf_new o s2 with
          | Ok (p, buf) s3 => Ok [tok; stack; p; buf] s3
          | Fail s3 =>                                     (* free(tok->stack); free(tok); *)
              match free stack s3 with
              | Ok _ s4 => fail_after (free tok s4)
              | Fail s4 => Fail s4
              | UB => UB
              end
          | UB => UB
          end
      | Fail s2 => fail_after (free tok s2)                (* free(tok); return NULL *)
      | UB => UB
      end
  | Fail s1 => Fail s1
  | UB => UB
  end.

(* ------------------------------------------------------------------ json_object_object_add_ex *)
Definition key := list byte.

(* one entry: the block of the key copy (None with JSON_C_OBJECT_ADD_CONSTANT_KEY), the key,
   and the blocks of the value's subtree, which the entry owns (an empty list is the NULL
   value); a value is taken to have no other owner, as for trees built by the parser *)
Record oent := mkoe { e_kblk : option nat; e_key : key; e_val : list nat }.
Record otab := mkot { t_struct : nat; t_array : nat; t_size : Z; t_ents : list oent }.

Definition t_count (t : otab) : Z := zlen (t_ents t).
Definition ent_blocks (e : oent) : list nat :=
  (match e_kblk e with Some b => [b] | None => [] end) ++ e_val e.
Definition tab_blocks (t : otab) : list nat :=
  t_struct t :: t_array t :: flat_map ent_blocks (t_ents t).

Fixpoint key_eqb (a b : key) : bool :=
  match a, b with
  | [], [] => true
  | x :: a', y :: b' => (x =? y) && key_eqb a' b'
  | _, _ => false
  end.

(* lh_table_lookup_entry_w_hash: position of the entry with that key *)
Fixpoint lookup (k : key) (es : list oent) : option nat :=
  match es with
  | [] => None
  | e :: r => if key_eqb (e_key e) k then Some O
              else match lookup k r with Some n => Some (S n) | None => None end
  end.

Fixpoint set_val (es : list oent) (n : nat) (v : list nat) : list oent :=
  match es, n with
  | [], _ => []
  | e :: r, O => mkoe (e_kblk e) (e_key e) v :: r
  | e :: r, S m => e :: set_val r m v
  end.

(* lh_table_resize(t, new_size): the re-insertion of the entries into the fresh table
   allocates nothing (LhProofs / C06_resize_preserves: the refill never grows again) *)
Definition table_resize (o : oracle) (t : otab) (new_size : Z) (s : ast) : res otab :=
  match lh_table_new o s with                    (* new_t = lh_table_new(new_size, ...) *)
  | Ok (nt, ntab) s1 =>
      match free (t_array t) s1 with             (* free(t->table); t->table = new_t->table; *)
      | Ok _ s2 =>
          match free nt s2 with                  (* free(new_t) *)
          | Ok _ s3 => Ok (mkot (t_struct t) ntab new_size (t_ents t)) s3
          | Fail s3 => Fail s3
          | UB => UB
          end
      | Fail s2 => Fail s2
      | UB => UB
      end
  | Fail s1 => Fail s1                           (* if (new_t == NULL) return -1 *)
  | UB => UB
  end.

(* lh_table_insert_w_hash of an absent key *)
Definition table_insert (o : oracle) (t : otab) (e : oent) (s : ast) : res otab :=
  let put t' := mkot (t_struct t') (t_array t') (t_size t') (t_ents t' ++ [e]) in
  if LhModel.load_test (t_count t) (t_size t) then
    let new_size := if t_size t >? INT_MAX / 2 then INT_MAX else t_size t * 2 in
    if t_size t =? INT_MAX then Fail s
    else match table_resize o t new_size s with
         | Ok t' s' => Ok (put t') s'
         | Fail s' => Fail s'
         | UB => UB
         end
  else Ok (put t) s.

(* json_object_object_add_ex(jso, key, val, opts), val != jso.
   is_new = JSON_C_OBJECT_ADD_KEY_IS_NEW, cst = JSON_C_OBJECT_ADD_CONSTANT_KEY.
   [repaired] selects the code after / before commit f86b8ce. *)
Definition object_add_gen (repaired : bool) (o : oracle) (t : otab) (k : key) (v : list nat)
           (is_new cst : bool) (s : ast) : res otab :=
  match (if is_new then None else lookup k (t_ents t)) with
  | Some n =>
      (* existing_value = lh_entry_v(existing_entry); json_object_put(existing_value);
         lh_entry_set_val(existing_entry, val); return 0 *)
      match free_list (e_val (nth n (t_ents t) (mkoe None [] []))) s with
      | Ok _ s1 => Ok (mkot (t_struct t) (t_array t) (t_size t) (set_val (t_ents t) n v)) s1
      | Fail s1 => Fail s1
      | UB => UB
      end
  | None =>
      if cst then table_insert o t (mkoe None k v) s      (* k = key *)
      else
        match alloc o s with                              (* k = strdup(key) *)
        | Fail s1 => Fail s1                              (* if (k == NULL) return -1 *)
        | UB => UB
        | Ok kb s1 =>
            match table_insert o t (mkoe (Some kb) k v) s1 with
            | Ok t' s2 => Ok t' s2
            | Fail s2 =>
                if repaired then fail_after (free kb s2)  (* free((void * )k); return -1 *)
                else Fail s2                              (* return lh_table_insert_w_hash(...) *)
            | UB => UB
            end
        end
  end.

Definition object_add := object_add_gen true.
Definition object_add_orig := object_add_gen false.

(* ------------------------------------------------------------------ array add, attach step *)
(* a JSON array: the node, the array_list struct, the slot array, and per element the blocks
   of its subtree ([] = NULL element) *)
Record arr := mkarr { ar_node : nat; ar_struct : nat; ar_store : nat; ar_len : Z; ar_size : Z;
                      ar_elems : list (list nat) }.
Definition arr_blocks (a : arr) : list nat :=
  ar_node a :: ar_struct a :: ar_store a :: concat (ar_elems a).

(* array_list_expand_internal(arr, max) *)
Definition arr_expand (o : oracle) (a : arr) (max : Z) (s : ast) : res arr :=
  if max <? ar_size a then Ok a s
  else
    let new_size := if ar_size a >=? SIZE_MAX / 2 then max
                    else let ns := ar_size a * 2 in if ns <? max then max else ns in
    if new_size >? SIZE_MAX / 8 then Fail s
    else match realloc o (ar_store a) s with
         | Ok b s' => Ok (mkarr (ar_node a) (ar_struct a) b (ar_len a) new_size (ar_elems a)) s'
         | Fail s' => Fail s'
         | UB => UB
         end.

(* json_object_array_add = array_list_add(arr, data) *)
Definition arr_add (o : oracle) (a : arr) (child : list nat) (s : ast) : res arr :=
  if ar_len a >? SIZE_MAX - 1 then Fail s
  else match arr_expand o a (ar_len a + 1) s with
       | Ok a1 s1 => Ok (mkarr (ar_node a1) (ar_struct a1) (ar_store a1) (ar_len a1 + 1) (ar_size a1)
                               (ar_elems a1 ++ [child])) s1
       | Fail s1 => Fail s1
       | UB => UB
       end.

(* json_object_array_del_idx = array_list_del_idx(arr, idx, count): releases the elements of the
   range (free_fn = json_object_put on elements the array owns alone), closes the gap; it asks
   the allocator for nothing — there is no oracle argument — and keeps the capacity *)
Definition arr_del (a : arr) (idx count : Z) (s : ast) : res arr :=
  if (idx <? 0) || (count <? 0) || (idx >=? ar_len a) || (idx + count >? ar_len a) then Fail s
  else match free_list (concat (zfirstn count (zskipn idx (ar_elems a)))) s with
       | Ok _ s' => Ok (mkarr (ar_node a) (ar_struct a) (ar_store a) (ar_len a - count) (ar_size a)
                              (zfirstn idx (ar_elems a) ++ zskipn (idx + count) (ar_elems a))) s'
       | Fail s' => Fail s'
       | UB => UB
       end.

(* json_object_array_shrink = array_list_shrink(arr, empty_slots): documented to possibly fail *)
Definition arr_shrink (o : oracle) (a : arr) (empty_slots : Z) (s : ast) : res arr :=
  if empty_slots >=? SIZE_MAX / 8 - ar_len a then Fail s
  else
    let new_size := ar_len a + empty_slots in
    if new_size =? ar_size a then Ok a s
    else if new_size >? ar_size a then arr_expand o a new_size s
    else
      let new_size := if new_size =? 0 then 1 else new_size in
      match realloc o (ar_store a) s with
      | Ok b s' => Ok (mkarr (ar_node a) (ar_struct a) b (ar_len a) new_size (ar_elems a)) s'
      | Fail s' => Fail s'
      | UB => UB
      end.

(* the shape in which the delete ends with "return array_list_shrink(...)" once most slots are
   unused (negative control): the elements are released and the array shortened, and then a
   failed realloc is reported as the failure of the whole call *)
Definition arr_del_shrinking (o : oracle) (a : arr) (idx count : Z) (s : ast) : res arr * option arr :=
  match arr_del a idx count s with
  | Ok a1 s1 =>
      if (ar_size a1 >? 32) && (ar_len a1 <? ar_size a1 / 4)
      then (arr_shrink o a1 (ar_len a1) s1, Some a1)      (* second component: what the array is now *)
      else (Ok a1 s1, Some a1)
  | r => (r, None)
  end.

(* json_tokener_parse_ex, case json_tokener_state_array_add: [child] are the blocks of the
   finished element, referenced by the call-local obj only (reference count 1).
     if (json_object_array_add(current, obj) != 0) { [json_object_put(obj);] tok->err = memory; goto out; }
   Ok = the parse goes on; Fail = it stops with json_tokener_error_memory. *)
Definition attach_array_gen (repaired : bool) (o : oracle) (cur : arr) (child : list nat) (s : ast) : res arr :=
  match arr_add o cur child s with
  | Ok a s1 => Ok a s1
  | Fail s1 => if repaired then fail_after (free_list child s1) else Fail s1
  | UB => UB
  end.
Definition attach_array := attach_array_gen true.
Definition attach_array_orig := attach_array_gen false.

(* case json_tokener_state_object_value_add: the member name is the level's obj_field_name
   (it stays with the tokener; json_object_object_add copies it)
     if (json_object_object_add(current, obj_field_name, obj) != 0) { [json_object_put(obj);] ...memory; goto out; } *)
Definition attach_object_gen (repaired : bool) (o : oracle) (cur : otab) (name : key) (child : list nat)
           (s : ast) : res otab :=
  match object_add o cur name child false false s with
  | Ok t s1 => Ok t s1
  | Fail s1 => if repaired then fail_after (free_list child s1) else Fail s1
  | UB => UB
  end.
Definition attach_object := attach_object_gen true.
Definition attach_object_orig := attach_object_gen false.

(* ------------------------------------------------------------------ the serializer over the fallible print buffer *)
(* one print-buffer call of an emitter; the flag says whether the code BEFORE commit cfba3e0
   looked at its result (the code after it looks at every one) *)
Definition tagged := (bool * pbop)%type.

Definition emit (chk : bool) (bs : list byte) : list tagged := [(chk, OpAppend bs)].
Definition emit_if (c chk : bool) (bs : list byte) : list tagged := if c then emit chk bs else [].

(* json_escape_str: runs of bytes that need no escape are appended in one call, each escape
   in one call *)
Definition needs_escape (fl : sflags) (c : byte) : bool :=
  (c =? 8) || (c =? 10) || (c =? 13) || (c =? 9) || (c =? 12) || (c =? 34) || (c =? 92) ||
  ((c =? 47) && negb (noslash fl)) || (c <? 32).

Fixpoint esc_chunks (fl : sflags) (s run : list byte) : list (list byte) :=
  match s with
  | [] => match run with [] => [] | _ => [run] end
  | c :: r =>
      if needs_escape fl c
      then (match run with [] => [] | _ => [run] end) ++ [escape_char fl c] ++ esc_chunks fl r []
      else esc_chunks fl r (run ++ [c])
  end.

Definition esc_ops (fl : sflags) (s : list byte) : list tagged :=
  map (fun c => (false, OpAppend c)) (esc_chunks fl s []).

(* indent(): printbuf_memset(pb, -1, '\t', level) / (pb, -1, ' ', level * 2) *)
Definition indent_ops (fl : sflags) (level : nat) : list tagged :=
  if pretty fl
  then [(false, if pretty_tab fl then OpMemset (-1) 9 (Z.of_nat level)
                else OpMemset (-1) 32 (Z.of_nat (2 * level)))]
  else [].

Definition null_ops (fl : sflags) : list tagged :=
  emit_if (color fl) false c_magenta ++ emit false s_null ++ emit_if (color fl) false c_reset.

(* what a container emits before each child *)
Definition prefix_ops (fl : sflags) (level : nat) (had : bool) : list tagged :=
  emit_if had false [44] ++ emit_if (pretty fl) false [10] ++
  emit_if (spaced fl && negb (pretty fl)) false [32] ++ indent_ops fl (S level).

(* ... and after the last one; the final append is the emitter's return value *)
Definition close_ops (fl : sflags) (level : nat) (had : bool) (close : byte) : list tagged :=
  (if pretty fl && had then emit false [10] ++ indent_ops fl level else []) ++
  emit true (if spaced fl && negb (pretty fl) then [32; close] else [close]).

Fixpoint join_ops (pre : bool -> list tagged) (items : list (list tagged)) (had : bool) : list tagged :=
  match items with
  | [] => []
  | x :: r => pre had ++ x ++ join_ops pre r true
  end.

Definition quoted_ops (fl : sflags) (s : list byte) : list tagged :=
  emit false [34] ++ esc_ops fl s ++ emit false [34].

Section WithOracle.
Variable fmt17 : Z -> list byte.

Definition child_ops (fl : sflags) (rec : jv -> list tagged) (x : jv) : list tagged :=
  match x with JNull => null_ops fl | _ => rec x end.

Fixpoint ser_ops (fl : sflags) (level : nat) (v : jv) {struct v} : list tagged :=
  match v with
  | JNull => emit true s_null
  | JBool b =>
      emit_if (color fl) false c_magenta ++ emit true (if b then s_true else s_false) ++
      emit_if (color fl) true c_reset
  | JInt z => emit true (dec_s z)
  | JUint z => emit true (dec_u z)
  | JDouble bits None => emit false (double_text fmt17 fl bits)
  | JDouble bits (Some t) => emit false (c_str t)
  | JStr s => emit_if (color fl) false c_green ++ quoted_ops fl s ++ emit_if (color fl) false c_reset
  | JArr l =>
      emit false [91] ++
      join_ops (prefix_ops fl level) (map (child_ops fl (ser_ops fl (S level))) l) false ++
      close_ops fl level (nonempty l) 93
  | JObj l =>
      emit false [123] ++
      join_ops (prefix_ops fl level)
        (map (fun kv => emit_if (color fl) false c_blue ++ quoted_ops fl (c_str (fst kv)) ++
                        emit_if (color fl) false c_reset ++ emit false (colon fl) ++
                        child_ops fl (ser_ops fl (S level)) (snd kv)) l) false ++
      close_ops fl level (nonempty l) 125
  end.

(* the bytes an operation of these two forms appends *)
Definition op_bytes (o : pbop) : list byte :=
  match o with
  | OpAppend bs => bs
  | OpMemset _ c len => zrepeat (c mod 256) len
  | _ => []
  end.
Definition ops_text (ops : list tagged) : list byte := flat_map (fun t => op_bytes (snd t)) ops.

(* the fault-free text *)
Definition ser_text (fl : sflags) (v : jv) : list byte :=
  match v with JNull => s_null | _ => ops_text (ser_ops fl 0 v) end.

(* run the calls; [orc i] is the allocator's behaviour during call number i.
   None = undefined behaviour; Some None = the emitter returned -1 *)
Fixpoint run_ops (orig : bool) (orc : nat -> PbModel.alloc) (i : nat) (p : pbuf) (ops : list tagged)
  : option (option pbuf) :=
  match ops with
  | [] => Some (Some p)
  | (chk, o) :: r =>
      match pb_step (orc i) p o with
      | POk p' _ _ => run_ops orig orc (S i) p' r
      | PErr p' _ => if orig && negb chk then run_ops orig orc (S i) p' r else Some None
      | PUB => None
      end
  end.

Definition pb_text (p : pbuf) : list byte :=
  map (fun c => match c with Some b => b | None => 0 end) (pb_cells p).

Inductive sres := STxt (t : list byte) | SNull | SUB.

(* json_object_to_json_string_length(jso, flags, &len).  [pb] = jso->_pb, or what
   printbuf_new() just returned for it (None = that allocation failed). *)
Definition serialize_gen (orig : bool) (pb : option pbuf) (orc : nat -> PbModel.alloc)
           (fl : sflags) (v : jv) : sres :=
  match v with
  | JNull => STxt s_null
  | _ =>
      match pb with
      | None => SNull
      | Some p =>
          match pb_reset p with
          | POk p0 _ _ =>
              match run_ops orig orc 0 p0 (ser_ops fl 0 v) with
              | Some (Some p') => STxt (pb_text p')
              | Some None => SNull
              | None => SUB
              end
          | _ => SUB
          end
      end
  end.

Definition serialize_fallible := serialize_gen false.
Definition serialize_orig := serialize_gen true.

End WithOracle.

(* ------------------------------------------------------------------ sprintbuf with its temporary *)
(* A print buffer together with the block that holds its bytes.  The growth of the buffer is
   a realloc request to the ledger; [pb_step] (C19) decides what the buffer looks like. *)
Record lpb := mklpb { lp_buf : pbuf; lp_blk : nat }.

(* the successful half of [realloc]: a new block replaces b *)
Definition realloc_granted (b : nat) (s : ast) : res nat :=
  match remove1 b (live s) with
  | Some l => Ok (nreq s) (mkast (S (nreq s)) (nreq s :: l))
  | None => UB
  end.

(* one print-buffer call on such a buffer: the allocator's answer to the (at most one)
   request of the call is the oracle's answer to the next request index *)
Definition lpb_step (o : oracle) (q : lpb) (op : pbop) (s : ast) : res (lpb * Z) :=
  match pb_step (fun _ => o (nreq s)) (lp_buf q) op with
  | POk p' r _ =>
      if size p' =? size (lp_buf q) then Ok (mklpb p' (lp_blk q), r) s      (* no request made *)
      else match realloc_granted (lp_blk q) s with                           (* the request was granted *)
           | Ok b s' => Ok (mklpb p' b, r) s'
           | Fail s' => Fail s'
           | UB => UB
           end
  | PErr _ ENOMEM => Fail (mkast (S (nreq s)) (live s))                      (* realloc returned NULL *)
  | PErr _ _ => Fail s                                                        (* refused before any request *)
  | PUB => UB
  end.

(* sprintbuf(p, fmt, ...) with [out] the formatted bytes:
     size = vsnprintf(buf, 128, ...);
     if (size < 0 || size > 127) {
         if ((size = vasprintf(&t, ...)) < 0) return -1;
         size = printbuf_memappend(p, t, size);  free(t);
     } else size = printbuf_memappend(p, buf, size);
     return size;
   [flat] = the shape in which both failures of the long branch share one early "return -1"
   (the negative control: the temporary is then not released when the append fails). *)
Definition sprintbuf_gen (flat : bool) (o : oracle) (q : lpb) (out : list byte) (s : ast) : res (lpb * Z) :=
  if zlen out >? 127 then
    match alloc o s with                          (* vasprintf's result string *)
    | Ok t s1 =>
        match lpb_step o q (OpSprintf out) s1 with
        | Ok (q', r) s2 =>
            match free t s2 with                  (* free(t) *)
            | Ok _ s3 => Ok (q', r) s3
            | Fail s3 => Fail s3
            | UB => UB
            end
        | Fail s2 => if flat then Fail s2 else fail_after (free t s2)
        | UB => UB
        end
    | Fail s1 => Fail s1                          (* vasprintf < 0: return -1 *)
    | UB => UB
    end
  else lpb_step o q (OpSprintf out) s.

Definition sprintbuf := sprintbuf_gen false.
Definition sprintbuf_flat := sprintbuf_gen true.

(* ------------------------------------------------------------------ the tokener's temporary numeric locale *)
(* json_tokener_parse_ex, before the first character:
     duploc = duplocale(oldlocale);            if (duploc == NULL && errno == ENOMEM) { err = memory; return NULL; }
     newloc = newlocale(LC_NUMERIC_MASK, "C", duploc);
     if (newloc == NULL) { err = memory; freelocale(duploc); return NULL; }
     uselocale(newloc);
   and at "out:"   uselocale(oldlocale); freelocale(newloc);
   A locale object is a block of the ledger; newlocale with a base either fails (the base stays
   the caller's) or takes the base over: the result IS that object.
   [trusting] = the shape that assumes newlocale takes the copy over in every case and so does
   not release it when newlocale fails (negative control). *)
Definition locale_setup_gen (trusting : bool) (o : oracle) (s : ast) : res nat :=
  match alloc o s with                                (* duplocale *)
  | Ok d s1 =>
      let s2 := mkast (S (nreq s1)) (live s1) in      (* newlocale: one request, no new block *)
      if o (nreq s1) then Ok d s2
      else if trusting then Fail s2 else fail_after (free d s2)
  | Fail s1 => Fail s1
  | UB => UB
  end.
Definition locale_setup := locale_setup_gen false.
Definition locale_setup_trusting := locale_setup_gen true.

Definition locale_teardown (newloc : nat) (s : ast) : res unit := free newloc s.

(* one json_tokener_parse_ex call as far as the locale goes: set-up, [body] (the parse proper,
   whatever it does to the ledger and however it ends), tear-down *)
Definition parse_bracket (o : oracle) (body : ast -> ast) (s : ast) : res unit :=
  match locale_setup o s with
  | Ok l s1 => locale_teardown l (body s1)
  | Fail s1 => Fail s1
  | UB => UB
  end.

(* ------------------------------------------------------------------ configuration calls that allocate *)
(* json_c_set_serialization_double_format(fmt, scope) called by thread [tid].  The settings are
   SerModel's [fmt_state] (global format, per-thread formats); with them go the blocks that hold
   the two strings this thread can release: the global one and its own thread-local one.
     GLOBAL: p = fmt ? strdup(fmt) : NULL; if (fmt && !p) return -1;
             if (tls) { free(tls); tls = NULL; }  free(global); global = p;
     THREAD: p = fmt ? strdup(fmt) : NULL; if (fmt && !p) return -1;  free(tls); tls = p;
     other : return -1
   The result always carries the configuration afterwards and the return value, so that "a
   failed call leaves the configuration as it was" is a statement and not a convention.
   [early] = the shape that releases the thread's format BEFORE the copy (negative control). *)
Record fcfg := mkfc { fc_st : fmt_state; fc_gblk : option nat; fc_tblk : option nat }.

Definition cfg_blocks (c : fcfg) : list nat :=
  (match fc_gblk c with Some b => [b] | None => [] end) ++
  (match fc_tblk c with Some b => [b] | None => [] end).

Definition free_opt (b : option nat) (s : ast) : res unit :=
  match b with Some x => free x s | None => Ok tt s end.

(* p = fmt ? strdup(fmt) : NULL — None = the copy failed *)
Definition dup_opt (o : oracle) (fmt : option (list byte)) (s : ast) : res (option (option nat)) :=
  match fmt with
  | None => Ok (Some None) s
  | Some _ => match alloc o s with
              | Ok b s' => Ok (Some (Some b)) s'
              | Fail s' => Ok None s'
              | UB => UB
              end
  end.

Definition set_format_gen (early : bool) (o : oracle) (c : fcfg) (tid : Z) (fmt : option (list byte))
           (scope : Z) (s : ast) : res (fcfg * Z) :=
  let st' := fst (set_format true (fc_st c) tid fmt scope) in
  if scope =? 0 then
    if early then
      (* the thread's override is dropped first *)
      match free_opt (fc_tblk c) s with
      | Ok _ s1 =>
          let c1 := mkfc (mkfs (g_fmt (fc_st c)) (t_remove tid (t_fmt (fc_st c)))) (fc_gblk c) None in
          match dup_opt o fmt s1 with
          | Ok None s2 => Ok (c1, -1) s2
          | Ok (Some p) s2 =>
              match free_opt (fc_gblk c) s2 with
              | Ok _ s3 => Ok (mkfc st' p None, 0) s3
              | Fail s3 => Fail s3
              | UB => UB
              end
          | Fail s2 => Fail s2
          | UB => UB
          end
      | Fail s1 => Fail s1
      | UB => UB
      end
    else
      match dup_opt o fmt s with
      | Ok None s1 => Ok (c, -1) s1
      | Ok (Some p) s1 =>
          match free_opt (fc_tblk c) s1 with
          | Ok _ s2 =>
              match free_opt (fc_gblk c) s2 with
              | Ok _ s3 => Ok (mkfc st' p None, 0) s3
              | Fail s3 => Fail s3
              | UB => UB
              end
          | Fail s2 => Fail s2
          | UB => UB
          end
      | Fail s1 => Fail s1
      | UB => UB
      end
  else if scope =? 1 then
    match dup_opt o fmt s with
    | Ok None s1 => Ok (c, -1) s1
    | Ok (Some p) s1 =>
        match free_opt (fc_tblk c) s1 with
        | Ok _ s2 => Ok (mkfc st' (fc_gblk c) p, 0) s2
        | Fail s2 => Fail s2
        | UB => UB
        end
    | Fail s1 => Fail s1
    | UB => UB
    end
  else Ok (c, -1) s.

Definition set_format_cfg := set_format_gen false.
Definition set_format_early := set_format_gen true.

(* ------------------------------------------------------------------ the uniform shape of the fault theorems *)
(* what an operation under an arbitrary allocator may do: complete with a result that meets
   its specification, or refuse leaving the state as it was (up to [same]: counters of
   requests made differ), never anything else *)
Inductive outcome (S R : Type) :=
| Done (s : S) (r : R)
| Refused (s : S)
| Undefined.
Arguments Done {S R}.
Arguments Refused {S R}.
Arguments Undefined {S R}.

Definition op_fault_clean {S R : Type} (same : S -> S -> Prop) (before : S)
           (post : S -> R -> Prop) (out : outcome S R) : Prop :=
  match out with
  | Done s r => post s r
  | Refused s => same before s
  | Undefined => False
  end.

Definition res_out {A} (r : res A) : outcome ast A :=
  match r with Ok a s => Done s a | Fail s => Refused s | UB => Undefined end.

(* nothing leaked, nothing released: the same blocks are live *)
Definition same_live (s s' : ast) : Prop := live s' = live s.

(* the call's result in the uniform shape: state = (configuration, ledger) *)
Definition cfg_out (r : res (fcfg * Z)) : outcome (fcfg * ast) unit :=
  match r with
  | Ok (c, 0) s => Done (c, s) tt
  | Ok (c, _) s => Refused (c, s)
  | Fail _ => Undefined          (* the call has no such exit *)
  | UB => Undefined
  end.

