(* TokImplCheck.v — the model's vocabulary is the source's (TokImpl.v is regenerated from
   json_tokener.h / json_tokener.c / json_util.h on every run by tr/tok_consts.py). *)
From Coq Require Import List ZArith String Bool.
From JC Require Import Base Value TokModel TokSize TokFd TokImpl.
Import ListNotations.
Local Open Scope string_scope.

Definition tstate_name (s : tstate) : string :=
  match s with
  | S_eatws => "eatws" | S_start => "start" | S_finish => "finish" | S_null => "null"
  | S_comment_start => "comment_start" | S_comment => "comment" | S_comment_eol => "comment_eol"
  | S_comment_end => "comment_end" | S_string => "string" | S_string_escape => "string_escape"
  | S_escape_unicode => "escape_unicode" | S_need_escape => "need_escape" | S_need_u => "need_u"
  | S_boolean => "boolean" | S_number => "number" | S_array => "array" | S_array_add => "array_add"
  | S_array_sep => "array_sep" | S_object_field_start => "object_field_start" | S_object_field => "object_field"
  | S_object_field_end => "object_field_end" | S_object_value => "object_value"
  | S_object_value_add => "object_value_add" | S_object_sep => "object_sep"
  | S_array_after_sep => "array_after_sep" | S_object_field_start_after_sep => "object_field_start_after_sep"
  | S_inf => "inf"
  end.

Definition all_states : list tstate :=
  [S_eatws; S_start; S_finish; S_null; S_comment_start; S_comment; S_comment_eol; S_comment_end; S_string;
   S_string_escape; S_escape_unicode; S_need_escape; S_need_u; S_boolean; S_number; S_array; S_array_add;
   S_array_sep; S_object_field_start; S_object_field; S_object_field_end; S_object_value; S_object_value_add;
   S_object_sep; S_array_after_sep; S_object_field_start_after_sep; S_inf].

Lemma all_states_complete : forall s, In s all_states.
Proof. destruct s; cbn; tauto. Qed.

Definition terr_name (e : terr) : string :=
  match e with
  | TE_success => "success" | TE_continue => "continue" | TE_depth => "depth" | TE_eof => "eof"
  | TE_unexpected => "unexpected" | TE_null => "null" | TE_boolean => "boolean" | TE_number => "number"
  | TE_array => "array" | TE_object_key_name => "object_key_name" | TE_object_key_sep => "object_key_sep"
  | TE_object_value_sep => "object_value_sep" | TE_string => "string" | TE_comment => "comment"
  | TE_utf8 => "utf8" | TE_size => "size" | TE_memory => "memory"
  end.
Definition all_errors : list terr :=
  [TE_success; TE_continue; TE_depth; TE_eof; TE_unexpected; TE_null; TE_boolean; TE_number; TE_array;
   TE_object_key_name; TE_object_key_sep; TE_object_value_sep; TE_string; TE_comment; TE_utf8; TE_size; TE_memory].
Lemma all_errors_complete : forall e, In e all_errors.
Proof. destruct e; cbn; tauto. Qed.

Fixpoint mem_str (x : string) (l : list string) : bool :=
  match l with [] => false | y :: r => if string_dec x y then true else mem_str x r end.

(* the enumerations: same members, same order (the order is the numeric value of the C enum) *)
Theorem impl_states_are_model_states : map tstate_name all_states = impl_states.
Proof. reflexivity. Qed.
Theorem impl_errors_are_model_errors : map terr_name all_errors = impl_errors.
Proof. reflexivity. Qed.
(* the switch of json_tokener_parse_ex has a case for exactly the model's states *)
Theorem impl_switch_handles_model_states :
  forallb (fun s => mem_str (tstate_name s) impl_switch_cases) all_states = true /\
  forallb (fun n => mem_str n (map tstate_name all_states)) impl_switch_cases = true.
Proof. split; reflexivity. Qed.

(* constants *)
Theorem impl_default_depth_ok : impl_default_depth = default_depth.
Proof. reflexivity. Qed.
Theorem impl_flags_ok :
  flags_of_word impl_flag_strict = (true, false, false) /\
  flags_of_word impl_flag_trailing = (false, true, false) /\
  flags_of_word impl_flag_utf8 = (false, false, true) /\
  flags_of_word (Z.lor impl_flag_strict (Z.lor impl_flag_trailing impl_flag_utf8)) = (true, true, true).
Proof. repeat split. Qed.
Theorem impl_literals_ok :
  impl_s_null = s_null /\ impl_s_inf = s_inf /\ impl_s_nan = s_nan /\ impl_s_true = s_true /\ impl_s_false = s_false /\
  impl_replacement = utf8_replacement.
Proof. repeat split. Qed.
(* the size guard compares with >= (fix 5caf9e2): the modelled entry point is the one with that comparison *)
Theorem impl_size_guard_ok : forall sb, parse_api sb = parse_api_g sb impl_size_guard_ge.
Proof. reflexivity. Qed.
(* the nesting test `tok->depth >= tok->max_depth - 1` guards both places where a level is pushed *)
Theorem impl_depth_test_sites_ok : impl_depth_test_sites = 2%Z.
Proof. reflexivity. Qed.
