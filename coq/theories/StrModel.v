(* StrModel.v — the string node of json_object.c as written (C11).

   struct json_object_string { base; ssize_t len; union { char idata[1]; char *pdata; } c_string; }

   * [slen] is the [len] field with its sign convention: negative = the bytes live in a
     separately malloc'ed buffer [c_string.pdata] of which only |len| is remembered,
     otherwise they live inline in [c_string.idata], allocated together with the object.
   * Memory is concrete: a heap of blocks, one cell per byte, [None] = indeterminate.
     Block 0 is the object itself (only the [c_string] area is represented, i.e. offsets
     are relative to [idata]); every other block is a buffer obtained from malloc.  Freed
     blocks stay in the heap as tombstones so that a use after free, a double free, an
     access through an indeterminate pointer or an out-of-bounds access is an explicit
     [UB] result and not a silent success.
   * [ilen0] is a ghost field: the creation length, which fixes the inline capacity
     max(ilen0, sizeof(void* )) + 1 for the whole life of the object.
   * [pptr] is the pointer last stored in [c_string.pdata]; because of the union it becomes
     indeterminate ([None]) as soon as inline bytes are written, and storing it makes the
     first sizeof(void* ) inline cells indeterminate.
   * malloc/free events are logged (newest first); the allocator is an oracle argument
     (request index, size) -> succeed?.
   * the source of a setter is either memory outside the node or a pointer into a heap
     block (the node's own buffer, json_object_get_string(o) + off); a heap source is read
     from the heap as it is when the C code reads it, so the order of copy and release
     matters.  (State after "fix: json_object_set_string(_len): the new contents may overlap
     the current ones": memmove in the reuse branch, and the grow branch fills the new
     buffer before it releases or overwrites anything.)
   LP64 constants: HDR = sizeof( *jso) - sizeof(jso->c_string) = 48, sizeof(void* ) = 8
   (harness/drv_str.c refuses to run on another ABI). *)
From JC Require Import Base.
Local Open Scope Z_scope.

Definition SSIZE_T_MAX : Z := 9223372036854775807.
Definition SSIZE_T_MIN : Z := -9223372036854775808.
Definition HDR : Z := 48.
Definition PTRSZ : Z := 8.

Definition cells := list (option byte).
Record blk := mkblk { bcells : cells; blive : bool }.
Definition heap := list blk.                      (* block id = position *)

Inductive ev := EvMalloc (id n : Z) | EvFree (id : Z).

(* allocator oracle: does the [k]-th allocation request, of [n] bytes, succeed? *)
Definition alloc := Z -> Z -> bool.

Record st := mkst {
  slen : Z;             (* jso->len *)
  ilen0 : Z;            (* ghost: creation length *)
  pptr : option Z;      (* jso->c_string.pdata: block id; None = indeterminate *)
  hp : heap;
  reqs : Z;             (* allocation requests made so far *)
  elog : list ev        (* malloc/free events, newest first *)
}.

(* ---------------- heap primitives (all checked) ---------------- *)

Fixpoint upd {A} (l : list A) (n : nat) (x : A) : list A :=
  match l with
  | [] => []
  | a :: t => match n with O => x :: t | S n' => a :: upd t n' x end
  end.

Definition hset (h : heap) (id : Z) (b : blk) : heap := upd h (Z.to_nat id) b.

Definition cstore (m : cells) (off : Z) (cs : cells) : cells :=
  zfirstn off m ++ cs ++ zskipn (off + zlen cs) m.

(* store [cs] at [off] of block [id]: the block must be live and the range inside it *)
Definition hstore (h : heap) (id off : Z) (cs : cells) : option heap :=
  match znth h id with
  | Some b =>
      if blive b && (0 <=? off) && (off + zlen cs <=? zlen (bcells b))
      then Some (hset h id (mkblk (cstore (bcells b) off cs) true))
      else None
  | None => None
  end.

Definition hwrite (h : heap) (id off : Z) (bs : list byte) : option heap :=
  hstore h id off (map Some bs).

Definition hread (h : heap) (id off n : Z) : option cells :=
  match znth h id with
  | Some b =>
      if blive b && (0 <=? off) && (0 <=? n) && (off + n <=? zlen (bcells b))
      then Some (zfirstn n (zskipn off (bcells b)))
      else None
  | None => None
  end.

Definition hfree (h : heap) (id : Z) : option heap :=
  match znth h id with
  | Some b => if blive b then Some (hset h id (mkblk (bcells b) false)) else None
  | None => None
  end.

Definition hmalloc (h : heap) (n : Z) : heap * Z :=
  (h ++ [mkblk (zrepeat None n) true], zlen h).

(* ---------------- event log ---------------- *)

Fixpoint zmem (x : Z) (l : list Z) : bool :=
  match l with [] => false | y :: t => (x =? y) || zmem x t end.

Fixpoint zremove (x : Z) (l : list Z) : list Z :=
  match l with [] => [] | y :: t => if x =? y then t else y :: zremove x t end.

Fixpoint live_of_log (l : list ev) : list Z :=
  match l with
  | [] => []
  | EvMalloc id _ :: t => id :: live_of_log t
  | EvFree id :: t => zremove id (live_of_log t)
  end.

Fixpoint nmalloc (l : list ev) : Z :=
  match l with
  | [] => 0
  | EvMalloc _ _ :: t => 1 + nmalloc t
  | EvFree _ :: t => nmalloc t
  end.

(* well-formed log: block ids are handed out in sequence, every free releases a block that
   is live at that moment (no double free, no free of a foreign pointer) *)
Fixpoint log_ok (l : list ev) : bool :=
  match l with
  | [] => true
  | EvMalloc id n :: t => (id =? nmalloc t) && (0 <=? n) && log_ok t
  | EvFree id :: t => zmem id (live_of_log t) && log_ok t
  end.

(* ---------------- C strings ---------------- *)

(* strlen on the memory [bs] at the source pointer: None = no terminator inside the
   readable memory (the call reads past it: undefined) *)
Fixpoint c_strlen (bs : list byte) : option Z :=
  match bs with
  | [] => None
  | b :: t => if b =? 0 then Some 0
              else match c_strlen t with Some n => Some (1 + n) | None => None end
  end.

Definition to_size_t (i : Z) : Z := if i <? 0 then i + SIZE_MAX + 1 else i.   (* int -> size_t *)
Definition to_int (z : Z) : Z := (z + 2147483648) mod 4294967296 - 2147483648. (* ssize_t -> int, gcc *)

(* ---------------- creation ---------------- *)

Inductive nres :=
| NOk (s : st)
| NNull (r : Z)        (* returned NULL after [r] allocation requests *)
| NUB.

(* _json_object_new_string(s, len): [bs] is the memory readable at s *)
Definition new_string_sz (al : alloc) (bs : list byte) (ulen : Z) : nres :=
  if ulen >? SSIZE_T_MAX - HDR - 1 then NNull 0 else
  let icap := ulen + 1 + (if ulen <? PTRSZ then PTRSZ - ulen else 0) in
  let objsize := HDR + icap in
  if objsize >? SIZE_MAX then NUB else                       (* size_t wrap: under-allocation *)
  if al 0 objsize then
    if ulen >? zlen bs then NUB else                         (* memcpy reads past the source *)
    let h0 := [mkblk (zrepeat None icap) true] in
    match hwrite h0 0 0 (zfirstn ulen bs) with               (* memcpy(idata, s, len) *)
    | None => NUB
    | Some h1 =>
      match hwrite h1 0 ulen [0] with                        (* idata[len] = '\0' *)
      | None => NUB
      | Some h2 => NOk (mkst ulen ulen None h2 1 [EvMalloc 0 objsize])
      end
    end
  else NNull 1.

Definition new_string_len (al : alloc) (bs : list byte) (len : Z) : nres :=
  new_string_sz al bs (to_size_t len).

Definition new_string (al : alloc) (bs : list byte) : nres :=
  match c_strlen bs with
  | Some n => new_string_sz al bs n
  | None => NUB
  end.

(* ---------------- accessors ---------------- *)

(* get_string_component: block holding the bytes *)
Definition comp (s : st) : option Z := if slen s <? 0 then pptr s else Some 0.

Definition slen_abs (s : st) : Z := if slen s <? 0 then - slen s else slen s.

(* json_object_get_string_len: int *)
Definition get_string_len (s : st) : Z := to_int (slen_abs s).

(* reading [n] bytes through the pointer json_object_get_string returns *)
Definition str_read (s : st) (n : Z) : option cells :=
  match comp s with
  | Some id => hread (hp s) id 0 n
  | None => None
  end.

Definition get_string (s : st) : option cells := str_read s (slen_abs s).

(* the byte after the contents: None = reading it is undefined *)
Definition get_nul (s : st) : option (option byte) :=
  match comp s with
  | Some id => match hread (hp s) id (slen_abs s) 1 with
               | Some [c] => Some c
               | _ => None
               end
  | None => None
  end.

Definition is_sep (s : st) : bool := slen s <? 0.
Definition live_count (s : st) : Z := zlen (live_of_log (elog s)).

(* ---------------- set ---------------- *)

Record wr := mkwr { w_id : Z; w_off : Z; w_len : Z }.

Inductive sres :=
| SOk (s : st) (ret : Z) (ws : list wr)
| SUB.

(* the first block of _json_object_set_string_len: a separate buffer and new length 0 *)
Definition set_phase1 (s : st) (ulen : Z) : option (st * Z) :=
  let curlen := slen s in
  if curlen <? 0 then
    if ulen =? 0 then
      match pptr s with                                         (* free(pdata) *)
      | Some p =>
        match hfree (hp s) p with
        | Some h' => Some (mkst 0 (ilen0 s) (pptr s) h' (reqs s) (EvFree p :: elog s), 0)
        | None => None
        end
      | None => None
      end
    else if curlen =? SSIZE_T_MIN then None                     (* -curlen overflows *)
    else Some (s, - curlen)
  else Some (s, curlen).

(* where the bytes of a setter come from: memory outside the node (given by value: the
   bytes readable at the pointer), or a pointer into a heap block — the case of a caller
   passing json_object_get_string(o) + off back to a setter of the same node.  A heap source is
   read when the C code reads it, from the heap as it is at that moment. *)
Inductive sptr :=
| PExt (bs : list byte)
| PHeap (id off : Z).

(* the source operand of a copy of n bytes: None = undefined.
   * external: n bytes must be readable;
   * heap: n = 0 accesses no byte (this is the zero-length path, where the old buffer has
     already been released); otherwise the block must be live and the range inside it.
   The cells are read before anything is stored, which is the meaning of memmove (the copy
   behaves as if through a temporary) and of memcpy into a fresh block: a source that
   overlaps the destination is defined, the bytes read are those before the call. *)
Definition src_read (h : heap) (p : sptr) (n : Z) : option cells :=
  match p with
  | PExt bs => if n >? zlen bs then None else Some (map Some (zfirstn n bs))
  | PHeap id off => if n =? 0 then Some [] else hread h id off n
  end.

(* copy [ulen] bytes from the source to the start of block [dst], then the terminator *)
Definition fill (h : heap) (dst : Z) (p : sptr) (ulen : Z) : option heap :=
  match src_read h p ulen with
  | None => None
  | Some cs =>
    match hstore h dst 0 cs with
    | None => None
    | Some h1 => hwrite h1 dst ulen [0]
    end
  end.

(* memmove(dstbuf, s, len); dstbuf[len] = '\0'; jso->len = newlen; return 1 *)
Definition set_finish (s : st) (dst : Z) (p : sptr) (ulen newlen : Z) : sres :=
  match fill (hp s) dst p ulen with
  | None => SUB
  | Some h2 =>
      (* inline bytes overwrite the representation of the pointer (union) *)
      SOk (mkst newlen (ilen0 s) (if dst =? 0 then None else pptr s) h2 (reqs s) (elog s)) 1
          [mkwr dst 0 ulen; mkwr dst ulen 1]
  end.

Definition set_string_sz (al : alloc) (s : st) (bs : sptr) (ulen : Z) : sres :=
  if ulen >=? INT_MAX - 1 then SOk s 0 [] else
  match set_phase1 s ulen with
  | None => SUB
  | Some (s1, curlen) =>
    match comp s1 with                         (* dstbuf = get_string_component_mutable(jso) *)
    | None => SUB
    | Some dst0 =>
      if ulen >? curlen then
        if al (reqs s1) (ulen + 1) then        (* dstbuf = malloc(len + 1) *)
          let '(h1, id) := hmalloc (hp s1) (ulen + 1) in
          (* memcpy(dstbuf, s, len); dstbuf[len] = '\0': the new buffer is filled while the
             old storage is still intact (the source may point into it) *)
          match fill h1 id bs ulen with
          | None => SUB
          | Some h1' =>
            let fr :=                          (* if (jso->len < 0) free(pdata) *)
              if slen s1 <? 0 then
                match pptr s1 with
                | Some p => match hfree h1' p with Some h => Some (h, [EvFree p]) | None => None end
                | None => None
                end
              else Some (h1', []) in
            match fr with
            | None => SUB
            | Some (h2, evs) =>
              match hstore h2 0 0 (zrepeat None PTRSZ) with     (* c_string.pdata = dstbuf *)
              | None => SUB
              | Some h3 =>                                        (* jso->len = -len; return 1 *)
                SOk (mkst (- ulen) (ilen0 s1) (Some id) h3 (reqs s1 + 1)
                          (evs ++ EvMalloc id (ulen + 1) :: elog s1)) 1
                    [mkwr id 0 ulen; mkwr id ulen 1]
              end
            end
          end
        else SOk (mkst (slen s1) (ilen0 s1) (pptr s1) (hp s1) (reqs s1 + 1) (elog s1)) 0 []
      else set_finish s1 dst0 bs ulen (if slen s1 <? 0 then - ulen else ulen)
    end
  end.

(* json_object_set_string_len(jso, s, int len) *)
Definition set_string_len (al : alloc) (s : st) (p : sptr) (len : Z) : sres :=
  set_string_sz al s p (to_size_t len).

(* strlen through a heap pointer: reading an indeterminate byte or running off the block is
   undefined *)
Fixpoint c_strlen_cells (cs : cells) : option Z :=
  match cs with
  | [] => None
  | None :: _ => None
  | Some b :: t => if b =? 0 then Some 0
                   else match c_strlen_cells t with Some n => Some (1 + n) | None => None end
  end.

Definition src_strlen (h : heap) (p : sptr) : option Z :=
  match p with
  | PExt bs => c_strlen bs
  | PHeap id off =>
      match znth h id with
      | Some b => if blive b && (0 <=? off) && (off <=? zlen (bcells b))
                  then c_strlen_cells (zskipn off (bcells b)) else None
      | None => None
      end
  end.

(* json_object_set_string(jso, s): strlen *)
Definition set_string (al : alloc) (s : st) (p : sptr) : sres :=
  match src_strlen (hp s) p with
  | Some n => set_string_sz al s p n
  | None => SUB
  end.

(* ---------------- delete (json_object_string_delete + generic_delete's free(jso)) ------- *)

Inductive dres := DOk (s : st) | DUB.

Definition str_delete (s : st) : dres :=
  let r :=
    if slen s <? 0 then
      match pptr s with
      | Some p => match hfree (hp s) p with Some h => Some (h, [EvFree p]) | None => None end
      | None => None
      end
    else Some (hp s, []) in
  match r with
  | None => DUB
  | Some (h1, evs) =>
    match hfree h1 0 with
    | None => DUB
    | Some h2 => DOk (mkst (slen s) (ilen0 s) (pptr s) h2 (reqs s) (EvFree 0 :: evs ++ elog s))
    end
  end.

(* ---------------- equality, copy, serialisation of a string node ---------------- *)

Fixpoint all_some (cs : cells) : option (list byte) :=
  match cs with
  | [] => Some []
  | Some b :: t => match all_some t with Some r => Some (b :: r) | None => None end
  | None :: _ => None
  end.

Definition read_bytes (s : st) (n : Z) : option (list byte) :=
  match str_read s n with Some cs => all_some cs | None => None end.

Fixpoint list_eqb (a b : list Z) : bool :=
  match a, b with
  | [], [] => true
  | x :: a', y :: b' => (x =? y) && list_eqb a' b'
  | _, _ => false
  end.

(* json_object_equal, case json_type_string: len1 == len2 && memcmp(c1, c2, len1) == 0;
   None = the comparison reads indeterminate or inaccessible memory *)
Definition str_equal (s1 s2 : st) : option bool :=
  if slen_abs s1 =? slen_abs s2 then
    match read_bytes s1 (slen_abs s1), read_bytes s2 (slen_abs s1) with
    | Some a, Some b => Some (list_eqb a b)
    | _, _ => None
    end
  else Some false.

(* json_object_deep_copy, case json_type_string:
   json_object_new_string_len(get_string_component(src), _json_object_get_string_len(src));
   the memory readable at the source is the contents and their terminator *)
Definition str_copy (al : alloc) (s : st) : nres :=
  match read_bytes s (slen_abs s + 1) with
  | Some bs => new_string_len al bs (to_int (slen_abs s))
  | None => NUB
  end.

(* json_escape_str: the bytes appended to the print buffer (the span bookkeeping of the C
   loop is C02's business; here only which bytes are emitted for which input byte).
   [c] is an unsigned char, so bytes >= 0x80 are never below ' '. *)
Definition hexdig (d : Z) : byte := if d <? 10 then 48 + d else 87 + d.

Definition esc1 (noslash : bool) (c : byte) : list byte :=
  if c =? 8 then [92; 98] else if c =? 10 then [92; 110] else if c =? 13 then [92; 114]
  else if c =? 9 then [92; 116] else if c =? 12 then [92; 102] else if c =? 34 then [92; 34]
  else if c =? 92 then [92; 92]
  else if c =? 47 then (if noslash then [47] else [92; 47])
  else if c <? 32 then [92; 117; 48; 48; hexdig (c / 16); hexdig (c mod 16)]
  else [c].

Definition escape (noslash : bool) (bs : list byte) : list byte := flat_map (esc1 noslash) bs.

(* json_object_string_to_json_string (no COLOR flag): '"' escape(component, |len|) '"' *)
Definition str_ser (noslash : bool) (s : st) : option (list byte) :=
  match read_bytes s (slen_abs s) with
  | Some bs => Some (34 :: escape noslash bs ++ [34])
  | None => None
  end.

(* ---------------- histories ---------------- *)

Inductive sop :=
| OpSetLen (bs : list byte) (len : Z)     (* json_object_set_string_len(o, bs, len) *)
| OpSet (bs : list byte)                  (* json_object_set_string(o, bs) *)
| OpSetOwnLen (off len : Z)               (* json_object_set_string_len(o, json_object_get_string(o) + off, len) *)
| OpSetOwn (off : Z).                     (* json_object_set_string(o, json_object_get_string(o) + off) *)

Definition str_step (al : alloc) (s : st) (o : sop) : sres :=
  match o with
  | OpSetLen bs len => set_string_len al s (PExt bs) len
  | OpSet bs => set_string al s (PExt bs)
  | OpSetOwnLen off len =>
      match comp s with Some id => set_string_len al s (PHeap id off) len | None => SUB end
  | OpSetOwn off =>
      match comp s with Some id => set_string al s (PHeap id off) | None => SUB end
  end.

(* what the property statement calls "the bytes set"; [c] = the contents at the call, which
   are what an own-buffer source points into *)
Definition cstr (bs : list byte) : list byte :=
  match c_strlen bs with Some n => zfirstn n bs | None => bs end.

Definition op_bytes (c : list byte) (o : sop) : list byte :=
  match o with
  | OpSetLen bs len => zfirstn len bs
  | OpSet bs => cstr bs
  | OpSetOwnLen off len => zfirstn len (zskipn off (c ++ [0]))    (* the terminator is readable too *)
  | OpSetOwn off => cstr (zskipn off c ++ [0])
  end.
