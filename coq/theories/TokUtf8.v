(* TokUtf8.v — JSON_TOKENER_VALIDATE_UTF8 is neutral on texts that are valid UTF-8 (C01/C03/C16
   "every flag setting").  Independent of the grammar: the flag is read only by the per-byte
   validation step of the loop and by finish_call's test of a pending sequence; the dispatch
   (step1) neither reads the flag nor the byte counter.  Hence every theorem of the form
   "parse_ex_cstr of a NUL-free text succeeds with end offset = length of the text" transfers to
   the validating parser when the validator scan of the text succeeds with nothing pending. *)
From JC Require Import Base BaseLemmas Value TokModel TokFrame TokStack TokTotal TokStream2.
Local Open Scope Z_scope.

Definition set_vf (t : tok) (b : bool) : tok :=
  mktok (stack t) (max_depth t) (pb t) (is_double t) (st_pos t) (ucs_char t) (high_surrogate t) (quote_char t)
        (strict t) (allow_trailing t) b (char_offset t) (err t).
Definition sres_map (f : tok -> tok) (r : sres) : sres :=
  match r with Consumed t l => Consumed (f t) l | Redo t l => Redo (f t) l | Out t l => Out (f t) l end.
Section S.
Variable sb : list byte -> Z.
Lemma emit_vf t u l b : emit_unicode (set_vf t b) u l = sres_map (fun x => set_vf x b) (emit_unicode t u l).
Proof. unfold emit_unicode. repeat match goal with |- context [if ?c then _ else _] => destruct c end; reflexivity. Qed.
Lemma finish_vf t l b : finish_unicode (set_vf t b) l = sres_map (fun x => set_vf x b) (finish_unicode t l).
Proof.
  unfold finish_unicode, resolve_pair.
  change (high_surrogate (set_st_pos (set_vf t b) 0)) with (high_surrogate (set_st_pos t 0)).
  change (ucs_char (set_st_pos (set_vf t b) 0)) with (ucs_char (set_st_pos t 0)).
  destruct (negb (high_surrogate (set_st_pos t 0) =? 0)); [destruct (is_low_surrogate (ucs_char (set_st_pos t 0)))|]; cbn [fst snd];
    match goal with |- emit_unicode _ ?u ?l0 = sres_map _ (emit_unicode ?t0 _ _) => exact (emit_vf t0 u l0 b) end.
Qed.
Lemma classify_vf t b : classify_number sb (set_vf t b) = classify_number sb t.
Proof. reflexivity. Qed.

Ltac ifs := repeat match goal with |- context [if ?c then _ else _] => destruct c end.

Lemma step1_vf t l b : step1 sb (set_vf t b) l = sres_map (fun x => set_vf x b) (step1 sb t l).
Proof.
  destruct t as [stk md p d sp u hi q sf al v off e].
  unfold step1. change (st (set_vf (mktok stk md p d sp u hi q sf al v off e) b)) with (st (mktok stk md p d sp u hi q sf al v off e)).
  destruct (st (mktok stk md p d sp u hi q sf al v off e)) eqn:Est.
  Time all: cbn [set_vf stack max_depth pb is_double st_pos ucs_char high_surrogate quote_char strict allow_trailing validate_utf8 char_offset err
       sv top depth set_state set_top set_pb set_st_pos set_ucs set_high set_quote set_is_double set_stack set_err append value_done fail lit_match num_char_ok].
  Time all: try (ifs; reflexivity).
  all: clear Est.
  Time all: try (repeat match goal with
         | |- finish_unicode ?A ?l0 = sres_map _ (finish_unicode ?B _) => exact (finish_vf B l0 b)
         | |- context [if ?c then _ else _] => destruct c
         | |- context [match ?x with _ => _ end] => destruct x
         end; reflexivity).
  all: repeat match goal with |- context [if ?c then _ else _] =>
         let c' := eval cbv beta iota delta [set_vf append set_pb set_st_pos set_state set_top lit_match num_char_ok depth st sv top
                    stack max_depth pb is_double st_pos ucs_char high_surrogate quote_char strict allow_trailing validate_utf8 char_offset err] in c in
         progress change c with c' end.
  Time all: try (ifs; reflexivity).
  Time ifs; try reflexivity.
  all: repeat match goal with |- context [classify_number sb ?A] => match goal with |- context [classify_number sb ?B] =>
         tryif constr_eq A B then fail else change (classify_number sb A) with (classify_number sb B) end end.
  all: repeat match goal with |- context [match ?x with _ => _ end] => destruct x end; reflexivity.
Qed.

(* ---------------------------------------------------------------- the byte counter is passed through *)
Definition set_nb (k : Z) (l : locals) : locals := mkloc (lc l) k (lobj l) (lnum l).
Definition sres_lmap (f : locals -> locals) (r : sres) : sres :=
  match r with Consumed t l => Consumed t (f l) | Redo t l => Redo t (f l) | Out t l => Out t (f l) end.

Lemma step1_nb t c k k0 lo ln :
  step1 sb t (mkloc c k lo ln) = sres_lmap (set_nb k) (step1 sb t (mkloc c k0 lo ln)).
Proof.
  unfold step1. cbn [lc nbytes lobj lnum]. destruct (st t).
  all: try (ifs; reflexivity).
  all: repeat match goal with
         | |- context [if ?c then _ else _] => destruct c
         | |- context [match ?x with _ => _ end] => destruct x
         end; try reflexivity.
  all: unfold finish_unicode, emit_unicode; ifs; reflexivity.
Qed.

(* both at once *)
Definition smap (b : bool) (k : Z) (r : sres) : sres := sres_lmap (set_nb k) (sres_map (fun x => set_vf x b) r).

Lemma redo_vn fuel : forall t c k k0 lo ln b,
  redo sb fuel (set_vf t b) (mkloc c k lo ln) = option_map (smap b k) (redo sb fuel t (mkloc c k0 lo ln)).
Proof.
  induction fuel as [|f IH]; intros t c k k0 lo ln b; [reflexivity|]. cbn [redo].
  rewrite step1_vf, (step1_nb t c k k0 lo ln).
  destruct (step1 sb t (mkloc c k0 lo ln)) as [t1 l1|t1 l1|t1 l1]; cbn [sres_lmap sres_map]; try reflexivity.
  destruct l1 as [c1 n1 lo1 ln1]. unfold set_nb at 1. cbn [lc lobj lnum]. apply IH.
Qed.

(* ---------------------------------------------------------------- the loop *)
(* the bytes the (non-validating) loop looks at: up to and including the byte at which it stops *)
Fixpoint seen (bytes : list byte) (t : tok) (l : locals) : list byte :=
  match bytes with
  | [] => []
  | b :: rest =>
      match redo sb REDO_FUEL t (mkloc b (nbytes l) (lobj l) (lnum l)) with
      | Some (Consumed t' l') => if b =? 0 then [b] else b :: seen rest (set_off t' (char_offset t' + 1)) l'
      | _ => [b]
      end
  end.

Definition lmap (b : bool) (k : Z) (r : loopres) : loopres :=
  match r with LOut t l => LOut (set_vf t b) (set_nb k l) | LFuel => LFuel end.

Lemma run_vf bytes : forall t x k k0 lo ln kf,
  validate_utf8 t = false -> u8scan k (seen bytes t (mkloc x k0 lo ln)) = Some kf ->
  run sb bytes (set_vf t true) (mkloc x k lo ln) = lmap true kf (run sb bytes t (mkloc x k0 lo ln)).
Proof.
  induction bytes as [|b rest IH]; intros t x k k0 lo ln kf Hv Hs.
  - cbn [seen u8scan] in Hs. inversion Hs; subst. reflexivity.
  - cbn [seen nbytes lobj lnum] in Hs.
    assert (Ek : exists k1, validate_utf8_step b k = Some k1).
    { destruct (redo sb REDO_FUEL t (mkloc b k0 lo ln)) as [[? ?|? ?|? ?]|]; try destruct (b =? 0); cbn [u8scan] in Hs;
        destruct (validate_utf8_step b k); try discriminate; eauto. }
    destruct Ek as (k1 & Ek).
    cbn [run]. cbn [validate_utf8 set_vf nbytes lobj lnum]. rewrite Hv, Ek.
    rewrite (redo_vn REDO_FUEL t b k1 k0 lo ln true).
    destruct (redo sb REDO_FUEL t (mkloc b k0 lo ln)) as [[t1 l1|t1 l1|t1 l1]|] eqn:R; cbn [option_map smap sres_lmap sres_map].
    + destruct (b =? 0) eqn:Eb.
      * cbn [u8scan] in Hs. rewrite Ek in Hs. inversion Hs; subst. reflexivity.
      * cbn [u8scan] in Hs. rewrite Ek in Hs.
        destruct l1 as [c1 n1 lo1 ln1]. unfold set_nb. cbn [lc lobj lnum].
        change (set_off (set_vf t1 true) (char_offset (set_vf t1 true) + 1)) with (set_vf (set_off t1 (char_offset t1 + 1)) true).
        apply IH; [|exact Hs].
        pose proof (redo_cfg sb _ _ _ _ R) as C. cbn [sres_tok] in C. unfold cfg in C. inversion C. cbn [validate_utf8 set_off]. congruence.
    + reflexivity.
    + cbn [u8scan] in Hs. rewrite Ek in Hs. inversion Hs; subst. destruct l1 as [c1 n1 lo1 ln1]. reflexivity.
    + reflexivity.
Qed.

(* a NUL-terminated, NUL-free text that the loop reads to its end is looked at completely *)
Lemma seen_all doc : forall t l t' l',
  validate_utf8 t = false ->
  Forall (fun b => b <> 0) doc -> run sb (doc ++ [0]) t l = LOut t' l' ->
  char_offset t' = char_offset t + zlen doc -> seen (doc ++ [0]) t l = doc ++ [0].
Proof.
  induction doc as [|b r IH]; intros t l t' l' Hv Hz E Ho.
  - cbn [app seen]. destruct (redo sb REDO_FUEL t _) as [[? ?|? ?|? ?]|]; reflexivity.
  - inversion Hz as [|? ? Hb Hr]; subst. cbn [app seen run] in *. rewrite Hv in E.
    assert (Eb : (b =? 0) = false) by lia. pose proof (zlen_nonneg r) as Hnn.
    destruct (redo sb REDO_FUEL t (mkloc b (nbytes l) (lobj l) (lnum l))) as [[t1 l1|t1 l1|t1 l1]|] eqn:R; try discriminate.
    + rewrite Eb in *. pose proof (redo_cfg sb _ _ _ _ R) as C. cbn [sres_tok] in C. unfold cfg in C. inversion C.
      f_equal. apply (IH _ _ t' l'); [cbn [validate_utf8 set_off]; congruence|exact Hr|exact E|].
      cbn [char_offset set_off zlen] in *. lia.
    + inversion E; subst. pose proof (redo_cfg sb _ _ _ _ R) as C. cbn [sres_tok] in C. unfold cfg in C. inversion C.
      cbn [zlen] in Ho. lia.
Qed.

(* ---------------------------------------------------------------- the code after the loop *)
Definition pmap (b : bool) (r : presult) : presult :=
  match r with PR t v => PR (set_vf t b) v | PRFuel => PRFuel end.

Lemma finish_call_vf t l : validate_utf8 t = false ->
  finish_call (set_vf t true) (set_nb 0 l) = pmap true (finish_call t l).
Proof.
  intros Hv. destruct t as [stk md p d sp u hi q sf al v off e]. cbn [validate_utf8] in Hv. subst v.
  destruct l as [c nb lo ln]. unfold finish_call.
  change (nbytes (set_nb 0 (mkloc c nb lo ln)) =? 0) with true.
  repeat (cbv beta iota delta [set_vf set_nb lc nbytes lobj lnum st sv top depth stack max_depth pb is_double st_pos ucs_char high_surrogate quote_char strict
               allow_trailing validate_utf8 char_offset err set_err andb negb];
          match goal with |- context [if ?c0 then _ else _] => lazymatch c0 with context [if _ then _ else _] => fail | _ => destruct c0 end end).
  all: cbv beta iota delta [set_vf set_nb err set_err stack max_depth pb is_double st_pos ucs_char high_surrogate quote_char strict
            allow_trailing validate_utf8 char_offset pmap reset_levels set_stack]; destruct e; reflexivity.
Qed.

(* ---------------------------------------------------------------- the transfer theorem *)
Definition nonulb (l : list byte) : bool := forallb (fun b => negb (b =? 0)) l.
Lemma nonulb_Forall l : nonulb l = true -> Forall (fun b => b <> 0) l.
Proof. unfold nonulb. rewrite forallb_forall, Forall_forall. intros H x Hx. specialize (H x Hx). lia. Qed.
Lemma upto_nul_nonulb l : nonulb l = true -> upto_nul l = l ++ [0].
Proof.
  induction l as [|b l IH]; [reflexivity|]. cbn [nonulb forallb upto_nul]. intros H. apply andb_true_iff in H. destruct H as [H1 H2].
  destruct (b =? 0); [discriminate|]. fold (nonulb l) in H2. rewrite (IH H2). reflexivity.
Qed.

(* whatever the grammar: a text without NUL on which the plain parser succeeds at the end of
   the text, and which is valid UTF-8, gives the same result with JSON_TOKENER_VALIDATE_UTF8 *)
Theorem validate_utf8_neutral t text t' r :
  validate_utf8 t = false -> nonulb text = true -> u8scan 0 text = Some 0 ->
  parse_ex_cstr sb t text = PR t' r -> char_offset t' = zlen text ->
  parse_ex_cstr sb (set_vf t true) text = PR (set_vf t' true) r.
Proof.
  intros Hv Hz Hs E Ho. unfold parse_ex_cstr in *. rewrite (upto_nul_nonulb text Hz) in *. unfold parse_ex in *.
  change (set_err (set_off (set_vf t true) 0) TE_success) with (set_vf (set_err (set_off t 0) TE_success) true).
  set (t0 := set_err (set_off t 0) TE_success) in *.
  destruct (run sb (text ++ [0]) t0 (mkloc 1 0 JNull None)) as [t1 l1|] eqn:R; [|discriminate].
  destruct (finish_call_shape t1 l1 t' r E) as (_ & Hoff & _).
  assert (Hseen : seen (text ++ [0]) t0 (mkloc 1 0 JNull None) = text ++ [0]).
  { apply (seen_all text t0 _ t1 l1); [exact Hv|apply nonulb_Forall; exact Hz|exact R|]. subst t0. cbn [char_offset set_err set_off]. lia. }
  rewrite (run_vf (text ++ [0]) t0 1 0 0 JNull None 0 Hv).
  2:{ rewrite Hseen, u8scan_app, Hs. reflexivity. }
  rewrite R. cbn [lmap].
  assert (Hv1 : validate_utf8 t1 = false).
  { destruct (run_bounds sb _ _ _ _ _ R) as [C _]. unfold cfg0 in C. inversion C. subst t0. cbn [validate_utf8 set_err set_off] in *. congruence. }
  rewrite (finish_call_vf t1 l1 Hv1), E. reflexivity.
Qed.

Lemma tok_new_vf D sf al t : tok_new D sf al false = Some t -> tok_new D sf al true = Some (set_vf t true) /\ validate_utf8 t = false.
Proof. unfold tok_new. destruct (D <? 1); [discriminate|]. intros H. inversion H. split; reflexivity. Qed.

End S.
