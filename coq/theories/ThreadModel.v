(* ThreadModel.v — C18: small-step interleaving semantics of N threads over shared cells.

   A thread runs a list of API calls (json_object_get / json_object_put on a node, or the
   default key hash lh_char_hash).  Each call is expanded into the *micro-operation program*
   that tr/atomics.py extracts from the preprocessed json_object.c / linkhash.c
   (ThreadImpl.v, regenerated on every run).  A schedule is a list of thread ids: the
   named thread takes its next micro-step.  An atomic micro-operation (the __sync builtins)
   reads and writes its cell in ONE step; the plain `++x` / `--x` / `x = v` forms are a
   separate [Load] and [Store] step, so other threads can run in between.

   No proofs in this file.  Executable, total.  The random source of the seed is an oracle
   argument [rnd].

   Micro-operations (reg, fresh are thread-local; cells are shared):
     AtomicAdd c d        __sync_add_and_fetch(&c,d), result discarded
     AtomicSub c d        __sync_sub_and_fetch(&c,d), result discarded
     AtomicSubFetch c d   reg := __sync_sub_and_fetch(&c,d)
     Load c               reg := c                     (plain read)
     AtomicLoad c         reg := c                     (atomic read, e.g. __sync_add_and_fetch(&c,0))
     Store c d            c := reg + d ; reg := reg+d  (plain write: second half of ++c / --c)
     BranchDestroyIfResultZero n
                          `if (reg > 0) return 0;` else the destroy path of node n runs
     IfUnset body         `if (reg == -1) { body }`
     CallRandom           fresh := json_c_get_random_seed()
     RetryIfUnset         `while (fresh == -1)` : call again
     CAS c e              __sync_val_compare_and_swap(&c, e, fresh), result discarded
     CASOnce c d          __sync_{val,bool}_compare_and_swap(&c, reg, reg + d), result ignored,
                          NOT retried: the update is lost when c no longer holds reg
     StoreFresh c         c := fresh                   (plain write)
     ReadForHash w        the value handed to hashlittle: Shared = a (plain) read of the
                          seed variable; Local = the function's local copy, i.e. the value
                          loaded at entry ([reg]) unless that was the sentinel -1, in which
                          case the thread's own [fresh] value
   The reference count is a uint32_t: arithmetic on cells wraps modulo 2^32. *)
From JC Require Import Base.
Local Open Scope Z_scope.

Inductive cell := RC (n : nat) | Seed.

Definition cell_eqb (a b : cell) : bool :=
  match a, b with
  | RC n, RC m => Nat.eqb n m
  | Seed, Seed => true
  | _, _ => false
  end.

Inductive which := Shared | Local.

Inductive mop :=
| Skip
| AtomicAdd (c : cell) (d : Z)
| AtomicSub (c : cell) (d : Z)
| AtomicSubFetch (c : cell) (d : Z)
| Load (c : cell)
| AtomicLoad (c : cell)
| Store (c : cell) (d : Z)
| BranchDestroyIfResultZero (n : nat)
| IfUnset (body : list mop)
| CallRandom
| RetryIfUnset
| CAS (c : cell) (expected : Z)
| CASOnce (c : cell) (d : Z)
| StoreFresh (c : cell)
| ReadForHash (w : which).

(* what the translator produces *)
Record impl_t := mkImpl {
  get_p : nat -> list mop;      (* json_object_get on node n *)
  put_p : nat -> list mop;      (* json_object_put on node n *)
  seed_p : list mop             (* lh_char_hash: seed initialisation + the read that feeds the hash *)
}.

Inductive call := Get (n : nat) | Put (n : nat) | Hash.

(* observable events, newest first in the trace.  [EvAcc t c atomic v]: thread t accessed
   cell c (v = the value read, or the new value written). *)
Inductive event :=
| EvAcc (t : nat) (c : cell) (atomic : bool) (v : Z)
| EvInstall (t : nat) (c : cell) (v : Z) (atomic : bool)   (* a write of [fresh] into the seed variable *)
| EvDestroy (t : nat) (n : nat)                            (* the destroy path of node n ran *)
| EvHash (t : nat) (v : Z).                                (* a hash was computed with seed v *)

(* [held]: the client's ledger — how many references to each node the thread owns.  It is
   specification state: no micro-operation reads it.  A call of Get adds one, a call of Put
   gives one up (at the moment of the call). *)
Record thread := mkT {
  prog : list call;
  cur : list mop;
  reg : Z;
  fresh : Z;
  held : nat -> Z
}.

Record state := mkS {
  mem : cell -> Z;
  thr : list thread;
  trace : list event;
  rnd_i : nat
}.

Definition wrap32 (z : Z) : Z := z mod 4294967296.

Definition wr (m : cell -> Z) (c : cell) (v : Z) : cell -> Z :=
  fun x => if cell_eqb x c then v else m x.

Definition set_cur (th : thread) (c : list mop) := mkT (prog th) c (reg th) (fresh th) (held th).
Definition set_reg (th : thread) (v : Z) := mkT (prog th) (cur th) v (fresh th) (held th).
Definition set_fresh (th : thread) (v : Z) := mkT (prog th) (cur th) (reg th) v (held th).

Definition bump (h : nat -> Z) (n : nat) (d : Z) : nat -> Z :=
  fun x => if Nat.eqb x n then h x + d else h x.

Fixpoint upd {A} (l : list A) (i : nat) (x : A) : list A :=
  match l, i with
  | [], _ => []
  | _ :: r, O => x :: r
  | a :: r, S j => a :: upd r j x
  end.

Section Sem.
Variable im : impl_t.
Variable rnd : nat -> Z.          (* the k-th result of json_c_get_random_seed() in the process *)

Definition expand (c : call) : list mop :=
  match c with
  | Get n => get_p im n
  | Put n => put_p im n
  | Hash => seed_p im
  end.

Definition ledger (c : call) (h : nat -> Z) : nat -> Z :=
  match c with
  | Get n => bump h n 1
  | Put n => bump h n (-1)
  | Hash => h
  end.

(* the next micro-operation of a thread and the thread with that operation removed; an idle
   thread starts its next call (and executes the call's first micro-operation in the same
   step).  None: the thread has finished. *)
Definition ready (th : thread) : option (mop * thread) :=
  match cur th with
  | m :: c => Some (m, set_cur th c)
  | [] =>
    match prog th with
    | [] => None
    | cl :: p =>
      let ops := expand cl in
      Some (hd Skip ops, mkT p (tl ops) (reg th) (fresh th) (ledger cl (held th)))
    end
  end.

(* one micro-operation of thread t; [th] already has the operation removed from [cur] *)
Definition exec (t : nat) (m : cell -> Z) (ri : nat) (th : thread) (op : mop)
  : (cell -> Z) * thread * list event * nat :=
  match op with
  | Skip => (m, th, [], ri)
  | AtomicAdd c d => let v := wrap32 (m c + d) in (wr m c v, th, [EvAcc t c true v], ri)
  | AtomicSub c d => let v := wrap32 (m c - d) in (wr m c v, th, [EvAcc t c true v], ri)
  | AtomicSubFetch c d =>
      let v := wrap32 (m c - d) in (wr m c v, set_reg th v, [EvAcc t c true v], ri)
  | Load c => (m, set_reg th (m c), [EvAcc t c false (m c)], ri)
  | AtomicLoad c => (m, set_reg th (m c), [EvAcc t c true (m c)], ri)
  | Store c d => let v := wrap32 (reg th + d) in (wr m c v, set_reg th v, [EvAcc t c false v], ri)
  | BranchDestroyIfResultZero n =>
      if 0 <? reg th then (m, th, [], ri) else (m, th, [EvDestroy t n], ri)
  | IfUnset b =>
      if reg th =? -1 then (m, set_cur th (b ++ cur th), [], ri) else (m, th, [], ri)
  | CallRandom => (m, set_fresh th (rnd ri), [], S ri)
  | RetryIfUnset =>
      if fresh th =? -1 then (m, set_cur th (CallRandom :: RetryIfUnset :: cur th), [], ri)
      else (m, th, [], ri)
  | CAS c e =>
      if m c =? e then (wr m c (fresh th), th, [EvInstall t c (fresh th) true], ri)
      else (m, th, [EvAcc t c true (m c)], ri)
  | CASOnce c d =>
      if m c =? reg th then let v := wrap32 (reg th + d) in (wr m c v, th, [EvAcc t c true v], ri)
      else (m, th, [EvAcc t c true (m c)], ri)
  | StoreFresh c => (wr m c (fresh th), th, [EvInstall t c (fresh th) false], ri)
  | ReadForHash Shared => (m, th, [EvHash t (m Seed); EvAcc t Seed false (m Seed)], ri)
  | ReadForHash Local =>
      (m, th, [EvHash t (if reg th =? -1 then fresh th else reg th)], ri)
  end.

(* thread t takes one micro-step (a finished or non-existent thread: nothing happens) *)
Definition step (st : state) (t : nat) : state :=
  match nth_error (thr st) t with
  | None => st
  | Some th =>
    match ready th with
    | None => st
    | Some (op, th1) =>
      match exec t (mem st) (rnd_i st) th1 op with
      | (m', th2, evs, ri) => mkS m' (upd (thr st) t th2) (evs ++ trace st) ri
      end
    end
  end.

Fixpoint run (st : state) (sch : list nat) : state :=
  match sch with
  | [] => st
  | t :: r => run (step st t) r
  end.

End Sem.

(* initial configuration: [rc0 n] = the count of node n, the seed unset (-1), each thread
   with its program and the references handed to it *)
Definition init_thread (p : list call) (h : nat -> Z) : thread := mkT p [] 0 0 h.

Definition init_state (rc0 : nat -> Z) (ths : list (list call * (nat -> Z))) : state :=
  mkS (fun c => match c with RC n => rc0 n | Seed => -1 end)
      (map (fun ph => init_thread (fst ph) (snd ph)) ths) [] O.

Definition thread_done (th : thread) : bool :=
  match prog th, cur th with [], [] => true | _, _ => false end.

Definition finished (st : state) : bool := forallb thread_done (thr st).

(* observations *)
Fixpoint destroy_count (n : nat) (tr : list event) : Z :=
  match tr with
  | [] => 0
  | EvDestroy _ k :: r => (if Nat.eqb k n then 1 else 0) + destroy_count n r
  | _ :: r => destroy_count n r
  end.

Fixpoint hashes (tr : list event) : list Z :=
  match tr with
  | [] => []
  | EvHash _ v :: r => v :: hashes r
  | _ :: r => hashes r
  end.

Fixpoint installs (tr : list event) : list Z :=
  match tr with
  | [] => []
  | EvInstall _ Seed v _ :: r => v :: installs r
  | _ :: r => installs r
  end.

(* the events that concern node n (accesses of its count, its destruction) *)
Definition on_node (n : nat) (e : event) : bool :=
  match e with
  | EvAcc _ c _ _ => cell_eqb c (RC n)
  | EvInstall _ c _ _ => cell_eqb c (RC n)
  | EvDestroy _ k => Nat.eqb k n
  | EvHash _ _ => false
  end.

Definition node_trace (n : nat) (tr : list event) : list event := filter (on_node n) tr.

(* calls of a program that concern node n *)
Fixpoint count_get (n : nat) (p : list call) : Z :=
  match p with
  | [] => 0
  | Get k :: r => (if Nat.eqb k n then 1 else 0) + count_get n r
  | _ :: r => count_get n r
  end.

Fixpoint count_put (n : nat) (p : list call) : Z :=
  match p with
  | [] => 0
  | Put k :: r => (if Nat.eqb k n then 1 else 0) + count_put n r
  | _ :: r => count_put n r
  end.

Definition zsum (l : list Z) : Z := fold_right Z.add 0 l.

(* the ownership discipline of a client thread for node n: it calls get/put on n only
   while it owns at least one reference (h = references owned before the program runs) *)
Fixpoint respects (n : nat) (h : Z) (p : list call) : Prop :=
  match p with
  | [] => True
  | Get k :: r => if Nat.eqb k n then 1 <= h /\ respects n (h + 1) r else respects n h r
  | Put k :: r => if Nat.eqb k n then 1 <= h /\ respects n (h - 1) r else respects n h r
  | Hash :: r => respects n h r
  end.

(* the two reference implementations the theorems talk about *)
Definition atomic_get (n : nat) : list mop := [AtomicAdd (RC n) 1].
Definition atomic_put (n : nat) : list mop := [AtomicSubFetch (RC n) 1; BranchDestroyIfResultZero n].
Definition cas_seed : list mop :=
  [Load Seed; IfUnset [CallRandom; RetryIfUnset; CAS Seed (-1)]; ReadForHash Shared].

(* negative controls *)
Definition plain_get (n : nat) : list mop := [Load (RC n); Store (RC n) 1].
Definition plain_put (n : nat) : list mop :=
  [Load (RC n); Store (RC n) (-1); BranchDestroyIfResultZero n].
Definition casonce_get (n : nat) : list mop := [Load (RC n); CASOnce (RC n) 1].
Definition reread_put (n : nat) : list mop :=
  [AtomicSub (RC n) 1; Load (RC n); BranchDestroyIfResultZero n].
Definition reread_atomic_put (n : nat) : list mop :=
  [AtomicSub (RC n) 1; AtomicLoad (RC n); BranchDestroyIfResultZero n].
Definition local_seed : list mop :=
  [Load Seed; IfUnset [CallRandom; RetryIfUnset; CAS Seed (-1)]; ReadForHash Local].
Definition noretry_seed : list mop :=
  [Load Seed; IfUnset [CallRandom; CAS Seed (-1)]; ReadForHash Shared].
Definition store_seed : list mop :=
  [Load Seed; IfUnset [CallRandom; RetryIfUnset; StoreFresh Seed]; ReadForHash Shared].
