(* SerSpec.v — RFC 8259 as a syntax with denotation, written from the RFC grammar only
   (no reference to json-c or to SerModel).  A JSON text is a byte string [t] such that
   [rfc8259_text t]: there is a syntax tree [s] with [stx_ok s = true] whose rendering,
   between two whitespace runs, is [t].  The tree records every spelling choice the
   grammar leaves open (whitespace at each position, escape form of every character, hex
   digit case, the literal number token), so that "t is RFC 8259 text denoting x" is
   [exists s, stx_ok s = true /\ render s = t /\ value s = x], short enough to audit
   against sections 2-7 of the RFC.

   Bytes.  The RFC defines texts over Unicode code points, encoded in UTF-8.  This reading is
   byte-level: an `unescaped` character is any byte >= 0x20 other than 0x22 and 0x5C; the
   bytes >= 0x80 of a multi-byte UTF-8 sequence are therefore taken one at a time and
   denote themselves.  A text whose strings are well-formed UTF-8 is well-formed UTF-8; a
   byte string that is not UTF-8 is still recognised here (the JSON grammar itself has no
   opinion on it, the encoding rule of section 8.1 has).  \uXXXX escapes denote the UTF-8
   encoding of the code point; a surrogate escape must be half of a pair (a lone surrogate
   is not accepted: stricter than the grammar, in line with section 8.2). *)
From JC Require Import Base.
Local Open Scope Z_scope.

(* ------------------------------------------------------------------ section 2: ws *)
(* ws = *( %x20 / %x09 / %x0A / %x0D ) *)
Inductive wsc := WSp | WTab | WLf | WCr.
Definition wsc_byte (c : wsc) : byte := match c with WSp => 32 | WTab => 9 | WLf => 10 | WCr => 13 end.
Definition ws := list wsc.
Definition render_ws (w : ws) : list byte := map wsc_byte w.

(* ------------------------------------------------------------------ section 6: numbers *)
(* number = [ minus ] int [ frac ] [ exp ];  int = zero / ( digit1-9 *DIGIT );
   frac = decimal-point 1*DIGIT;  exp = e [ minus / plus ] 1*DIGIT *)
Inductive esign := ENone | EPlus | EMinus.
Record numtok := mknum {
  n_neg : bool;
  n_int : list byte;                                   (* the digits of int *)
  n_frac : option (list byte);                         (* the digits after the point *)
  n_exp : option (bool * esign * list byte) }.         (* (upper-case E?, sign, digits) *)

Definition digit (c : byte) : bool := (48 <=? c) && (c <=? 57).
Definition digits1 (ds : list byte) : bool := match ds with [] => false | _ => forallb digit ds end.

Definition num_ok (n : numtok) : bool :=
  digits1 (n_int n) &&
  match n_int n with [c] => true | c :: _ => negb (c =? 48) | [] => false end &&     (* no leading zero *)
  match n_frac n with Some f => digits1 f | None => true end &&
  match n_exp n with Some (_, _, ds) => digits1 ds | None => true end.

Definition render_exp (e : option (bool * esign * list byte)) : list byte :=
  match e with
  | None => []
  | Some (upper, sg, ds) =>
      (if upper then 69 else 101) :: match sg with ENone => [] | EPlus => [43] | EMinus => [45] end ++ ds
  end.
Definition render_frac (f : option (list byte)) : list byte :=
  match f with None => [] | Some ds => 46 :: ds end.
Definition render_num (n : numtok) : list byte :=
  (if n_neg n then [45] else []) ++ n_int n ++ render_frac (n_frac n) ++ render_exp (n_exp n).

(* the number a token denotes, exactly: (m, e) stands for m * 10^e *)
Definition digits_value (ds : list byte) : Z := fold_left (fun a c => a * 10 + (c - 48)) ds 0.
Definition num_val (n : numtok) : Z * Z :=
  let fr := match n_frac n with Some f => f | None => [] end in
  let m := digits_value (n_int n ++ fr) in
  let ex := match n_exp n with
            | Some (_, EMinus, ds) => - digits_value ds
            | Some (_, _, ds) => digits_value ds
            | None => 0 end in
  (if n_neg n then - m else m, ex - zlen fr).

(* equality of the rationals m1 * 10^e1 and m2 * 10^e2, in integer arithmetic *)
Definition dec_eq (a b : Z * Z) : Prop :=
  let lo := Z.min (snd a) (snd b) in
  fst a * 10 ^ (snd a - lo) = fst b * 10 ^ (snd b - lo).

(* ------------------------------------------------------------------ section 7: strings *)
(* char = unescaped / escape ( %x22 / %x5C / %x2F / %x62 / %x66 / %x6E / %x72 / %x74 / %x75 4HEXDIG ) *)
Inductive esc := EQuote | EBackslash | ESolidus | EB | EF | EN | ER | ET.
Definition esc_letter (e : esc) : byte :=
  match e with EQuote => 34 | EBackslash => 92 | ESolidus => 47 | EB => 98 | EF => 102 | EN => 110 | ER => 114 | ET => 116 end.
Definition esc_value (e : esc) : byte :=
  match e with EQuote => 34 | EBackslash => 92 | ESolidus => 47 | EB => 8 | EF => 12 | EN => 10 | ER => 13 | ET => 9 end.

(* one hex digit: its value 0..15 and, for a..f, the case *)
Definition hexdig (upper : bool) (d : Z) : byte := if d <? 10 then 48 + d else (if upper then 55 else 87) + d.
(* four hex digits of a 16-bit unit, with a case choice per digit *)
Definition hex4 (cs : bool * bool * bool * bool) (u : Z) : list byte :=
  let '(c1, c2, c3, c4) := cs in
  [hexdig c1 (u / 4096); hexdig c2 ((u / 256) mod 16); hexdig c3 ((u / 16) mod 16); hexdig c4 (u mod 16)].

Definition high_surrogate (u : Z) : bool := (55296 <=? u) && (u <=? 56319).
Definition low_surrogate (u : Z) : bool := (56320 <=? u) && (u <=? 57343).

(* RFC 3629 *)
Definition utf8 (u : Z) : list byte :=
  if u <? 128 then [u]
  else if u <? 2048 then [192 + u / 64; 128 + u mod 64]
  else if u <? 65536 then [224 + u / 4096; 128 + (u / 64) mod 64; 128 + u mod 64]
  else [240 + u / 262144; 128 + (u / 4096) mod 64; 128 + (u / 64) mod 64; 128 + u mod 64].

Inductive schar :=
| CRaw (b : byte)                                                   (* unescaped, one byte *)
| CEsc (e : esc)                                                    (* the two-character escapes: quote backslash solidus b f n r t *)
| CU (cs : bool * bool * bool * bool) (u : Z)                       (* \uXXXX, not a surrogate *)
| CUPair (cs1 cs2 : bool * bool * bool * bool) (hi lo : Z).         (* \uD8xx\uDCxx *)

Definition schar_ok (c : schar) : bool :=
  match c with
  | CRaw b => (32 <=? b) && (b <=? 255) && negb (b =? 34) && negb (b =? 92)
  | CEsc _ => true
  | CU _ u => (0 <=? u) && (u <? 65536) && negb (high_surrogate u) && negb (low_surrogate u)
  | CUPair _ _ hi lo => high_surrogate hi && low_surrogate lo
  end.
Definition render_char (c : schar) : list byte :=
  match c with
  | CRaw b => [b]
  | CEsc e => [92; esc_letter e]
  | CU cs u => 92 :: 117 :: hex4 cs u
  | CUPair cs1 cs2 hi lo => (92 :: 117 :: hex4 cs1 hi) ++ (92 :: 117 :: hex4 cs2 lo)
  end.
Definition char_value (c : schar) : list byte :=
  match c with
  | CRaw b => [b]
  | CEsc e => [esc_value e]
  | CU _ u => utf8 u
  | CUPair _ _ hi lo => utf8 (65536 + (hi - 55296) * 1024 + (lo - 56320))
  end.
Definition render_string (cs : list schar) : list byte := 34 :: flat_map render_char cs ++ [34].
Definition string_value (cs : list schar) : list byte := flat_map char_value cs.

(* ------------------------------------------------------------------ sections 3-5: values *)
(* value = false / null / true / object / array / number / string
   array = begin-array [ value *( value-separator value ) ] end-array
   object = begin-object [ member *( value-separator member ) ] end-object;  member = string name-separator value
   the six structural characters carry ws on both sides: recorded with the neighbouring
   element / member, [w_empty] being the ws between the brackets of an empty container *)
Inductive stx :=
| SNull | STrue | SFalse
| SNum (n : numtok)
| SStr (cs : list schar)
| SArr (items : list (ws * stx * ws)) (w_empty : ws)
| SObj (members : list (ws * list schar * ws * ws * stx * ws)) (w_empty : ws).

(* the denoted value: numbers as exact decimals, strings as byte strings, members in order *)
Inductive rv :=
| RNull | RBool (b : bool) | RNum (m e : Z) | RStr (s : list byte)
| RArr (l : list rv) | RObj (l : list (list byte * rv)).

Fixpoint sep_concat (sep : list byte) (parts : list (list byte)) : list byte :=
  match parts with
  | [] => []
  | [x] => x
  | x :: r => x ++ sep ++ sep_concat sep r
  end.

Fixpoint render (s : stx) : list byte :=
  match s with
  | SNull => [110;117;108;108]
  | STrue => [116;114;117;101]
  | SFalse => [102;97;108;115;101]
  | SNum n => render_num n
  | SStr cs => render_string cs
  | SArr [] w => 91 :: render_ws w ++ [93]
  | SArr items _ =>
      91 :: sep_concat [44] (map (fun it => render_ws (fst (fst it)) ++ render (snd (fst it)) ++ render_ws (snd it)) items) ++ [93]
  | SObj [] w => 123 :: render_ws w ++ [125]
  | SObj members _ =>
      123 :: sep_concat [44]
               (map (fun mb => match mb with (w0, k, w1, w2, v, w3) =>
                                 render_ws w0 ++ render_string k ++ render_ws w1 ++ [58] ++ render_ws w2 ++ render v ++ render_ws w3
                               end) members) ++ [125]
  end.

Fixpoint stx_ok (s : stx) : bool :=
  match s with
  | SNull | STrue | SFalse => true
  | SNum n => num_ok n
  | SStr cs => forallb schar_ok cs
  | SArr items _ => forallb (fun it => stx_ok (snd (fst it))) items
  | SObj members _ =>
      forallb (fun mb => match mb with (_, k, _, _, v, _) => forallb schar_ok k && stx_ok v end) members
  end.

Fixpoint value (s : stx) : rv :=
  match s with
  | SNull => RNull
  | STrue => RBool true
  | SFalse => RBool false
  | SNum n => RNum (fst (num_val n)) (snd (num_val n))
  | SStr cs => RStr (string_value cs)
  | SArr items _ => RArr (map (fun it => value (snd (fst it))) items)
  | SObj members _ =>
      RObj (map (fun mb => match mb with (_, k, _, _, v, _) => (string_value k, value v) end) members)
  end.

(* JSON-text = ws value ws *)
Definition rfc8259_text (t : list byte) : Prop :=
  exists w1 s w2, stx_ok s = true /\ t = render_ws w1 ++ render s ++ render_ws w2.
Definition rfc8259_denotes (t : list byte) (x : rv) : Prop :=
  exists w1 s w2, stx_ok s = true /\ t = render_ws w1 ++ render s ++ render_ws w2 /\ value s = x.

(* ------------------------------------------------------------------ significant bytes *)
(* What remains of a text when the insignificant parts are removed: whitespace between
   tokens, ANSI colour sequences ESC [ ... m between tokens, and the choice between the
   two spellings of the solidus inside strings (backslash-solidus is rewritten to a plain
   solidus; every other byte of a string literal, including its other escapes, stays).
   Two texts with the same significant bytes have the same tokens with the same spelling. *)
Inductive lexst := LOut | LStr | LStrEsc | LEsc | LEscSeq.
Definition is_ws_byte (c : byte) : bool := (c =? 32) || (c =? 9) || (c =? 10) || (c =? 13).
Definition sig_step (st : lexst) (c : byte) : lexst * list byte :=
  match st with
  | LOut => if is_ws_byte c then (LOut, [])
            else if c =? 27 then (LEsc, [])
            else if c =? 34 then (LStr, [34])
            else (LOut, [c])
  | LStr => if c =? 34 then (LOut, [34]) else if c =? 92 then (LStrEsc, []) else (LStr, [c])
  | LStrEsc => (LStr, if c =? 47 then [47] else [92; c])
  | LEsc => if c =? 91 then (LEscSeq, []) else (LOut, [27; c])        (* not a colour sequence: kept *)
  | LEscSeq => if c =? 109 then (LOut, [])
               else if digit c || (c =? 59) then (LEscSeq, [])
               else (LOut, [27; 91; c])                                (* not a colour sequence: kept *)
  end.
Fixpoint sig_run (st : lexst) (t : list byte) : lexst * list byte :=
  match t with
  | [] => (st, [])
  | c :: r => let '(st1, o1) := sig_step st c in let '(st2, o2) := sig_run st1 r in (st2, o1 ++ o2)
  end.
Definition significant (t : list byte) : list byte := snd (sig_run LOut t).
