(* Properties_C13.v — statements only.  C13: JSON Patch application follows RFC 6902 and is
   safe on arbitrary patch documents.

   Model  PatchModel.v  the repaired json_patch.c as written, on C12's model of json_pointer.c;
   Spec   PatchSpec.v   sequential RFC 6902 evaluation, from the RFC, on C12's RFC 6901 evaluator.

   Seven deviations of the original code were repaired in /repo (known_findings.json, status
   fixed): their statements are at full strength here and their former witnesses are examples.
   Two remain (status known): [C13_apply_conforms_partial] carries their exact guards, and
   [C13_test_number_refuted] / [C13_null_root_refuted] / [C13_apply_conforms_refuted] exhibit
   them, so the full-strength [apply_conforms_statement] is NOT claimed.

   Side conditions: the target is not the NULL pointer (json_patch_apply's domain); allocation
   succeeds ([al]); arrays have fewer than 2^32 elements ([small], part of every guard). *)
From Coq Require Import String.    (* only for the literals of the examples *)
From JC Require Import Base Value PtrSpec PtrModel PtrProofs EqModel PatchSpec PatchModel PatchProofs.
Local Open Scope Z_scope.

(* ---- per-operation conformance: one operation object on one document, model = RFC 6902
   (same resulting document, or both in error), for all documents and all operation objects *)
Theorem C13_apply_op_conforms : forall al, (forall n, al n = true) ->
  forall doc o, step_guard doc o = true -> agree (apply_op al doc o) (spec_op doc o).
Proof. exact apply_op_conforms. Qed.
Print Assumptions C13_apply_op_conforms.

(* add / copy / move place by RFC 6902 section 4.1 (insert, "-", member add-or-replace, root) *)
Theorem C13_add_conforms : forall al, (forall n, al n = true) -> forall doc p v, small doc = true ->
  match ptr_set_with_array_cb (insert_idx_cb true) al doc p v with
  | SOk d => rfc_add doc p v = Some d
  | SErr _ => rfc_add doc p v = None
  end.
Proof. exact add_conforms. Qed.
Print Assumptions C13_add_conforms.

(* remove through parent + unescaped key / index = RFC 6902 section 4.2 *)
Theorem C13_remove_conforms : forall doc p, doc <> JNull -> small doc = true ->
  match ptr_get_internal doc p with
  | GIErr _ => rfc_remove doc p = None
  | GIOk r => exists d, remove_result doc r = Some d /\ rfc_remove doc p = Some d /\ small d = true
  end.
Proof. exact remove_conforms. Qed.
Print Assumptions C13_remove_conforms.

Theorem C13_move_conforms : forall al, (forall n, al n = true) -> forall doc from p,
  doc <> JNull -> small doc = true -> agree (move_copy_strings al doc from p true) (rfc_move doc from p).
Proof. exact move_conforms. Qed.
Print Assumptions C13_move_conforms.

Theorem C13_copy_conforms : forall al, (forall n, al n = true) -> forall doc from p,
  doc <> JNull -> small doc = true -> agree (move_copy_strings al doc from p false) (rfc_copy doc from p).
Proof. exact copy_conforms. Qed.
Print Assumptions C13_copy_conforms.

(* ---- the whole patch: for all targets and all patch arrays, apply = sequential RFC 6902
   evaluation, including the index of the first failing operation — under the guards of the
   two recorded deviations (classes test_number_representation, null_document_root) *)
Theorem C13_apply_conforms_partial : forall al, (forall n, al n = true) ->
  forall target ops, target <> JNull -> run_guard step_guard ops target = true ->
  pagree (patch_apply al target (JArr ops)) (spec_ops ops 0 target).
Proof. exact apply_conforms_partial. Qed.
Print Assumptions C13_apply_conforms_partial.

(* the guard of class test_number_representation is exact in this sense: json_object_equal IS the
   RFC's equality whenever numbers meet numbers of the same representation kind (integer nodes,
   within their C range, or double nodes), for all trees *)
Theorem C13_rfc_equal_jv_equal : forall a b, same_repr a b = true -> rfc_equal a b = jv_equal a b.
Proof. exact rfc_equal_jv_equal. Qed.
Print Assumptions C13_rfc_equal_jv_equal.

Theorem C13_test_agrees_same_repr : forall doc o,
  (forall p v path n, op_string o n_path = Some p -> op_member o n_value = Some v ->
     spec_get doc p = Some (path, n) -> same_repr v n = true) ->
  test_agrees doc o = true.
Proof. exact test_agrees_same_repr. Qed.
Print Assumptions C13_test_agrees_same_repr.

(* class test_number_representation: RFC 6902 section 4.6 compares numbers by value, json_object_equal
   by representation: {"a":1} / test "/a" 1.0 *)
Theorem C13_test_number_refuted :
  exists target ops, target <> JNull /\ run_guard guard_no_test ops target = true /\
    patch_apply room target (JArr ops) = PFail 0 ENOENT target /\ spec_ops ops 0 target = SDone target.
Proof. exact test_number_refuted. Qed.
Print Assumptions C13_test_number_refuted.

(* class null_document_root: a JSON null document is the NULL pointer: {"a":1} / remove "", test "" null *)
Theorem C13_null_root_refuted :
  exists target ops, target <> JNull /\ run_guard guard_no_null ops target = true /\
    patch_apply room target (JArr ops) = PFail 1 EINVAL JNull /\ spec_ops ops 0 target = SDone JNull.
Proof. exact null_root_refuted. Qed.
Print Assumptions C13_null_root_refuted.

Theorem C13_apply_conforms_refuted : ~ apply_conforms_statement.
Proof. exact apply_conforms_refuted. Qed.
Print Assumptions C13_apply_conforms_refuted.

(* ---- the patch document is never modified (value semantics of the model: trivial; the tie
   to the code is the twin comparison and the address-set probe of the driver) *)
Theorem C13_patch_unchanged : forall al target patch, snd (patch_apply_full al target patch) = patch.
Proof. exact patch_unchanged. Qed.
Print Assumptions C13_patch_unchanged.

(* ---- malformed patches: for ALL values used as patch documents, all targets, all allocators *)
Theorem C13_malformed_is_error : forall al target patch, patch_apply al target patch <> PUB.
Proof. exact malformed_is_error. Qed.
Print Assumptions C13_malformed_is_error.

Theorem C13_not_an_array_is_refused : forall al target patch,
  (forall ops, patch <> JArr ops) -> patch_apply al target patch = PArgs.
Proof. exact not_an_array_is_refused. Qed.
Print Assumptions C13_not_an_array_is_refused.

Theorem C13_malformed_op_is_einval : forall al doc o,
  op_wellformed o = false -> apply_op al doc o = OErr EINVAL doc.
Proof. exact malformed_op_is_einval. Qed.
Print Assumptions C13_malformed_op_is_einval.

(* ---- what a failing operation leaves behind (the document must stay the caller's): the
   document found, or — only for a move whose placement fails — the document without the source.
   A move of the whole document is refused before anything is touched, for EVERY "path",
   malformed ones included (there is no failing path on which the root has been released). *)
Theorem C13_failed_op_document : forall al doc o e d,
  apply_op al doc o = OErr e d -> d = doc \/ after_failed_move doc d.
Proof. exact failed_op_document. Qed.
Print Assumptions C13_failed_op_document.

Theorem C13_move_of_root_rejected_first : forall al doc p,
  p <> [] -> move_copy_strings al doc [] p true = OErr EINVAL doc.
Proof. exact move_of_root_rejected_first. Qed.
Print Assumptions C13_move_of_root_rejected_first.

(* ---- index magnitude: an array reference token denotes its decimal value whatever its size
   (saturating conversion, no wrap-around): not below the length = no element; above the length
   = no place to add / move / copy to *)
Theorem C13_index_beyond_end_is_no_element : forall l tok i,
  small (JArr l) = true -> array_index tok = Some i -> zlen l <= i ->
  get_single_path (JArr l) tok = SPErr ENOENT.
Proof. exact index_beyond_end_is_no_element. Qed.
Print Assumptions C13_index_beyond_end_is_no_element.

Theorem C13_index_beyond_end_is_no_place : forall al l tok i v,
  small (JArr l) = true -> array_index tok = Some i -> zlen l < i ->
  set_single_path (insert_idx_cb true) al (JArr l) tok v = SErr EINVAL /\
  set_single_path move_cb al (JArr l) tok v = SErr EINVAL.
Proof. exact index_beyond_end_is_no_place. Qed.
Print Assumptions C13_index_beyond_end_is_no_place.

(* json_patch_unescape_token = the RFC's unescaping, all byte strings *)
Theorem C13_unescape_token_spec : forall s, unescape_token s = unescape s.
Proof. exact unescape_token_spec. Qed.
Print Assumptions C13_unescape_token_spec.

(* ---- non-vacuity: the examples of RFC 6902 appendix A (guards hold, model = spec = the RFC's
   result); the inputs of the repaired deviations; malformed patch documents *)
Theorem C13_nonvacuous_rfc_examples : Forall case_holds rfc_cases.
Proof. exact rfc_examples_hold. Qed.
Print Assumptions C13_nonvacuous_rfc_examples.

Theorem C13_nonvacuous_repaired_examples : Forall case_holds repaired_cases.
Proof. exact repaired_examples_hold. Qed.
Print Assumptions C13_nonvacuous_repaired_examples.

Theorem C13_nonvacuous_malformed_examples :
  let doc := Jo [("a", JInt 1)]%string in
  patch_apply room doc (JArr [Jo [("op", JNull); ("path", Js "/a")]%string]) = PFail 0 EINVAL doc /\
  patch_apply room doc (JArr [Jo [("op", Js "move"); ("from", JNull); ("path", Js "/a")]%string]) = PFail 0 EINVAL doc /\
  patch_apply room doc (JArr [Jo [("op", Js "copy"); ("from", Js "/a"); ("path", JNull)]%string]) = PFail 0 EINVAL doc /\
  patch_apply room doc (JArr [Jo [("op", Js "move"); ("from", JInt 5); ("path", JInt 5)]%string]) = PFail 0 EINVAL doc /\
  patch_apply room doc (JArr [mkop "add" "/b" [("value", JInt 2)]%string; JInt 7]) = PFail 1 EINVAL (Jo [("a", JInt 1); ("b", JInt 2)]%string) /\
  patch_apply room doc (JInt 7) = PArgs /\ patch_apply room doc JNull = PArgs /\
  patch_apply room JNull (JArr []) = PArgs /\ patch_apply room doc (JArr []) = PDone doc.
Proof. exact malformed_examples. Qed.
Print Assumptions C13_nonvacuous_malformed_examples.

(* the sharing class of the original code, made explicit ([no_sharing_hazard], PatchModel.v) *)
Theorem C13_nonvacuous_sharing_class :
  no_sharing_hazard room (Jo [("x", JInt 1)]%string)
    (JArr [mkop "add" "/a" [("value", Jo [("k", JInt 1)]%string)]%string; mkop "add" "/a/z" [("value", JInt 2)]%string]) = false /\
  no_sharing_hazard room (Jo [("x", Jo [("k", JInt 1)]%string)]%string)
    (JArr [mkop "copy" "/y" [("from", Js "/x")]%string; mkop "add" "/y/z" [("value", JInt 2)]%string]) = false /\
  no_sharing_hazard room (Jo [("x", JInt 1)]%string)
    (JArr [mkop "add" "/a" [("value", JInt 7)]%string; mkop "copy" "/b" [("from", Js "/a")]%string; mkop "add" "/c" [("value", Jo [])]%string]) = true.
Proof. exact sharing_class_examples. Qed.
Print Assumptions C13_nonvacuous_sharing_class.
