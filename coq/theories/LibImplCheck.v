(* LibImplCheck.v — the constants the models use are the headers' (LibImpl.v is regenerated from
   json_object.h, json_visit.h, json_util.h, json_tokener.h, linkhash.h and printbuf.c on every run by
   tr/lib_consts.py). *)
From Coq Require Import ZArith List.
From JC Require Import Base LibImpl.
From JC Require SerModel VisitModel FdModel LhModel PbModel.
Local Open Scope Z_scope.

(* C02: each JSON_C_TO_STRING_* bit selects exactly its field of the model's flag record *)
Theorem ser_flag_bits :
  SerModel.flags_of impl_ser_spaced = SerModel.mkfl true false false false false false /\
  SerModel.flags_of impl_ser_pretty = SerModel.mkfl false true false false false false /\
  SerModel.flags_of impl_ser_nozero = SerModel.mkfl false false true false false false /\
  SerModel.flags_of impl_ser_pretty_tab = SerModel.mkfl false false false true false false /\
  SerModel.flags_of impl_ser_noslashescape = SerModel.mkfl false false false false true false /\
  SerModel.flags_of impl_ser_color = SerModel.mkfl false false false false false true.
Proof. repeat split. Qed.

(* C17 *)
Theorem visit_codes :
  impl_visit_second = VisitModel.JSON_C_VISIT_SECOND /\ impl_visit_ret_continue = VisitModel.RET_CONTINUE /\
  impl_visit_ret_skip = VisitModel.RET_SKIP /\ impl_visit_ret_pop = VisitModel.RET_POP /\
  impl_visit_ret_stop = VisitModel.RET_STOP /\ impl_visit_ret_error = VisitModel.RET_ERROR.
Proof. repeat split. Qed.

(* C20 *)
Theorem fd_constants :
  impl_file_buf = FdModel.JSON_FILE_BUF_SIZE /\ impl_default_depth = FdModel.JSON_TOKENER_DEFAULT_DEPTH.
Proof. split; reflexivity. Qed.

(* C06: LH_LOAD_FACTOR as the binary64 numerator the model computes with *)
Theorem lh_load_factor : impl_lf_num = LhModel.LF_NUM.
Proof. reflexivity. Qed.

(* C19: printbuf_new's initial capacity *)
Theorem pb_initial_size : impl_pb_initial = PbModel.size PbModel.pb_new.
Proof. reflexivity. Qed.
