(* TokStream.v — streams of documents (C03, last clause): after a call that returned a value the
   parser is as good as new, so a stream resumed at the reported end position is parsed document
   by document exactly as by fresh parsers (and each document, by chunk_independent, independently
   of how it is split).  The one field that a successful call could carry over into the next
   document is the pending high surrogate; it is shown to be 0 outside the three states that
   follow a \uD8xx escape. *)
From JC Require Import Base BaseLemmas Value TokModel TokFrame TokStack TokTotal TokReset TokOff TokSim TokChunk TokSim2
  TokChunk2 TokChunk3 TokDead TokDead2.
Local Open Scope Z_scope.

(* ---- frame lemmas for high_surrogate *)
Lemma hi_set_top t s : high_surrogate (set_top t s) = high_surrogate t. Proof. reflexivity. Qed.
Lemma hi_set_stack t s : high_surrogate (set_stack t s) = high_surrogate t. Proof. reflexivity. Qed.
Lemma hi_set_pb t s : high_surrogate (set_pb t s) = high_surrogate t. Proof. reflexivity. Qed.
Lemma hi_set_is_double t s : high_surrogate (set_is_double t s) = high_surrogate t. Proof. reflexivity. Qed.
Lemma hi_set_st_pos t s : high_surrogate (set_st_pos t s) = high_surrogate t. Proof. reflexivity. Qed.
Lemma hi_set_ucs t s : high_surrogate (set_ucs t s) = high_surrogate t. Proof. reflexivity. Qed.
Lemma hi_set_high t s : high_surrogate (set_high t s) = s. Proof. reflexivity. Qed.
Lemma hi_set_quote t s : high_surrogate (set_quote t s) = high_surrogate t. Proof. reflexivity. Qed.
Lemma hi_set_state t s : high_surrogate (set_state t s) = high_surrogate t. Proof. reflexivity. Qed.
Lemma hi_value_done t s : high_surrogate (value_done t s) = high_surrogate t. Proof. reflexivity. Qed.
Lemma hi_append t s : high_surrogate (append t s) = high_surrogate t. Proof. reflexivity. Qed.
Lemma hi_set_err t e : high_surrogate (set_err t e) = high_surrogate t. Proof. reflexivity. Qed.
Lemma hi_set_off t e : high_surrogate (set_off t e) = high_surrogate t. Proof. reflexivity. Qed.
Global Hint Rewrite hi_set_top hi_set_stack hi_set_pb hi_set_is_double hi_set_st_pos hi_set_ucs hi_set_high hi_set_quote
  hi_set_state hi_value_done hi_append hi_set_err hi_set_off : tokhigh.

(* the states in which a high surrogate may be pending *)
Definition hs_state (s : tstate) : bool :=
  match s with S_need_escape | S_need_u | S_escape_unicode => true | _ => false end.
Definition hs_ok (t : tok) : Prop := high_surrogate t = 0 \/ hs_state (st t) = true.

Lemma hs_state_esc s : hs_state s = true -> esc_like s = true.
Proof. destruct s; cbn; congruence. Qed.

(* one dispatch leaves the field alone, clears it, or sets it on entering S_need_escape *)
Definition hs_step (t : tok) (r : sres) : Prop :=
  high_surrogate (sres_tok r) = high_surrogate t \/ high_surrogate (sres_tok r) = 0 \/ st (sres_tok r) = S_need_escape.

Lemma hs_emit t0 t u l : high_surrogate t = high_surrogate t0 \/ high_surrogate t = 0 -> hs_step t0 (emit_unicode t u l).
Proof.
  intros H. unfold emit_unicode, hs_step.
  repeat match goal with |- context [if ?b then _ else _] => destruct b end; cbn [sres_tok];
    autorewrite with tokhigh tokst; tauto.
Qed.
Lemma hs_resolve t : high_surrogate (fst (resolve_pair t)) = high_surrogate t \/ high_surrogate (fst (resolve_pair t)) = 0.
Proof.
  unfold resolve_pair. repeat match goal with |- context [if ?b then _ else _] => destruct b end; cbn [fst];
    autorewrite with tokhigh; tauto.
Qed.
Lemma hs_resolve0 t : high_surrogate (fst (resolve_pair t)) = 0.
Proof.
  unfold resolve_pair. destruct (high_surrogate t =? 0) eqn:E; cbn [negb].
  - cbn [fst]. lia.
  - destruct (is_low_surrogate (ucs_char t)); cbn [fst]; autorewrite with tokhigh; reflexivity.
Qed.
Lemma hs_finish_unicode t0 t l : high_surrogate t = high_surrogate t0 -> hs_step t0 (finish_unicode t l).
Proof.
  intros H. unfold finish_unicode. apply hs_emit. right. apply hs_resolve0.
Qed.

Section S.
Variable sb : list byte -> Z.

Lemma step1_hs_step t l : hs_step t (step1 sb t l).
Proof.
  unfold step1, fail.
  destruct (st t).
  all: repeat match goal with
              | |- context [finish_unicode ?a ?b] => apply hs_finish_unicode; autorewrite with tokhigh; reflexivity
              | |- context [if ?b then _ else _] => destruct b
              | |- context [match classify_number sb ?x with _ => _ end] => destruct (classify_number sb x)
              | |- context [match lnum ?x with _ => _ end] => destruct (lnum x)
              | |- context [match stack ?x with _ => _ end] => destruct (stack x) as [|? [|? ?]]
              end; unfold hs_step; cbn [sres_tok]; autorewrite with tokhigh; auto.
Qed.

Lemma hs_emit_ok t u l : high_surrogate t = 0 -> hs_ok (sres_tok (emit_unicode t u l)).
Proof.
  intros H. unfold emit_unicode, hs_ok.
  repeat match goal with |- context [if ?b then _ else _] => destruct b end; cbn [sres_tok];
    autorewrite with tokhigh tokst; auto.
Qed.

Lemma step1_hs t l : hs_ok t -> hs_ok (sres_tok (step1 sb t l)).
Proof.
  intros [H0|Hs].
  - pose proof (step1_hs_step t l) as [A|[A|A]]; unfold hs_ok.
    + left. congruence.
    + left. exact A.
    + right. rewrite A. reflexivity.
  - unfold step1, fail. destruct (st t) eqn:Es; try discriminate.
    + (* S_escape_unicode *)
      destruct (negb (is_hex (lc l))); cbn [sres_tok].
      * right. autorewrite with tokst. rewrite Es. reflexivity.
      * match goal with |- context [if ?b then _ else _] => destruct b end.
        -- unfold finish_unicode. apply hs_emit_ok. apply hs_resolve0.
        -- cbn [sres_tok]. right. autorewrite with tokst. rewrite Es. reflexivity.
    + (* S_need_escape *)
      destruct (negb (lc l =? 92)); cbn [sres_tok]; unfold hs_ok; autorewrite with tokhigh tokst; auto.
    + (* S_need_u *)
      destruct (negb (lc l =? 117)); cbn [sres_tok]; unfold hs_ok; autorewrite with tokhigh tokst; auto.
Qed.

Lemma redo_hs fuel : forall t l r, hs_ok t -> redo sb fuel t l = Some r -> hs_ok (sres_tok r).
Proof.
  induction fuel as [|f IH]; intros t l r H E; [discriminate|]. cbn [redo] in E.
  pose proof (step1_hs t l H) as S1.
  destruct (step1 sb t l) as [a x|a x|a x]; cbn [sres_tok] in S1.
  - inversion E; subst. exact S1.
  - eapply IH; eassumption.
  - inversion E; subst. exact S1.
Qed.

(* a dispatch that leaves the loop without raising a hard error does so from S_finish at depth 0 *)
Lemma step1_soft_out t l t' l' : wfs (stack t) = true ->
  step1 sb t l = Out t' l' -> hard_err (err t') \/ (st t' = S_finish /\ depth t' = 0).
Proof.
  intros Hw. unfold step1, fail.
  destruct (st t) eqn:Es.
  3: { (* S_finish *)
    destruct (stack t) as [|x [|y r]] eqn:Est; [discriminate| |discriminate].
    intros E; inversion E; subst. right. split; [exact Es|]. unfold depth. rewrite Est. reflexivity. }
  all: repeat match goal with
              | |- context [finish_unicode ?a ?b] =>
                  unfold finish_unicode, emit_unicode;
                  repeat match goal with |- context [if ?c then _ else _] => destruct c end; discriminate
              | |- context [if ?b then _ else _] => destruct b
              | |- context [match classify_number sb ?x with _ => _ end] => destruct (classify_number sb x)
              | |- context [match lnum ?x with _ => _ end] => destruct (lnum x)
              | |- context [match stack ?x with _ => _ end] => destruct (stack x) as [|? [|? ?]]
              end; intros E; try discriminate; inversion E; subst;
       left; autorewrite with tokerr; split; discriminate.
Qed.

Lemma redo_soft_out fuel : forall t l t' l', wfs (stack t) = true ->
  redo sb fuel t l = Some (Out t' l') -> hard_err (err t') \/ (st t' = S_finish /\ depth t' = 0).
Proof.
  induction fuel as [|f IH]; intros t l t' l' Hw E; [discriminate|]. cbn [redo] in E.
  pose proof (step1_res sb t l Hw) as W.
  destruct (step1 sb t l) as [a x|a x|a x] eqn:S1.
  - discriminate.
  - cbn [res_ok] in W. destruct W as [W _]. exact (IH _ _ _ _ W E).
  - inversion E; subst. exact (step1_soft_out _ _ _ _ Hw S1).
Qed.

(* along a call: the invariant is kept; a call that ends with status success, and not on a
   terminating NUL, ends at depth 0 outside the escape states *)
Lemma run_hs bytes : forall t l t' l',
  wfs (stack t) = true -> linv t l -> hs_ok t -> err t = TE_success ->
  run sb bytes t l = LOut t' l' ->
  hs_ok t' /\ wfs (stack t') = true /\
  (err t' = TE_success -> lc l' <> 0 -> esc_like (st t') = false /\ depth t' = 0).
Proof.
  induction bytes as [|b rest IH]; intros t l t' l' Hw Hi Hh He E; cbn [run] in E.
  - inversion E; subst. split; [exact Hh|]. split; [exact Hw|].
    cbn [err set_err]. unfold end_of_input_err. intros Hs _.
    destruct ((depth t =? 0) && tstate_eqb (st t) S_eatws && tstate_eqb (sv t) S_finish) eqn:C; [|discriminate].
    apply andb_true_iff in C. destruct C as [C _]. apply andb_true_iff in C. destruct C as [C1 C2].
    change (st (set_err t TE_success)) with (st t). change (depth (set_err t TE_success)) with (depth t).
    destruct (st t); try discriminate. split; [reflexivity|lia].
  - destruct (if validate_utf8 t then validate_utf8_step b (nbytes l) else Some (nbytes l)) as [nb|].
    2:{ inversion E; subst. split; [exact Hh|]. split; [exact Hw|]. cbn [err set_err]. discriminate. }
    destruct (redo sb REDO_FUEL t (mkloc b nb (lobj l) (lnum l))) as [[t1 l1|t1 l1|t1 l1]|] eqn:R; try discriminate.
    + pose proof (redo_facts sb _ _ _ _ Hw (linv_mkloc t b nb l Hi) R) as (F1 & F2 & F3 & F4).
      cbn [lres sres_tok err_ok lc] in *. destruct F1 as (G1 & G2 & G3).
      pose proof (redo_hs _ _ _ _ Hh R) as Hh1. cbn [sres_tok] in Hh1.
      destruct (b =? 0) eqn:Eb.
      * injection E as <- <-. split; [exact Hh1|]. split; [exact F2|]. intros _ Hc. exfalso. apply Hc. rewrite G3. lia.
      * exact (IH (set_off t1 (char_offset t1 + 1)) l1 t' l' F2 (linv_set_off _ _ _ G1) Hh1 (eq_trans F3 He) E).
    + inversion E; subst.
      pose proof (redo_facts sb _ _ _ _ Hw (linv_mkloc t b nb l Hi) R) as (F1 & F2 & F3 & F4).
      pose proof (redo_hs _ _ _ _ Hh R) as Hh1. cbn [sres_tok] in *.
      split; [exact Hh1|]. split; [exact F2|]. intros Hs _.
      destruct (redo_soft_out _ _ _ _ _ Hw R) as [[Hx _]|[Hf Hd]]; [congruence|].
      rewrite Hf. split; [reflexivity|exact Hd].
Qed.

(* the tokener a successful call leaves behind: one fresh level, no pending surrogate *)
Theorem success_leaves_new t a t' v :
  wf_tok t -> hs_ok t -> Forall (fun b => b <> 0) a ->
  parse_ex sb t a = PR t' (Some v) ->
  stack t' = [fresh_level] /\ high_surrogate t' = 0 /\ err t' = TE_success.
Proof.
  intros Hwf Hh Hn Ha. unfold parse_ex in Ha.
  set (t0 := set_err (set_off t 0) TE_success) in *. set (l0 := mkloc 1 0 JNull None) in *.
  destruct (run sb a t0 l0) as [t1 l1|] eqn:R; [|discriminate].
  assert (Hc : lc l1 <> 0).
  { (* the current character is the initial 1 or a byte of a *)
    assert (G : forall bytes t l t' l', wfs (stack t) = true -> linv t l -> run sb bytes t l = LOut t' l' ->
                lc l' = lc l \/ In (lc l') bytes).
    { clear. induction bytes as [|b rest IH]; intros t l t' l' Hw Hi E; cbn [run] in E.
      - inversion E; subst. left; reflexivity.
      - destruct (if validate_utf8 t then validate_utf8_step b (nbytes l) else Some (nbytes l)) as [nb|].
        2:{ inversion E; subst. left; reflexivity. }
        destruct (redo sb REDO_FUEL t (mkloc b nb (lobj l) (lnum l))) as [[t1 l1|t1 l1|t1 l1]|] eqn:R; try discriminate.
        + pose proof (redo_facts sb _ _ _ _ Hw (linv_mkloc t b nb l Hi) R) as (F1 & F2 & F3 & F4).
          cbn [lres sres_tok lc] in *. destruct F1 as (G1 & G2 & G3).
          destruct (b =? 0).
          * injection E as <- <-. right. left. symmetry. exact G3.
          * destruct (IH (set_off t1 (char_offset t1 + 1)) l1 t' l' F2 (linv_set_off _ _ _ G1) E) as [A|A].
            -- right. left. rewrite A. symmetry. exact G3.
            -- right. right. exact A.
        + injection E as <- <-.
          pose proof (redo_facts sb _ _ _ _ Hw (linv_mkloc t b nb l Hi) R) as (F1 & _).
          cbn [lres lc] in F1. destruct F1 as (_ & _ & G3). right. left. symmetry. exact G3. }
    destruct (G a t0 l0 t1 l1 Hwf I R) as [A|A].
    - rewrite A. cbn. lia.
    - rewrite Forall_forall in Hn. apply Hn. exact A. }
  destruct (run_hs a t0 l0 t1 l1 Hwf I Hh eq_refl R) as (H1 & H2 & H3).
  (* the code after out: *)
  unfold finish_call in Ha.
  assert (Hz : (lc l1 =? 0) = false) by lia. rewrite Hz in Ha. cbn [andb negb] in Ha.
  destruct (validate_utf8 t1 && negb (nbytes l1 =? 0)).
  { match type of Ha with context [if ?b then set_err ?x TE_unexpected else _] => destruct b end;
      cbn [err set_err] in Ha; discriminate. }
  match type of Ha with context [if ?b then set_err ?x TE_unexpected else _] => destruct b end;
    [cbn [err set_err] in Ha; discriminate|].
  destruct (err t1) eqn:Ee; try discriminate. inversion Ha; subst.
  destruct (H3 eq_refl Hc) as [Hesc Hd].
  assert (Hs : stack t1 <> [] /\ zlen (stack t1) = 1).
  { unfold depth in Hd. split; [|lia]. intros C. rewrite C in H2. discriminate. }
  destruct Hs as [Hs1 Hs2].
  destruct (stack t1) as [|x [|y r]] eqn:Est; [contradiction| |exfalso; cbn [zlen] in Hs2; pose proof (zlen_nonneg r); lia].
  split; [unfold reset_levels; rewrite Est; reflexivity|].
  split; [|exact Ee].
  change (high_surrogate (reset_levels t1)) with (high_surrogate t1).
  destruct H1 as [H1|H1]; [exact H1|]. apply hs_state_esc in H1. congruence.
Qed.

(* ... hence it behaves as a new parser on whatever comes next *)
Theorem after_success_as_new t a t' v x :
  wf_tok t -> hs_ok t -> Forall (fun b => b <> 0) a ->
  parse_ex sb t a = PR t' (Some v) ->
  wf_tok t' /\ hs_ok t' /\
  match parse_ex sb (new_like t') x, parse_ex sb t' x with
  | PR t1 r1, PR t2 r2 => r1 = r2 /\ err t1 = err t2 /\ char_offset t1 = char_offset t2
  | PRFuel, PRFuel => True
  | _, _ => False
  end.
Proof.
  intros Hwf Hh Hn Ha.
  destruct (success_leaves_new t a t' v Hwf Hh Hn Ha) as (S1 & S2 & S3).
  split; [unfold wf_tok, wfb; rewrite S1; reflexivity|]. split; [left; exact S2|].
  assert (E : t' = dv (new_like t') (pb t') (is_double t') (st_pos t') (ucs_char t') (quote_char t')).
  { destruct t' as [stk md p dbl sp uc hs qc sf af vf off e]. cbn in S1, S2, S3. subst. reflexivity. }
  pose proof (parse_ex_dv sb (new_like t') (pb t') (is_double t') (st_pos t') (ucs_char t') (quote_char t') x eq_refl) as P.
  rewrite <- E in P. apply P.
  unfold dead_ok. repeat split; right; reflexivity.
Qed.
End S.

(* a new tokener satisfies the invariant, and so does every tokener reached from one through
   parse calls (continue: the call stopped mid-document; success: above; reset) *)
Lemma hs_ok_new D s a v t : tok_new D s a v = Some t -> hs_ok t.
Proof. unfold tok_new. destruct (D <? 1); [discriminate|]. intros H; inversion H. left; reflexivity. Qed.
Lemma hs_ok_reset t : hs_ok (tok_reset t).
Proof. left. reflexivity. Qed.

Section N.
Variable sb : list byte -> Z.

(* the call-exit code returns a value only outside the escape states *)
Lemma finish_success_noesc t1 l1 t' v :
  wfs (stack t1) = true -> (lc l1 <> 0 -> esc_like (st t1) = false) ->
  finish_call t1 l1 = PR t' (Some v) -> esc_like (st t1) = false.
Proof.
  intros Hw Hc Ha. destruct (lc l1 =? 0) eqn:Ez; [|apply Hc; lia].
  unfold finish_call in Ha. rewrite Ez in Ha. cbn [negb andb] in Ha.
  destruct (stack t1) as [|[s sv0 cur nm] below] eqn:Est; [discriminate|].
  assert (Hst : forall e, st (set_err t1 e) = s) by (intros; unfold st, top; cbn [stack set_err]; rewrite Est; reflexivity).
  assert (Hsv : forall e, sv (set_err t1 e) = sv0) by (intros; unfold sv, top; cbn [stack set_err]; rewrite Est; reflexivity).
  assert (Hst0 : st t1 = s) by (unfold st, top; rewrite Est; reflexivity).
  assert (Hsv0 : sv t1 = sv0) by (unfold sv, top; rewrite Est; reflexivity).
  cbn [wfs s_state s_saved] in Hw. apply andb_true_iff in Hw. destruct Hw as [Ht _].
  unfold wf_top in Ht. apply andb_true_iff in Ht. destruct Ht as [_ Ht].
  rewrite Hst0. destruct (esc_like s) eqn:Ees; [|reflexivity]. exfalso.
  assert (Hnf : tstate_eqb s S_finish = false) by (destruct s; cbn in Ees |- *; congruence).
  assert (Hvf : tstate_eqb sv0 S_finish = false) by (destruct sv0; cbn in Ht |- *; congruence).
  destruct (validate_utf8 t1 && negb (nbytes l1 =? 0));
    rewrite ?Hst, ?Hsv, ?Hst0, ?Hsv0, Hnf, Hvf in Ha; cbn [negb andb] in Ha; rewrite ?orb_true_r in Ha; cbn [negb andb err set_err] in Ha; discriminate.
Qed.

Lemma parse_ex_hs t a t' r : wf_tok t -> hs_ok t -> Forall (fun b => b <> 0) a \/ r = None -> parse_ex sb t a = PR t' r -> hs_ok t'.
Proof.
  intros Hwf Hh Hn Ha. destruct r as [v|].
  - destruct Hn as [Hn|Hn]; [|discriminate].
    destruct (success_leaves_new sb t a t' v Hwf Hh Hn Ha) as (_ & S2 & _). left. exact S2.
  - unfold parse_ex in Ha.
    destruct (run sb a (set_err (set_off t 0) TE_success) (mkloc 1 0 JNull None)) as [t1 l1|] eqn:R; [|discriminate].
    destruct (run_hs sb a (set_err (set_off t 0) TE_success) (mkloc 1 0 JNull None) t1 l1 Hwf I Hh eq_refl R) as (H1 & H2 & _).
    unfold finish_call in Ha.
    repeat match type of Ha with context [if ?b then _ else _] => destruct b end;
      repeat match type of Ha with context [match err ?x with _ => _ end] => destruct (err x) end;
      inversion Ha; subst; exact H1.
Qed.
End N.

(* ---- streams of any number of documents ---- *)
Section Stream.
Variable sb : list byte -> Z.

Definition as_new (t : tok) : Prop := stack t = [fresh_level] /\ high_surrogate t = 0.

Lemma as_new_wf t : as_new t -> wf_tok t.
Proof. intros [H _]. unfold wf_tok, wfb. rewrite H. reflexivity. Qed.
Lemma as_new_hs t : as_new t -> hs_ok t.
Proof. intros [_ H]. left. exact H. Qed.

(* what a caller can see of one call *)
Definition pview (r : presult) : option (option jv * terr * Z) :=
  match r with PR t' v => Some (v, err t', char_offset t') | PRFuel => None end.

Lemma parse_ex_off t k x : parse_ex sb (set_off t k) x = parse_ex sb t x.
Proof. destruct t. reflexivity. Qed.

(* two as-new parsers with the same configuration are indistinguishable *)
Lemma as_new_same t1 t2 x : as_new t1 -> as_new t2 -> cfg0 t1 = cfg0 t2 ->
  pview (parse_ex sb t1 x) = pview (parse_ex sb t2 x).
Proof.
  intros [A1 B1] [A2 B2] C.
  assert (E : forall t, stack t = [fresh_level] -> high_surrogate t = 0 ->
              pview (parse_ex sb t x) = pview (parse_ex sb (new_like t) x)).
  { intros t A B.
    assert (Ee : parse_ex sb t x = parse_ex sb (set_err t TE_success) x) by (destruct t; reflexivity).
    rewrite Ee.
    assert (Et : set_err t TE_success = dv (new_like t) (pb t) (is_double t) (st_pos t) (ucs_char t) (quote_char t)).
    { destruct t as [stk md p dbl sp uc hs qc sf af vf off e]. cbn in A, B. subst. reflexivity. }
    pose proof (parse_ex_dv sb (new_like t) (pb t) (is_double t) (st_pos t) (ucs_char t) (quote_char t) x eq_refl) as P.
    assert (Hd : dead_ok (new_like t) (pb t) (is_double t) (st_pos t) (ucs_char t) (quote_char t))
      by (unfold dead_ok; repeat split; right; reflexivity).
    specialize (P Hd). rewrite <- Et in P.
    destruct (parse_ex sb (new_like t) x), (parse_ex sb (set_err t TE_success) x); cbn [pview]; try contradiction; [|reflexivity].
    destruct P as (-> & -> & ->). reflexivity. }
  rewrite (E t1 A1 B1), (E t2 A2 B2).
  assert (N : new_like t2 = set_off (new_like t1) (char_offset t2)).
  { unfold cfg0 in C. inversion C. unfold new_like, set_off. cbn. congruence. }
  rewrite N, parse_ex_off. reflexivity.
Qed.

(* the documents of a buffer: parse, and after each returned value go on at the reported end.
   [resume] keeps using the same parser; [fresh] takes a new parser (same depth limit and
   flags) for every document.  The result is the list of values and the status that ended it. *)
Fixpoint stream (fresh : bool) (fuel : nat) (t : tok) (bytes : list byte) : list jv * terr :=
  match fuel with
  | O => ([], TE_continue)
  | S f =>
      match parse_ex sb t bytes with
      | PR t' (Some v) =>
          let rest := zskipn (char_offset t') bytes in
          let next := if fresh then new_like t' else t' in
          let (vs, e) := stream fresh f next rest in (v :: vs, e)
      | PR t' None => ([], err t')
      | PRFuel => ([], TE_continue)
      end
  end.

Lemma Forall_zskipn {A} (P : A -> Prop) n (l : list A) : Forall P l -> Forall P (zskipn n l).
Proof.
  unfold zskipn. generalize (Z.to_nat n) as k. intros k. revert l.
  induction k as [|k IH]; intros l H; [exact H|]. destruct l as [|a l]; [exact H|].
  cbn [skipn]. apply IH. inversion H; assumption.
Qed.

Lemma new_like_as_new t : as_new (new_like t).
Proof. split; reflexivity. Qed.
Lemma cfg0_new_like t : cfg0 (new_like t) = cfg0 t.
Proof. reflexivity. Qed.

Theorem stream_resume_is_fresh fuel : forall t1 t2 bytes,
  as_new t1 -> as_new t2 -> cfg0 t1 = cfg0 t2 -> Forall (fun b => b <> 0) bytes ->
  stream false fuel t1 bytes = stream true fuel t2 bytes.
Proof.
  induction fuel as [|f IH]; intros t1 t2 bytes N1 N2 C Hn; [reflexivity|]. cbn [stream].
  pose proof (as_new_same t1 t2 bytes N1 N2 C) as V.
  destruct (parse_ex sb t1 bytes) as [a ra|] eqn:P1, (parse_ex sb t2 bytes) as [b rb|] eqn:P2; cbn [pview] in V; try discriminate; [|reflexivity].
  inversion V as [[Hr He Ho]]. subst rb.
  destruct ra as [v|]; [|rewrite He; reflexivity].
  destruct (success_leaves_new sb t1 bytes a v (as_new_wf _ N1) (as_new_hs _ N1) Hn P1) as (S1 & S2 & _).
  rewrite Ho.
  pose proof (parse_ex_outcome sb t1 bytes a (Some v) P1) as (_ & _ & C1).
  pose proof (parse_ex_outcome sb t2 bytes b (Some v) P2) as (_ & _ & C2).
  rewrite (IH a (new_like b) (zskipn (char_offset b) bytes)); [reflexivity| | | |].
  - split; assumption.
  - apply new_like_as_new.
  - rewrite cfg0_new_like. congruence.
  - apply Forall_zskipn. exact Hn.
Qed.
End Stream.

(* ---- since fix "a finished value inside an open container does not end the text": a call that returns a value
   always ends at depth 0, whatever the bytes (NUL-terminated or not) — the corner that parse_total had to
   exclude no longer exists, and every outcome leaves a well-formed parser *)
Section Depth0.
Variable sb : list byte -> Z.

Theorem success_depth0 t a t' v :
  wf_tok t -> hs_ok t -> parse_ex sb t a = PR t' (Some v) -> depth t' = 0.
Proof.
  intros Hwf Hh Ha. unfold parse_ex in Ha.
  set (t0 := set_err (set_off t 0) TE_success) in *. set (l0 := mkloc 1 0 JNull None) in *.
  destruct (run sb a t0 l0) as [t1 l1|] eqn:R; [|discriminate].
  destruct (run_hs sb a t0 l0 t1 l1 Hwf I Hh eq_refl R) as (_ & _ & H3).
  assert (Hd : depth (reset_levels t1) = depth t1).
  { unfold depth, reset_levels. cbn [stack set_stack]. f_equal. induction (stack t1) as [|x r IH]; [reflexivity|]. cbn [map zlen]. rewrite IH. reflexivity. }
  unfold finish_call in Ha.
  destruct (lc l1 =? 0) eqn:Ez.
  - (* the call consumed a NUL: the end-of-text test *)
    cbn [negb andb] in Ha.
    destruct (validate_utf8 t1 && negb (nbytes l1 =? 0)).
    { destruct (depth (set_err t1 TE_utf8) =? 0); cbn [negb orb andb] in Ha;
        repeat match type of Ha with context [if ?b then _ else _] => destruct b end; cbn [err set_err] in Ha; discriminate. }
    destruct (depth t1 =? 0) eqn:Ed.
    + cbn [negb orb] in Ha.
      match type of Ha with context [if ?b then set_err ?x TE_eof else _] => destruct b end; [cbn [err set_err] in Ha; discriminate|].
      destruct (err t1); try discriminate. inversion Ha; subst. rewrite Hd. lia.
    + cbn [negb orb andb] in Ha. cbn [err set_err] in Ha. discriminate.
  - cbn [negb andb] in Ha.
    destruct (validate_utf8 t1 && negb (nbytes l1 =? 0)).
    { match type of Ha with context [if ?b then set_err ?x TE_unexpected else _] => destruct b end; cbn [err set_err] in Ha; discriminate. }
    match type of Ha with context [if ?b then set_err ?x TE_unexpected else _] => destruct b end; [cbn [err set_err] in Ha; discriminate|].
    destruct (err t1) eqn:Ee; try discriminate. inversion Ha; subst.
    rewrite Hd. apply (H3 eq_refl). lia.
Qed.
End Depth0.
