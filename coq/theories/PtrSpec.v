(* PtrSpec.v — RFC 6901 (JSON Pointer) evaluation on [jv] trees, written from the RFC and
   independently of PtrModel.v (which this file does not import).  No proofs here.

   RFC 6901:
   section 3  json-pointer = *( "/" reference-token ); reference-token = *( unescaped / escaped );
              unescaped = any character but '/' and '~'; escaped = "~" ( "0" / "1" ).
              "It is an error condition if a JSON Pointer value does not conform to this syntax."
   section 4  evaluation starts at the document root; each token is unescaped by "first
              transforming any occurrence of the sequence '~1' to '/', and then transforming any
              occurrence of the sequence '~0' to '~'" — on a token of the section 3 syntax that is
              one left-to-right pass over its escapes ([unescape]); then
                object: the member whose name equals the unescaped token (byte-wise);
                array:  the token must be array-index = "0" / ( %x31-39 *DIGIT ) and the
                        element with that zero-based index must exist; "-" denotes the
                        (nonexistent) element after the last one: an error for retrieval.
              Any value, also JSON null, can be the referenced value; a JSON null or a scalar
              has no members to step into.

   Placement ("set") is not part of the RFC.  The property text fixes it: the value goes to
   the member named by the unescaped last token / the array element with that index / the
   end of the array for "-"; everything before the last token is evaluated as for retrieval.
   An index beyond the end extends the array with JSON null elements, which is the documented
   behaviour of json-c arrays (json_object_array_put_idx; test_json_pointer.c "/7"). *)
From JC Require Import Base Value.
Local Open Scope Z_scope.

Definition step := (list byte + Z)%type.       (* inl member-name | inr index *)
Definition loc := list step.

(* ---------------------------------------------------------------- syntax (section 3) *)

(* split "/tok/tok…" (without its first '/') at every '/' *)
Fixpoint tok_acc (cur : list byte) (s : list byte) : list (list byte) :=
  match s with
  | [] => [rev cur]
  | c :: r => if c =? 47 then rev cur :: tok_acc [] r else tok_acc (c :: cur) r
  end.
Definition tokenize (s : list byte) : list (list byte) := tok_acc [] s.

(* every '~' (126) is followed by '0' (48) or '1' (49) *)
Fixpoint escapes_ok (tok : list byte) : bool :=
  match tok with
  | [] => true
  | c :: t =>
      if c =? 126 then
        match t with
        | d :: u => ((d =? 48) || (d =? 49)) && escapes_ok u
        | [] => false
        end
      else escapes_ok t
  end.

(* one pass over the escapes: "~0" -> '~', "~1" -> '/'.  Total: a '~' that starts no escape
   (excluded by [escapes_ok]) is kept. *)
Fixpoint unescape (tok : list byte) : list byte :=
  match tok with
  | [] => []
  | c :: t =>
      if c =? 126 then
        match t with
        | d :: u => if d =? 48 then 126 :: unescape u
                    else if d =? 49 then 47 :: unescape u
                    else c :: unescape t
        | [] => [c]
        end
      else c :: unescape t
  end.

Definition parse_pointer (p : list byte) : option (list (list byte)) :=
  match p with
  | [] => Some []
  | c :: s => if c =? 47
              then (let toks := tokenize s in if forallb escapes_ok toks then Some toks else None)
              else None
  end.

(* array-index = %x30 / ( %x31-39 *( %x30-39 ) ), with its value *)
Definition digit (c : byte) : bool := (48 <=? c) && (c <=? 57).

Fixpoint dec_value (s : list byte) : Z :=         (* most significant digit first *)
  match s with
  | [] => 0
  | c :: r => (c - 48) * 10 ^ zlen r + dec_value r
  end.

Definition array_index (tok : list byte) : option Z :=
  match tok with
  | [] => None
  | c :: r =>
      if c =? 48 then (match r with [] => Some 0 | _ :: _ => None end)
      else if (49 <=? c) && (c <=? 57) && forallb digit r then Some (dec_value tok)
      else None
  end.

Definition is_minus (tok : list byte) : bool :=
  match tok with [c] => c =? 45 | _ => false end.

(* ---------------------------------------------------------------- trees *)

Definition member (ms : list (list byte * jv)) (name : list byte) : option jv :=
  match find (fun kv => bytes_eqb (fst kv) name) ms with
  | Some kv => Some (snd kv)
  | None => None
  end.

(* the node at a location *)
Fixpoint node_at (t : jv) (l : loc) : option jv :=
  match l with
  | [] => Some t
  | inl k :: r =>
      match t with
      | JObj ms => match member ms k with Some c => node_at c r | None => None end
      | _ => None
      end
  | inr i :: r =>
      match t with
      | JArr xs => match znth xs i with Some c => node_at c r | None => None end
      | _ => None
      end
  end.

(* ---------------------------------------------------------------- evaluation (section 4) *)

Definition spec_step (n : jv) (tok : list byte) : option (step * jv) :=
  match n with
  | JObj ms =>
      let name := unescape tok in
      match member ms name with Some v => Some (inl name, v) | None => None end
  | JArr xs =>
      match array_index tok with
      | Some i => match znth xs i with Some v => Some (inr i, v) | None => None end
      | None => None
      end
  | _ => None
  end.

Fixpoint spec_walk (n : jv) (toks : list (list byte)) : option (loc * jv) :=
  match toks with
  | [] => Some ([], n)
  | tok :: rest =>
      match spec_step n tok with
      | None => None
      | Some (st, c) =>
          match spec_walk c rest with
          | Some (l, x) => Some (st :: l, x)
          | None => None
          end
      end
  end.

(* retrieval: the location reached and the node there *)
Definition spec_get (t : jv) (p : list byte) : option (loc * jv) :=
  match parse_pointer p with
  | None => None
  | Some toks => spec_walk t toks
  end.

(* ---------------------------------------------------------------- placement *)

Fixpoint replace_first (name : list byte) (v : jv) (ms : list (list byte * jv)) : list (list byte * jv) :=
  match ms with
  | [] => []
  | kv :: r => if bytes_eqb (fst kv) name then (fst kv, v) :: r else kv :: replace_first name v r
  end.

(* a member named [name] with value [v]: in place when it exists, else added last *)
Definition upsert (name : list byte) (v : jv) (ms : list (list byte * jv)) : list (list byte * jv) :=
  match member ms name with
  | Some _ => replace_first name v ms
  | None => ms ++ [(name, v)]
  end.

(* element [i] := v; beyond the end the gap is filled with JSON null *)
Definition arr_put (xs : list jv) (i : Z) (v : jv) : list jv :=
  if i <? zlen xs then zfirstn i xs ++ v :: zskipn (i + 1) xs
  else xs ++ zrepeat JNull (i - zlen xs) ++ [v].

Definition spec_place (n : jv) (tok : list byte) (v : jv) : option jv :=
  match n with
  | JObj ms => Some (JObj (upsert (unescape tok) v ms))
  | JArr xs =>
      if is_minus tok then Some (JArr (xs ++ [v]))
      else match array_index tok with
           | Some i => Some (JArr (arr_put xs i v))
           | None => None
           end
  | _ => None
  end.

Definition put_child (n : jv) (st : step) (c : jv) : jv :=
  match n, st with
  | JObj ms, inl k => JObj (replace_first k c ms)
  | JArr xs, inr i => JArr (arr_put xs i c)
  | _, _ => n
  end.

Fixpoint spec_set_walk (n : jv) (toks : list (list byte)) (v : jv) : option jv :=
  match toks with
  | [] => Some v
  | tok :: rest =>
      match rest with
      | [] => spec_place n tok v
      | _ :: _ =>
          match spec_step n tok with
          | None => None
          | Some (st, c) =>
              match spec_set_walk c rest v with
              | Some c' => Some (put_child n st c')
              | None => None
              end
          end
      end
  end.

(* the tree after placing [v] at [p]; None = the pointer does not designate a place *)
Definition spec_set (t : jv) (p : list byte) (v : jv) : option jv :=
  match parse_pointer p with
  | None => None
  | Some toks => spec_set_walk t toks v
  end.

(* the place itself: where [v] sits afterwards *)
Definition spec_place_loc (n : jv) (tok : list byte) : option step :=
  match n with
  | JObj _ => Some (inl (unescape tok))
  | JArr xs => if is_minus tok then Some (inr (zlen xs))
               else match array_index tok with Some i => Some (inr i) | None => None end
  | _ => None
  end.
