(* Properties_C09.v — statements only.  C09: equality is a structural equivalence that
   coincides with equality of the denoted values; a deep copy is equal to its (NaN-free)
   source, is the same tree (hence serializes identically under every flag), and is made
   of fresh nodes (disjoint from the source; a store on either side leaves the other).

   [jv_wf]: int64/uint64 nodes hold values of their type, keys of one object are distinct.
   [nan_free]: no double node holds a NaN.  [nt]: a tree whose nodes carry addresses. *)
From JC Require Import Base Value EqModel EqProofs.
Local Open Scope Z_scope.

(* ---- equality is an equivalence ---- *)
Theorem C09_equal_refl : forall a, jv_wf a -> nan_free a = true -> jv_equal a a = true.
Proof. exact equal_refl. Qed.
Print Assumptions C09_equal_refl.

(* the identical node is equal to itself whatever it contains (also a NaN) *)
Theorem C09_equal_refl_same_node : forall a, nt_equal a a = true.
Proof. exact nt_equal_self. Qed.
Print Assumptions C09_equal_refl_same_node.

Theorem C09_equal_sym : forall a b, jv_wf a -> jv_wf b -> jv_equal a b = jv_equal b a.
Proof. exact equal_sym. Qed.
Print Assumptions C09_equal_sym.

Theorem C09_equal_trans : forall a b c, jv_wf a -> jv_wf b -> jv_wf c ->
  jv_equal a b = true -> jv_equal b c = true -> jv_equal a c = true.
Proof. exact equal_trans. Qed.
Print Assumptions C09_equal_trans.

(* at the level of calls, where two of the three pointers may coincide *)
Theorem C09_equal_root_trans : forall sab sbc a b c, jv_wf a -> jv_wf b -> jv_wf c ->
  (sab = true -> a = b) -> (sbc = true -> b = c) ->
  jv_equal_root sab a b = true -> jv_equal_root sbc b c = true ->
  jv_equal_root (sab && sbc) a c = true.
Proof. exact equal_root_trans. Qed.
Print Assumptions C09_equal_root_trans.

(* ---- equality is equality of the denoted values ---- *)
Theorem C09_equal_iff_denote : forall a b,
  jv_wf a -> jv_wf b -> nan_free a = true -> nan_free b = true ->
  (jv_equal a b = true <-> denote a = denote b).
Proof. exact equal_iff_denote. Qed.
Print Assumptions C09_equal_iff_denote.

Theorem C09_equal_iff_denote_nan : forall a b, jv_wf a -> jv_wf b ->
  (jv_equal a b = true <-> nan_free a = true /\ nan_free b = true /\ denote a = denote b).
Proof. exact equal_iff_denote_nan. Qed.
Print Assumptions C09_equal_iff_denote_nan.

(* the double value classes used by [denote] are faithful: the model's == on non-NaN
   doubles holds exactly when the real values (scaled by 2^1074), or the infinities, coincide *)
Theorem C09_double_eq_is_real_eq : forall a b,
  d_decode a <> DNaN -> d_decode b <> DNaN ->
  (dval_eqb (d_decode a) (d_decode b) = true <->
   match d_scaled (d_decode a), d_scaled (d_decode b) with
   | Some x, Some y => x = y
   | None, None => d_decode a = d_decode b
   | _, _ => False
   end).
Proof. exact dval_eqb_real. Qed.
Print Assumptions C09_double_eq_is_real_eq.

Theorem C09_kinds_differ_not_equal : forall a b, jv_kind a <> jv_kind b -> jv_equal a b = false.
Proof. exact kinds_differ_not_equal. Qed.
Print Assumptions C09_kinds_differ_not_equal.

(* a NaN equals only the identical node: two trees without a common node compare node by
   node (so a NaN anywhere gives "unequal") ... *)
Theorem C09_no_shared_node : forall a b,
  (forall i, In i (addrs a) -> In i (addrs b) -> False) ->
  nt_equal a b = jv_equal (erase a) (erase b).
Proof. exact nt_equal_disjoint. Qed.
Print Assumptions C09_no_shared_node.

Theorem C09_nan_never_equal : forall a b, jv_wf a -> jv_wf b ->
  nan_free a = false \/ nan_free b = false -> jv_equal a b = false.
Proof. exact equal_nan_false. Qed.
Print Assumptions C09_nan_never_equal.

(* ... and on NaN-free trees that share nodes arbitrarily the pointer shortcut changes nothing *)
Theorem C09_pointer_shortcut_invisible : forall a b,
  consistent a b -> jv_wf (erase a) -> nan_free (erase a) = true ->
  nt_equal a b = jv_equal (erase a) (erase b).
Proof. exact nt_equal_shared. Qed.
Print Assumptions C09_pointer_shortcut_invisible.

(* ---- deep copy ---- *)
(* same tree: kinds, values, int64/uint64 representation, retained number text, member order *)
Theorem C09_deep_copy_same : forall a, jv_wf a -> deep_copy a = a.
Proof. exact deep_copy_same. Qed.
Print Assumptions C09_deep_copy_same.

Theorem C09_deep_copy_equal : forall a, jv_wf a -> nan_free a = true ->
  jv_equal a (deep_copy a) = true /\ jv_equal (deep_copy a) a = true.
Proof. exact deep_copy_equal. Qed.
Print Assumptions C09_deep_copy_equal.

Theorem C09_deep_copy_equal_iff : forall a, jv_wf a -> jv_equal a (deep_copy a) = nan_free a.
Proof. exact deep_copy_equal_iff. Qed.
Print Assumptions C09_deep_copy_equal_iff.

(* identical serialization under every flag, for every serializer that is a function of the tree *)
Theorem C09_deep_copy_same_text : forall (F T : Type) (ser : F -> jv -> T) a,
  jv_wf a -> forall flags, ser flags (deep_copy a) = ser flags a.
Proof. exact @deep_copy_same_text. Qed.
Print Assumptions C09_deep_copy_same_text.

(* in memory: the copy made at allocation pointer n (all source addresses below n) *)
Theorem C09_deep_copy_disjoint : forall t n,
  (forall i, In i (addrs t) -> i < n) ->
  forall i, In i (addrs t) -> In i (addrs (fst (nt_copy t n))) -> False.
Proof. exact deep_copy_disjoint. Qed.
Print Assumptions C09_deep_copy_disjoint.

Theorem C09_copy_tree_shaped : forall t n, NoDup (addrs (fst (nt_copy t n))).
Proof. exact copy_tree_shaped. Qed.
Print Assumptions C09_copy_tree_shaped.

Theorem C09_copy_erase : forall t n, jv_wf (erase t) -> erase (fst (nt_copy t n)) = erase t.
Proof. exact copy_erase. Qed.
Print Assumptions C09_copy_erase.

Theorem C09_copy_equal_in_memory : forall t n,
  (forall i, In i (addrs t) -> i < n) -> jv_wf (erase t) ->
  nt_equal t (fst (nt_copy t n)) = nan_free (erase t) /\
  nt_equal (fst (nt_copy t n)) t = nan_free (erase t).
Proof. exact copy_equal_nt. Qed.
Print Assumptions C09_copy_equal_in_memory.

(* a store through any pointer into one tree leaves the other unchanged *)
Theorem C09_mutation_frame : forall t n f,
  (forall i, In i (addrs t) -> i < n) ->
  (forall i, In i (addrs (fst (nt_copy t n))) -> nt_write i f t = t) /\
  (forall i, In i (addrs t) -> nt_write i f (fst (nt_copy t n)) = fst (nt_copy t n)).
Proof. exact mutation_frame. Qed.
Print Assumptions C09_mutation_frame.

(* ---- trees with a history ---- *)
(* every public mutator keeps a tree well formed, so all of the above holds for every tree a
   client can reach by any sequence of setters / adds / deletes (ill-fitting ones are refused
   and change nothing); in particular equality after two histories depends only on the values
   reached, and a deep copy of a tree with a history is that tree *)
Theorem C09_history_wf : forall h, Forall (fun pm => mutop_wf (snd pm)) h ->
  forall v, jv_wf v -> jv_wf (fst (run_history h v)).
Proof. exact run_history_wf. Qed.
Print Assumptions C09_history_wf.

Theorem C09_history_equal_iff_denote : forall ha hb a b,
  Forall (fun pm => mutop_wf (snd pm)) ha -> Forall (fun pm => mutop_wf (snd pm)) hb -> jv_wf a -> jv_wf b ->
  let a' := fst (run_history ha a) in
  let b' := fst (run_history hb b) in
  (jv_equal a' b' = true <-> nan_free a' = true /\ nan_free b' = true /\ denote a' = denote b') /\
  jv_equal a' b' = jv_equal b' a' /\
  deep_copy a' = a' /\ jv_equal a' (deep_copy a') = nan_free a'.
Proof. exact history_equal_iff_denote. Qed.
Print Assumptions C09_history_equal_iff_denote.

(* ---- the copy is disjoint from the source in everything it stores, member names included ---- *)
(* [mt]: trees whose nodes carry addresses and whose member names carry their storage
   identity: a strdup owned by the entry ([KOwn addr]) or memory of the caller that the entry
   only points to ([KBorrowed buf], JSON_C_OBJECT_ADD_CONSTANT_KEY) *)
Theorem C09_deep_copy_disjoint_keys : forall t n,
  (forall i, In i (mem_addrs t) -> i < n) ->
  (forall i, In i (mem_addrs t) -> In i (mem_addrs (fst (mt_copy t n))) -> False) /\
  (forall s, In s (key_stores t) -> In s (key_stores (fst (mt_copy t n))) -> False).
Proof. exact deep_copy_disjoint_keys. Qed.
Print Assumptions C09_deep_copy_disjoint_keys.

Theorem C09_copy_owns_keys : forall t n,
  Forall is_own (key_stores (fst (mt_copy t n))) /\ borrowed (fst (mt_copy t n)) = [].
Proof. exact mt_copy_owns_keys. Qed.
Print Assumptions C09_copy_owns_keys.

Theorem C09_copy_keys_tree_shaped : forall t n, NoDup (mem_addrs (fst (mt_copy t n))).
Proof. exact mt_copy_tree_shaped. Qed.
Print Assumptions C09_copy_keys_tree_shaped.

Theorem C09_copy_keys_erase : forall t n, jv_wf (mt_erase t) -> mt_erase (fst (mt_copy t n)) = mt_erase t.
Proof. exact mt_copy_erase. Qed.
Print Assumptions C09_copy_keys_erase.

(* the caller overwriting / recycling / freeing any of its buffers: a tree that does not borrow
   the buffer reads the same; the copy borrows none *)
Theorem C09_key_buffer_frame : forall b x t, ~ In b (borrowed t) -> kbuf_write b x t = t.
Proof. exact kbuf_write_frame. Qed.
Print Assumptions C09_key_buffer_frame.

Theorem C09_copy_key_frame : forall t n b x, kbuf_write b x (fst (mt_copy t n)) = fst (mt_copy t n).
Proof. exact mt_copy_key_frame. Qed.
Print Assumptions C09_copy_key_frame.

(* ---- ... and the userdata texts of the stock serializer included ---- *)
(* [uanns]: per node, the text given to json_object_userdata_to_json_string, where it is stored
   (a block the node releases / caller memory) and whether a delete function is registered.
   json_object_copy_serializer_data always strdup's: every text of the copy is a fresh block. *)
Theorem C09_deep_copy_disjoint_all : forall s n,
  (forall i, In i (image_addrs s) -> i < n) ->
  (forall i, In i (image_addrs s) -> In i (image_addrs (fst (full_copy s n))) -> False) /\
  (forall st, In st (key_stores (fst s) ++ ud_stores (snd s)) ->
              In st (key_stores (fst (fst (full_copy s n))) ++ ud_stores (snd (fst (full_copy s n)))) -> False) /\
  borrowed (fst (fst (full_copy s n))) = [] /\
  (forall st, In st (ud_stores (snd (fst (full_copy s n)))) -> is_own st).
Proof. exact deep_copy_disjoint_all. Qed.
Print Assumptions C09_deep_copy_disjoint_all.

(* same texts and delete functions, hence the same output of the stock serializer *)
Theorem C09_userdata_copy_same_text : forall a n, ud_texts (fst (copy_uanns a n)) = ud_texts a.
Proof. exact userdata_copy_same_text. Qed.
Print Assumptions C09_userdata_copy_same_text.

(* the caller rewriting / freeing any of its buffers is invisible through the copy *)
Theorem C09_userdata_copy_owned : forall a n b x, ubuf_write b x (fst (copy_uanns a n)) = fst (copy_uanns a n).
Proof. exact userdata_copy_owned. Qed.
Print Assumptions C09_userdata_copy_owned.

(* as written (dst->_user_delete = src->_user_delete): the texts duplicated from nodes without a
   delete function are library blocks that no node releases — one per such node *)
Theorem C09_userdata_copy_unreleased : forall a n,
  length (unreleased (fst (copy_uanns a n))) = null_delete_count a.
Proof. exact userdata_copy_unreleased. Qed.
Print Assumptions C09_userdata_copy_unreleased.

(* "the copy releases everything it allocated" is therefore refuted by a one-node witness *)
Theorem C09_copy_releases_everything_refuted :
  exists a n, unreleased (fst (copy_uanns a n)) <> [].
Proof. exists [Some (mk_ud [60] (KBorrowed 0) false)], 5. vm_compute. discriminate. Qed.
Print Assumptions C09_copy_releases_everything_refuted.

(* ---- process-wide settings ---- *)
(* json_global_set_string_hash / json_c_set_serialization_double_format calls inserted at any
   point of the histories change neither the trees reached nor (the settings being a
   parameter that the model of json_object_equal / json_object_deep_copy ignores) the result
   of comparing or copying them *)
Theorem C09_history_globals_ignored : forall h v,
  fst (run_history h v) = fst (run_history (filter (fun pm => negb (is_global pm)) h) v).
Proof. exact history_globals_ignored. Qed.
Print Assumptions C09_history_globals_ignored.

Theorem C09_settings_irrelevant : forall g g' ha hb a b,
  let a1 := fst (fst (run_history_g g ha a)) in
  let b1 := fst (fst (run_history_g g hb b)) in
  let a2 := fst (fst (run_history_g g' ha a)) in
  let b2 := fst (fst (run_history_g g' hb b)) in
  a1 = a2 /\ b1 = b2 /\ jv_equal_in g a1 b1 = jv_equal_in g' a2 b2 /\ deep_copy_in g a1 = deep_copy_in g' a2.
Proof. exact settings_irrelevant. Qed.
Print Assumptions C09_settings_irrelevant.

(* ---- deep copy with a caller-supplied json_c_shallow_copy_fn ---- *)
(* the callback's answers (1 / 2 / -1) and the set of source nodes carrying application
   userdata are ORACLES: arbitrary functions of the history of calls and of the present call.
   For every oracle: a successful copy is the source tree itself (complete, same retained
   texts and int representations), hence equal to it iff NaN-free, and the callback was
   called exactly once per node ... *)
Theorem C09_deep_copy_cb_same : forall env src p k i d h c h',
  jv_wf src -> deep_copy_cb env src p k i d h = (Some c, h') -> c = src.
Proof. exact deep_copy_cb_same. Qed.
Print Assumptions C09_deep_copy_cb_same.

Theorem C09_deep_copy_cb_equal : forall env src p k i d h c h',
  jv_wf src -> deep_copy_cb env src p k i d h = (Some c, h') ->
  jv_equal src c = nan_free src /\ jv_equal c src = nan_free src /\ denote c = denote src.
Proof. exact deep_copy_cb_equal. Qed.
Print Assumptions C09_deep_copy_cb_equal.

Theorem C09_deep_copy_cb_calls : forall env src p k i d h c h',
  jv_wf src -> deep_copy_cb env src p k i d h = (Some c, h') -> zlen h' = zlen h + node_count src.
Proof. exact deep_copy_cb_calls. Qed.
Print Assumptions C09_deep_copy_cb_calls.

(* ... and for every oracle that never fails (never -1; 2 wherever the node carries
   application userdata) the copy succeeds *)
Theorem C09_deep_copy_cb_never_fails : forall env src, cb_never_fails env -> jv_wf src -> src <> JNull ->
  exists h', deep_copy_cb_root env src = (Some src, h') /\ zlen h' = node_count src /\
             jv_equal src src = nan_free src.
Proof. exact deep_copy_cb_never_fails. Qed.
Print Assumptions C09_deep_copy_cb_never_fails.

Theorem C09_deep_copy_cb_default : forall src, jv_wf src -> src <> JNull ->
  fst (deep_copy_cb_root cb_default src) = deep_copy_root src.
Proof. exact deep_copy_cb_default. Qed.
Print Assumptions C09_deep_copy_cb_default.

Theorem C09_deep_copy_cb_error : forall env src p k i d h,
  src <> JNull -> cb_answer env h (mk_call src p k i d) = CbError ->
  deep_copy_cb env src p k i d h = (None, mk_call src p k i d :: h).
Proof. exact deep_copy_cb_error. Qed.
Print Assumptions C09_deep_copy_cb_error.

(* ---- non-vacuity ---- *)
Theorem C09_nonvacuous_equal :
  ex_a <> ex_b /\ jv_equal ex_a ex_b = true /\ jv_equal ex_b ex_c = true /\ jv_equal ex_a ex_c = true /\
  denote ex_a = denote ex_b /\ nan_free ex_a = true /\ nan_free ex_b = true /\ nan_free ex_c = true.
Proof. exact ex_equal_perm. Qed.

Theorem C09_nonvacuous_wf : jv_wf ex_a /\ jv_wf ex_b /\ jv_wf ex_c.
Proof. exact ex_a_wf. Qed.

Theorem C09_nonvacuous_ints :
  jv_equal (JInt 9223372036854775807) (JUint 9223372036854775807) = true /\
  jv_equal (JUint 9223372036854775808) (JInt (-9223372036854775808)) = false /\
  jv_equal (JInt (-9223372036854775808)) (JUint 9223372036854775808) = false /\
  jv_equal (JUint 18446744073709551615) (JInt (-1)) = false /\
  jv_equal (JInt 1) (JDouble 4607182418800017408 None) = false.
Proof. exact ex_mixed_ints. Qed.

Theorem C09_nonvacuous_copy :
  let src := fst (build ex_a 0) in
  let cpy := fst (nt_copy src 100) in
  erase cpy = ex_a /\ addrs src = [0; 1; 2; 3; 4; 5] /\ addrs cpy = [100; 101; 102; 103; 104; 105] /\
  nt_equal src cpy = true /\
  erase (nt_write 103 (fun _ => NLeaf 103 (LStr [120])) cpy) <> ex_a /\
  nt_write 103 (fun _ => NLeaf 103 (LStr [120])) src = src.
Proof. exact ex_copy. Qed.

Theorem C09_nonvacuous_shared_nan :
  let x := NLeaf 7 (LDouble ex_nan None) in
  nt_equal (NArr 1 [x]) (NArr 2 [x]) = true /\
  nt_equal (NArr 1 [x]) (NArr 2 [NLeaf 8 (LDouble ex_nan None)]) = false /\
  consistent (NArr 1 [x]) (NArr 2 [x]).
Proof. exact ex_shared_nan. Qed.

Theorem C09_nonvacuous_history :
  let h := [([SKey [98]; SIdx 2], MSetStr [1;2;3;4;5;6;7;8;9;10;11;12;13;14;15;16;17;18;19;20;21;22;23;24;25;26;27;28;29;30;31;32;33]);
            ([SKey [98]; SIdx 2], MSetStr [0;1]);
            ([SKey [97]], MSetUint 9223372036854775807);
            ([], MPut [122] JNull); ([], MDel [122]);
            ([SKey [98]], MArrPut 5 (JInt 1)); ([SKey [98]], MArrDel 3 3); ([SKey [98]], MArrDel 7 1)] in
  run_history h ex_a
  = (JObj [([97], JUint 9223372036854775807); ([98], JArr [JNull; JDouble 0 (Some [48;46;48]); JStr [0;1]]); ([], JObj [])],
     [true; true; true; true; true; true; true; false]) /\
  jv_equal (fst (run_history h ex_a)) ex_b = true.
Proof. exact ex_history. Qed.

Theorem C09_nonvacuous_callback :
  cb_never_fails ex_env /\
  (exists h, deep_copy_cb_root ex_env ex_a = (Some ex_a, h) /\ zlen h = 6) /\
  (exists h, deep_copy_cb_root ex_env_fail ex_a = (None, h) /\ zlen h = 4) /\
  fst (deep_copy_cb_root (mk_env (fun _ _ => CbCreated) (fun _ c => match c_src c with JArr _ => true | _ => false end)) ex_a) = None.
Proof. exact ex_cb. Qed.

Theorem C09_nonvacuous_keys :
  let cpy := fst (mt_copy ex_msrc 10) in
  mt_erase cpy = mt_erase ex_msrc /\
  key_stores ex_msrc = [KBorrowed 0; KBorrowed 1; KOwn 3; KOwn 5] /\
  key_stores cpy = [KOwn 12; KOwn 16; KOwn 15; KOwn 17] /\
  borrowed ex_msrc = [0; 1] /\ borrowed cpy = [] /\
  mt_erase (kbuf_write 0 [90] ex_msrc) <> mt_erase ex_msrc /\
  kbuf_write 0 [90] cpy = cpy.
Proof. exact ex_keys. Qed.

Theorem C09_nonvacuous_userdata :
  let cpy := fst (full_copy (ex_msrc, ex_uanns) 10) in
  ud_stores (snd cpy) = [KOwn 18; KOwn 19] /\
  ud_texts (snd cpy) = ud_texts ex_uanns /\
  ud_texts (ubuf_write 7 [90] ex_uanns) <> ud_texts ex_uanns /\
  ubuf_write 7 [90] (snd cpy) = snd cpy /\
  unreleased (snd cpy) = [19].
Proof. exact ex_userdata. Qed.
