(* ThreadProofs.v — C18: proofs about the interleaving semantics of ThreadModel.v for the
   micro-operation programs regenerated into ThreadImpl.v.

   Part 1  list / sum helpers
   Part 2  footprint of micro-operations on one node; frame lemma
   Part 3  reference count: invariant GI (count = sum of the owned references, at most one
           pending or performed destruction, exactly when the count is 0), trace invariant
           TR (the destruction directly follows the decrement to 0 of the same thread and
           is the last event on the node; all accesses atomic), for ALL schedules, by
           induction on the schedule
   Part 4  seed: invariant SG, for ALL schedules
   Part 5  the regenerated implementation satisfies the shape conditions (this is what
           breaks when the source changes); negative controls *)
From JC Require Import Base ThreadModel ThreadImpl.
Local Open Scope Z_scope.
Local Arguments Z.add : simpl never.
Local Arguments Z.sub : simpl never.
Local Arguments Z.modulo : simpl never.
Local Arguments Z.eqb : simpl never.
Local Arguments Z.ltb : simpl never.

(* ------------------------------------------------------------------ Part 1 *)
Lemma nth_error_upd_eq : forall A (l : list A) i x a,
  nth_error l i = Some a -> nth_error (upd l i x) i = Some x.
Proof.
  induction l; intros [|i] x b H; simpl in *; try discriminate; eauto.
Qed.

Lemma nth_error_upd_neq : forall A (l : list A) i j x,
  i <> j -> nth_error (upd l i x) j = nth_error l j.
Proof.
  induction l; intros [|i] [|j] x H; simpl; auto; try congruence.
Qed.

Lemma zsum_map_upd : forall A (f : A -> Z) l i x a,
  nth_error l i = Some a -> zsum (map f (upd l i x)) = zsum (map f l) - f a + f x.
Proof.
  induction l; intros [|i] x b H; simpl in *; try discriminate.
  - inversion H; subst. unfold zsum; simpl. fold (zsum (map f l)). lia.
  - unfold zsum in *; simpl. rewrite (IHl i x b H). lia.
Qed.

Lemma Forall_upd : forall A (P : A -> Prop) l i x, Forall P l -> P x -> Forall P (upd l i x).
Proof.
  induction l; intros [|i] x H Hx; simpl; auto; inversion H; subst; constructor; auto.
Qed.

Lemma Forall_nth : forall A (P : A -> Prop) l i a, Forall P l -> nth_error l i = Some a -> P a.
Proof.
  intros. rewrite Forall_forall in H. apply H. eapply nth_error_In; eauto.
Qed.

Lemma zsum_nonneg : forall A (f : A -> Z) l, Forall (fun a => 0 <= f a) l -> 0 <= zsum (map f l).
Proof.
  induction 1; unfold zsum in *; simpl; lia.
Qed.

Lemma zsum_ge_elem : forall A (f : A -> Z) l i a,
  Forall (fun a => 0 <= f a) l -> nth_error l i = Some a -> f a <= zsum (map f l).
Proof.
  induction l; intros [|i] b HF H; simpl in *; try discriminate; inversion HF; subst.
  - inversion H; subst. pose proof (zsum_nonneg _ f l H3). unfold zsum in *; simpl; lia.
  - specialize (IHl i b H3 H). unfold zsum in *; simpl; lia.
Qed.

Lemma zsum_zero_elem : forall A (f : A -> Z) l i a,
  Forall (fun a => 0 <= f a) l -> zsum (map f l) = 0 -> nth_error l i = Some a -> f a = 0.
Proof.
  intros. pose proof (zsum_ge_elem _ f l i a H H1). pose proof (Forall_nth _ _ _ _ _ H H1). simpl in *. lia.
Qed.

Lemma zsum_all_zero : forall A (f : A -> Z) l, Forall (fun a => f a = 0) l -> zsum (map f l) = 0.
Proof.
  induction 1; unfold zsum in *; simpl; lia.
Qed.

Lemma cell_eqb_refl : forall c, cell_eqb c c = true.
Proof. destruct c; simpl; auto using Nat.eqb_refl. Qed.

Lemma cell_eqb_sym : forall a b, cell_eqb a b = cell_eqb b a.
Proof. destruct a, b; simpl; auto using Nat.eqb_sym. Qed.

Lemma wr_same : forall m c v, wr m c v c = v.
Proof. intros; unfold wr; now rewrite cell_eqb_refl. Qed.

Lemma wr_other : forall m c v x, cell_eqb c x = false -> wr m c v x = m x.
Proof. intros; unfold wr. rewrite cell_eqb_sym, H. reflexivity. Qed.

Lemma wrap32_id : forall z, 0 <= z <= UINT32_MAX -> wrap32 z = z.
Proof. intros; unfold wrap32, UINT32_MAX in *. apply Z.mod_small. lia. Qed.

Lemma destroy_count_app : forall n a b, destroy_count n (a ++ b) = destroy_count n a + destroy_count n b.
Proof.
  induction a as [|e a IH]; intros; simpl; auto. destruct e; rewrite ?IH; lia.
Qed.

Lemma destroy_count_nonneg : forall n a, 0 <= destroy_count n a.
Proof.
  induction a as [|e a IH]; simpl; try lia. destruct e as [| |? k|]; try lia. destruct (Nat.eqb k n); lia.
Qed.

Lemma destroy_count_node_trace : forall n a, destroy_count n (node_trace n a) = destroy_count n a.
Proof.
  unfold node_trace. induction a as [|e a IH]; simpl; auto.
  destruct e as [? c ? ?|? c ? ?|? k|]; simpl; auto; try (destruct (cell_eqb c (RC n)); simpl; auto).
  destruct (Nat.eqb k n) eqn:E; simpl; rewrite ?E; lia.
Qed.

Lemma node_trace_app : forall n a b, node_trace n (a ++ b) = node_trace n a ++ node_trace n b.
Proof. intros; unfold node_trace; apply filter_app. Qed.

(* ------------------------------------------------------------------ Part 2 *)
Fixpoint mop_touch (n : nat) (m : mop) : bool :=
  match m with
  | Skip | CallRandom | RetryIfUnset | ReadForHash _ => false
  | AtomicAdd c _ | AtomicSub c _ | AtomicSubFetch c _ | Load c | AtomicLoad c | Store c _ | CAS c _
  | CASOnce c _ | StoreFresh c => cell_eqb c (RC n)
  | BranchDestroyIfResultZero k => Nat.eqb k n
  | IfUnset b => existsb (mop_touch n) b
  end.

Definition touch (n : nat) (c : list mop) : bool := existsb (mop_touch n) c.

Definition is_branch (n : nat) (c : list mop) : bool :=
  match c with
  | [BranchDestroyIfResultZero k] => Nat.eqb k n
  | _ => false
  end.

Lemma touch_not_branch : forall n c, touch n c = false -> is_branch n c = false.
Proof.
  intros n [|m [|m' c]] H; simpl in *; auto; destruct m; auto.
  simpl in H. rewrite orb_false_r in H. auto.
Qed.

Lemma is_branch_eq : forall n c, is_branch n c = true -> c = [BranchDestroyIfResultZero n].
Proof.
  intros n [|m [|m' c]] H; simpl in *; try discriminate; destruct m; try discriminate.
  apply Nat.eqb_eq in H. subst; auto.
Qed.

Lemma touch_app : forall n a b, touch n (a ++ b) = touch n a || touch n b.
Proof. intros; unfold touch; apply existsb_app. Qed.

(* a micro-operation outside the footprint of node n leaves the node alone *)
Lemma exec_frame : forall rnd n t m ri th op m' th' evs ri',
  mop_touch n op = false -> touch n (cur th) = false ->
  exec rnd t m ri th op = (m', th', evs, ri') ->
  m' (RC n) = m (RC n) /\ held th' = held th /\ prog th' = prog th /\
  touch n (cur th') = false /\ node_trace n evs = [] /\ destroy_count n evs = 0.
Proof.
  intros rnd n t m ri th op m' th' evs ri' Hop Hc E.
  destruct op; simpl in *;
    try (inversion E; subst; clear E; simpl; rewrite ?Hop; rewrite ?wr_other by auto;
         repeat split; auto; fail).
  - (* Branch *) destruct (0 <? reg th); inversion E; subst; simpl; rewrite ?Hop; repeat split; auto.
  - (* IfUnset *) destruct (reg th =? -1); inversion E; subst; simpl; repeat split; auto.
    rewrite touch_app. unfold touch at 1. rewrite Hop, Hc. auto.
  - (* Retry *) destruct (fresh th =? -1); inversion E; subst; simpl; repeat split; auto.
  - (* CAS *) destruct (m c =? expected); inversion E; subst; simpl; rewrite ?Hop; rewrite ?wr_other by auto;
      repeat split; auto.
  - (* CASOnce *) destruct (m c =? reg th); inversion E; subst; simpl; rewrite ?Hop; rewrite ?wr_other by auto;
      repeat split; auto.
  - (* ReadForHash *) destruct w; inversion E; subst; simpl; repeat split; auto.
Qed.

(* ------------------------------------------------------------------ Part 3: reference count *)
(* shape condition on the implementation: what tr/atomics.py must have produced *)
Definition atomic_rc (im : impl_t) : Prop :=
  (forall k, get_p im k = atomic_get k) /\ (forall k, put_p im k = atomic_put k) /\
  (forall k, touch k (seed_p im) = false).

Definition pz (n : nat) (th : thread) : Z :=
  if is_branch n (cur th) && (reg th =? 0) then 1 else 0.

Lemma pz_nonneg : forall n th, 0 <= pz n th.
Proof. intros; unfold pz; destruct (_ && _); lia. Qed.

Record TI (n : nat) (th : thread) : Prop := {
  ti_held : 0 <= held th n;
  ti_resp : respects n (held th n) (prog th);
  ti_pend : touch n (cur th) = false \/ cur th = [BranchDestroyIfResultZero n];
  ti_reg : cur th = [BranchDestroyIfResultZero n] -> 0 <= reg th
}.

Inductive rcase (n : nat) (th : thread) (op : mop) (th1 : thread) : Prop :=
| RC_other :
    mop_touch n op = false -> touch n (cur th1) = false -> is_branch n (cur th) = false ->
    held th1 n = held th n -> respects n (held th n) (prog th1) ->
    count_get n (prog th1) = count_get n (prog th) -> count_put n (prog th1) = count_put n (prog th) ->
    rcase n th op th1
| RC_get :
    op = AtomicAdd (RC n) 1 -> cur th = [] -> cur th1 = [] -> 1 <= held th n ->
    held th1 n = held th n + 1 -> respects n (held th n + 1) (prog th1) ->
    count_get n (prog th) = 1 + count_get n (prog th1) -> count_put n (prog th1) = count_put n (prog th) ->
    rcase n th op th1
| RC_put :
    op = AtomicSubFetch (RC n) 1 -> cur th = [] -> cur th1 = [BranchDestroyIfResultZero n] ->
    1 <= held th n -> held th1 n = held th n - 1 -> respects n (held th n - 1) (prog th1) ->
    count_get n (prog th1) = count_get n (prog th) -> count_put n (prog th) = 1 + count_put n (prog th1) ->
    rcase n th op th1
| RC_branch :
    op = BranchDestroyIfResultZero n -> cur th = [BranchDestroyIfResultZero n] -> cur th1 = [] ->
    held th1 = held th -> prog th1 = prog th -> reg th1 = reg th -> 0 <= reg th ->
    rcase n th op th1.

Lemma count_get_nonneg : forall n p, 0 <= count_get n p.
Proof. induction p as [|c p IH]; simpl; try lia. destruct c as [k|k|]; try lia. destruct (Nat.eqb k n); lia. Qed.

Lemma count_put_nonneg : forall n p, 0 <= count_put n p.
Proof. induction p as [|c p IH]; simpl; try lia. destruct c as [k|k|]; try lia. destruct (Nat.eqb k n); lia. Qed.

Lemma ready_cases : forall im n th op th1,
  atomic_rc im -> TI n th -> ready im th = Some (op, th1) -> rcase n th op th1.
Proof.
  intros im n th op th1 (Hg & Hp & Hs) [Hh Hr Hpd Hrg] R.
  unfold ready in R. destruct (cur th) as [|m c] eqn:Ec.
  - destruct (prog th) as [|cl p] eqn:Ep; try discriminate.
    inversion R; subst; clear R. simpl in Hr.
    destruct cl as [k|k|]; simpl.
    + rewrite Hg. unfold atomic_get; simpl.
      destruct (Nat.eqb k n) eqn:E.
      * apply Nat.eqb_eq in E; subst k. destruct Hr as [H1 H2].
        apply RC_get; rewrite ?Ep, ?Ec; simpl; auto; unfold bump; rewrite ?Nat.eqb_refl; auto; lia.
      * apply RC_other; rewrite ?Ep, ?Ec; simpl; rewrite ?E; auto.
        unfold bump. rewrite Nat.eqb_sym, E. auto.
    + rewrite Hp. unfold atomic_put; simpl.
      destruct (Nat.eqb k n) eqn:E.
      * apply Nat.eqb_eq in E; subst k. destruct Hr as [H1 H2].
        apply RC_put; rewrite ?Ep, ?Ec; simpl; auto; unfold bump; rewrite ?Nat.eqb_refl; auto; lia.
      * apply RC_other; rewrite ?Ep, ?Ec; simpl; rewrite ?E; auto.
        unfold bump. rewrite Nat.eqb_sym, E. auto.
    + specialize (Hs n). unfold touch in Hs.
      destruct (seed_p im) as [|s0 sp] eqn:Es; simpl in *.
      * apply RC_other; rewrite ?Ep, ?Ec; simpl; auto.
      * apply orb_false_iff in Hs. destruct Hs. apply RC_other; rewrite ?Ep, ?Ec; simpl; auto.
  - inversion R; subst; clear R. destruct Hpd as [Ht | Hb].
    + simpl in Ht. apply orb_false_iff in Ht. destruct Ht as [Ht1 Ht2].
      apply RC_other; rewrite ?Ec; auto.
      apply touch_not_branch. simpl. rewrite Ht1. auto.
    + inversion Hb; subst. apply RC_branch; rewrite ?Ec; simpl; auto.
Qed.

Section RcInv.
Variable im : impl_t.
Variable rnd : nat -> Z.
Variable n : nat.
Variable C : Z.            (* initial count + all gets - all puts of the programs *)
Hypothesis Him : atomic_rc im.

Definition S_held (st : state) := zsum (map (fun th => held th n) (thr st)).
Definition S_get (st : state) := zsum (map (fun th => count_get n (prog th)) (thr st)).
Definition S_put (st : state) := zsum (map (fun th => count_put n (prog th)) (thr st)).
Definition S_pz (st : state) := zsum (map (pz n) (thr st)).

Definition atomic_ev (e : event) : Prop :=
  match e with
  | EvAcc _ _ a _ => a = true
  | EvInstall _ _ _ a => a = true
  | _ => True
  end.

Record GI (st : state) : Prop := {
  g_mem : mem st (RC n) = S_held st;
  g_ti : Forall (TI n) (thr st);
  g_bound : mem st (RC n) + S_get st <= UINT32_MAX;
  g_pz : S_pz st + destroy_count n (trace st) = (if mem st (RC n) =? 0 then 1 else 0);
  g_cons : mem st (RC n) + S_get st - S_put st = C;
  (* trace *)
  g_atomic : Forall atomic_ev (node_trace n (trace st));
  g_wf : destroy_count n (trace st) = 0 \/
         exists t rest, node_trace n (trace st) = EvDestroy t n :: EvAcc t (RC n) true 0 :: rest /\
                        destroy_count n rest = 0;
  g_pend : forall t th, nth_error (thr st) t = Some th -> is_branch n (cur th) = true -> reg th = 0 ->
           exists rest, node_trace n (trace st) = EvAcc t (RC n) true 0 :: rest
}.

Lemma held_nonneg_all : forall st, GI st -> Forall (fun th => 0 <= held th n) (thr st).
Proof. intros st G. eapply Forall_impl; [|apply (g_ti _ G)]. intros a H; apply H. Qed.

Lemma pz_all_nonneg : forall l, Forall (fun th => 0 <= pz n th) l.
Proof. intros; apply Forall_forall; intros; apply pz_nonneg. Qed.

Lemma get_all_nonneg : forall l, Forall (fun th => 0 <= count_get n (prog th)) l.
Proof. intros; apply Forall_forall; intros; apply count_get_nonneg. Qed.

Lemma pz_of_branch0 : forall th, is_branch n (cur th) = true -> reg th = 0 -> pz n th = 1.
Proof. intros th H H0; unfold pz; rewrite H, H0; auto. Qed.

Lemma pz_not_branch : forall th, is_branch n (cur th) = false -> pz n th = 0.
Proof. intros th H; unfold pz; rewrite H; auto. Qed.

(* when no destruction is pending anywhere, the pending-destroyer clause is vacuous *)
Lemma no_pending : forall l, zsum (map (pz n) l) = 0 ->
  forall t th, nth_error l t = Some th -> is_branch n (cur th) = true -> reg th = 0 -> False.
Proof.
  intros l H t th Hn Hb Hr.
  pose proof (zsum_zero_elem _ (pz n) l t th (pz_all_nonneg l) H Hn) as Z0.
  rewrite (pz_of_branch0 th Hb Hr) in Z0. discriminate.
Qed.

Lemma step_inv : forall st t, GI st -> GI (step im rnd st t).
Proof.
  intros st t G. unfold step.
  destruct (nth_error (thr st) t) as [th|] eqn:Hn; auto.
  destruct (ready im th) as [[op th1]|] eqn:R; auto.
  pose proof (Forall_nth _ _ _ _ _ (g_ti _ G) Hn) as Hti.
  pose proof (ready_cases im n th op th1 Him Hti R) as RC.
  pose proof (held_nonneg_all st G) as Hhn.
  pose proof (zsum_ge_elem _ (fun th => held th n) (thr st) t th Hhn Hn) as Hge. simpl in Hge.
  pose proof (zsum_ge_elem _ (fun th => count_get n (prog th)) (thr st) t th (get_all_nonneg _) Hn) as Hgg.
  simpl in Hgg.
  destruct G as [Gm Gt Gb Gp Gc Ga Gw Gpd].
  fold (S_held st) in Hge. fold (S_get st) in Hgg.
  destruct RC as [Hop Hc1 Hnb Hh1 Hr1 Hcg Hcp
                 | Hop Hc Hc1 Hh Hh1 Hr1 Hcg Hcp
                 | Hop Hc Hc1 Hh Hh1 Hr1 Hcg Hcp
                 | Hop Hc Hc1 Hh1 Hp1 Hrg1 Hrg].
  - (* a micro-operation that does not concern node n *)
    destruct (exec rnd t (mem st) (rnd_i st) th1 op) as [[[m' th2] evs] ri'] eqn:E.
    destruct (exec_frame rnd n t _ _ _ _ _ _ _ _ Hop Hc1 E) as (Fm & Fh & Fp & Fc & Fn & Fd).
    assert (Hpz2 : pz n th2 = 0) by (apply pz_not_branch, touch_not_branch; auto).
    assert (Hpz1 : pz n th = 0) by (apply pz_not_branch; auto).
    constructor; simpl.
    + rewrite Fm, Gm. unfold S_held; simpl. rewrite (zsum_map_upd _ _ _ _ th2 th Hn). rewrite Fh, Hh1. lia.
    + apply Forall_upd; auto. constructor.
      * rewrite Fh, Hh1. apply Hti.
      * rewrite Fh, Hh1, Fp. auto.
      * left; auto.
      * intro Hb. rewrite Hb in Fc. simpl in Fc. rewrite Nat.eqb_refl in Fc. discriminate.
    + rewrite Fm. unfold S_get in *; simpl. rewrite (zsum_map_upd _ _ _ _ th2 th Hn). rewrite Fp, Hcg. lia.
    + rewrite Fm, <- Gp. unfold S_pz; simpl. rewrite (zsum_map_upd _ _ _ _ th2 th Hn).
      rewrite destroy_count_app, Fd, Hpz1, Hpz2. lia.
    + rewrite Fm, <- Gc. unfold S_get, S_put; simpl.
      rewrite !(zsum_map_upd _ _ _ _ th2 th Hn). rewrite Fp, Hcg, Hcp. lia.
    + rewrite node_trace_app, Fn. auto.
    + rewrite destroy_count_app, Fd, node_trace_app, Fn. simpl. auto.
    + intros t' th' Hn' Hb' Hr'. rewrite node_trace_app, Fn. simpl.
      destruct (Nat.eq_dec t t') as [->|Hne].
      * rewrite (nth_error_upd_eq _ _ _ _ _ Hn) in Hn'. inversion Hn'; subst th'.
        rewrite (touch_not_branch _ _ Fc) in Hb'. discriminate.
      * rewrite nth_error_upd_neq in Hn' by auto. eauto.
  - (* get on node n: the atomic add *)
    subst op. simpl.
    assert (Hm1 : 1 <= mem st (RC n)) by lia.
    pose proof (count_get_nonneg n (prog th1)) as Hg1.
    assert (Hub : mem st (RC n) + 1 <= UINT32_MAX) by lia.
    rewrite wrap32_id by lia.
    assert (Hz : (mem st (RC n) =? 0) = false) by (apply Z.eqb_neq; lia).
    rewrite Hz in Gp.
    pose proof (destroy_count_nonneg n (trace st)) as Hd0.
    pose proof (zsum_nonneg _ (pz n) (thr st) (pz_all_nonneg _)) as Hs0. fold (S_pz st) in Hs0.
    assert (Hpz1 : pz n th = 0) by (apply pz_not_branch; rewrite Hc; auto).
    assert (Hpz2 : pz n th1 = 0) by (apply pz_not_branch; rewrite Hc1; auto).
    constructor; simpl; rewrite ?wr_same.
    + rewrite Gm. unfold S_held; simpl. rewrite (zsum_map_upd _ _ _ _ th1 th Hn). lia.
    + apply Forall_upd; auto. constructor.
      * lia.
      * rewrite Hh1; auto.
      * left. rewrite Hc1; auto.
      * rewrite Hc1; discriminate.
    + unfold S_get in *; simpl. rewrite (zsum_map_upd _ _ _ _ th1 th Hn). lia.
    + replace (mem st (RC n) + 1 =? 0) with false by (symmetry; apply Z.eqb_neq; lia).
      unfold S_pz in *; simpl. rewrite (zsum_map_upd _ _ _ _ th1 th Hn). lia.
    + rewrite <- Gc. unfold S_get, S_put; simpl. rewrite !(zsum_map_upd _ _ _ _ th1 th Hn). lia.
    + unfold node_trace; simpl. rewrite Nat.eqb_refl. constructor; simpl; auto.
    + left. lia.
    + intros t' th' Hn' Hb' Hr'. exfalso.
      destruct (Nat.eq_dec t t') as [->|Hne].
      * rewrite (nth_error_upd_eq _ _ _ _ _ Hn) in Hn'. inversion Hn'; subst th'.
        rewrite Hc1 in Hb'. discriminate.
      * rewrite nth_error_upd_neq in Hn' by auto.
        eapply (no_pending (thr st)); eauto. unfold S_pz in *; lia.
  - (* put on node n: the atomic decrement; its result goes to reg *)
    subst op. simpl.
    assert (Hm1 : 1 <= mem st (RC n)) by lia.
    pose proof (zsum_nonneg _ (fun th => count_get n (prog th)) (thr st) (get_all_nonneg _)) as Hsg.
    fold (S_get st) in Hsg.
    rewrite wrap32_id by lia.
    assert (Hz : (mem st (RC n) =? 0) = false) by (apply Z.eqb_neq; lia).
    rewrite Hz in Gp.
    pose proof (destroy_count_nonneg n (trace st)) as Hd0.
    pose proof (zsum_nonneg _ (pz n) (thr st) (pz_all_nonneg _)) as Hs0. fold (S_pz st) in Hs0.
    assert (Hpz1 : pz n th = 0) by (apply pz_not_branch; rewrite Hc; auto).
    assert (Hpz2 : pz n (set_reg th1 (mem st (RC n) - 1)) = if mem st (RC n) - 1 =? 0 then 1 else 0).
    { unfold pz; simpl. rewrite Hc1. simpl. rewrite Nat.eqb_refl. auto. }
    constructor; simpl; rewrite ?wr_same.
    + rewrite Gm. unfold S_held; simpl. rewrite (zsum_map_upd _ _ _ _ _ th Hn). simpl. lia.
    + apply Forall_upd; auto. constructor; simpl.
      * lia.
      * rewrite Hh1; auto.
      * right; auto.
      * intros _. lia.
    + unfold S_get in *; simpl. rewrite (zsum_map_upd _ _ _ _ _ th Hn). simpl. lia.
    + unfold S_pz in *; simpl. rewrite (zsum_map_upd _ _ _ _ _ th Hn). rewrite Hpz2, Hpz1.
      destruct (mem st (RC n) - 1 =? 0); lia.
    + rewrite <- Gc. unfold S_get, S_put; simpl. rewrite !(zsum_map_upd _ _ _ _ _ th Hn). simpl. lia.
    + unfold node_trace; simpl. rewrite Nat.eqb_refl. constructor; simpl; auto.
    + left. lia.
    + intros t' th' Hn' Hb' Hr'.
      destruct (Nat.eq_dec t t') as [->|Hne].
      * rewrite (nth_error_upd_eq _ _ _ _ _ Hn) in Hn'. inversion Hn'; subst th'. simpl in Hr'.
        unfold node_trace; simpl. rewrite Nat.eqb_refl. rewrite Hr'. eauto.
      * exfalso. rewrite nth_error_upd_neq in Hn' by auto.
        eapply (no_pending (thr st)); eauto. unfold S_pz in *; lia.
  - (* the destroy decision on the value the atomic operation returned *)
    subst op. simpl. rewrite Hrg1.
    assert (Hib : is_branch n (cur th) = true) by (rewrite Hc; simpl; apply Nat.eqb_refl).
    assert (Hpz2 : pz n th1 = 0) by (apply pz_not_branch; rewrite Hc1; auto).
    assert (Hti1 : TI n th1).
    { constructor.
      - rewrite Hh1. apply Hti.
      - rewrite Hh1, Hp1. apply Hti.
      - left. rewrite Hc1; auto.
      - rewrite Hc1; discriminate. }
    destruct (0 <? reg th) eqn:Epos.
    + (* count still positive: return *)
      apply Z.ltb_lt in Epos.
      assert (Hpz1 : pz n th = 0).
      { unfold pz. rewrite Hib. simpl. replace (reg th =? 0) with false; auto.
        symmetry; apply Z.eqb_neq; lia. }
      constructor; simpl.
      * rewrite Gm. unfold S_held; simpl. rewrite (zsum_map_upd _ _ _ _ _ th Hn). rewrite Hh1. lia.
      * apply Forall_upd; auto.
      * unfold S_get in *; simpl. rewrite (zsum_map_upd _ _ _ _ _ th Hn). rewrite Hp1. lia.
      * rewrite <- Gp. unfold S_pz; simpl. rewrite (zsum_map_upd _ _ _ _ _ th Hn). lia.
      * rewrite <- Gc. unfold S_get, S_put; simpl. rewrite !(zsum_map_upd _ _ _ _ _ th Hn). rewrite Hp1. lia.
      * auto.
      * auto.
      * intros t' th' Hn' Hb' Hr'.
        destruct (Nat.eq_dec t t') as [->|Hne].
        -- rewrite (nth_error_upd_eq _ _ _ _ _ Hn) in Hn'. inversion Hn'; subst th'.
           rewrite Hc1 in Hb'. discriminate.
        -- rewrite nth_error_upd_neq in Hn' by auto. eauto.
    + (* the returned value is 0: this thread performed the last release; it destroys *)
      apply Z.ltb_ge in Epos. assert (Hr0 : reg th = 0) by lia.
      assert (Hpz1 : pz n th = 1) by (apply pz_of_branch0; auto).
      pose proof (destroy_count_nonneg n (trace st)) as Hd0.
      pose proof (zsum_ge_elem _ (pz n) (thr st) t th (pz_all_nonneg _) Hn) as Hpg. fold (S_pz st) in Hpg.
      assert (Hmz : mem st (RC n) = 0).
      { destruct (mem st (RC n) =? 0) eqn:Ez; [apply Z.eqb_eq; auto | lia]. }
      rewrite Hmz in Gp. simpl in Gp.
      assert (Hd : destroy_count n (trace st) = 0) by lia.
      assert (Hsp : S_pz st = 1) by lia.
      destruct (Gpd t th Hn Hib Hr0) as [rest Hrest].
      assert (Hspz' : zsum (map (pz n) (upd (thr st) t th1)) = 0).
      { rewrite (zsum_map_upd _ _ _ _ _ th Hn). unfold S_pz in Hsp. lia. }
      constructor; simpl.
      * rewrite Gm. unfold S_held; simpl. rewrite (zsum_map_upd _ _ _ _ _ th Hn). rewrite Hh1. lia.
      * apply Forall_upd; auto.
      * unfold S_get in *; simpl. rewrite (zsum_map_upd _ _ _ _ _ th Hn). rewrite Hp1. lia.
      * rewrite Hmz. simpl. unfold S_pz; simpl. rewrite Hspz'. rewrite Nat.eqb_refl. lia.
      * rewrite <- Gc. unfold S_get, S_put; simpl. rewrite !(zsum_map_upd _ _ _ _ _ th Hn). rewrite Hp1. lia.
      * unfold node_trace; simpl. rewrite Nat.eqb_refl. constructor; simpl; auto.
      * right. exists t, rest. unfold node_trace in *; simpl. rewrite Nat.eqb_refl. rewrite Hrest. split; auto.
        rewrite <- (destroy_count_node_trace n (trace st)) in Hd. unfold node_trace in Hd.
        rewrite Hrest in Hd. simpl in Hd. auto.
      * intros t' th' Hn' Hb' Hr'. exfalso. eapply (no_pending _ Hspz'); eauto.
Qed.

Lemma run_inv : forall sch st, GI st -> GI (run im rnd st sch).
Proof.
  induction sch; intros; simpl; auto. apply IHsch. apply step_inv; auto.
Qed.

End RcInv.

(* initial configuration *)
Definition total_get (n : nat) (ths : list (list call * (nat -> Z))) : Z :=
  zsum (map (fun ph => count_get n (fst ph)) ths).
Definition total_put (n : nat) (ths : list (list call * (nat -> Z))) : Z :=
  zsum (map (fun ph => count_put n (fst ph)) ths).

(* a live node (count >= 1) whose count equals the number of references handed to the
   threads; every thread follows the ownership discipline; the counter cannot overflow *)
Definition wf_init (n : nat) (rc0 : nat -> Z) (ths : list (list call * (nat -> Z))) : Prop :=
  1 <= rc0 n /\
  zsum (map (fun ph => snd ph n) ths) = rc0 n /\
  Forall (fun ph => 0 <= snd ph n /\ respects n (snd ph n) (fst ph)) ths /\
  rc0 n + total_get n ths <= UINT32_MAX.

Lemma zsum_map_map : forall A B (g : A -> B) (f : B -> Z) l, zsum (map f (map g l)) = zsum (map (fun a => f (g a)) l).
Proof. intros; rewrite map_map; auto. Qed.

Lemma init_inv : forall n rc0 ths, wf_init n rc0 ths ->
  GI n (rc0 n + total_get n ths - total_put n ths) (init_state rc0 ths).
Proof.
  intros n rc0 ths (H1 & H2 & H3 & H4).
  assert (Hpz : zsum (map (pz n) (map (fun ph => init_thread (fst ph) (snd ph)) ths)) = 0).
  { apply zsum_all_zero. apply Forall_forall. intros th Hin. apply in_map_iff in Hin.
    destruct Hin as (ph & <- & _). reflexivity. }
  constructor; simpl.
  - unfold S_held; simpl. rewrite zsum_map_map; simpl. auto.
  - apply Forall_forall. intros th Hin. apply in_map_iff in Hin. destruct Hin as (ph & <- & Hin).
    rewrite Forall_forall in H3. destruct (H3 ph Hin). constructor; simpl; auto. discriminate.
  - unfold S_get; simpl. rewrite zsum_map_map; simpl. auto.
  - unfold S_pz; simpl. rewrite Hpz. replace (rc0 n =? 0) with false; auto.
    symmetry; apply Z.eqb_neq; lia.
  - unfold S_get, S_put; simpl. rewrite !zsum_map_map; simpl. reflexivity.
  - constructor.
  - left; auto.
  - intros t th Hn Hb Hr. exfalso. eapply (no_pending n _ Hpz); eauto.
Qed.

Lemma finished_sums : forall n st, finished st = true ->
  S_get n st = 0 /\ S_put n st = 0 /\ S_pz n st = 0.
Proof.
  intros n st F. unfold finished in F. rewrite forallb_forall in F.
  assert (H : forall th, In th (thr st) -> prog th = [] /\ cur th = []).
  { intros th Hin. specialize (F th Hin). unfold thread_done in F.
    destruct (prog th); destruct (cur th); try discriminate; auto. }
  repeat split; apply zsum_all_zero; apply Forall_forall; intros th Hin; destruct (H th Hin) as [Hp Hc].
  - rewrite Hp; auto.
  - rewrite Hp; auto.
  - unfold pz. rewrite Hc; auto.
Qed.

(* ---- the headline theorem, for every implementation of the atomic shape ---- *)
Theorem refcount_all_schedules_gen : forall im rnd n rc0 ths sch,
  atomic_rc im -> wf_init n rc0 ths ->
  let st := run im rnd (init_state rc0 ths) sch in
  (* no update is lost: at every moment the count is the number of references owned *)
  mem st (RC n) = zsum (map (fun th => held th n) (thr st)) /\
  0 <= mem st (RC n) <= UINT32_MAX /\
  (* never destroyed while a reference is owned; at most once *)
  (mem st (RC n) <> 0 -> destroy_count n (trace st) = 0) /\
  0 <= destroy_count n (trace st) <= 1 /\
  (* complete schedules: exact final count; destroyed exactly once iff it reached 0 *)
  (finished st = true ->
     mem st (RC n) = rc0 n + total_get n ths - total_put n ths /\
     destroy_count n (trace st) = (if mem st (RC n) =? 0 then 1 else 0)) /\
  (* the destruction directly follows, on this node, the atomic decrement of the same
     thread that returned 0, and nothing touches the node afterwards *)
  (destroy_count n (trace st) = 0 \/
   exists t rest, node_trace n (trace st) = EvDestroy t n :: EvAcc t (RC n) true 0 :: rest /\
                  destroy_count n rest = 0) /\
  (* every access to the count is atomic *)
  Forall atomic_ev (node_trace n (trace st)).
Proof.
  intros im rnd n rc0 ths sch Him Hwf st.
  pose proof (run_inv im rnd n _ Him sch _ (init_inv n rc0 ths Hwf)) as G. fold st in G.
  pose proof (held_nonneg_all n _ st G) as Hh.
  pose proof (zsum_nonneg _ (fun th => held th n) (thr st) Hh) as Hs.
  pose proof (zsum_nonneg _ (fun th => count_get n (prog th)) (thr st) (get_all_nonneg n _)) as Hg.
  pose proof (zsum_nonneg _ (pz n) (thr st) (pz_all_nonneg n _)) as Hp.
  pose proof (destroy_count_nonneg n (trace st)) as Hd.
  destruct G as [Gm Gt Gb Gp Gc Ga Gw Gpd].
  unfold S_held, S_get, S_pz in *.
  repeat split; auto; try lia.
  - intros Hnz. destruct (mem st (RC n) =? 0) eqn:E; [apply Z.eqb_eq in E; lia | lia].
  - destruct (mem st (RC n) =? 0); lia.
  - destruct (finished_sums n st H) as (F1 & F2 & F3). unfold S_get, S_put in *. lia.
  - destruct (finished_sums n st H) as (F1 & F2 & F3). unfold S_pz in *. lia.
Qed.

(* ------------------------------------------------------------------ Part 4: the seed *)
(* micro-operations that neither write the seed variable nor compute a hash *)
Fixpoint mop_sfree (m : mop) : bool :=
  match m with
  | Skip | BranchDestroyIfResultZero _ | CallRandom | RetryIfUnset => true
  | AtomicAdd c _ | AtomicSub c _ | AtomicSubFetch c _ | Load c | AtomicLoad c | Store c _ | CAS c _
  | CASOnce c _ | StoreFresh c => negb (cell_eqb c Seed)
  | IfUnset b => forallb mop_sfree b
  | ReadForHash _ => false
  end.

Definition sfree (c : list mop) : bool := forallb mop_sfree c.

(* shape condition: the seed is published by a compare-and-swap against the sentinel, the
   fresh value is never the sentinel, and THE HASH READS THE SHARED VARIABLE AFTER THE CAS *)
Definition cas_seed_impl (im : impl_t) : Prop :=
  seed_p im = cas_seed /\ (forall k, sfree (get_p im k) = true) /\ (forall k, sfree (put_p im k) = true).

Lemma installs_app : forall a b, installs (a ++ b) = installs a ++ installs b.
Proof.
  induction a as [|e a IH]; intros; simpl; auto.
  destruct e as [| ? c ? ?| |]; auto. destruct c; simpl; auto. rewrite IH; auto.
Qed.

Lemma hashes_app : forall a b, hashes (a ++ b) = hashes a ++ hashes b.
Proof.
  induction a as [|e a IH]; intros; simpl; auto. destruct e; auto. simpl. rewrite IH; auto.
Qed.

Lemma exec_sfree : forall rnd t m ri th op m' th' evs ri',
  mop_sfree op = true -> sfree (cur th) = true ->
  exec rnd t m ri th op = (m', th', evs, ri') ->
  m' Seed = m Seed /\ sfree (cur th') = true /\ hashes evs = [] /\ installs evs = [].
Proof.
  intros rnd t m ri th op m' th' evs ri' Hop Hc E.
  assert (W : forall c v, negb (cell_eqb c Seed) = true -> wr m c v Seed = m Seed).
  { intros c v H. apply wr_other. destruct (cell_eqb c Seed); auto; discriminate. }
  destruct op; simpl in *; try discriminate;
    try (inversion E; subst; clear E; simpl; rewrite ?W by auto; repeat split; auto; fail).
  - destruct (0 <? reg th); inversion E; subst; simpl; repeat split; auto.
  - destruct (reg th =? -1); inversion E; subst; simpl; repeat split; auto.
    unfold sfree. rewrite forallb_app. fold (sfree (cur th)). rewrite Hop, Hc. auto.
  - destruct (fresh th =? -1); inversion E; subst; simpl; repeat split; auto.
  - destruct (m c =? expected); inversion E; subst; simpl; rewrite ?W by auto; repeat split; auto.
    destruct c; auto; discriminate.
  - destruct (m c =? reg th); inversion E; subst; simpl; rewrite ?W by auto; repeat split; auto.
  - inversion E; subst; simpl; rewrite ?W by auto; repeat split; auto.
    destruct c; auto; discriminate.
Qed.

Definition initB : list mop := [CallRandom; RetryIfUnset; CAS Seed (-1)].

(* where a thread can be inside lh_char_hash, with what it knows *)
Definition SI (ms : Z) (th : thread) : Prop :=
  sfree (cur th) = true \/
  (cur th = [IfUnset initB; ReadForHash Shared] /\ (reg th = -1 \/ ms <> -1)) \/
  cur th = [CallRandom; RetryIfUnset; CAS Seed (-1); ReadForHash Shared] \/
  cur th = [RetryIfUnset; CAS Seed (-1); ReadForHash Shared] \/
  (cur th = [CAS Seed (-1); ReadForHash Shared] /\ fresh th <> -1) \/
  (cur th = [ReadForHash Shared] /\ ms <> -1).

Lemma SI_mono : forall ms ms' th, SI ms th -> (ms <> -1 -> ms' <> -1) -> SI ms' th.
Proof.
  unfold SI; intros ms ms' th H M.
  destruct H as [H|[[H1 H2]|[H|[H|[H|[H1 H2]]]]]].
  - left; auto.
  - right; left; split; auto. destruct H2; auto.
  - right; right; left; auto.
  - do 3 right; left; auto.
  - do 4 right; left; auto.
  - do 5 right; auto.
Qed.

Definition SG (st : state) : Prop :=
  Forall (SI (mem st Seed)) (thr st) /\
  ((mem st Seed = -1 /\ hashes (trace st) = [] /\ installs (trace st) = []) \/
   (mem st Seed <> -1 /\ installs (trace st) = [mem st Seed] /\
    Forall (fun v => v = mem st Seed) (hashes (trace st)))).

Lemma sfree_hd_tl : forall c, sfree c = true -> mop_sfree (hd Skip c) = true /\ sfree (tl c) = true.
Proof.
  intros [|m c] H; simpl in *; auto. apply andb_true_iff in H; auto.
Qed.

Section SeedInv.
Variable im : impl_t.
Variable rnd : nat -> Z.
Hypothesis Him : cas_seed_impl im.

Lemma seed_step_inv : forall st t, SG st -> SG (step im rnd st t).
Proof.
  intros st t [HF HT]. unfold step.
  destruct (nth_error (thr st) t) as [th|] eqn:Hn; [|split; auto].
  destruct (ready im th) as [[op th1]|] eqn:R; [|split; auto].
  pose proof (Forall_nth _ _ _ _ _ HF Hn) as Hsi.
  destruct Him as (Hseed & Hgf & Hpf).
  (* generic continuation for a seed-free micro-operation *)
  assert (FREE : mop_sfree op = true -> sfree (cur th1) = true ->
                 SG (let '(m', th2, evs, ri) := exec rnd t (mem st) (rnd_i st) th1 op in
                     mkS m' (upd (thr st) t th2) (evs ++ trace st) ri)).
  { intros Ho Hc. destruct (exec rnd t (mem st) (rnd_i st) th1 op) as [[[m' th2] evs] ri'] eqn:E.
    destruct (exec_sfree _ _ _ _ _ _ _ _ _ _ Ho Hc E) as (Fm & Fc & Fh & Fi).
    split; simpl; rewrite Fm.
    - apply Forall_upd; auto. left; auto.
    - rewrite hashes_app, installs_app, Fh, Fi. simpl. auto. }
  unfold ready in R. destruct (cur th) as [|m c] eqn:Ec.
  - (* idle thread: a new call starts *)
    destruct (prog th) as [|cl p] eqn:Ep; try discriminate.
    inversion R; subst op th1; clear R.
    destruct cl as [k|k|].
    + destruct (sfree_hd_tl _ (Hgf k)). apply FREE; simpl; auto.
    + destruct (sfree_hd_tl _ (Hpf k)). apply FREE; simpl; auto.
    + (* lh_char_hash: the first micro-operation reads the shared variable *)
      simpl. rewrite Hseed. simpl. split; simpl.
      * apply Forall_upd; auto. right; left. simpl. split; auto.
        destruct (Z.eq_dec (mem st Seed) (-1)); auto.
      * destruct HT as [(A & B & D)|(A & B & D)]; [left|right]; auto.
  - inversion R; subst op th1; clear R. unfold SI in Hsi. rewrite Ec in Hsi.
    destruct Hsi as [H|[[H1 H2]|[H|[H|[[H1 H2]|[H1 H2]]]]]].
    + simpl in H. apply andb_true_iff in H. destruct H. apply FREE; auto.
    + (* if (random_seed == -1) *)
      inversion H1; subst m c. simpl. destruct (reg th =? -1) eqn:Er; simpl.
      * split; simpl; auto. apply Forall_upd; auto. right; right; left. reflexivity.
      * apply Z.eqb_neq in Er. split; simpl; auto. apply Forall_upd; auto.
        do 5 right. simpl. split; auto. destruct H2; auto; contradiction.
    + inversion H; subst m c. simpl. split; simpl; auto. apply Forall_upd; auto.
      do 3 right; left. reflexivity.
    + (* while (... == -1) *)
      inversion H; subst m c. simpl. destruct (fresh th =? -1) eqn:Ef; simpl.
      * split; simpl; auto. apply Forall_upd; auto. right; right; left. reflexivity.
      * apply Z.eqb_neq in Ef. split; simpl; auto. apply Forall_upd; auto.
        do 4 right; left. simpl. auto.
    + (* the compare-and-swap *)
      inversion H1; subst m c. simpl. destruct (mem st Seed =? -1) eqn:Es; simpl.
      * apply Z.eqb_eq in Es. split; simpl; rewrite ?wr_same.
        -- apply Forall_upd.
           ++ eapply Forall_impl; [|apply HF]. intros a Ha. eapply SI_mono; eauto.
           ++ do 5 right. simpl; auto.
        -- right. destruct HT as [(A & B & D)|(A & B & D)]; [|contradiction].
           rewrite B, D. repeat split; auto.
      * apply Z.eqb_neq in Es. split; simpl.
        -- apply Forall_upd; auto. do 5 right. simpl; auto.
        -- destruct HT as [(A & B & D)|(A & B & D)]; [contradiction|right]; auto.
    + (* the read that feeds the hash *)
      inversion H1; subst m c. simpl. split; simpl.
      * apply Forall_upd; auto. left; reflexivity.
      * destruct HT as [(A & B & D)|(A & B & D)]; [contradiction|right].
        repeat split; auto.
Qed.

Lemma seed_run_inv : forall sch st, SG st -> SG (run im rnd st sch).
Proof.
  induction sch; intros; simpl; auto. apply IHsch. apply seed_step_inv; auto.
Qed.

End SeedInv.

Lemma seed_init_inv : forall rc0 ths, SG (init_state rc0 ths).
Proof.
  intros. split; simpl.
  - apply Forall_forall. intros th Hin. apply in_map_iff in Hin. destruct Hin as (ph & <- & _).
    left; reflexivity.
  - left; auto.
Qed.

(* every hash ever computed, by any thread at any time, uses the one value installed by
   the single successful compare-and-swap; that value is not the sentinel *)
Theorem seed_once_gen : forall im rnd rc0 ths sch,
  cas_seed_impl im ->
  let st := run im rnd (init_state rc0 ths) sch in
  exists s,
    Forall (fun v => v = s) (hashes (trace st)) /\
    (installs (trace st) = [] \/ installs (trace st) = [s]) /\
    (hashes (trace st) <> [] -> installs (trace st) = [s] /\ s <> -1 /\ mem st Seed = s).
Proof.
  intros im rnd rc0 ths sch Him st.
  destruct (seed_run_inv im rnd Him sch _ (seed_init_inv rc0 ths)) as [_ HT]. fold st in HT.
  exists (mem st Seed). destruct HT as [(A & B & D)|(A & B & D)].
  - rewrite B, D. repeat split; auto. intros; contradiction.
  - repeat split; auto.
Qed.

(* ------------------------------------------------------------------ Part 5 *)
(* The regenerated implementation has the shapes the theorems need.  These three lemmas
   are the place where a change of the C source (after re-translation) makes the
   development fail to re-check. *)
Lemma impl_atomic_rc : atomic_rc ThreadImpl.impl.
Proof. repeat split; intro k; reflexivity. Qed.

Lemma impl_cas_seed : cas_seed_impl ThreadImpl.impl.
Proof. repeat split; intro k; reflexivity. Qed.

Theorem refcount_all_schedules : forall rnd n rc0 ths sch,
  wf_init n rc0 ths ->
  let st := run ThreadImpl.impl rnd (init_state rc0 ths) sch in
  mem st (RC n) = zsum (map (fun th => held th n) (thr st)) /\
  0 <= mem st (RC n) <= UINT32_MAX /\
  (mem st (RC n) <> 0 -> destroy_count n (trace st) = 0) /\
  0 <= destroy_count n (trace st) <= 1 /\
  (finished st = true ->
     mem st (RC n) = rc0 n + total_get n ths - total_put n ths /\
     destroy_count n (trace st) = (if mem st (RC n) =? 0 then 1 else 0)) /\
  (destroy_count n (trace st) = 0 \/
   exists t rest, node_trace n (trace st) = EvDestroy t n :: EvAcc t (RC n) true 0 :: rest /\
                  destroy_count n rest = 0) /\
  Forall atomic_ev (node_trace n (trace st)).
Proof. intros. apply refcount_all_schedules_gen; auto. apply impl_atomic_rc. Qed.

Theorem seed_once : forall rnd rc0 ths sch,
  let st := run ThreadImpl.impl rnd (init_state rc0 ths) sch in
  exists s,
    Forall (fun v => v = s) (hashes (trace st)) /\
    (installs (trace st) = [] \/ installs (trace st) = [s]) /\
    (hashes (trace st) <> [] -> installs (trace st) = [s] /\ s <> -1 /\ mem st Seed = s).
Proof. intros. apply seed_once_gen. apply impl_cas_seed. Qed.

(* ---- non-vacuity: the hypotheses are satisfiable and the conclusions are not trivial ---- *)
Definition h1 (k : Z) : nat -> Z := fun n => match n with O => k | _ => 0 end.
Definition rc_two : nat -> Z := fun n => match n with O => 2 | _ => 1 end.
Definition rnd_ex : nat -> Z := fun i => 5 + Z.of_nat i.

(* two threads own one reference each of node 0; both get and put, then release *)
Definition ex_ths : list (list call * (nat -> Z)) :=
  [([Get 0; Put 0; Put 0]%nat, h1 1); ([Get 0; Get 0; Put 0; Put 0; Put 0]%nat, h1 1)].

Lemma ex_wf : wf_init 0 rc_two ex_ths.
Proof.
  unfold wf_init, ex_ths, total_get, rc_two, h1, UINT32_MAX; simpl.
  repeat split; try lia; repeat constructor; simpl; lia.
Qed.

Example refcount_example :
  let st := run ThreadImpl.impl rnd_ex (init_state rc_two ex_ths) [0;1;1;0;1;0;1;0;1;1;1;0;1;0]%nat in
  finished st = true /\ mem st (RC 0) = 0 /\ destroy_count 0 (trace st) = 1 /\
  hd_error (trace st) = Some (EvDestroy 1 0).
Proof. vm_compute. repeat split; reflexivity. Qed.

(* threads that leave references behind: exact non-zero final count, no destruction *)
Example refcount_example_left :
  let ths := [([Get 0; Get 0; Put 0]%nat, h1 1); ([Get 0]%nat, h1 1)] in
  let st := run ThreadImpl.impl rnd_ex (init_state rc_two ths) [1;0;0;0;0]%nat in
  finished st = true /\ mem st (RC 0) = 4 /\ destroy_count 0 (trace st) = 0.
Proof. vm_compute. repeat split; reflexivity. Qed.

(* ---- negative controls: the theorems depend on the shapes of ThreadImpl ---- *)
Definition plain_impl : impl_t := mkImpl plain_get plain_put cas_seed.
Definition casonce_impl : impl_t := mkImpl casonce_get atomic_put cas_seed.
Definition reread_impl : impl_t := mkImpl atomic_get reread_put cas_seed.
Definition local_impl : impl_t := mkImpl atomic_get atomic_put local_seed.
Definition store_impl : impl_t := mkImpl atomic_get atomic_put store_seed.

(* `++`/`--` as load + store: a schedule loses an update (final count 3 instead of 4) *)
Theorem nonatomic_lost_update :
  exists ths sch, wf_init 0 rc_two ths /\
    let st := run plain_impl rnd_ex (init_state rc_two ths) sch in
    finished st = true /\
    mem st (RC 0) <> rc_two 0%nat + total_get 0 ths - total_put 0 ths.
Proof.
  exists [([Get 0]%nat, h1 1); ([Get 0]%nat, h1 1)], [0;1;0;1]%nat. split.
  - unfold wf_init, total_get, rc_two, h1, UINT32_MAX; simpl.
    repeat split; try lia; repeat constructor; simpl; lia.
  - vm_compute. split; [reflexivity | discriminate].
Qed.

(* get as load + ONE compare-and-swap whose failure is ignored: every access is atomic or
   a plain read, yet a schedule loses an acquisition (final count 3 instead of 4) ... *)
Theorem casonce_lost_update :
  exists ths sch, wf_init 0 rc_two ths /\
    let st := run casonce_impl rnd_ex (init_state rc_two ths) sch in
    finished st = true /\
    mem st (RC 0) <> rc_two 0%nat + total_get 0 ths - total_put 0 ths.
Proof.
  exists [([Get 0]%nat, h1 1); ([Get 0]%nat, h1 1)], [0;1;0;1]%nat. split.
  - unfold wf_init, total_get, rc_two, h1, UINT32_MAX; simpl.
    repeat split; try lia; repeat constructor; simpl; lia.
  - vm_compute. split; [reflexivity | discriminate].
Qed.

(* ... and then the node is destroyed while a reference is still owned *)
Theorem casonce_premature_destroy :
  exists ths sch, wf_init 0 rc_two ths /\
    let st := run casonce_impl rnd_ex (init_state rc_two ths) sch in
    destroy_count 0 (trace st) = 1 /\
    exists th, nth_error (thr st) 1 = Some th /\ 1 <= held th 0%nat.
Proof.
  exists [([Get 0; Put 0; Put 0]%nat, h1 1); ([Get 0; Put 0]%nat, h1 1)], [0;1;0;1;0;0;0;0;1;1]%nat. split.
  - unfold wf_init, total_get, rc_two, h1, UINT32_MAX; simpl.
    repeat split; try lia; repeat constructor; simpl; lia.
  - vm_compute. split; [reflexivity|]. eexists; split; [reflexivity|]. discriminate.
Qed.

(* ... and a schedule destroys the node while a thread still owns a reference *)
Theorem nonatomic_premature_destroy :
  exists ths sch, wf_init 0 rc_two ths /\
    let st := run plain_impl rnd_ex (init_state rc_two ths) sch in
    destroy_count 0 (trace st) = 1 /\
    exists th, nth_error (thr st) 1 = Some th /\ held th 0%nat = 1.
Proof.
  exists [([Put 0]%nat, h1 1); ([Get 0; Put 0; Put 0]%nat, h1 1)], [0;1;1;0;0;1;1;1]%nat. split.
  - unfold wf_init, total_get, rc_two, h1, UINT32_MAX; simpl.
    repeat split; try lia; repeat constructor; simpl; lia.
  - vm_compute. split; [reflexivity|]. eexists; split; reflexivity.
Qed.

(* atomic decrement but the decision re-reads the field: both threads see 0, both destroy *)
Theorem reread_double_destroy :
  exists ths sch, wf_init 0 rc_two ths /\
    let st := run reread_impl rnd_ex (init_state rc_two ths) sch in
    finished st = true /\ destroy_count 0 (trace st) = 2.
Proof.
  exists [([Put 0]%nat, h1 1); ([Put 0]%nat, h1 1)], [0;1;0;1;0;1]%nat. split.
  - unfold wf_init, total_get, rc_two, h1, UINT32_MAX; simpl.
    repeat split; try lia; repeat constructor; simpl; lia.
  - vm_compute. split; reflexivity.
Qed.

(* the same with an ATOMIC re-read (every access to the count is atomic, no data race in the
   C11 sense): the two last owners both decrement, both read 0, both destroy *)
Definition reread_atomic_impl : impl_t := mkImpl atomic_get reread_atomic_put cas_seed.

Theorem reread_atomic_double_destroy :
  exists ths sch, wf_init 0 rc_two ths /\
    let st := run reread_atomic_impl rnd_ex (init_state rc_two ths) sch in
    finished st = true /\ destroy_count 0 (trace st) = 2 /\
    Forall atomic_ev (node_trace 0 (trace st)).
Proof.
  exists [([Put 0]%nat, h1 1); ([Put 0]%nat, h1 1)], [0;1;0;1;0;1]%nat. split.
  - unfold wf_init, total_get, rc_two, h1, UINT32_MAX; simpl.
    repeat split; try lia; repeat constructor; simpl; lia.
  - vm_compute. repeat split; try reflexivity. repeat constructor.
Qed.

(* the loser of the CAS race hashes with its own fresh value *)
Theorem local_seed_refuted :
  exists sch, let st := run local_impl rnd_ex (init_state rc_two [([Hash], h1 0); ([Hash], h1 0)]) sch in
    finished st = true /\ hashes (trace st) = [6; 5].
Proof. exists [0;1;0;1;0;1;0;1;0;1;0;1]%nat. vm_compute. split; reflexivity. Qed.

(* a single draw, no retry: when the random source returns the sentinel -1 nothing is
   installed, that call hashes with -1 and the next call draws again — even ONE thread gets
   two different hashes *)
Definition noretry_impl : impl_t := mkImpl atomic_get atomic_put noretry_seed.
Definition rnd_sentinel_first : nat -> Z := fun i => match i with O => -1 | _ => 5 + Z.of_nat i end.

Theorem noretry_seed_refuted :
  exists sch, let st := run noretry_impl rnd_sentinel_first (init_state rc_two [([Hash; Hash], h1 0)]) sch in
    finished st = true /\ hashes (trace st) = [6; -1] /\ installs (trace st) = [6; -1].
Proof. exists [0;0;0;0;0;0;0;0;0;0]%nat. vm_compute. repeat split; reflexivity. Qed.

(* the regenerated program under the same random source: the retry skips the sentinel *)
Example seed_example_sentinel :
  let st := run ThreadImpl.impl rnd_sentinel_first (init_state rc_two [([Hash; Hash], h1 0)])
                [0;0;0;0;0;0;0;0;0;0;0;0]%nat in
  finished st = true /\ hashes (trace st) = [6; 6] /\ installs (trace st) = [6].
Proof. vm_compute. repeat split; reflexivity. Qed.

(* a plain store instead of the CAS: a later hash differs from an earlier one *)
Theorem store_seed_refuted :
  exists sch, let st := run store_impl rnd_ex (init_state rc_two [([Hash], h1 0); ([Hash; Hash], h1 0)]) sch in
    finished st = true /\ hashes (trace st) = [6; 6; 5] /\ installs (trace st) = [6; 5].
Proof. exists [0;1;0;0;0;0;0;1;1;1;1;1;1;1;1;1]%nat. vm_compute. repeat split; reflexivity. Qed.

(* the same race with the regenerated implementation: one install, all hashes equal to it *)
Example seed_example :
  let st := run ThreadImpl.impl rnd_ex (init_state rc_two [([Hash], h1 0); ([Hash; Hash], h1 0)])
                [0;1;0;1;0;1;0;1;0;1;0;1;1;1;1]%nat in
  finished st = true /\ hashes (trace st) = [5; 5; 5] /\ installs (trace st) = [5].
Proof. vm_compute. repeat split; reflexivity. Qed.

(* threads on disjoint nodes (and one hashing) in one schedule: each node behaves as if alone *)
Example disjoint_example :
  let ths := [([Get 0; Put 0; Put 0]%nat, (fun n => match n with O => 1 | _ => 0 end));
              ([Hash; Get 1; Put 1; Put 1]%nat, (fun n => match n with 1%nat => 1 | _ => 0 end))] in
  let rc0 := (fun n : nat => 1) in
  wf_init 0 rc0 ths /\ wf_init 1 rc0 ths /\
  let st := run ThreadImpl.impl rnd_ex (init_state rc0 ths) [1;0;1;0;1;0;1;1;0;1;1;1;0;1;1;1]%nat in
  finished st = true /\ destroy_count 0 (trace st) = 1 /\ destroy_count 1 (trace st) = 1.
Proof.
  split; [|split].
  - unfold wf_init, total_get, UINT32_MAX; simpl. repeat split; try lia; repeat constructor; simpl; lia.
  - unfold wf_init, total_get, UINT32_MAX; simpl. repeat split; try lia; repeat constructor; simpl; lia.
  - vm_compute. repeat split; reflexivity.
Qed.

(* Remark (not a violation of the property text, which asks for one value of the seed, not
   for race freedom of its reads): in the regenerated seed program the two READS of the seed
   variable are plain (volatile) loads, while the write is an atomic CAS.  There is a schedule
   in which a plain read by one thread directly follows the CAS of another thread with
   nothing ordering them — formally a data race in C11 terms, which ThreadSanitizer reports
   on the real library; harness/drv_thr.c recognises exactly this class of report (plain
   READ of a global vs ATOMIC write) and counts it instead of failing. *)
Fixpoint plain_read_after_install (tr : list event) : bool :=
  match tr with
  | EvAcc t1 Seed false _ :: ((EvInstall t0 Seed _ true :: _) as r) =>
      negb (Nat.eqb t0 t1) || plain_read_after_install r
  | _ :: r => plain_read_after_install r
  | [] => false
  end.

Theorem seed_plain_read_witness :
  exists sch,
    let st := run ThreadImpl.impl rnd_ex (init_state rc_two [([Hash], h1 0); ([Hash], h1 0)]) sch in
    plain_read_after_install (trace st) = true /\ mem st Seed = 5.
Proof. exists [0;0;0;0;0;1]%nat. vm_compute. split; reflexivity. Qed.
