(* TokValidBase.v — machinery for parse_valid (C01): explicit tokener states, the per-call
   loop with an explicit fuel for its first byte, stepping lemmas, whitespace. *)
From JC Require Import Base BaseLemmas Value TokModel TokProofs TokSyntax.
Local Open Scope Z_scope.

(* the fields whose content between two tokens is irrelevant *)
Record gb := mkgb { g_pb : list byte; g_dbl : bool; g_sp : Z; g_ucs : Z; g_q : byte }.
(* the configuration, never written by the parser *)
Record cf := mkcf { c_md : Z; c_sf : bool; c_al : bool }.

(* a tokener state in the middle of a successful call: validate_utf8 off, err = success *)
Definition T (c : cf) (stk : list srec) (g : gb) (hi : Z) (off : Z) : tok :=
  mktok stk (c_md c) (g_pb g) (g_dbl g) (g_sp g) (g_ucs g) hi (g_q g) (c_sf c) (c_al c) false off TE_success.

Ltac fuel f := repeat (destruct f as [|f]; [exfalso; lia|]).

Section S.
Variable sb : list byte -> Z.

(* [run] with the fuel of the first byte made explicit *)
Definition run_f (f : nat) (bytes : list byte) (t : tok) (l : locals) : loopres :=
  match bytes with
  | [] => LOut (set_err t (end_of_input_err t)) l
  | b :: rest =>
      match (if validate_utf8 t then validate_utf8_step b (nbytes l) else Some (nbytes l)) with
      | None => LOut (set_err t TE_utf8) l
      | Some nb =>
          let l := mkloc b nb (lobj l) (lnum l) in
          match redo sb f t l with
          | None => LFuel
          | Some (Consumed t' l') =>
              let t' := set_off t' (char_offset t' + 1) in
              if b =? 0 then LOut t' l' else run sb rest t' l'
          | Some (Out t' l') => LOut t' l'
          | Some (Redo t' l') => LFuel
          end
      end
  end.

Lemma run_run_f bytes t l : run sb bytes t l = run_f REDO_FUEL bytes t l.
Proof. destruct bytes; reflexivity. Qed.

(* a byte is consumed *)
Lemma runT_C c f b rest stk g hi off x nb lo ln stk' p d s u q hi' l' :
  (b =? 0) = false ->
  redo sb f (T c stk g hi off) (mkloc b nb lo ln) = Some (Consumed (T c stk' (mkgb p d s u q) hi' off) l') ->
  run_f f (b :: rest) (T c stk g hi off) (mkloc x nb lo ln) =
  run_f REDO_FUEL rest (T c stk' (mkgb p d s u q) hi' (off + 1)) l'.
Proof.
  intros Hb H. rewrite <- run_run_f. cbn [run_f T validate_utf8 nbytes lobj lnum].
  change (mktok stk (c_md c) (g_pb g) (g_dbl g) (g_sp g) (g_ucs g) hi (g_q g) (c_sf c) (c_al c) false off TE_success)
    with (T c stk g hi off).
  rewrite H, Hb. reflexivity.
Qed.

(* the loop is left without consuming the byte *)
Lemma runT_O c f b rest stk g hi off x nb lo ln t' l' :
  redo sb f (T c stk g hi off) (mkloc b nb lo ln) = Some (Out t' l') ->
  run_f f (b :: rest) (T c stk g hi off) (mkloc x nb lo ln) = LOut t' l'.
Proof.
  intros H. cbn [run_f T validate_utf8 nbytes lobj lnum].
  change (mktok stk (c_md c) (g_pb g) (g_dbl g) (g_sp g) (g_ucs g) hi (g_q g) (c_sf c) (c_al c) false off TE_success)
    with (T c stk g hi off).
  rewrite H. reflexivity.
Qed.

(* the dispatch hands the same byte to another state *)
Lemma runT_R c f b rest stk g hi off x nb lo ln stk' p d s u q hi' lo' ln' :
  step1 sb (T c stk g hi off) (mkloc b nb lo ln) = Redo (T c stk' (mkgb p d s u q) hi' off) (mkloc b nb lo' ln') ->
  run_f (S f) (b :: rest) (T c stk g hi off) (mkloc x nb lo ln) =
  run_f f (b :: rest) (T c stk' (mkgb p d s u q) hi' off) (mkloc b nb lo' ln').
Proof.
  intros H. cbn [run_f T validate_utf8 nbytes lobj lnum redo].
  change (mktok stk (c_md c) (g_pb g) (g_dbl g) (g_sp g) (g_ucs g) hi (g_q g) (c_sf c) (c_al c) false off TE_success)
    with (T c stk g hi off).
  rewrite H. reflexivity.
Qed.

(* ---------------------------------------------------------------- whitespace *)
Lemma is_ws_cases w : is_ws w = true -> w = 32 \/ w = 9 \/ w = 10 \/ w = 13.
Proof. unfold is_ws. lia. Qed.

Lemma redo_ws c f w sv cur nm below g hi off nb lo ln :
  (1 <= f)%nat -> is_ws w = true ->
  redo sb f (T c (mksrec S_eatws sv cur nm :: below) g hi off) (mkloc w nb lo ln) =
  Some (Consumed (T c (mksrec S_eatws sv cur nm :: below) g hi off) (mkloc w nb lo ln)).
Proof.
  intros Hf Hw. fuel f. cbn [redo]. unfold step1. cbn [st top stack s_state lc T]. rewrite Hw. reflexivity.
Qed.

Lemma run_ws c w : forall f sv cur nm below g hi off x nb lo ln rest,
  (8 <= f)%nat -> all_ws w = true ->
  exists f' x', (8 <= f')%nat /\
  run_f f (w ++ rest) (T c (mksrec S_eatws sv cur nm :: below) g hi off) (mkloc x nb lo ln) =
  run_f f' rest (T c (mksrec S_eatws sv cur nm :: below) g hi (off + zlen w)) (mkloc x' nb lo ln).
Proof.
  induction w as [|b w IH]; intros f sv cur nm below g hi off x nb lo ln rest Hf Hw.
  - exists f, x. split; [exact Hf|]. cbn [app zlen]. rewrite Z.add_0_r. reflexivity.
  - cbn [all_ws forallb] in Hw. apply andb_true_iff in Hw. destruct Hw as [Hb Hw].
    destruct (IH REDO_FUEL sv cur nm below g hi (off + 1) b nb lo ln rest) as (f' & x' & Hf' & E);
      [unfold REDO_FUEL; lia|exact Hw|].
    exists f', x'. split; [exact Hf'|]. cbn [app zlen].
    destruct g as [p d s u q].
    erewrite runT_C; [ | | apply redo_ws; [lia|exact Hb]].
    + rewrite E. f_equal. f_equal. lia.
    + unfold is_ws in Hb. lia.
Qed.

End S.

Global Opaque run_f.

(* ---------------------------------------------------------------- stepping tactics *)
(* goal: run_f f (b :: rest) (T ...) (mkloc ...) = _ with b and the state concrete enough
   for the dispatch to evaluate *)
Ltac stepC :=
  erewrite runT_C; [ | reflexivity | lazy; reflexivity ].
Ltac stepR :=
  erewrite runT_R; [ | lazy; reflexivity ].
