(* TokChunk3.v — the split-independence theorem (C03) and its n-ary form. *)
From JC Require Import Base BaseLemmas Value TokModel TokFrame TokStack TokTotal TokReset TokOff TokSim TokChunk TokSim2 TokChunk2.
Local Open Scope Z_scope.

Lemma linv_mkloc t b nb l : linv t l -> linv t (mkloc b nb (lobj l) (lnum l)).
Proof. intros H; exact H. Qed.
Lemma linv_set_off t k l : linv t l -> linv (set_off t k) l.
Proof. intros H; exact H. Qed.

Lemma resume_tok t1 : err t1 = TE_success ->
  set_err (set_off (set_err t1 TE_continue) 0) TE_success = toff t1 (- char_offset t1).
Proof.
  destruct t1 as [stk md p dbl sp uc hs qc sf af vf off e]. cbn. intros ->.
  unfold toff, set_off, set_err; cbn. f_equal. lia.
Qed.

Lemma hard_not_continue e : hard_err e -> e <> TE_continue. Proof. intros [_ H]; exact H. Qed.

(* the code after out: leaves err alone or sets one of three hard errors; when the final
   status is "continue" nothing was overridden and no value is returned *)
Lemma finish_call_continue t l t' r :
  finish_call t l = PR t' r -> err t' = TE_continue ->
  t' = t /\ r = None /\ (validate_utf8 t = true -> nbytes l = 0).
Proof.
  unfold finish_call.
  destruct (validate_utf8 t && negb (nbytes l =? 0)) eqn:Ev;
  match goal with |- context [if ?b then set_err ?x TE_unexpected else _] => destruct b end;
  match goal with |- context [if ?b then set_err ?x TE_eof else _] => destruct b end;
  cbn [err set_err]; intros E Hc; try (inversion E; subst; cbn in Hc; discriminate).
  destruct (err t) eqn:Ee; inversion E; subst; try (cbn in Hc; congruence).
  split; [reflexivity|]. split; [reflexivity|]. intros Hv. rewrite Hv in Ev. cbn in Ev. lia.
Qed.

Lemma finish_call_err t l t' r :
  finish_call t l = PR t' r -> err t' = err t \/ hard_err (err t').
Proof.
  unfold finish_call.
  destruct (validate_utf8 t && negb (nbytes l =? 0));
  match goal with |- context [if ?b then set_err ?x TE_unexpected else _] => destruct b end;
  match goal with |- context [if ?b then set_err ?x TE_eof else _] => destruct b end;
  cbn [err set_err]; intros E; try (inversion E; subst; right; split; discriminate).
  destruct (err t) eqn:Ee; inversion E; subst; left; cbn; congruence.
Qed.

Lemma finish_call_pr t l : exists t' r, finish_call t l = PR t' r.
Proof. unfold finish_call. match goal with |- context [match err ?x with _ => _ end] => destruct (err x) end; eauto. Qed.

Section S.
Variable sb : list byte -> Z.

Lemma run_of_prefix a t l :
  run sb a t l = match run_prefix sb a t l with
                 | RPCont t' l' => LOut (set_err t' (end_of_input_err t')) l'
                 | RPStop r => r end.
Proof. rewrite <- (app_nil_r a) at 1. rewrite run_app. destruct (run_prefix sb a t l); reflexivity. Qed.

Lemma run_prefix_facts a : forall t l t' l',
  wfs (stack t) = true -> linv t l -> run_prefix sb a t l = RPCont t' l' ->
  wfs (stack t') = true /\ linv t' l' /\ err t' = err t /\ char_offset t' = char_offset t + zlen a /\
  (validate_utf8 t = false -> nbytes l' = nbytes l) /\ validate_utf8 t' = validate_utf8 t /\
  (a = [] /\ t' = t /\ l' = l \/ add_like (st t') = false /\ lc l' <> 0).
Proof.
  induction a as [|b rest IH]; intros t l t' l' Hw Hi E; cbn [run_prefix] in E.
  - inversion E; subst. cbn [zlen]. repeat split; auto; lia.
  - pose proof (zlen_nonneg rest) as Hz. cbn [zlen].
    destruct (if validate_utf8 t then validate_utf8_step b (nbytes l) else Some (nbytes l)) as [nb|] eqn:Ev; [|discriminate].
    destruct (redo sb REDO_FUEL t (mkloc b nb (lobj l) (lnum l))) as [[t1 l1|t1 l1|t1 l1]|] eqn:R; try discriminate.
    destruct (b =? 0) eqn:Eb; [discriminate|].
    pose proof (redo_facts sb _ _ _ _ Hw (linv_mkloc t b nb l Hi) R) as (F1 & F2 & F3 & F4).
    cbn [lres sres_tok err_ok lc nbytes] in *. destruct F1 as (G1 & G2 & G3).
    pose proof (redo_cfg sb _ _ _ _ R) as C. cbn [sres_tok] in C. apply cfg_cfg0 in C. destruct C as [C0 Co].
    assert (Hv : validate_utf8 t1 = validate_utf8 t) by (unfold cfg0 in C0; congruence).
    specialize (IH (set_off t1 (char_offset t1 + 1)) l1 t' l' F2 (linv_set_off _ _ _ G1) E).
    destruct IH as (I1 & I2 & I3 & I4 & I5 & I8 & I6).
    change (validate_utf8 (set_off t1 (char_offset t1 + 1))) with (validate_utf8 t1) in I8.
    rewrite off_set_off in I4. change (err (set_off t1 (char_offset t1 + 1))) with (err t1) in I3.
    change (validate_utf8 (set_off t1 (char_offset t1 + 1))) with (validate_utf8 t1) in I5.
    repeat split; try assumption; try congruence; try lia.
    + intros Hf. rewrite I5 by congruence. rewrite G2. rewrite Hf in Ev. inversion Ev. reflexivity.
    + right. destruct I6 as [(-> & -> & ->)|[I6 I7]].
      * split; [exact F4|]. rewrite G3. lia.
      * split; assumption.
Qed.

(* a call that stops inside its bytes never ends with the status "continue" *)
Lemma run_prefix_stop a : forall t l r,
  wfs (stack t) = true -> linv t l -> run_prefix sb a t l = RPStop r ->
  exists tx lx, r = LOut tx lx /\ (err tx = err t \/ hard_err (err tx)).
Proof.
  induction a as [|b rest IH]; intros t l r Hw Hi E; cbn [run_prefix] in E; [discriminate|].
  destruct (if validate_utf8 t then validate_utf8_step b (nbytes l) else Some (nbytes l)) as [nb|] eqn:Ev.
  2:{ inversion E; subst. eexists _, _. split; [reflexivity|]. right. cbn. split; discriminate. }
  destruct (redo_total sb REDO_FUEL t (mkloc b nb (lobj l) (lnum l)) Hw) as (r0 & Hr & Hwr & Hnr).
  { pose proof (mus_bound (stack t)). unfold REDO_FUEL. lia. }
  rewrite Hr in E.
  pose proof (redo_facts sb _ _ _ _ Hw (linv_mkloc t b nb l Hi) Hr) as (F1 & F2 & F3 & F4).
  destruct r0 as [t1 l1|t1 l1|t1 l1]; cbn [lres sres_tok err_ok] in *.
  - destruct (b =? 0).
    + inversion E; subst. eexists _, _. split; [reflexivity|]. left. exact F3.
    + destruct F1 as (G1 & _).
      destruct (IH (set_off t1 (char_offset t1 + 1)) l1 r F2 (linv_set_off _ _ _ G1) E) as (tx & lx & -> & Hx).
      eexists _, _. split; [reflexivity|]. change (err (set_off t1 (char_offset t1 + 1))) with (err t1) in Hx.
      rewrite F3 in Hx. exact Hx.
  - exfalso. eapply Hnr. reflexivity.
  - inversion E; subst. eexists _, _. split; [reflexivity|exact F3].
Qed.

(* C03, two calls: if the call on [a] asks for more input then the call on [b] from the state
   it left gives the value, status and error code of the single call on [a ++ b], and the
   end position counted from the start of [a] *)
Theorem chunk_independent t a b ta ra :
  wf_tok t ->
  parse_ex sb t a = PR ta ra -> err ta = TE_continue ->
  ra = None /\ wf_tok ta /\ validate_utf8 ta = validate_utf8 t /\
  exists tw ts r, parse_ex sb t (a ++ b) = PR tw r /\ parse_ex sb ta b = PR ts r /\
                  err tw = err ts /\ char_offset tw = zlen a + char_offset ts.
Proof.
  intros Hwf Ha Hc. unfold parse_ex in Ha.
  set (t0 := set_err (set_off t 0) TE_success) in *. set (l0 := mkloc 1 0 JNull None) in *.
  assert (Hw0 : wfs (stack t0) = true) by exact Hwf.
  assert (Hi0 : linv t0 l0) by exact I.
  rewrite run_of_prefix in Ha.
  destruct (run_prefix sb a t0 l0) as [t1 l1|r] eqn:RP.
  2:{ exfalso. destruct (run_prefix_stop a t0 l0 r Hw0 Hi0 RP) as (tx & lx & -> & Hx).
      pose proof (finish_call_err _ _ _ _ Ha) as He. change (err t0) with TE_success in Hx.
      destruct He as [He|He]; [|apply (hard_not_continue _ He Hc)].
      rewrite He in Hc. destruct Hx as [Hx|Hx]; [congruence|apply (hard_not_continue _ Hx Hc)]. }
  destruct (run_prefix_facts a t0 l0 t1 l1 Hw0 Hi0 RP) as (F1 & F2 & F3 & F4 & F5 & F7 & F6).
  change (err t0) with TE_success in F3. change (char_offset t0) with 0 in F4.
  change (validate_utf8 t0) with (validate_utf8 t) in F5, F7.
  destruct (finish_call_continue _ _ _ _ Ha Hc) as (-> & -> & Hnb).
  assert (Heoi : end_of_input_err t1 = TE_continue) by exact Hc.
  assert (Hn0 : nbytes l1 = 0).
  { cbn [set_err validate_utf8] in Hnb. destruct (validate_utf8 t1) eqn:Ev1; [exact (Hnb eq_refl)|].
    rewrite F5 by congruence. reflexivity. }
  split; [reflexivity|]. split; [exact F1|]. split; [exact F7|].
  (* the second call *)
  unfold parse_ex. rewrite Heoi, (resume_tok t1 F3). set (d := - char_offset t1).
  rewrite run_toff.
  (* the single call *)
  fold t0. fold l0. rewrite run_app, RP.
  (* relate the two runs over b *)
  assert (Hl : lsim0 t1 l1 l0).
  { unfold lsim0. split; [rewrite Hn0; reflexivity|]. split.
    - unfold linv in F2. unfold eff. destruct (tstate_eqb (st t1) S_number) eqn:En.
      + destruct (lnum l1); [exact (proj2 F2)|apply nl_eq_refl].
      + destruct (lnum l1); [|split; reflexivity]. destruct F2 as [F2 _]. rewrite F2 in En. discriminate.
    - intros Hadd. destruct F6 as [(_ & _ & ->)|[F6 _]]; [reflexivity|congruence]. }
  assert (Hz : (lc l1 =? 0) = (lc l0 =? 0)).
  { destruct F6 as [(_ & _ & ->)|[_ F6]]; [reflexivity|]. cbn. lia. }
  pose proof (run_sim sb b t1 l1 l0 F1 Hl Hz) as RS.
  destruct (run sb b t1 l1) as [x1 y1|] eqn:R1, (run sb b t1 l0) as [x0 y0|] eqn:R0; try contradiction.
  2:{ (* fuel exhaustion is impossible from a well-formed state *)
      exfalso. destruct (run_total sb b t1 l1 F1) as (? & ? & Hq & _). congruence. }
  destruct RS as [<- Ho]. cbn [loop_map].
  rewrite (finish_call_oute x1 y1 y0 Ho).
  pose proof (finish_call_view (toff x1 d) x1 y0 eq_refl eq_refl eq_refl eq_refl eq_refl) as V.
  destruct (finish_call_pr x1 y0) as (tw & rw & FW). destruct (finish_call_pr (toff x1 d) y0) as (ts & rs & FS).
  rewrite FW, FS in *.
  cbn [pobs] in V. inversion V; subst.
  exists tw, ts, rw. repeat split; try reflexivity; try congruence.
  apply finish_call_shape in FW. apply finish_call_shape in FS.
  destruct FW as (_ & W & _), FS as (_ & S0 & _). rewrite W, S0. unfold toff, d. rewrite off_set_off. lia.
Qed.
End S.

Section N.
Variable sb : list byte -> Z.

Definition is_continue (e : terr) : bool := match e with TE_continue => true | _ => false end.

(* feed the chunks one call each, as long as every call asks for more input *)
Fixpoint feed (t : tok) (cs : list (list byte)) : option tok :=
  match cs with
  | [] => Some t
  | c :: r => match parse_ex sb t c with
              | PR t' _ => if is_continue (err t') then feed t' r else None
              | PRFuel => None end
  end.

(* C03, any number of calls *)
Theorem chunks_independent pre : forall t tk last,
  wf_tok t -> feed t pre = Some tk ->
  exists tw ts r, parse_ex sb t (concat pre ++ last) = PR tw r /\ parse_ex sb tk last = PR ts r /\
                  err tw = err ts /\ char_offset tw = zlen (concat pre) + char_offset ts.
Proof.
  induction pre as [|c pre IH]; intros t tk last Hwf Hf; cbn [feed concat] in *.
  - inversion Hf; subst. cbn [app zlen]. destruct (parse_total sb tk last Hwf) as (t' & r & E & _).
    exists t', t', r. repeat split; try assumption; lia.
  - destruct (parse_ex sb t c) as [tc rc|] eqn:Ec; [|discriminate].
    destruct (is_continue (err tc)) eqn:Ei; [|discriminate].
    assert (Hc : err tc = TE_continue) by (destruct (err tc); try discriminate; reflexivity).
    destruct (chunk_independent sb t c (concat pre ++ last) tc rc Hwf Ec Hc) as (_ & Hwc & _ & tw & ts & r & A & B & C & D).
    destruct (IH tc tk last Hwc Hf) as (tw2 & ts2 & r2 & A2 & B2 & C2 & D2).
    rewrite B in A2. inversion A2; subst.
    exists tw, ts2, r2. rewrite <- app_assoc. repeat split; try assumption; try congruence.
    rewrite zlen_app. lia.
Qed.
End N.
